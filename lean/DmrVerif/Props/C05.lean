import DmrVerif.Lemmas.CrcPoly
import DmrVerif.Lemmas.CrcFront
import DmrVerif.Lemmas.CrcStream
import DmrVerif.Lemmas.CrcOnto
import DmrVerif.Lemmas.CrcConfigs
import DmrVerif.Props.C05a

/-!
# C05 — each DMR CRC equals the polynomial remainder the standard defines, with its mask

Property theorems only.  The configurations, the configuration / register kind held by each front-end
singleton and the masks are the ones `tools/extract_crc.py` read from `/repo` on this run
(`Gen/Crc.lean`).  "Remainder" is Mathlib's `Polynomial.modByMonic` (`%ₘ`) over `ZMod 2`; a bit string is
the polynomial `toPoly` (first bit = highest power), the generator is `genPoly c = X^w + toPoly (poly bits)`.
The engine theorems are for big-endian containers (`le = false`), which is how the library represents
a bit string; the one little-endian use (CRC-32) is proved through the table register's integer
conversion of whole octets.
-/

namespace Dmr.C05
open Dmr Dmr.Crc Polynomial

/-- the five engine configurations `Crc7/8/9/16/32.ETSI_DMR` -/
def configs : List CrcConfig := [Gen.crc7, Gen.crc8, Gen.crc9, Gen.crc16, Gen.crc32]

/-! ## finite facts about the extracted tables -/

/-- the extracted configurations are the ETSI TS 102 361-1 ones (B.3.7–B.3.10), with the derived feed
widths, zero initial value, zero final xor and no reversal -/
theorem configs_etsi : configs =
    [ { poly := 0x27, w := 7, fw := 7, init := 0, xorout := 0, revIn := false, revOut := false },
      { poly := 0x07, w := 8, fw := 8, init := 0, xorout := 0, revIn := false, revOut := false },
      { poly := 0x59, w := 9, fw := 9, init := 0, xorout := 0, revIn := false, revOut := false },
      { poly := 0x1021, w := 16, fw := 8, init := 0, xorout := 0, revIn := false, revOut := false },
      { poly := 0x04C11DB7, w := 32, fw := 8, init := 0, xorout := 0, revIn := false, revOut := false } ] := by
  decide

/-- feed widths `[7,8,9,16,32] ↦ [7,8,9,8,8]`, and every extracted configuration carries the derived one -/
theorem feed_widths : [7, 8, 9, 16, 32].map calcFeedWidth = [7, 8, 9, 8, 8]
    ∧ ∀ c ∈ configs, c.fw = calcFeedWidth c.w := by decide

/-- every front-end singleton holds its ETSI configuration; CRC-32 holds a table register (its byte
order depends on it) -/
theorem fronts_etsi : Gen.front8.1 = Gen.crc8 ∧ Gen.front9.1 = Gen.crc9 ∧ Gen.front16.1 = Gen.crc16
    ∧ Gen.front32.1 = Gen.crc32 ∧ Gen.front32.2 = true := by decide

/-- the data type CRC masks of ETSI TS 102 361-1 B.3.12 -/
theorem masks_etsi : Gen.crcMasks =
    [("PiHeader", 0x6969), ("VoiceLCHeader", 0x969696), ("TerminatorWithLC", 0x999999), ("CSBK", 0xA5A5),
     ("MBCHeader", 0xAAAA), ("DataHeader", 0xCCCC), ("UnifiedSingleBlockData", 0x3333),
     ("Rate12DataContinuation", 0x0F0), ("Rate34DataContinuation", 0x1FF),
     ("Rate1DataContinuation", 0x10F), ("ReverseChannel", 0x7A)] := by decide

theorem all_ok : configs.all okCfg = true := by decide

theorem ok {c : CrcConfig} (h : c ∈ configs) : OkCfg c :=
  okCfg_spec (List.all_eq_true.mp all_ok c h)

/-- the generator polynomials, written out -/
theorem gen_polys :
    genPoly Gen.crc7 = X ^ 7 + X ^ 5 + X ^ 2 + X + 1
    ∧ genPoly Gen.crc8 = X ^ 8 + X ^ 2 + X + 1
    ∧ genPoly Gen.crc9 = X ^ 9 + X ^ 6 + X ^ 4 + X ^ 3 + 1
    ∧ genPoly Gen.crc16 = X ^ 16 + X ^ 12 + X ^ 5 + 1
    ∧ genPoly Gen.crc32 = X ^ 32 + X ^ 26 + X ^ 23 + X ^ 22 + X ^ 16 + X ^ 12 + X ^ 11 + X ^ 10 + X ^ 8
        + X ^ 7 + X ^ 5 + X ^ 4 + X ^ 2 + X + 1 := by
  have h7 : polyBits Gen.crc7 = [false, true, false, false, true, true, true] := by decide
  have h8 : polyBits Gen.crc8 = [false, false, false, false, false, true, true, true] := by decide
  have h9 : polyBits Gen.crc9 = [false, false, true, false, true, true, false, false, true] := by decide
  have h16 : polyBits Gen.crc16 = [false, false, false, true, false, false, false, false, false, false,
      true, false, false, false, false, true] := by decide
  have h32 : polyBits Gen.crc32 = [false, false, false, false, false, true, false, false, true, true,
      false, false, false, false, false, true, false, false, false, true, true, true, false, true, true,
      false, true, true, false, true, true, true] := by decide
  unfold genPoly
  rw [h7, h8, h9, h16, h32]
  simp only [toPoly, bitC_false, bitC_true, List.length_cons, List.length_nil]
  refine ⟨?_, ?_, ?_, ?_, ?_⟩
  · show (X : F2[X]) ^ 7 + _ = _; ring
  · show (X : F2[X]) ^ 8 + _ = _; ring
  · show (X : F2[X]) ^ 9 + _ = _; ring
  · show (X : F2[X]) ^ 16 + _ = _; ring
  · show (X : F2[X]) ^ 32 + _ = _; ring

/-! ## the engine -/

/-- **Register invariant** (any initial register content `r`): after the message `m` the bit-by-bit
register holds `(r(x)·x^|m| + m(x)·x^w) mod G`. -/
theorem register_invariant (c : CrcConfig) (r m : Bits) (hr : r.length = c.w) :
    toPoly (procBits (polyBits c) r m)
      = (toPoly r * X ^ m.length + toPoly m * X ^ c.w) %ₘ genPoly c :=
  toPoly_procBits c r m hr

/-- **The bit-by-bit CRC is the remainder of `message(x)·x^w` modulo `G`**, for every message of
every length (zero initial value, zero final xor, no output reversal — true of all five
configurations); the result has `w` bits, so it is determined by this polynomial. -/
theorem bitwise_eq_rem (c : CrcConfig) (hfw : 0 < c.fw) (hp : Plain c) (bits : Bits) :
    toPoly (calcBitwise c bits) = (toPoly bits * X ^ c.w) %ₘ genPoly c
      ∧ (calcBitwise c bits).length = c.w := by
  refine ⟨?_, calcBitwise_length c bits⟩
  rw [calcBitwise_plain c hfw hp, toPoly_procBits c _ _ (by simp), toPoly_zeros]
  simp

/-- a `w`-bit string is determined by its polynomial (so `bitwise_eq_rem` pins the check sum down) -/
theorem toPoly_determines (a b : Bits) (hl : a.length = b.length) (h : toPoly a = toPoly b) : a = b :=
  toPoly_injective a b hl h

/-- **Table mode = bit-by-bit mode** for every message length, including lengths that are not a
multiple of the feed width (short last chunk), for any initial value / final xor -/
theorem table_eq_bitwise (c : CrcConfig) (h : TableOk c) (bits : Bits) :
    calcTable c false bits = .ok (calcBitwise c bits) :=
  calcTable_eq_bitwise c h bits

/-- the table-driven CRC is the remainder as well -/
theorem table_eq_rem (c : CrcConfig) (h : c ∈ configs) (bits : Bits) :
    ∃ r, calcTable c false bits = .ok r ∧ r.length = c.w
      ∧ toPoly r = (toPoly bits * X ^ c.w) %ₘ genPoly c := by
  have hok := ok h
  refine ⟨calcBitwise c bits, table_eq_bitwise c hok.table bits, ?_, ?_⟩
  · exact (bitwise_eq_rem c hok.fw_pos hok.plain bits).2
  · exact (bitwise_eq_rem c hok.fw_pos hok.plain bits).1

/-- the CRC is GF(2)-linear in the message -/
theorem linear (c : CrcConfig) (h : c ∈ configs) (a b : Bits) (hl : a.length = b.length) :
    calcBitwise c (xorBits a b) = xorBits (calcBitwise c a) (calcBitwise c b) := by
  have hok := ok h
  rw [calcBitwise_eq_feed c hok, calcBitwise_eq_feed c hok, calcBitwise_eq_feed c hok]
  exact feed_xor _ a b hl

/-- `verify_checksum` accepts exactly the computed value (both register kinds) -/
theorem verify_iff (c : CrcConfig) (h : TableOk c) (bits : Bits) (e : Int) :
    (verifyBitwise c bits e = true ↔ e = (bitsToNat (calcBitwise c bits) : Int))
      ∧ verifyTable c false bits e = .ok (verifyBitwise c bits e) := by
  constructor
  · unfold verifyBitwise
    rw [beq_iff_eq]
    exact eq_comm
  · unfold verifyTable verifyBitwise
    rw [calcTable_eq_bitwise c h bits]
    rfl

/-! ## the register objects fed in pieces (`init(); update(p₁); …; update(pₙ); digest()`) -/

/-- **Feeding a message in any split gives the same register as feeding it at once**: `update(a ++ b)`
leaves what `update(a); update(b)` leaves, for every register content — the bit-by-bit register (any
positive feed width) and the table register (any `w`-bit content; an all-zero or empty `b` included) -/
theorem register_update_append (c : CrcConfig) (r a b : Bits) :
    (0 < c.fw → updateBitwise c r (a ++ b) = updateBitwise c (updateBitwise c r a) b)
    ∧ (TableOk c → r.length = c.w →
        updateTable c (lookupTable c.w c.poly) false r (a ++ b)
          = updateTable c (lookupTable c.w c.poly) false r a
              >>= fun r' => updateTable c (lookupTable c.w c.poly) false r' b) :=
  ⟨fun h => updateBitwise_append c h r a b, fun h hr => updateTable_append c h r a b hr⟩

/-- any number of pieces (empty and all-zero ones included): the workflow returns the one-shot check sum
of the concatenation, on both register kinds -/
theorem stream_eq_oneshot (c : CrcConfig) (h : TableOk c) (pieces : List Bits) :
    streamBitwise c pieces = calcBitwise c pieces.flatten
    ∧ streamTable c false pieces = .ok (calcBitwise c pieces.flatten) :=
  ⟨streamBitwise_eq c h.fw_pos pieces, streamTable_eq c h pieces⟩

/-- … which is the remainder of `(p₁ ‖ … ‖ pₙ)(x)·x^w` modulo `G` for the five configurations -/
theorem stream_eq_rem (c : CrcConfig) (h : c ∈ configs) (pieces : List Bits) :
    toPoly (streamBitwise c pieces) = (toPoly pieces.flatten * X ^ c.w) %ₘ genPoly c
    ∧ streamTable c false pieces = .ok (streamBitwise c pieces) := by
  have hok := ok h
  rw [(stream_eq_oneshot c hok.table pieces).1, (stream_eq_oneshot c hok.table pieces).2]
  exact ⟨(bitwise_eq_rem c hok.fw_pos hok.plain _).1, rfl⟩

/-- **The call sequence on a register object** (either kind, in whatever state earlier use left it):
`init(); update(p₁); …; update(pₙ); digest()` raises nothing, the `i`-th `update` returns the register
of `p₁ ‖ … ‖ pᵢ` fed at once (`prefixRegs_getElem`) and `digest` returns the one-shot check sum of the
whole message -/
theorem register_workflow (c : CrcConfig) (h : c ∈ configs) (table : Bool) (r : Bits) (pieces : List Bits) :
    regRun (regKind c table) r (workflow false pieces)
      = (prefixRegs (polyBits c) (zeros c.w) pieces ++ [calcBitwise c pieces.flatten], none)
    ∧ ∀ i, i < pieces.length →
        (prefixRegs (polyBits c) (zeros c.w) pieces)[i]? = some (calcBitwise c (pieces.take (i + 1)).flatten) := by
  have hok := ok h
  have hinit : initReg c = zeros c.w := by unfold initReg; rw [hok.plain.init0, natToBits_zero]
  refine ⟨?_, ?_⟩
  · have := regRun_workflow (regKind c table) (regKind_ok c table hok.table) r pieces
    simpa [regKind, hinit] using this
  · intro i hi
    rw [prefixRegs_getElem _ _ _ i hi, calcBitwise_plain c hok.fw_pos hok.plain]

/-! ## the front ends -/

/-- the check sum of the message `bits` under configuration `c` as a bit string — the remainder
(`bitwise_eq_rem`) -/
abbrev crcBits (c : CrcConfig) (bits : Bits) : Bits := calcBitwise c bits

theorem calc8_eq (bits : Bits) : calc8 false bits = .ok (crcBits Gen.crc8 bits) := by
  unfold calc8 tbl8
  rw [fronts_etsi.1]
  exact calculator_eq _ (ok (by simp [configs])).table _ _

theorem calc9_eq (bits : Bits) : calc9 false bits = .ok (crcBits Gen.crc9 bits) := by
  unfold calc9 tbl9
  rw [fronts_etsi.2.1]
  exact calculator_eq _ (ok (by simp [configs])).table _ _

theorem calc16_eq (bits : Bits) : calc16 false bits = .ok (crcBits Gen.crc16 bits) := by
  unfold calc16 tbl16
  rw [fronts_etsi.2.2.1]
  exact calculator_eq _ (ok (by simp [configs])).table _ _

theorem calc32_eq (bs : Bytes) :
    calc32 true (bytesToBitsLE bs) = .ok (crcBits Gen.crc32 (bytesToBits bs)) := by
  unfold calc32 tbl32
  rw [fronts_etsi.2.2.2.1, fronts_etsi.2.2.2.2]
  exact calculator_le_bytes _ (ok (by simp [configs])).table rfl bs

/-- **CRC-8** (`CRC8.calculate` on a big-endian bitarray): the plain remainder, as an integer -/
theorem crc8_front (bits : Bits) : Crc.crc8 false bits = .ok (bitsToNat (crcBits Gen.crc8 bits)) := by
  unfold Crc.crc8 crc8With
  rw [calc8_eq]; rfl

/-- **CRC-CCITT** (`CRC16.calculate(data, mask)`): the inverted remainder of the octets, most
significant bit first, xor the mask -/
theorem crc16_front (data : Bytes) (mask : Nat) :
    Crc.crc16 data mask
      = .ok (Nat.xor (bitsToNat (inv (crcBits Gen.crc16 (bytesToBits data)))) mask) := by
  unfold Crc.crc16 crc16With
  rw [calc16_eq]; rfl

/-- **CRC-9** on an assembled bit string (`CRC9.calculate`): inverted remainder xor mask -/
theorem crc9_bits_front (src : Bits) (mask : Nat) :
    crc9Bits false src mask = .ok (Nat.xor (bitsToNat (inv (crcBits Gen.crc9 src))) mask) := by
  unfold crc9Bits crc9BitsWith
  rw [calc9_eq]; rfl

/-- **CRC-9 from parts** (`CRC9.calculate_from_parts`): whenever the parts are assembled without an
exception, the result is the inverted remainder of the assembled string xor the mask … -/
theorem crc9_front (data : Bytes) (serial : Int) (mask : Nat) (c32 : Crc32Arg) (src : Bits)
    (h : crc9Source data serial c32 = .ok src) :
    Crc.crc9 data serial mask c32
      = .ok (Nat.xor (bitsToNat (inv (crcBits Gen.crc9 src))) mask) := by
  unfold Crc.crc9 crc9With
  rw [h]
  exact crc9_bits_front src mask

/-- … and the assembled string is data ‖ [CRC-32, 4 octets, unless absent or the integer 0] ‖ 7-bit
serial number -/
theorem crc9_parts (data : Bytes) (sn : Nat) (hsn : sn < 128) :
    crc9Source data sn .none = .ok (bytesToBits data ++ natToBits 7 sn)
    ∧ crc9Source data sn (.int 0) = .ok (bytesToBits data ++ natToBits 7 sn)
    ∧ (∀ v : Nat, 0 < v → v < 2 ^ 32 →
        crc9Source data sn (.int v) = .ok (bytesToBits data ++ natToBits 32 v ++ natToBits 7 sn))
    ∧ (∀ b : Bytes, b.length = 4 →
        crc9Source data sn (.bytes b) = .ok (bytesToBits data ++ bytesToBits b ++ natToBits 7 sn)) := by
  have hs : ¬ (127 < sn) := by omega
  refine ⟨?_, ?_, ?_, ?_⟩
  · simp [crc9Source, hs, pure, Except.pure, bind, Except.bind]
  · simp [crc9Source, hs, pure, Except.pure, bind, Except.bind]
  · intro v h0 hv
    have h1 : v ≠ 0 := by omega
    have h2 : ¬ (4294967295 < v) := by
      have : v < 4294967296 := by simpa using hv
      omega
    have h3 : ¬ ((v : Int) < 0) := by omega
    have h4 : ¬ ((sn : Int) < 0) := by omega
    simp [crc9Source, hs, h1, h2, h3, h4, pure, Except.pure, bind, Except.bind]
  · intro b hb
    simp [crc9Source, hs, hb, pure, Except.pure, bind, Except.bind]

/-- **CRC-32** (`CRC32.calculate`): the plain remainder over the pairwise swapped octets, each octet
most significant bit first -/
theorem crc32_front (data : Bytes) :
    Crc.crc32 data = .ok (bitsToNat (crcBits Gen.crc32 (bytesToBits (byteswap data)))) := by
  unfold Crc.crc32 crc32With
  rw [calc32_eq]; rfl

/-- `check` accepts exactly the computed value (and asserts the range of its argument) -/
theorem check_iff (data : Bytes) (bits : Bits) (mask : Nat) (v : Nat) :
    (v ≤ 255 → ∃ b, crc8Check false bits v = .ok b ∧ (b = true ↔ Crc.crc8 false bits = .ok v))
    ∧ (v ≤ 65535 → ∃ b, crc16Check data v mask = .ok b ∧ (b = true ↔ Crc.crc16 data mask = .ok v))
    ∧ (v ≤ 4294967295 → ∃ b, crc32Check data v = .ok b ∧ (b = true ↔ Crc.crc32 data = .ok v))
    ∧ (255 < v → crc8Check false bits v = .error .assertionError)
    ∧ (65535 < v → crc16Check data v mask = .error .assertionError)
    ∧ (4294967295 < v → crc32Check data v = .error .assertionError) := by
  refine ⟨?_, ?_, ?_, ?_, ?_, ?_⟩
  · intro hv
    unfold crc8Check crc8CheckWith
    rw [if_neg (by omega)]
    have := crc8_front bits
    unfold Crc.crc8 at this ⊢
    rw [this]
    exact ⟨_, rfl, by simp [Except.ok.injEq]⟩
  · intro hv
    unfold crc16Check crc16CheckWith
    rw [if_neg (by omega)]
    have := crc16_front data mask
    unfold Crc.crc16 at this ⊢
    rw [this]
    exact ⟨_, rfl, by simp [Except.ok.injEq]⟩
  · intro hv
    unfold crc32Check crc32CheckWith
    rw [if_neg (by omega)]
    have := crc32_front data
    unfold Crc.crc32 at this ⊢
    rw [this]
    exact ⟨_, rfl, by simp [Except.ok.injEq]⟩
  · intro hv; unfold crc8Check crc8CheckWith; rw [if_pos (by omega)]
  · intro hv; unfold crc16Check crc16CheckWith; rw [if_pos (by omega)]
  · intro hv; unfold crc32Check crc32CheckWith; rw [if_pos (by omega)]

/-- `CRC9.check` accepts exactly the computed value -/
theorem crc9_check_iff (data : Bytes) (serial : Int) (mask : Nat) (c32 : Crc32Arg) (v : Nat) (x : Nat)
    (h : Crc.crc9 data serial mask c32 = .ok x) :
    (v ≤ 511 → crc9Check data serial v mask c32 = .ok (decide (x = v)))
    ∧ (511 < v → crc9Check data serial v mask c32 = .error .assertionError) := by
  constructor
  · intro hv
    unfold crc9Check crc9CheckWith
    rw [if_neg (by omega)]
    unfold Crc.crc9 at h
    rw [h]
    simp only [Except.map]
    congr 1
    rw [Bool.eq_iff_iff, beq_iff_eq, decide_eq_true_iff]
    exact Int.ofNat_inj
  · intro hv; unfold crc9Check crc9CheckWith; rw [if_pos (by omega)]

/-! ## every check-sum value occurs (the structured inputs: a chosen remainder / a chosen result) -/

/-- for every prefix and every `w`-bit value `t` — all-zero, all-ones, a single bit … — exactly one
`w`-bit tail makes the check sum of prefix ‖ tail equal to `t`: one message in `2^w`, which a random
search does not find but which exists for every prefix -/
theorem every_value_occurs (c : CrcConfig) (h : c ∈ configs) (pre t : Bits) (ht : t.length = c.w) :
    ∃ tail : Bits, (tail.length = c.w ∧ calcBitwise c (pre ++ tail) = t)
      ∧ ∀ tail' : Bits, tail'.length = c.w → calcBitwise c (pre ++ tail') = t → tail' = tail :=
  calcBitwise_tail_exists_unique c (ok h) pre t ht

/-- **CRC-CCITT front end**: for every data prefix, every 16-bit mask and every 16-bit value `v` (`0`,
`0xFFFF`, the mask itself … included) two more octets make `CRC16.calculate` return `v` — and
`CRC16.check` accepts `v` for them, also when `v = 0` -/
theorem crc16_every_value (data : Bytes) (mask v : Nat) (hm : mask < 65536) (hv : v < 65536) :
    ∃ x y : Nat, x < 256 ∧ y < 256 ∧ Crc.crc16 (data ++ [x, y]) mask = .ok v
      ∧ crc16Check (data ++ [x, y]) v mask = .ok true := by
  have hw : Gen.crc16.w = 16 := by decide
  have hlt : v ^^^ mask < 2 ^ 16 := Nat.xor_lt_two_pow (by omega) (by omega)
  obtain ⟨tail, ⟨hl, ht⟩, _⟩ := every_value_occurs Gen.crc16 (by simp [configs]) (bytesToBits data)
    (inv (natToBits 16 (v ^^^ mask))) (by rw [inv_length, natToBits_length, hw])
  obtain ⟨x, y, hx, hy, hxy⟩ := bits16_as_bytes tail (by rw [hl, hw])
  have hcalc : Crc.crc16 (data ++ [x, y]) mask = .ok v := by
    rw [crc16_front, bytesToBits_append, hxy]
    show Except.ok (Nat.xor (bitsToNat (inv (calcBitwise Gen.crc16 (bytesToBits data ++ tail)))) mask) = _
    rw [ht, inv_inv, bitsToNat_natToBits _ _ hlt]
    show Except.ok ((v ^^^ mask) ^^^ mask) = _
    rw [Nat.xor_assoc, Nat.xor_self, Nat.xor_zero]
  refine ⟨x, y, hx, hy, hcalc, ?_⟩
  obtain ⟨b, hb, hiff⟩ := (check_iff (data ++ [x, y]) [] mask v).2.1 (by omega)
  rw [hb, hiff.2 hcalc]

/-! ## detection -/

/-- the generators have constant term 1 -/
theorem const_term (c : CrcConfig) (h : c ∈ configs) : (polyBits c).getLast? = some true := (ok h).const1

/-- **Bursts.**  Two equally long messages whose difference is non-zero and confined to a window of at
most `w` bits (a burst of length ≤ w) get different CRCs — all five configurations, both register
kinds (`table_eq_bitwise`). -/
theorem burst_detect (c : CrcConfig) (h : c ∈ configs) (a b : Bits) (hl : a.length = b.length)
    (i j : Nat) (burst : Bits) (hx : xorBits a b = zeros i ++ burst ++ zeros j)
    (hb : burst.length ≤ c.w) (hne : burst ≠ zeros burst.length) :
    calcBitwise c a ≠ calcBitwise c b := by
  have hok := ok h
  intro heq
  have hlin := linear c h a b hl
  rw [heq, xorBits_self, calcBitwise_length, hx, calcBitwise_eq_feed c hok] at hlin
  exact burst_feed (polyBits c) hok.const1 i j burst (by rw [polyBits_length]; exact hb) hne
    (by rw [polyBits_length]; exact hlin)

/-- **Bursts, code-word level** (what a receiver sees): a valid word `d ++ crc d` hit by a burst of
length ≤ w anywhere — data part, check part or across — is not a valid word. -/
theorem burst_codeword (c : CrcConfig) (h : c ∈ configs) (d d' c' : Bits) (hd : d.length = d'.length)
    (i j : Nat) (burst : Bits)
    (hx : xorBits (d ++ calcBitwise c d) (d' ++ c') = zeros i ++ burst ++ zeros j)
    (hb : burst.length ≤ c.w) (hne : burst ≠ zeros burst.length) :
    calcBitwise c d' ≠ c' := by
  have hok := ok h
  rw [calcBitwise_eq_feed c hok] at hx ⊢
  apply codeword_detect (polyBits c) d d' c' hd
  rw [hx]
  exact burst_feed (polyBits c) hok.const1 i j burst (by rw [polyBits_length]; exact hb) hne

/-- **CRC-CCITT, 96-bit PDUs, code-word level**: a valid word (80 data bits ++ their CRC) with one,
two or three inverted bits anywhere in the 96 is not a valid word.  (Kernel enumeration `ccitt96_enum`
of all 147 536 patterns over the unit-vector syndromes.) -/
theorem ccitt_codeword_le3 (d d' c' : Bits) (hd : d.length = 80) (hd' : d'.length = 80)
    (hc' : c'.length = 16)
    (hw1 : 1 ≤ weight (xorBits (d ++ calcBitwise Gen.crc16 d) (d' ++ c')))
    (hw3 : weight (xorBits (d ++ calcBitwise Gen.crc16 d) (d' ++ c')) ≤ 3) :
    calcBitwise Gen.crc16 d' ≠ c' := by
  have hok : OkCfg Gen.crc16 := ok (by simp [configs])
  rw [calcBitwise_eq_feed _ hok] at hw1 hw3 ⊢
  apply codeword_detect (polyBits Gen.crc16) d d' c' (by rw [hd, hd'])
  have := weight_detect (polyBits Gen.crc16) 96 3 ccitt96_enum _
    (by simp [hd, hd', hc', feed_length, polyBits_length]; rfl) hw1 hw3
  rwa [polyBits_length] at this ⊢

/-- **CRC-CCITT, message level**: two 80-bit messages (the data part of a 96-bit PDU) differing in
one, two or three bits get different CRCs. -/
theorem ccitt_le3 (a b : Bits) (ha : a.length = 80) (hb : b.length = 80)
    (hw1 : 1 ≤ weight (xorBits a b)) (hw3 : weight (xorBits a b) ≤ 3) :
    calcBitwise Gen.crc16 a ≠ calcBitwise Gen.crc16 b := by
  have hok : OkCfg Gen.crc16 := ok (by simp [configs])
  intro heq
  have hcl : (calcBitwise Gen.crc16 a).length = 16 := calcBitwise_length _ _
  refine ccitt_codeword_le3 a b (calcBitwise Gen.crc16 a) ha hb hcl ?_ ?_ heq.symm
  all_goals
    rw [xorBits_append _ _ _ _ (by rw [ha, hb]), xorBits_self, hcl]
    simp only [weight, List.filter_append] at hw1 hw3 ⊢
    simpa [zeros] using (by assumption)

/-- the same through the front end: `CRC16.calculate` of two 10-octet payloads differing in 1..3 bits
differs (any mask) -/
theorem ccitt_le3_front (d1 d2 : Bytes) (mask : Nat) (h1 : d1.length = 10) (h2 : d2.length = 10)
    (hw1 : 1 ≤ weight (xorBits (bytesToBits d1) (bytesToBits d2)))
    (hw3 : weight (xorBits (bytesToBits d1) (bytesToBits d2)) ≤ 3) :
    Crc.crc16 d1 mask ≠ Crc.crc16 d2 mask := by
  have hlen : ∀ d : Bytes, (bytesToBits d).length = 8 * d.length := by
    intro d
    induction d with
    | nil => rfl
    | cons x xs ih => rw [bytesToBits_cons, List.length_append, natToBits_length, ih, List.length_cons]; omega
  rw [crc16_front, crc16_front]
  intro heq
  have := masked_injective _ _ mask (by rw [calcBitwise_length, calcBitwise_length])
    (Except.ok.inj heq)
  exact ccitt_le3 _ _ (by rw [hlen, h1]) (by rw [hlen, h2]) hw1 hw3 this

/-- the front ends only apply injective maps (inversion, mask, `ba2int`) to the remainder: equal
results mean equal remainders, so every detection theorem above carries over to
`CRC8/CRC9/CRC16/CRC32.calculate` -/
theorem fronts_injective :
    (∀ a b : Bits, Crc.crc8 false a = Crc.crc8 false b → crcBits Gen.crc8 a = crcBits Gen.crc8 b)
    ∧ (∀ (a b : Bytes) (m : Nat), Crc.crc16 a m = Crc.crc16 b m →
        crcBits Gen.crc16 (bytesToBits a) = crcBits Gen.crc16 (bytesToBits b))
    ∧ (∀ (a b : Bits) (m : Nat), crc9Bits false a m = crc9Bits false b m →
        crcBits Gen.crc9 a = crcBits Gen.crc9 b)
    ∧ (∀ a b : Bytes, Crc.crc32 a = Crc.crc32 b →
        crcBits Gen.crc32 (bytesToBits (byteswap a)) = crcBits Gen.crc32 (bytesToBits (byteswap b))) := by
  refine ⟨?_, ?_, ?_, ?_⟩
  · intro a b h
    rw [crc8_front, crc8_front] at h
    exact bitsToNat_injective _ _ (by rw [calcBitwise_length, calcBitwise_length]) (Except.ok.inj h)
  · intro a b m h
    rw [crc16_front, crc16_front] at h
    exact masked_injective _ _ m (by rw [calcBitwise_length, calcBitwise_length]) (Except.ok.inj h)
  · intro a b m h
    rw [crc9_bits_front, crc9_bits_front] at h
    exact masked_injective _ _ m (by rw [calcBitwise_length, calcBitwise_length]) (Except.ok.inj h)
  · intro a b h
    rw [crc32_front, crc32_front] at h
    exact bitsToNat_injective _ _ (by rw [calcBitwise_length, calcBitwise_length]) (Except.ok.inj h)

/-! ## non-vacuity -/

example : Gen.crc9 ∈ configs := by simp [configs]
example : TableOk Gen.crc9 ∧ Plain Gen.crc9 := ⟨(ok (by simp [configs])).table, (ok (by simp [configs])).plain⟩
/-- 11 bits through the 9-bit feed: one full chunk through the table, two bits through the fall-back -/
example : calcTable Gen.crc9 false [true, false, true, true, false, false, true, false, true, true, true]
    = .ok [true, true, true, false, false, true, false, false, false] := by decide +kernel
example : calcBitwise Gen.crc9 [true, false, true, true, false, false, true, false, true, true, true]
    = [true, true, true, false, false, true, false, false, false] := by decide +kernel
/-- a burst of length 16 in a 24-bit message -/
example : xorBits (bytesToBits [0x12, 0x34, 0x56]) (bytesToBits [0x12 ^^^ 0x01, 0x34 ^^^ 0xFF, 0x56 ^^^ 0x80])
    = zeros 7 ++ [true, true, true, true, true, true, true, true, true, true] ++ zeros 7 := by decide +kernel

/-- the register fed in pieces, a later piece all-zero / a lone trailing 0 bit (9-bit feed) -/
example : regRun (regKind Gen.crc9 true) (regNew (regKind Gen.crc9 true))
      (workflow false [[true, false, true, true, true, false, false, false, true], [], [false]])
    = ([[true, true, false, true, true, false, true, false, false],
        [true, true, false, true, true, false, true, false, false],
        [true, false, false, true, true, false, false, false, true],
        [true, false, false, true, true, false, false, false, true]], none) := by decide +kernel
example : streamBitwise Gen.crc16 [bytesToBits [0x12, 0x34], zeros 16, [false]]
    = calcBitwise Gen.crc16 (bytesToBits [0x12, 0x34, 0, 0] ++ [false]) := by decide +kernel

/-- a (data, mask) pair whose CRC-CCITT result is exactly 0: `check` accepts 0 for it and nothing else -/
example : Crc.crc16 [0x7c, 0x45] 0xAAAA = .ok 0 ∧ crc16Check [0x7c, 0x45] 0 0xAAAA = .ok true
    ∧ crc16Check [0x7c, 0x45] 1 0xAAAA = .ok false ∧ crc16Check [0x7c, 0x46] 0 0xAAAA = .ok false := by
  decide +kernel

/-! ## round 3: any configuration, any history of public calls, and every wrong value

The non-default configurations and the calls outside the documented workflow (`reverse()`, assignments
to `.register`) matter to the property only as *history*: whatever happened before — on the same
object (`standard_after_history`) or on other objects (the model is a pure function of the object's
own configuration and calls; the process-wide lookup table is `lookupTable width polynomial`,
`lookup_table_key`, whose entries are the remainders of their indices, `lookup_table_entry` — that the
running code never writes to a cached table is re-checked entry by entry after every history by
`harness/props/c05.py`) — the standard engines return the remainder.  `Model/CrcConfigs.lean`,
driver op `crc.cfg`. -/

/-- the lookup table a table register holds depends on width and polynomial only (the key of the
process-wide cache), not on feed width, initial value, final xor or the reversal flags -/
theorem lookup_table_key (c c' : CrcConfig) (hw : c.w = c'.w) (hp : c.poly = c'.poly) :
    (regKind c true).tbl = (regKind c' true).tbl := by
  simp [regKind, hw, hp]

/-- every entry of that table is the remainder of its index, `idx(x)·x^w mod G`, for every width and
polynomial -/
theorem lookup_table_entry (w poly idx : Nat) (h : idx < 2 ^ calcFeedWidth w) :
    ∃ e, (lookupTable w poly)[idx]? = some e ∧ e.length = w
      ∧ toPoly e = (toPoly (natToBits (calcFeedWidth w) idx) * X ^ w) %ₘ genPoly (defaultConfig w poly) := by
  refine ⟨tableEntry w poly idx, lookupTable_get w poly idx h, ?_, ?_⟩
  · exact calcBitwise_length (defaultConfig w poly) _
  · exact (bitwise_eq_rem (defaultConfig w poly) (calcFeedWidth_pos w) ⟨rfl, rfl, rfl⟩ _).1

/-- **Any configuration** (every field of `BitCrcConfiguration` but `reverse_input_bytes`, any positive
feed width): the check sum is `R` or — with `reverse_output_bytes` — its reversal, xor the final value,
where `R(x) = (init(x)·x^|m| + m(x)·x^w) mod G`; the table register returns the same whenever the feed
width is the derived one -/
theorem any_config (c : CrcConfig) (hfw : 0 < c.fw) (bits : Bits) :
    ∃ R : Bits, R.length = c.w
      ∧ toPoly R = (toPoly (initReg c) * X ^ bits.length + toPoly bits * X ^ c.w) %ₘ genPoly c
      ∧ calcBitwise c bits = xorBits (if c.revOut then R.reverse else R) (natToBits c.w c.xorout)
      ∧ (TableOk c → calcTable c false bits = .ok (calcBitwise c bits)) := by
  refine ⟨procBits (polyBits c) (initReg c) bits, ?_, ?_, ?_, fun h => calcTable_eq_bitwise c h bits⟩
  · rw [procBits_length _ _ _ (by rw [polyBits_length, initReg_length]), initReg_length]
  · exact toPoly_procBits c _ _ (initReg_length c)
  · rw [calcBitwise_eq c hfw]; rfl

/-- **History independence on one object.**  Whatever public calls were made before on a register
object or calculator of an ETSI configuration — `reverse()`, assignments to `.register`, digests,
updates, check sums, in any number and order, from any register content `r`, as long as none raised —
afterwards the documented workflow returns at every `update` the register of the pieces fed so far and at
`digest` the one-shot check sum (the remainder: `bitwise_eq_rem`), `calculate_checksum` returns the
check sum and `verify_checksum` accepts exactly it -/
theorem standard_after_history (c : CrcConfig) (h : c ∈ configs) (table : Bool) (r r' : Bits)
    (hist : List CfgAct) (outs : List Bits)
    (hh : cfgRun (regKind c table) r hist = (outs, .ok r')) (pieces : List Bits) (bits : Bits) (e : Int) :
    (cfgRun (regKind c table) r (hist ++ (workflow false pieces).map RegAct.toCfg)).1
        = outs ++ (prefixRegs (polyBits c) (zeros c.w) pieces ++ [calcBitwise c pieces.flatten])
    ∧ (cfgRun (regKind c table) r (hist ++ [.sum false bits])).1 = outs ++ [calcBitwise c bits]
    ∧ (cfgRun (regKind c table) r (hist ++ [.verify false bits e])).1
        = outs ++ [[decide ((bitsToNat (calcBitwise c bits) : Int) = e)]] := by
  have hok := ok h
  have hri : (regKind c table).c.revIn = false := hok.revIn
  have hk := regKind_ok c table hok.table
  refine ⟨?_, ?_, ?_⟩
  · rw [cfgRun_append, hh]
    simp only
    rw [(cfgRun_toCfg _ hri r' _).1, (register_workflow c h table r' pieces).1]
  · rw [cfgRun_append, hh]
    obtain ⟨r'', hs⟩ := cfgStep_sum _ hk hri r' bits
    simp only [cfgRun, hs, Option.toList, List.append_nil]
    rfl
  · rw [cfgRun_append, hh]
    obtain ⟨r'', hs⟩ := cfgStep_verify _ hk hri r' bits e
    simp only [cfgRun, hs, Option.toList, List.append_nil]
    rfl

/-- **No other value is accepted** by any `check` / `verify_checksum`: in particular no systematic
transform `f` of the computed value — its octets or bits in reverse order, halves or octet pairs swapped,
complemented, rotated, shifted, xor another data type's mask, the value of another CRC flavour … — unless
`f` happens to leave that value unchanged (an out-of-range `f x` is refused by the range assert,
`check_iff`) -/
theorem wrong_value_rejected (f : Nat → Nat) (data : Bytes) (bits : Bits) (mask x : Nat) (hne : f x ≠ x) :
    (Crc.crc8 false bits = .ok x → f x ≤ 255 → crc8Check false bits (f x) = .ok false)
    ∧ (Crc.crc16 data mask = .ok x → f x ≤ 65535 → crc16Check data (f x) mask = .ok false)
    ∧ (Crc.crc32 data = .ok x → f x ≤ 4294967295 → crc32Check data (f x) = .ok false)
    ∧ (∀ (serial : Int) (c32 : Crc32Arg), Crc.crc9 data serial mask c32 = .ok x → f x ≤ 511 →
        crc9Check data serial (f x) mask c32 = .ok false)
    ∧ (∀ c : CrcConfig, x = bitsToNat (calcBitwise c bits) → verifyBitwise c bits (f x) = false) := by
  have key : ∀ {chk : Except CrcErr Bool} {cal : Except CrcErr Nat},
      (∃ b, chk = .ok b ∧ (b = true ↔ cal = .ok (f x))) → cal = .ok x → chk = .ok false := by
    intro chk cal ⟨b, hb, hiff⟩ hc
    cases b with
    | false => exact hb
    | true =>
      have := hiff.mp rfl
      rw [hc] at this
      exact absurd (Except.ok.inj this).symm hne
  refine ⟨?_, ?_, ?_, ?_, ?_⟩
  · intro hc hr; exact key ((check_iff data bits mask (f x)).1 hr) hc
  · intro hc hr; exact key ((check_iff data bits mask (f x)).2.1 hr) hc
  · intro hc hr; exact key ((check_iff data bits mask (f x)).2.2.1 hr) hc
  · intro serial c32 hc hr
    rw [(crc9_check_iff data serial mask c32 (f x) x hc).1 hr]
    congr 1
    exact decide_eq_false (fun h => hne h.symm)
  · intro c hx
    unfold verifyBitwise
    rw [← hx]
    exact beq_false_of_ne (fun h => hne (Int.ofNat_inj.mp h).symm)

/-- the four octets of a 32-bit value in reverse order (the CRC-32 as the last data block carries it) -/
def octetsReversed32 (x : Nat) : Nat :=
  x % 256 * 16777216 + x / 256 % 256 * 65536 + x / 65536 % 256 * 256 + x / 16777216 % 256

/-- … so `CRC32.check` rejects the octet-reversed CRC-32 unless the value is an octet palindrome -/
theorem crc32_octets_reversed_rejected (data : Bytes) (x : Nat) (h : Crc.crc32 data = .ok x)
    (hne : octetsReversed32 x ≠ x) : crc32Check data (octetsReversed32 x) = .ok false :=
  (wrong_value_rejected octetsReversed32 data [] 0 x hne).2.2.1 h (by unfold octetsReversed32; omega)

/-- non-vacuity: `0xF5A5832E` is the CRC-32 of 01 02 03 04, its octet reversal `0x2E83A5F5` is rejected -/
example : Crc.crc32 [1, 2, 3, 4] = .ok 0xF5A5832E ∧ octetsReversed32 0xF5A5832E = 0x2E83A5F5
    ∧ crc32Check [1, 2, 3, 4] 0x2E83A5F5 = .ok false ∧ crc32Check [1, 2, 3, 4] 0xF5A5832E = .ok true := by
  decide +kernel

/-- non-vacuity: a CRC-8 table register with `reverse_output_bytes` (same width and polynomial as
`Crc8.ETSI_DMR`: the same lookup table) through `init, update(one chunk), digest, reverse, .register,
calculate_checksum`, and a standard one through `update, reverse, .register = …, .register, digest`
followed by `calculate_checksum` / `verify_checksum`, which return the standard check sum `11010100` -/
example :
    let c : CrcConfig := { Gen.crc8 with revOut := true }
    (cfgRun (regKind c true) (regNew (regKind c true))
      [.init, .update false [true, false, true, true, false, false, true, true], .digest, .reverse, .get,
       .sum false [true, false, true, true, false, false, true, true, true, false, false, false, true, true, true, true]]).1
      = [[false, false, false, true, false, false, false, false], [false, false, false, false, true, false, false, false],
         [false, false, false, true, false, false, false, false], [false, false, false, true, false, false, false, false],
         [false, false, true, false, true, false, true, true]]
    ∧ (regKind c true).tbl = (regKind Gen.crc8 true).tbl
    ∧ (cfgRun (regKind Gen.crc8 true) (regNew (regKind Gen.crc8 true))
      [.update false [true, false, true, true, false, false, true, true], .reverse,
       .set [true, false, true, false, false, false, false, false], .get, .digest,
       .sum false [true, false, true, true, false, false, true, true, true, false, false, false, true, true, true, true],
       .verify false [true, false, true, true, false, false, true, true, true, false, false, false, true, true, true, true] 212]).1
      = [[false, false, false, true, false, false, false, false], [false, false, false, false, true, false, false, false],
         [true, false, true, false, false, false, false, false], [true, false, true, false, false, false, false, false],
         [true, true, false, true, false, true, false, false], [true]] := by
  decide +kernel

end Dmr.C05
