import DmrVerif.Lemmas.VbptcPacked

/-!
# C09 (part b) — kernel evaluation of the (128,72) encoder core on the unit words 20 … 39

One of four slices of the 78-word basis (72 message bits, 5 checksum bits, the parity flag) of
`v128.F`; see `Props/C09.lean` for the property theorems that use it.  The packed mirror that is
evaluated here is proved equal to the list model in `Lemmas/VbptcPacked.lean`.
-/

namespace Dmr.C09
open Dmr Dmr.Vbptc

theorem basis128_b : v128.basisRange (genC v128.H) 20 20 = true := by decide +kernel

end Dmr.C09
