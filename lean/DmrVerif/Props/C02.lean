import DmrVerif.Props.C02a
import DmrVerif.Props.C02b
import DmrVerif.Props.C02c
import DmrVerif.Props.C06

/-!
# C02 — BPTC(196,96) returns the sent 96 bits for every code word and every correctable error

Property theorems only, for **all** 96-bit messages and **all** error patterns of weight ≤ 2 (no
bound, no sampling).  The model (`Model/Bptc.lean`) mirrors `bptc_196_96.py` as it is now (rows, then
columns; the write-back skips key 0); its rows/columns are corrected by `Code.correct` of the extracted
Hamming(15,11,3) / Hamming(13,9,3) codes, whose facts come from `Props/C06.lean`.

Proof (lemmas in `Lemmas/Bptc*.lean`): the encoder's table is a product code word (structural, for any
message); the table rebuilt by `repair_if_necessary` from `c ⊕ e` is `T ⊕ E` with `weight E ≤ weight e`;
both passes commute with adding a product code word (syndrome linearity); an error table of weight ≤ 2
is removed (every row holds ≤ 1 error, or all errors sit in one row and then every column holds ≤ 1
error after the row pass); the info bits are read from the data block of the table.  The finite facts
about the interleaving tables are decided by the kernel in `C02a`–`C02c`.
-/

namespace Dmr.C02
open Dmr Dmr.Bptc Dmr.Gen Dmr.Gen.Bptc19696

set_option maxRecDepth 100000

/-! ## finite facts about the extracted tables -/

/-- the four derived maps are what the dict comprehensions of the class body yield from
`INTERLEAVING_INDICES` (196 entries; info bits = neither reserved nor Hamming) -/
theorem maps_derived :
    interleavingIndices.length = 196
    ∧ fullInterleavingMap = interleavingIndices.map (fun e => (e.1, e.2.1))
    ∧ fullDeinterleavingMap = interleavingIndices.map (fun e => (e.2.1, e.1))
    ∧ deinterleaveInfoBitsOnlyMap
        = (List.range 96).zip ((interleavingIndices.filter (fun e => !e.2.2.2.2.1 && !e.2.2.2.2.2)).map (fun e => e.2.1))
    ∧ interleaveInfoBitsOnlyMap
        = (List.range 96).zip ((interleavingIndices.filter (fun e => !e.2.2.2.2.1 && !e.2.2.2.2.2)).map (fun e => e.1)) := by
  decide +kernel

/-- all positions are inside the 196-bit buffers and the 13×15 table (no Python `IndexError`) -/
theorem tables_in_range :
    interleavingIndices.all (fun e => decide (e.1 < 196) && decide (e.2.1 < 196)
      && decide (e.2.2.1 ≤ 13) && decide (e.2.2.2.1 < 15)) = true := by
  decide +kernel

theorem tables_ok : TablesOk where
  h15 := C06.wf (by simp [C06.codes])
  h13 := C06.wf (by simp [C06.codes])
  c15 := List.all_eq_true.mp C06.hamming_cols _ (by simp [C06.hammingCodes])
  c13 := List.all_eq_true.mp C06.hamming_cols _ (by simp [C06.hammingCodes])
  idx := idx_ok
  deintBelow := deint_below
  cellSome := cell_some
  cellLen := cell_len
  cellNodup := cell_nodup
  roundTrip := round_trip
  fillHead := fill_head
  dataCells := data_cells
  dataFill := data_fill
  repData := rep_data
  repClean := rep_clean

/-! ## the property -/

/-- a 96-bit message is accepted by `encode` -/
theorem encode_ok (m : Bits) (h : m.length = 96) : encode m = .ok (encodeCore infoMap m) := by
  simp [encode, fillMapping, h]

/-- `encode` and the decoder reject what the Python asserts reject -/
theorem length_guards (x : Bits) :
    (x.length ≠ 96 → x.length ≠ 196 → encode x = .error .assertion)
    ∧ (x.length ≠ 196 → ∀ r, deinterleaveDataBits x r = .error .assertion)
    ∧ (x.length ≠ 196 → repairIfNecessary x = .error .assertion) := by
  refine ⟨fun h1 h2 => by simp [encode, h1, h2], fun h r => by simp [deinterleaveDataBits, h],
    fun h => by simp [repairIfNecessary, h]⟩

/-- encoding a 96-bit message yields 196 bits -/
theorem encode_length (m : Bits) (h : m.length = 96) : ∃ c, encode m = .ok c ∧ c.length = 196 :=
  ⟨_, encode_ok m h, encodeCore_length _ _⟩

/-- the decoder returns exactly the message from an error-free code word, with and without repair -/
theorem decode_encode (m : Bits) (h : m.length = 96) (r : Bool) :
    ∃ c, encode m = .ok c ∧ deinterleaveDataBits c r = .ok m := by
  refine ⟨_, encode_ok m h, ?_⟩
  simp only [deinterleaveDataBits, encodeCore_length, if_true]
  cases r
  · simp [data_encode tables_ok m h]
  · simp [repair_encode tables_ok m, data_encode tables_ok m h]

/-- repair never alters an error-free code word (all 196 returned bits are the code word) -/
theorem repair_clean (m : Bits) (h : m.length = 96) :
    ∃ c, encode m = .ok c ∧ repairIfNecessary c = .ok c := by
  refine ⟨_, encode_ok m h, ?_⟩
  simp [repairIfNecessary, encodeCore_length, repair_encode tables_ok m]

/-- with up to two of the 196 transmitted bits inverted (any positions) the decoder with repair
still returns exactly the message -/
theorem correct_le2 (m : Bits) (h : m.length = 96) (e : Bits) (he : e.length = 196)
    (hw : weight e ≤ 2) :
    ∃ c, encode m = .ok c ∧ deinterleaveDataBits (xorBits c e) true = .ok m := by
  refine ⟨_, encode_ok m h, ?_⟩
  have hl : (xorBits (encodeCore infoMap m) e).length = 196 := by
    rw [xorBits_length, encodeCore_length, he]; exact Nat.min_self 196
  simp [deinterleaveDataBits, hl, data_repair_le2 tables_ok m e h he hw]

/-! ## non-vacuity: the hypotheses are satisfiable by non-trivial values -/

/-- a message and the historically failing double error (on-air positions 2 and 24) -/
def exampleMessage : Bits := (List.range 96).map (fun i => i % 3 == 0 || i % 7 == 2)
def exampleError : Bits := xorBits (unit 196 2) (unit 196 24)

example : exampleMessage.length = 96 ∧ exampleError.length = 196 ∧ weight exampleError = 2
    ∧ weight exampleMessage = 41 := by decide +kernel

example : ∃ c, encode exampleMessage = .ok c
    ∧ deinterleaveDataBits (xorBits c exampleError) true = .ok exampleMessage :=
  correct_le2 exampleMessage (by decide +kernel) exampleError (by decide +kernel) (by decide +kernel)

end Dmr.C02
