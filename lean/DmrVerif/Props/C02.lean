import DmrVerif.Props.C02a
import DmrVerif.Props.C02b
import DmrVerif.Props.C02c
import DmrVerif.Props.C06
import DmrVerif.Lemmas.BptcHist
import DmrVerif.Lemmas.BptcContent

/-!
# C02 — BPTC(196,96) returns the sent 96 bits for every code word and every correctable error

Property theorems only, for **all** 96-bit messages and **all** error patterns of weight ≤ 2 (no
bound, no sampling).  The model (`Model/Bptc.lean`) mirrors `bptc_196_96.py` as it is now (rows, then
columns; the write-back skips key 0); its rows/columns are corrected by `Code.correct` of the extracted
Hamming(15,11,3) / Hamming(13,9,3) codes, whose facts come from `Props/C06.lean`.

Proof (lemmas in `Lemmas/Bptc*.lean`): the encoder's table is a product code word (structural, for any
message); the table rebuilt by `repair_if_necessary` from `c ⊕ e` is `T ⊕ E` with `weight E ≤ weight e`;
both passes commute with adding a product code word (syndrome linearity); an error table of weight ≤ 2
is removed (every row holds ≤ 1 error, or all errors sit in one row and then every column holds ≤ 1
error after the row pass); the info bits are read from the data block of the table.  The finite facts
about the interleaving tables are decided by the kernel in `C02a`–`C02c`.

The last section states the same property over **histories of calls** (`Model/BptcHist.lean`): the class is
used as a function, so whatever was encoded, decoded, repaired, filled or overwritten before, and whatever
happens between `encode` and the decoder, the kept code word decodes to the message.  In the model that
follows from the definitions plus one fact about the code (`fill_forgets_table`: the fill loop rewrites
every cell of the table it is given); the correspondence run checks that the Python class behaves like
this model on interleaved histories of every entry point.  `reused_buffer_le2` / `reused_buffer_clean`
state it for a frame buffer the caller overwrites in place and hands in again (nothing of the previous
content — and no relation between the two contents — matters), `after_any_streak` for a correctable
frame that follows any streak of other calls (unrepairable frames, calls that raise).

Round 4 (`repair_content_independent`, `decode_content_independent`, `payload_rows_of_codeword`): the repair and
the decoder treat the message and the errors separately — for EVERY received word, not only the correctable
ones — so no row / column structure of the message in the payload table can interact with the positions of the
errors; the correspondence run checks exactly that on messages built by line structure with the errors aimed at it.
-/

namespace Dmr.C02
open Dmr Dmr.Bptc Dmr.Gen Dmr.Gen.Bptc19696

set_option maxRecDepth 100000

/-! ## finite facts about the extracted tables -/

/-- the four derived maps are what the dict comprehensions of the class body yield from
`INTERLEAVING_INDICES` (196 entries; info bits = neither reserved nor Hamming) -/
theorem maps_derived :
    interleavingIndices.length = 196
    ∧ fullInterleavingMap = interleavingIndices.map (fun e => (e.1, e.2.1))
    ∧ fullDeinterleavingMap = interleavingIndices.map (fun e => (e.2.1, e.1))
    ∧ deinterleaveInfoBitsOnlyMap
        = (List.range 96).zip ((interleavingIndices.filter (fun e => !e.2.2.2.2.1 && !e.2.2.2.2.2)).map (fun e => e.2.1))
    ∧ interleaveInfoBitsOnlyMap
        = (List.range 96).zip ((interleavingIndices.filter (fun e => !e.2.2.2.2.1 && !e.2.2.2.2.2)).map (fun e => e.1)) := by
  decide +kernel

/-- the placement is that of ETSI TS 102 361-1 B.1.1 (written out here, independently of `/repo`): bit `k` of the
13 × 15 arrangement — `R(3)` first, then rows 1..13 of 15 cells — is transmitted at position `k · 181 mod 196`;
`R(3)` and the first three cells of row 1 are reserved, columns 11..14 hold the row Hamming(15,11,3) bits and rows
10..13 the column Hamming(13,9,3) bits.  Every round trip of the library with itself holds for any consistent
placement; that the placement is the standard's is this fact. -/
theorem tables_etsi :
    interleavingIndices = (List.range 196).map (fun k =>
      if k = 0 then (0, 0, 0, 0, true, false)
      else (k, k * 181 % 196, (k - 1) / 15 + 1, (k - 1) % 15, decide (k < 4),
            decide (11 ≤ (k - 1) % 15) || decide (10 ≤ (k - 1) / 15 + 1))) := by
  decide +kernel

/-- all positions are inside the 196-bit buffers and the 13×15 table (no Python `IndexError`) -/
theorem tables_in_range :
    interleavingIndices.all (fun e => decide (e.1 < 196) && decide (e.2.1 < 196)
      && decide (e.2.2.1 ≤ 13) && decide (e.2.2.2.1 < 15)) = true := by
  decide +kernel

theorem tables_ok : TablesOk where
  h15 := C06.wf (by simp [C06.codes])
  h13 := C06.wf (by simp [C06.codes])
  c15 := List.all_eq_true.mp C06.hamming_cols _ (by simp [C06.hammingCodes])
  c13 := List.all_eq_true.mp C06.hamming_cols _ (by simp [C06.hammingCodes])
  idx := idx_ok
  deintBelow := deint_below
  cellSome := cell_some
  cellLen := cell_len
  cellNodup := cell_nodup
  roundTrip := round_trip
  fillHead := fill_head
  dataCells := data_cells
  dataFill := data_fill
  repData := rep_data
  repClean := rep_clean

/-! ## the property -/

/-- a 96-bit message is accepted by `encode` -/
theorem encode_ok (m : Bits) (h : m.length = 96) : encode m = .ok (encodeCore infoMap m) := by
  simp [encode, fillMapping, h]

/-- `encode` and the decoder reject what the Python asserts reject -/
theorem length_guards (x : Bits) :
    (x.length ≠ 96 → x.length ≠ 196 → encode x = .error .assertion)
    ∧ (x.length ≠ 196 → ∀ r, deinterleaveDataBits x r = .error .assertion)
    ∧ (x.length ≠ 196 → repairIfNecessary x = .error .assertion) := by
  refine ⟨fun h1 h2 => by simp [encode, h1, h2], fun h r => by simp [deinterleaveDataBits, h],
    fun h => by simp [repairIfNecessary, h]⟩

/-- encoding a 96-bit message yields 196 bits -/
theorem encode_length (m : Bits) (h : m.length = 96) : ∃ c, encode m = .ok c ∧ c.length = 196 :=
  ⟨_, encode_ok m h, encodeCore_length _ _⟩

/-- the decoder returns exactly the message from an error-free code word, with and without repair -/
theorem decode_encode (m : Bits) (h : m.length = 96) (r : Bool) :
    ∃ c, encode m = .ok c ∧ deinterleaveDataBits c r = .ok m := by
  refine ⟨_, encode_ok m h, ?_⟩
  simp only [deinterleaveDataBits, encodeCore_length, if_true]
  cases r
  · simp [data_encode tables_ok m h]
  · simp [repair_encode tables_ok m, data_encode tables_ok m h]

/-- repair never alters an error-free code word (all 196 returned bits are the code word) -/
theorem repair_clean (m : Bits) (h : m.length = 96) :
    ∃ c, encode m = .ok c ∧ repairIfNecessary c = .ok c := by
  refine ⟨_, encode_ok m h, ?_⟩
  simp [repairIfNecessary, encodeCore_length, repair_encode tables_ok m]

/-- with up to two of the 196 transmitted bits inverted (any positions) the decoder with repair
still returns exactly the message -/
theorem correct_le2 (m : Bits) (h : m.length = 96) (e : Bits) (he : e.length = 196)
    (hw : weight e ≤ 2) :
    ∃ c, encode m = .ok c ∧ deinterleaveDataBits (xorBits c e) true = .ok m := by
  refine ⟨_, encode_ok m h, ?_⟩
  have hl : (xorBits (encodeCore infoMap m) e).length = 196 := by
    rw [xorBits_length, encodeCore_length, he]; exact Nat.min_self 196
  simp [deinterleaveDataBits, hl, data_repair_le2 tables_ok m e h he hw]

/-! ## histories of calls: what was called before does not matter -/

/-- `fill_encoding_table` rewrites every cell: whatever 13×15 table it is given (a new one, one that was
used before, one the caller scribbled on), the result is the table it builds from an all-zero one -/
theorem fill_forgets_table (t x : Bits) (ht : t.length = 195) :
    fillEncodingTableOn t x = fillEncodingTable x := by
  simp only [fillEncodingTableOn, fillEncodingTable]
  split
  · rw [fillOn_eq_fillCore fill_cover t ht]
  · rfl

/-- in every store (= after every history of calls, kept objects and overwrites) the four entry points
called on a new bitarray return what the history-free functions of `Model/Bptc.lean` return, and the
result is the content of the new handle -/
theorem calls_are_history_free (s : Store) (x : Bits) (r : Bool) :
    step s (.encode (.lit x)) = s.ret (encode x)
    ∧ step s (.data r (.lit x)) = s.ret (deinterleaveDataBits x r)
    ∧ step s (.repair (.lit x)) = s.ret (repairIfNecessary x)
    ∧ step s (.deint (.lit x)) = s.ret (deinterleaveAllBits x) := ⟨rfl, rfl, rfl, rfl⟩

/-- a kept object is left as it is by every step that does not overwrite it (`flip`, `setAll`, or `fill`
into that table): no call reaches into an object that was handed out earlier -/
theorem kept_objects_untouched (s : Store) (hs : List Step) (k : Nat) (hk : k < s.size)
    (ht : ∀ st ∈ hs, st.target ≠ some k) : (runSteps s hs).get k = s.get k :=
  runSteps_frame s hs k hk ht

/-- the property over histories: after ANY history `before`, `encode` of a 96-bit message hands out a
code word `c` (kept as handle `k`); after ANY further history `after` that does not overwrite that
handle, the kept object still is `c`, and the decoder returns exactly the message — from the kept object
with and without repair, from any word within two inverted bits of it with repair — and repair returns
the kept code word unaltered. -/
theorem history_roundtrip (before after : List Step) (m : Bits) (hm : m.length = 96)
    (e : Bits) (he : e.length = 196) (hw : weight e ≤ 2) :
    let s₁ := runSteps Store.empty before
    let k := s₁.size
    ∃ c, step s₁ (.encode (.lit m)) = (s₁.push (some (.bits c)), .val c)
      ∧ ((∀ st ∈ after, st.target ≠ some k) →
          let s₂ := runSteps (s₁.push (some (.bits c))) after
          s₂.get k = some (.bits c)
          ∧ (∀ r, (step s₂ (.data r (.ref k))).2 = .val m)
          ∧ (step s₂ (.repair (.ref k))).2 = .val c
          ∧ (step s₂ (.data true (.lit (xorBits c e)))).2 = .val m) := by
  intro s₁ k
  obtain ⟨c, hc, hd⟩ := correct_le2 m hm e he hw
  refine ⟨c, ?_, ?_⟩
  · show s₁.ret (encode m) = _
    rw [hc]; rfl
  · intro ht s₂
    have hk : s₂.get k = some (.bits c) := by
      have := runSteps_frame (s₁.push (some (.bits c))) after k (by simp [Store.size_push, k]) ht
      rw [this, Store.get_push_size]
    have hc' : encode m = .ok c := hc
    refine ⟨hk, ?_, ?_, ?_⟩
    · intro r
      obtain ⟨c', h1, h2⟩ := decode_encode m hm r
      rw [hc'] at h1
      cases h1
      simp [step, Arg.bits, hk, h2, Store.ret]
    · obtain ⟨c', h1, h2⟩ := repair_clean m hm
      rw [hc'] at h1
      cases h1
      simp [step, Arg.bits, hk, h2, Store.ret]
    · simp [step, Arg.bits, hd, Store.ret]

/-- what a call reads from a kept object after the caller overwrote it in place: the new content, nothing
of the old one (`put` on a bitarray; the model of `buf[:] = …`) -/
theorem put_then_read (s : Store) (k : Nat) (old w : Bits) (hk : s.get k = some (.bits old)) :
    ((step s (.put k (.lit w))).1).get k = some (.bits w) := by
  simp only [step, Arg.bits, hk, Obj.accepts, Obj.withContent, if_true]
  exact Store.get_write_eq _ _ _ (Store.lt_size_of_get _ _ _ hk)

/-- the property for a frame buffer the caller RE-USES: after ANY history `before` in which handle `k` is a
bitarray (whatever it holds — the previous frame, as received or as repaired, a word with the same info
bits, the same parity bits, a common prefix or suffix, the same number of ones … — and however often it was
decoded or repaired before), the caller overwrites that object in place with a word within two inverted
bits of the code word of `m`; after ANY further history `after` that does not overwrite it, the decoder
with repair returns exactly `m` from that same object. -/
theorem reused_buffer_le2 (before after : List Step) (k : Nat) (old : Bits) (m : Bits) (hm : m.length = 96)
    (e : Bits) (he : e.length = 196) (hw : weight e ≤ 2) :
    let s₁ := runSteps Store.empty before
    s₁.get k = some (.bits old) →
    ∃ c, encode m = .ok c ∧
      ((∀ st ∈ after, st.target ≠ some k) →
        let s₂ := runSteps (step s₁ (.put k (.lit (xorBits c e)))).1 after
        s₂.get k = some (.bits (xorBits c e))
        ∧ (step s₂ (.data true (.ref k))).2 = .val m) := by
  intro s₁ hk
  obtain ⟨c, hc, hd⟩ := correct_le2 m hm e he hw
  refine ⟨c, hc, ?_⟩
  intro ht s₂
  have hsz : k < (step s₁ (.put k (.lit (xorBits c e)))).1.size :=
    Nat.lt_of_lt_of_le (Store.lt_size_of_get _ _ _ hk) (step_size_le _ _)
  have hk₂ : s₂.get k = some (.bits (xorBits c e)) := by
    have := runSteps_frame (step s₁ (.put k (.lit (xorBits c e)))).1 after k hsz ht
    rw [this, put_then_read s₁ k old _ hk]
  refine ⟨hk₂, ?_⟩
  simp [step, Arg.bits, hk₂, hd, Store.ret]

/-- the same for an error-free code word written into the re-used buffer: the decoder returns the message
with and without repair and `repair_if_necessary` returns the code word unaltered -/
theorem reused_buffer_clean (before after : List Step) (k : Nat) (old : Bits) (m : Bits) (hm : m.length = 96) :
    let s₁ := runSteps Store.empty before
    s₁.get k = some (.bits old) →
    ∃ c, encode m = .ok c ∧
      ((∀ st ∈ after, st.target ≠ some k) →
        let s₂ := runSteps (step s₁ (.put k (.lit c))).1 after
        (∀ r, (step s₂ (.data r (.ref k))).2 = .val m)
        ∧ (step s₂ (.repair (.ref k))).2 = .val c) := by
  intro s₁ hk
  obtain ⟨c, hc, hr⟩ := repair_clean m hm
  refine ⟨c, hc, ?_⟩
  intro ht s₂
  have hsz : k < (step s₁ (.put k (.lit c))).1.size :=
    Nat.lt_of_lt_of_le (Store.lt_size_of_get _ _ _ hk) (step_size_le _ _)
  have hk₂ : s₂.get k = some (.bits c) := by
    have := runSteps_frame (step s₁ (.put k (.lit c))).1 after k hsz ht
    rw [this, put_then_read s₁ k old _ hk]
  refine ⟨?_, ?_⟩
  · intro r
    obtain ⟨c', h1, h2⟩ := decode_encode m hm r
    rw [hc] at h1
    cases h1
    simp [step, Arg.bits, hk₂, h2, Store.ret]
  · simp [step, Arg.bits, hk₂, hr, Store.ret]

/-- a streak of ANY calls on ANY words (unrepairable frames, wrong lengths that raise, …) before a
correctable frame does not matter: in every store the decoder with repair, given a new bitarray within two
inverted bits of the code word of `m`, returns `m` -/
theorem after_any_streak (before : List Step) (m : Bits) (hm : m.length = 96)
    (e : Bits) (he : e.length = 196) (hw : weight e ≤ 2) :
    ∃ c, encode m = .ok c
      ∧ (step (runSteps Store.empty before) (.data true (.lit (xorBits c e)))).2 = .val m := by
  obtain ⟨c, hc, hd⟩ := correct_le2 m hm e he hw
  exact ⟨c, hc, by simp [step, Arg.bits, hd, Store.ret]⟩

/-! ## non-vacuity: the hypotheses are satisfiable by non-trivial values -/

/-- a message and the historically failing double error (on-air positions 2 and 24) -/
def exampleMessage : Bits := (List.range 96).map (fun i => i % 3 == 0 || i % 7 == 2)
def exampleError : Bits := xorBits (unit 196 2) (unit 196 24)

example : exampleMessage.length = 96 ∧ exampleError.length = 196 ∧ weight exampleError = 2
    ∧ weight exampleMessage = 41 := by decide +kernel

example : ∃ c, encode exampleMessage = .ok c
    ∧ deinterleaveDataBits (xorBits c exampleError) true = .ok exampleMessage :=
  correct_le2 exampleMessage (by decide +kernel) exampleError (by decide +kernel) (by decide +kernel)

/-- non-vacuity: a history that mixes a 196-bit re-encode of a block with non-zero reserved bits, a
repair, a table that is filled, and overwrites of kept objects -/
def exampleHistory : List Step :=
  [.encode (.lit (List.replicate 4 true ++ List.replicate 192 false)), .make, .setAll 1 true,
   .fill 1 (.lit exampleMessage), .repair (.ref 0), .flip 0 7, .encode (.lit exampleMessage), .flip 4 3]

example : (runSteps Store.empty exampleHistory).size = 5
    ∧ ∀ st ∈ exampleHistory, st.target ≠ some 5 := by decide +kernel

/-- non-vacuity of `reused_buffer_le2`: a frame buffer of the caller that was decoded, overwritten in place
and decoded again (handle 0), then three unrepairable frames; handle 0 is a bitarray afterwards -/
def exampleReuse : List Step :=
  [.new (List.replicate 196 true), .data true (.ref 0), .put 0 (.lit (List.replicate 196 false)),
   .data true (.ref 0), .flip 0 5, .repair (.ref 0), .data true (.lit (List.replicate 196 true)),
   .data true (.lit (List.replicate 196 true)), .data true (.lit (List.replicate 196 true))]

example : (runSteps Store.empty exampleReuse).get 0 = some (.bits (flipAt 5 (List.replicate 196 false)))
    ∧ (runSteps Store.empty exampleReuse).size = 7 := by decide +kernel

/-! ## content independence: no structure of the message can matter (round 4) -/

/-- what `repair_if_necessary` does to a received word depends on the ERROR pattern only: for every 96-bit message
and EVERY 196-bit word `w` (any weight — not only the correctable ones) the repair of `encode m ⊕ w` is
`encode m ⊕ (repair of w)`, on all 196 bits.  No content of the payload table — empty rows or columns, lines with a
single set bit, equal / one-bit-off / periodic lines, lines that are code words — enters the result. -/
theorem repair_content_independent (m : Bits) (hm : m.length = 96) (w : Bits) (hw : w.length = 196) :
    ∃ c rw, encode m = .ok c ∧ repairIfNecessary w = .ok rw
      ∧ repairIfNecessary (xorBits c w) = .ok (xorBits c rw) := by
  refine ⟨_, repairCore w, encode_ok m hm, by simp [repairIfNecessary, hw], ?_⟩
  have hl : (xorBits (encodeCore infoMap m) w).length = 196 := by
    rw [xorBits_length, encodeCore_length, hw]; exact Nat.min_self 196
  simp only [repairIfNecessary, hl, if_true]
  rw [repairCore_xor_encode tables_ok m w hw]

/-- the same for the decoder, with and without repair: from `encode m ⊕ w` it returns `m ⊕ (what it returns for w
alone)` — the message and the errors never interact -/
theorem decode_content_independent (m : Bits) (hm : m.length = 96) (w : Bits) (hw : w.length = 196) (r : Bool) :
    ∃ c d, encode m = .ok c ∧ deinterleaveDataBits w r = .ok d
      ∧ deinterleaveDataBits (xorBits c w) r = .ok (xorBits m d) := by
  have hl : (xorBits (encodeCore infoMap m) w).length = 196 := by
    rw [xorBits_length, encodeCore_length, hw]; exact Nat.min_self 196
  refine ⟨_, dataCore (if r then repairCore w else w), encode_ok m hm,
    by simp [deinterleaveDataBits, hw], ?_⟩
  simp only [deinterleaveDataBits, hl, if_true]
  cases r
  · simp [data_xor_encode tables_ok m w hm hw]
  · simp [data_repair_xor_encode tables_ok m w hm hw]

/-- the structure of the message IS the structure of the table the repair works on: the payload block (rows 0..8 ×
columns 0..10) of the table `repair_if_necessary` builds from the code word of `m` is, cell by cell, the block of
rows `fill_encoding_table` laid `m` out in (`payloadRows`, the model side of the harness' row / column generator) -/
theorem payload_rows_of_codeword (m : Bits) (hm : m.length = 96) :
    ∃ c, encode m = .ok c
      ∧ payloadRows m = .ok (payloadBlock (fillCore fullDeinterleavingMap (deinterleaveAllCore c))) := by
  refine ⟨_, encode_ok m hm, ?_⟩
  simp only [payloadRows, hm, if_true]
  rw [payloadBlock_cell_encode tables_ok m]

/-- non-vacuity (round 4): a message made by row structure — payload rows 2 and 5 hold exactly one set bit, both in
column 7, rows 3 and 4 carry payload, every other row is empty (the two lone rows are the outermost used rows) — and
the error pattern aimed at it: exactly the two lone bits (on-air positions 18 and 127) -/
def exampleRows : Bits :=
  (List.range 96).map (fun i => i == 26 || i == 59 || (decide (30 ≤ i) && decide (i < 52) && i % 3 == 0))
def exampleAimed : Bits := xorBits (unit 196 18) (unit 196 127)

def rowOf (s : List Nat) : Bits := s.map (fun n => n != 0)

/-- the rows the example message is laid out in, and the rows the repair finds in the received table once the two
aimed errors hit: the two lone rows now look like empty rows at the edge of the used window -/
example : exampleRows.length = 96 ∧ exampleAimed.length = 196 ∧ weight exampleAimed = 2
    ∧ payloadBlock (fillCore infoMap exampleRows)
      = [zeros 11, zeros 11, rowOf [0,0,0,0,0,0,0,1,0,0,0], rowOf [1,0,0,1,0,0,1,0,0,1,0],
         rowOf [0,1,0,0,1,0,0,1,0,0,1], rowOf [0,0,0,0,0,0,0,1,0,0,0], zeros 11, zeros 11, zeros 11]
    ∧ payloadBlock (fillCore fullDeinterleavingMap (deinterleaveAllCore
        (xorBits (encodeCore infoMap exampleRows) exampleAimed)))
      = [zeros 11, zeros 11, zeros 11, rowOf [1,0,0,1,0,0,1,0,0,1,0],
         rowOf [0,1,0,0,1,0,0,1,0,0,1], zeros 11, zeros 11, zeros 11, zeros 11] := by
  decide +kernel

example : ∃ c, encode exampleRows = .ok c
    ∧ deinterleaveDataBits (xorBits c exampleAimed) true = .ok exampleRows :=
  correct_le2 exampleRows (by decide +kernel) exampleAimed (by decide +kernel) (by decide +kernel)

end Dmr.C02
