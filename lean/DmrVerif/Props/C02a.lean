import DmrVerif.Lemmas.BptcMain

/-!
# C02 (part a) — kernel-decided facts about the BPTC(196,96) position lists

The lists are obtained by executing the data-moving loops of the model on positions over the tables
`tools/extract.py` read from `/repo` on this run (`Gen/Bptc.lean`); `decide +kernel`, no axioms.
Split over `C02a`/`C02b`/`C02c` only so that Lake checks them in parallel.
-/

namespace Dmr.C02
open Dmr Dmr.Bptc

set_option maxRecDepth 100000

/-- `deinterleave_all_bits` reads on-air positions below 196 only -/
theorem deint_below : chkDeintBelow = true := by decide +kernel

/-- every table cell on the repair path is fed by an on-air position … -/
theorem cell_some : chkCellSome = true := by decide +kernel

/-- … there are 195 cells … -/
theorem cell_len : chkCellLen = true := by decide +kernel

/-- reading the table back from `encode`'s output returns every cell but the three reserved ones
(R(2), R(1), R(0)), which read 0 -/
theorem round_trip : chkRoundTrip = true := by decide +kernel

end Dmr.C02
