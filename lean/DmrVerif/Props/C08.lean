import DmrVerif.Lemmas.TrackerVoice
import DmrVerif.Lemmas.TrackerWrap
import DmrVerif.Gen.Tracker

/-!
# C08 — transmission tracking emits well-formed start/end events for any burst sequence

Property theorems only.  The tracker model is `Model/Tracker.lean` (the code after the three `fix:` commits
e6dc4ce, 6fc831f, 48aece2); the reference checkers (`WellBracketed`, `PayloadExact`, `seqOk`, `freshOk`,
`cyc`) are in `Lemmas/TrackerSpec.lean` / `Lemmas/TrackerVoice.lean` and read only what the tracker emits.
All theorems quantify over arbitrary finite histories on two interleaved time slots, over the alphabet
`AbsBurst` (well-formedness `wf` = a rate-x burst has the number of information bits its data type
implies, which every parsed burst satisfies), and over any list of observers that do or do not raise.
They all come from one invariant (`TInv`, `Lemmas/TrackerRun.lean`) by induction over the history.
-/

namespace Dmr.C08
open Dmr Dmr.Tracker

/-- a history over the alphabet: (time slot 2?, burst) -/
abbrev History := List (Bool × AbsBurst)

def WF (h : History) : Prop := ∀ x ∈ h, x.2.wf = true

/-- a terminal state that some history over the alphabet leads to -/
def Reachable (t : Terminal) : Prop :=
  ∃ (raises : List Bool) (h : History) (recs : List Rec), WF h ∧ run (Terminal.init raises) h = .ok (t, recs)

theorem reachable_inv {t : Terminal} (ht : Reachable t) : ∃ g1 g2, TInv t g1 g2 := by
  obtain ⟨raises, h, recs, hwf, hr⟩ := ht
  obtain ⟨t', recs', hr', hi, _⟩ := run_inv h _ _ _ (init_inv raises) hwf
  rw [hr] at hr'; cases hr'
  exact ⟨_, _, hi⟩

/-! ## the constants and layouts the model relies on, as extracted from /repo on this run -/

def rates : List Rate := [.r12, .r34, .r1]
/-- order of the extracted tables: Unconfirmed, Confirmed, UnconfirmedLastBlock, ConfirmedLastBlock -/
def ptypes : List PType := [.unconfirmed, .confirmed, .unconfirmedLast, .confirmedLast]

theorem enum_values :
    Gen.Tracker.voiceBurstValues = [1, 100, 101, 102, 103, 104, 105] ∧ Gen.Tracker.voiceBurstCount = 7
      ∧ Gen.Tracker.txTypeValues = [0, 1, 2] ∧ Gen.Tracker.sapUdpIpCompression = 3 := by decide

/-- `dataOctets` = the enum values of the three `Rate*DataTypes` (their constructors derive the type from
the number of data octets), and `resolve` is the graph of the three `resolve(confirmed, last)` -/
theorem type_octets :
    rates.map (fun r => ptypes.map (dataOctets r)) = Gen.Tracker.typeOctets
      ∧ rates.map (fun r => [(false, false), (true, false), (false, true), (true, true)].map
          (fun cl => dataOctets r (resolve cl.1 cl.2))) = Gen.Tracker.resolveOctets
      ∧ rates.map Rate.infoBits = Gen.Tracker.infoBits := by decide

/-- field and weight of information bit `i` under the typed view of the model, computed like the
translator computes it from the real `from_bits_typed`: by parsing the `i`-th unit vector -/
def probe (r : Rate) (t : PType) (i : Nat) : Nat × Nat :=
  let bits := unit r.infoBits i
  let d := bitsToNat (dataBits r t bits)
  if d != 0 then (2, dataOctets r t * 8 - 1 - d.log2)
  else if blockDbsn t bits != 0 then (0, (blockDbsn t bits).log2)
  else if blockCrc32 r t bits != 0 then (3, (blockCrc32 r t bits).log2)
  else (1, (blockCrc9 t bits).log2)

def layoutsChk : Bool :=
  rates.map (fun r => ptypes.map (fun t => (List.range r.infoBits).map (probe r t))) == Gen.Tracker.layouts

/-- the typed views `blockData / blockDbsn / blockCrc9 / blockCrc32` read every information bit into the
same field, with the same weight, as the library's twelve typed parses do -/
theorem layouts : layoutsChk = true := by decide +kernel

/-! ## the property -/

/-- processing never fails: every history over the alphabet runs to the end (SAP = UDP/IP header
compression, short last blocks, blocks without header, vocoder bursts without colour code … included) -/
theorem never_fails (raises : List Bool) (h : History) (hwf : WF h) :
    ∃ t recs, run (Terminal.init raises) h = .ok (t, recs) ∧ recs.map (fun r => (r.two, r.burst)) = h := by
  obtain ⟨t, recs, hr, _, hm⟩ := run_inv h _ _ _ (init_inv raises) hwf
  exact ⟨t, recs, hr, hm⟩

/-- per time slot, every `ended` closes an open `started` of the same kind -/
theorem events_wellformed (raises : List Bool) (h : History) (hwf : WF h) (t : Terminal) (recs : List Rec)
    (hr : run (Terminal.init raises) h = .ok (t, recs)) (two : Bool) :
    WellBracketed (eventsOf two recs) := by
  obtain ⟨t', recs', hr', hi, _⟩ := run_inv h _ _ _ (init_inv raises) hwf
  rw [hr] at hr'; cases hr'
  have hok := (hi.slot two).good.ok
  simp only [List.foldl_nil] at hok
  have hga : ((actsOf two recs).foldl GA.step {}).ok = true := by
    cases two
    · simpa [SG.run_ga, actsOf] using hok
    · simpa [SG.run_ga, actsOf] using hok
  exact (ga_wb (actsOf two recs) {} {} rfl (fun _ => rfl)).2 hga

/-- per time slot, every `ended` hands over the last header assigned since its `started` and exactly the
blocks appended since then; a data end carries a data header, a voice end a voice LC header -/
theorem ended_payload (raises : List Bool) (h : History) (hwf : WF h) (t : Terminal) (recs : List Rec)
    (hr : run (Terminal.init raises) h = .ok (t, recs)) (two : Bool) :
    PayloadExact (actsOf two recs) ∧ ∀ e ∈ eventsOf two recs, e.headerKindOk = true := by
  obtain ⟨t', recs', hr', hi, _⟩ := run_inv h _ _ _ (init_inv raises) hwf
  rw [hr] at hr'; cases hr'
  have hok := (hi.slot two).good.ok
  have hk := (hi.slot two).good.kinds
  simp only [List.foldl_nil] at hok hk
  have hga : ((actsOf two recs).foldl GA.step {}).ok = true
      ∧ ((actsOf two recs).foldl GA.step {}).kinds = true := by
    cases two
    · exact ⟨by simpa [SG.run_ga, actsOf] using hok, by simpa [SG.run_ga, actsOf] using hk⟩
    · exact ⟨by simpa [SG.run_ga, actsOf] using hok, by simpa [SG.run_ga, actsOf] using hk⟩
  exact ⟨ga_pl (actsOf two recs) {} {} rfl rfl (fun _ => rfl) hga.1, (ga_kinds _ _ hga.2).2⟩

/-- after the burst whose last callback was an `ended`, the slot is idle (type Idle, both counters 0, no
blocks, no header) and its stream id is the value the oracle handed out last, drawn during this burst;
whenever a burst delivered an end the returned stream id was drawn during that burst -/
theorem idle_after_end {t : Terminal} (ht : Reachable t) (inp : Bool × AbsBurst) (hwf : inp.2.wf = true) :
    ∃ t' out, t.step inp = .ok (t', out)
      ∧ out.stream = (t'.slot inp.1).tx.streamNo
      ∧ (∀ e, (events out.acts).getLast? = some e → e.isEnded = true →
          (t'.slot inp.1).tx.isIdleFresh = true ∧ out.stream + 1 = t'.oracle ∧ t.oracle ≤ out.stream)
      ∧ (out.deliveredEnd = true → t.oracle ≤ out.stream ∧ out.stream < t'.oracle) := by
  obtain ⟨g1, g2, hi⟩ := reachable_inv ht
  obtain ⟨t', out, hs, _, _, h1, h2, h3, h4, _⟩ := Terminal.step_facts hi inp hwf
  refine ⟨t', out, hs, h1, ?_, fun hd => ⟨h3 hd, h2⟩⟩
  intro e he hen
  obtain ⟨h5, h6⟩ := h4 e he hen
  refine ⟨h5, h6, ?_⟩
  have hmem : e ∈ events out.acts := List.mem_of_getLast? he
  exact h3 (by simp only [Out.deliveredEnd, List.any_eq_true]; exact ⟨e, hmem, hen⟩)

/-- over a whole run: the stream id returned by a burst that delivered an end differs from the two initial
ids and from every stream id returned before (ids are oracle values, the oracle never repeats) -/
theorem stream_ids_fresh (raises : List Bool) (h : History) (hwf : WF h) (t : Terminal) (recs : List Rec)
    (hr : run (Terminal.init raises) h = .ok (t, recs)) : freshOk [0, 1] recs = true :=
  fresh_run h _ _ _ [0, 1] (init_inv raises) (by simp [Terminal.init]) hwf t recs hr

/-- inside a voice transmission a vocoder burst is labelled A if it carries a voice SYNC, else with the
successor (A→B→…→F→A) of the label of the previous burst of that slot; nothing else changes -/
theorem voice_label_step {t : Terminal} (ht : Reachable t) (two : Bool) (sync : Bool) (c : Option Nat)
    (hv : (t.slot two).tx.type = .voice) :
    ∃ t' out, t.step (two, ⟨.voice sync, c⟩) = .ok (t', out)
      ∧ out.label = voiceLabel sync (t.slot two).tx.lastVoice
      ∧ (t'.slot two).tx = { (t.slot two).tx with lastVoice := out.label }
      ∧ out.acts = [] := by
  obtain ⟨g1, g2, hi⟩ := reachable_inv ht
  have hinv := hi.slot two
  have hp := Slot.process_voice (t.slot two) t.oracle sync c hv (hinv.nolast hv) hinv.reset
  have hs : t.step (two, ⟨.voice sync, c⟩) =
      .ok ({ (t.setSlot two
              { tx := { (t.slot two).tx with lastVoice := voiceLabel sync (t.slot two).tx.lastVoice },
                rxSeq := ((t.slot two).rxSeq + 1) % 256, reset := false, cc := c.getD (t.slot two).cc })
              with oracle := t.oracle, obs := deliver t.obs [] },
           { seq := ((t.slot two).rxSeq + 1) % 256, label := voiceLabel sync (t.slot two).tx.lastVoice,
             stream := (t.slot two).tx.streamNo, acts := [] }) := by
    simp only [Terminal.step, hp]
  refine ⟨_, _, hs, rfl, ?_, rfl⟩
  cases two <;> simp [Terminal.slot, Terminal.setSlot]

/-- from each voice-SYNC burst on, the bursts of that slot are labelled A, B, C, D, E, F, A, … — whatever
happens on the other slot in between -/
theorem voice_labels {t : Terminal} (ht : Reachable t) (two : Bool)
    (hv : (t.slot two).tx.type = .voice) (h : History) (hwf : WF h)
    (hvoice : ∀ x ∈ h, x.1 = two → ∃ c, x.2 = ⟨.voice false, c⟩) :
    ∃ t' recs, run t ((two, ⟨.voice true, none⟩) :: h) = .ok (t', recs)
      ∧ (outsOf two recs).map (·.label) = (List.range (outsOf two recs).length).map cyc := by
  obtain ⟨g1, g2, hi⟩ := reachable_inv ht
  obtain ⟨t1, out, hs, hi1, _, _, _, _, _, _⟩ :=
    Terminal.step_facts hi (two, ⟨.voice true, none⟩) rfl
  obtain ⟨t1', out', hs', hl, htx, _⟩ := voice_label_step ht two true none hv
  rw [hs] at hs'; cases hs'
  have hv1 : (t1.slot two).tx.type = .voice := by rw [htx]; exact hv
  have hl1 : (t1.slot two).tx.lastVoice = cyc 0 := by rw [htx, hl]; rfl
  obtain ⟨t2, recs, hr, hlab, _⟩ := voice_run two h t1 _ _ 0 hi1 hv1 hl1 hwf hvoice
  refine ⟨t2, { two := two, burst := ⟨.voice true, none⟩, out := out } :: recs, by simp [run, hs, hr], ?_⟩
  rw [outsOf_cons]
  simp only [↓reduceIte, List.map_cons, List.length_cons, hlab]
  rw [List.range_succ_eq_map]
  simp only [List.map_cons, List.map_map]
  congr 1
  apply List.map_congr_left
  intro i _
  simp only [Function.comp]
  congr 1
  omega

theorem cyc_values : (List.range 13).map cyc
    = [.a, .b, .c, .d, .e, .f, .a, .b, .c, .d, .e, .f, .a] := by decide

theorem cyc_period (n : Nat) : cyc (n + 6) = cyc n := Tracker.cyc_period n

/-- per time slot the bursts are numbered 1, 2, … modulo 256 and the count restarts after the burst that
delivered an end -/
theorem rx_sequence (raises : List Bool) (h : History) (hwf : WF h) (t : Terminal) (recs : List Rec)
    (hr : run (Terminal.init raises) h = .ok (t, recs)) (two : Bool) :
    seqOk 0 (outsOf two recs) = true := by
  obtain ⟨t', recs', hr', hi, _⟩ := run_inv h _ _ _ (init_inv raises) hwf
  rw [hr] at hr'; cases hr'
  have hok := (hi.slot two).seqok
  cases two
  · simpa [SG.run_seqok] using hok
  · simpa [SG.run_seqok] using hok

/-- the observers a terminal is created with -/
def obsOf (r : List Bool) : List Obs := r.map fun x => { raises := x }

/-- which observers raise changes nothing: the trace is the same, every observer has received every
callback of both slots in delivery order (so a raising observer prevents neither the others nor later
events) -/
theorem observer_isolation (r1 r2 : List Bool) (h : History) (hwf : WF h) :
    ∃ t1 t2 recs, run (Terminal.init r1) h = .ok (t1, recs) ∧ run (Terminal.init r2) h = .ok (t2, recs)
      ∧ (∀ o ∈ t1.obs, o.log = allEvents recs) ∧ (∀ o ∈ t2.obs, o.log = allEvents recs)
      ∧ t1.obs.map (·.raises) = r1 ∧ t2.obs.map (·.raises) = r2 := by
  obtain ⟨t0, recs, hr0, _⟩ := never_fails [] h hwf
  have key : ∀ r : List Bool, run (Terminal.init r) h =
      .ok ({ t0 with obs := (obsOf r).map (fun o => { o with log := o.log ++ allEvents recs }) },
           recs) := by
    intro r
    have := run_withObs h (Terminal.init []) (obsOf r)
    rw [hr0] at this
    exact this
  refine ⟨_, _, recs, key r1, key r2, ?_, ?_, ?_, ?_⟩
  · simp only [obsOf, List.map_map, List.mem_map, Function.comp]
    rintro o ⟨x, _, rfl⟩; simp
  · simp only [obsOf, List.map_map, List.mem_map, Function.comp]
    rintro o ⟨x, _, rfl⟩; simp
  · simp [obsOf, List.map_map, Function.comp_def]
  · simp [obsOf, List.map_map, Function.comp_def]

/-! ## exact totals at wrap points (round 4)

`rx_sequence` and `ended_payload` hold for histories of any length, so the two facts below are consequences
of what the model does; they are stated on their own because two realistic changes are invisible to every
history in which no transmission ends on its 256th (512th, …) burst since the last restart and none stays
open for more than 256 blocks. -/

/-- the restart of the numbering does not depend on the number the ending burst itself got: in every reachable
state a burst is numbered (counter + 1) mod 256, and afterwards the counter is 0 if the burst delivered an end —
also when that burst was numbered 0, i.e. was the 256th, 512th, … since the last restart — and the number of
the burst otherwise; the pending-restart flag is clear after every burst -/
theorem restart_at_any_count {t : Terminal} (ht : Reachable t) (inp : Bool × AbsBurst) (hwf : inp.2.wf = true) :
    ∃ t' out, t.step inp = .ok (t', out)
      ∧ out.seq = ((t.slot inp.1).rxSeq + 1) % 256
      ∧ (t'.slot inp.1).reset = false
      ∧ (t'.slot inp.1).rxSeq = (if out.deliveredEnd then 0 else out.seq) := by
  obtain ⟨g1, g2, hi⟩ := reachable_inv ht
  obtain ⟨t', out, hs, _, h1, h2, h3⟩ := Terminal.step_restart hi inp hwf
  exact ⟨t', out, hs, h1, h2, h3⟩

/-- … so the burst that follows an end on the same slot is numbered 1, whatever the ending burst was numbered
and whatever happens on the other slot in between -/
theorem numbered_one_after_end {t : Terminal} (ht : Reachable t) (inp : Bool × AbsBurst) (hwf : inp.2.wf = true)
    (other : History) (hother : ∀ x ∈ other, x.1 ≠ inp.1) (hwfo : WF other) (b : AbsBurst) (hwfb : b.wf = true) :
    ∃ t1 out t2 recs t3 out', t.step inp = .ok (t1, out) ∧ run t1 other = .ok (t2, recs)
      ∧ t2.step (inp.1, b) = .ok (t3, out')
      ∧ (out.deliveredEnd = true → out'.seq = 1) := by
  obtain ⟨g1, g2, hi⟩ := reachable_inv ht
  obtain ⟨t1, out, hs, hi1, _, _, h3⟩ := Terminal.step_restart hi inp hwf
  -- the other slot's bursts leave this slot alone
  have key : ∀ (h : History) (t : Terminal) (g1 g2 : SG), TInv t g1 g2 → (∀ x ∈ h, x.1 ≠ inp.1) → WF h →
      ∃ t' recs g1' g2', run t h = .ok (t', recs) ∧ TInv t' g1' g2' ∧ t'.slot inp.1 = t.slot inp.1 := by
    intro h
    induction h with
    | nil => intro t g1 g2 hi _ _; exact ⟨t, [], g1, g2, rfl, hi, rfl⟩
    | cons x rest ih =>
      intro t g1 g2 hi hne hwf
      obtain ⟨t', o, hs, hi', _, _, _, _, _, hoth⟩ := Terminal.step_facts hi x (hwf x (by simp))
      obtain ⟨t'', recs, g1', g2', hr, hi'', hsl⟩ :=
        ih t' _ _ hi' (fun y hy => hne y (by simp [hy])) (fun y hy => hwf y (by simp [hy]))
      refine ⟨t'', { two := x.1, burst := x.2, out := o } :: recs, g1', g2', by simp [run, hs, hr], hi'', ?_⟩
      rw [hsl]
      exact hoth inp.1 (fun h => hne x (by simp) h.symm)
  obtain ⟨t2, recs, g1', g2', hr, hi2, hsl⟩ := key other t1 _ _ hi1 hother hwfo
  obtain ⟨t3, out', hs', _, h1', _, _⟩ := Terminal.step_restart hi2 (inp.1, b) hwfb
  refine ⟨t1, out, t2, recs, t3, out', hs, hr, hs', ?_⟩
  intro hde
  rw [h1']
  simp only [hsl, h3, hde, ↓reduceIte]

/-! ### kernel-checked instances at the wrap points -/

def vhEx : AbsBurst := ⟨.voiceHeader [7], some 1⟩
def veEx : AbsBurst := ⟨.voice false, some 1⟩
def tmEx : AbsBurst := ⟨.terminator [8], some 1⟩

/-- a voice call of exactly `n + 2` bursts on slot 1 (header, n vocoder bursts, terminator), then four more bursts -/
def callEx (n : Nat) : History :=
  ((vhEx :: List.replicate n veEx) ++ [tmEx, vhEx, veEx, veEx, tmEx]).map fun b => (false, b)

/-- the receive sequence numbers of a run, from the given position on -/
def seqsFrom (k : Nat) (h : History) : Option (List Nat) :=
  match run (Terminal.init [false]) h with
  | .ok (_, recs) => some ((recs.map (·.out.seq)).drop k)
  | .error _ => none

/-- a call of exactly 256 bursts: its terminator is numbered 0 and delivers the end; the next burst is numbered 1,
the following ones 2, 3, … (with the restart skipped "because the counter already is 0" they would be 1, 1, 2) -/
theorem wrap_256 : seqsFrom 253 (callEx 254) = some [254, 255, 0, 1, 2, 3, 4] := by decide +kernel

/-- one burst fewer / more: the terminator is numbered 255 / 1 -/
theorem wrap_255_257 : seqsFrom 252 (callEx 253) = some [253, 254, 255, 1, 2, 3, 4]
    ∧ seqsFrom 254 (callEx 255) = some [255, 0, 1, 1, 2, 3, 4] := by decide +kernel

/-- a call of exactly 512 bursts -/
theorem wrap_512 : seqsFrom 509 (callEx 510) = some [254, 255, 0, 1, 2, 3, 4] := by decide +kernel

def udtEx : DataHdr := { btf := none, a := false, sap := 4, raw := [9] }

/-- a data transmission that nothing ends by itself (UDT header: no count-down) with `n` CSBKs behind the header,
ended by a voice LC header -/
def openEx (n : Nat) : History :=
  (((⟨.dataHeader udtEx, some 1⟩ : AbsBurst) :: List.replicate n ⟨.csbk false 0 [5], some 1⟩) ++ [vhEx]).map
    fun b => (false, b)

/-- number of blocks every `data ended` of a run hands over -/
def endedCounts (h : History) : Option (List Nat) :=
  match run (Terminal.init [false]) h with
  | .ok (_, recs) => some ((allEvents recs).filterMap fun
      | .dataEnded _ bl => some bl.length
      | _ => none)
  | .error _ => none

/-- 255, 256, 257, 300 and 520 blocks behind one `started`: all of them are handed over (a list capped at 256
entries would hand over 256 for the last three) -/
theorem open_transmission_keeps_every_block :
    [254, 255, 256, 299, 519].map (fun n => endedCounts (openEx n))
      = [some [255], some [256], some [257], some [300], some [520]] := by decide +kernel

/-! ## non-vacuity and the historical defect -/

/-- without the `try` of `WithObservers` a raising observer would cut the others off -/
example : ((fanoutUnguarded [{ raises := true }, { raises := false }] (.started .data)).1.map (·.log))
    ≠ ((fanout [{ raises := true }, { raises := false }] (.started .data)).map (·.log)) := by decide

/-- the diagnostic of `end_data_transmission` does fail on short user data whose UDP ports are both "in the
extended header": unguarded (before e6dc4ce) this exception left `process_burst` -/
example : (match udpDiag [0, 0, 0, 0, 0, 0, 0, 0] with | .error .assertion => true | _ => false) = true := by
  decide

def hdrEx : DataHdr := { btf := some 1, a := false, sap := 3, raw := [2, 3] }

/-- data header (SAP 3, one block to follow) and a last block on slot 1, a voice call on slot 2 -/
def historyEx : History :=
  [(false, ⟨.dataHeader hdrEx, some 1⟩), (true, ⟨.voiceHeader [7], some 2⟩), (true, ⟨.voice true, none⟩),
   (false, ⟨.rate .r12 (zeros 96), some 1⟩), (true, ⟨.voice false, some 2⟩), (true, ⟨.terminator [8], some 2⟩)]

example : WF historyEx := by unfold WF historyEx; decide

example : (match run (Terminal.init [true, false]) historyEx with
    | .ok (_, recs) => some (eventsOf false recs, eventsOf true recs, (outsOf true recs).map (·.label),
        recs.map (·.out.seq), recs.map (·.out.stream))
    | .error _ => none)
    = some ([.started .data, .dataEnded (.data hdrEx) [.hdr hdrEx, .rate .r12 .unconfirmedLast (zeros 96)]],
            [.started .voice, .voiceEnded (.flc [7]) []],
            [.unknown, .a, .b, .unknown], [1, 1, 2, 2, 3, 4], [2, 3, 3, 4, 3, 5]) := by decide

/-! ## ambient conditions: a dead standard output -/

/-- whatever the state of `sys.stdout`, `end_data_transmission` never fails and does exactly what the
ambient-free model `endData` does (the diagnostic `print` is inside the `try` of the decode): the events,
the reset to idle and the new stream id do not depend on whether the standard output can be written -/
theorem ambient_stdout_irrelevant (stdoutDead : Bool) (m : M) :
    endDataAmb true stdoutDead m = .ok (endData m) := by
  unfold endDataAmb endData
  by_cases h1 : (m.tx.finished || m.tx.type != .data) = true
  · simp [h1]
  · simp only [h1]
    cases hh : m.tx.header with
    | none => simp
    | some h =>
      have : ∀ d : Diag, d.escapes true = false := by intro d; cases d <;> rfl
      simp [this]

/-- a datagram that decodes (both ports in the table, 5 octets) on a transmission with SAP 3 -/
def mDiagEx : M :=
  { tx := { type := .data, header := some (.data { btf := some 1, a := false, sap := 3, raw := [] }),
            blocks := [.rate .r12 .unconfirmed (bytesToBits [0x12, 0x34, 0x00, 0x01, 0x01, 0, 0, 0, 0, 0, 0, 0])],
            streamNo := 5 },
    oracle := 6 }

example : diagOutcome true (.data { btf := some 1, a := false, sap := 3, raw := [] }) mDiagEx.tx.blocks = .printFailed := by
  decide +kernel

/-- with the `print` behind the `try` (the "minimal try body" refactoring) a dead standard output makes
`end_data_transmission` raise after the `ended` notification and before the reset: the property fails -/
example : (match endDataAmb false true mDiagEx with | .error .value => true | _ => false) = true := by decide +kernel

/-- … while the code as it is completes, idle with a new stream id -/
example : (match endDataAmb true true mDiagEx with
    | .ok m => m.tx.isIdleFresh && m.tx.streamNo == 6 | .error _ => false) = true := by decide +kernel

end Dmr.C08
