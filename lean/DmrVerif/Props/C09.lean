import DmrVerif.Lemmas.VbptcTables
import DmrVerif.Lemmas.VbptcPacked
import DmrVerif.Props.C06
import DmrVerif.Props.C09a
import DmrVerif.Props.C09b
import DmrVerif.Props.C09c
import DmrVerif.Props.C09d
import DmrVerif.Props.C09e

/-!
# C09 — variable-length BPTCs (embedded LC 128/72, CACH short LC 68/28, single burst 32/11)

Property theorems only.  The model is `Model/Vbptc.lean`; the index tables are the ones
`tools/extract_vbptc.py` read from `/repo` on this run (`Gen/Vbptc.lean`).

Method: `encode m = encCore (m ++ checksum m) odd`, and `encCore` as a function of the word
`message ++ checksum ++ [odd]` is an XOR-homomorphism (`VCode.F_lin`, structural).  The five
statements of `VCode.Facts` are equalities between such homomorphisms, so they hold for all words as
soon as they hold on the zero word and the 78 / 37 / 12 unit words (`lin_ext`); those are evaluated by
the kernel on a packed mirror of the model (`Props/C09a … C09e`, bridged in `Lemmas/VbptcPacked.lean`).
Nothing below is sampled and no message length is bounded other than by the code's own parameters.
-/

namespace Dmr.C09
open Dmr Dmr.Vbptc Dmr.Gen

/-! ## finite facts about the extracted tables -/

/-- the CRC-8 calculator is the table based 8-bit register fed 8 bits at a time, no reflection -/
theorem crc8_config :
    (crc8Width, crc8Feed, crc8ReverseInput, crc8ReverseOutput, crc8TableBased)
      = (8, 8, false, false, true) := by decide

/-- the two column-wise arrangements are those of ETSI TS 102 361-1 B.2.1 (embedded LC, 8 × 16) and B.2.2 (CACH short
LC, 4 × 17), written out here independently of `/repo`: cell (row, col) — rows counted from 1 as in the library's
table — is transmitted at `col · R + (row − 1)`; the row code occupies the last five columns of every row but the
last (the column parity row); the 5-bit checksum sits in column 10 of rows 3..7, the CRC-8 in columns 4..11 of
row 3.  Self-consistency (everything else in this file) holds for any consistent arrangement; that the
arrangement is the standard's is this fact.  (`VBPTC(32,11)`: `tables_32_reference` below.) -/
theorem tables_etsi :
    vbptc12873.ii = (List.range 128).map (fun k =>
      ⟨k, (k % 16) * 8 + k / 16, k / 16 + 1, k % 16,
       decide (k / 16 + 1 ≤ 7) && decide (11 ≤ k % 16),
       decide (3 ≤ k / 16 + 1) && decide (k / 16 + 1 ≤ 7) && decide (k % 16 = 10)⟩)
    ∧ vbptc6828.ii = (List.range 68).map (fun k =>
      ⟨k, (k % 17) * 4 + k / 17, k / 17 + 1, k % 17,
       decide (k / 17 + 1 ≤ 3) && decide (12 ≤ k % 17),
       decide (k / 17 + 1 = 3) && decide (4 ≤ k % 17) && decide (k % 17 ≤ 11)⟩) := by
  decide +kernel

/-- the single-burst arrangement VBPTC(32,11) (ETSI TS 102 361-1 B.2.2, single burst variable length BPTC: 2 × 16, row 1 =
11 information bits + Hamming(16,11,4) parity in the last five columns, row 2 = the column parity row), written out as a
closed formula independently of `/repo`: cell (row, col) has the column-wise index `2·col + (row − 1)` and is transmitted at
that index `× 17 mod 32` — so row 1 occupies the even positions in order and the parity bit of column `c` follows the
information bit of column `c + 8 (mod 16)`.  With `tables_etsi` all three arrangements now have a transcription
that does not come from the tree. -/
theorem tables_32_reference :
    vbptc3211.ii = (List.range 32).map (fun k =>
      ⟨k, ((2 * (k % 16) + k / 16) * 17) % 32, k / 16 + 1, k % 16,
       decide (k / 16 = 0) && decide (11 ≤ k % 16), decide (k / 16 = 1)⟩) := by
  decide +kernel

/-- no loop of the three classes indexes outside its arrays (no `IndexError`, no negative row) -/
theorem tables_in_range : [v128, v68, v32].all VCode.inRange = true := by decide +kernel

/-- `INTERLEAVING_INDICES` is row-major, its interleave column is a permutation of the on-air
positions, and the derived maps are the ones their names promise -/
theorem tables_cells : [v128, v68, v32].all VCode.cellsOk = true := by decide +kernel

/-- the checksum cells hard-coded in `encode` are, in order, the cells the extractor reads -/
theorem cs_cells_match : [v128, v68, v32].all VCode.csCellsMatch = true := by decide +kernel

theorem rows16 : ∀ r ∈ h16114.G, r.length = h16114.n := by decide +kernel
theorem rows17 : ∀ r ∈ h17123.G, r.length = h17123.n := by decide +kernel

/-! ## the encoder cores on every input word -/

theorem facts128 (y : Bits) (hy : y.length = 78) : v128.Facts y :=
  v128.facts_of_basis (v128.facts_of_zero rows16 zero128)
    (fun i hi => by
      have hi' : i < 78 := hi
      by_cases h1 : i < 20
      · exact v128.facts_of_basisRange rows16 0 20 basis128_a i (by omega) (by omega)
      by_cases h2 : i < 40
      · exact v128.facts_of_basisRange rows16 20 20 basis128_b i (by omega) (by omega)
      by_cases h3 : i < 60
      · exact v128.facts_of_basisRange rows16 40 20 basis128_c i (by omega) (by omega)
      · exact v128.facts_of_basisRange rows16 60 18 basis128_d i (by omega) (by omega))
    y hy

theorem facts68 (y : Bits) (hy : y.length = 37) : v68.Facts y :=
  v68.facts_of_basis (v68.facts_of_zero rows17 zero68)
    (fun i hi => v68.facts_of_basisRange rows17 0 37 basis68 i (by omega) (by have : i < 37 := hi; omega))
    y hy

theorem facts32 (y : Bits) (hy : y.length = 12) : v32.Facts y :=
  v32.facts_of_basis (v32.facts_of_zero rows16 zero32)
    (fun i hi => v32.facts_of_basisRange rows16 0 12 basis32 i (by omega) (by have : i < 12 := hi; omega))
    y hy

/-! ## (128,72): embedded LC with 5-bit checksum -/

/-- the on-air word `VBPTC12873.encode` produces for the 72-bit message `m` -/
def enc128 (m : Bits) : Bits := v128.encCore (m ++ cs5Bits m) false

/-- a 72-bit message is accepted and gives 128 bits; the checksum call inside cannot raise -/
theorem encode128_ok (m : Bits) (hm : m.length = 72) :
    encode128 m = .ok (enc128 m) ∧ (enc128 m).length = 128
      ∧ fiveBitChecksum (bitsToBytes m) = .ok (cs5 m) ∧ cs5 m < 31 :=
  ⟨v128.encode_msg cs5Bits m true hm (by decide), v128.encCore_length _ _,
    fiveBitChecksum_ok m hm, cs5_lt m⟩

/-- the extractor returns the message (and, with `include_cs5`, message ++ checksum) -/
theorem extract_128 (m : Bits) (hm : m.length = 72) :
    deinterleaveData128 (enc128 m) false = .ok m
      ∧ deinterleaveData128 (enc128 m) true = .ok (m ++ cs5Bits m) := by
  have f := v128.facts_msg facts128 m (cs5Bits m) false hm (cs5Bits_length m)
  have hl : (enc128 m).length = v128.n := v128.encCore_length _ _
  unfold deinterleaveData128
  simp only [hl, ne_eq, not_true_eq_false, if_false, if_true, Bool.false_eq_true]
  unfold enc128
  rw [f.1, f.2.1]
  simp

/-- the 5 checksum bits read back by the library's extractor are the checksum of the message -/
theorem cs5_readback (m : Bits) (hm : m.length = 72) :
    deinterleaveCs5 (enc128 m) = .ok (natToBits 5 (cs5 m)) := by
  have f := v128.facts_msg facts128 m (cs5Bits m) false hm (cs5Bits_length m)
  have hl : (enc128 m).length = v128.n := v128.encCore_length _ _
  unfold deinterleaveCs5
  simp only [hl, ne_eq, not_true_eq_false, if_false]
  unfold enc128
  rw [f.2.1]; rfl

/-- every data row of the transmitted 8 × 16 matrix is a Hamming(16,11,4) code word -/
theorem rows_128 (m : Bits) (hm : m.length = 72) (r : Nat) (hr : r < 7) :
    h16114.check (v128.txRow r (enc128 m)) = true := by
  have f := v128.facts_msg facts128 m (cs5Bits m) false hm (cs5Bits_length m)
  exact (Code.check_iff (C06.wf (by simp [C06.codes])) _ (by simp [VCode.txRow]; rfl)).mpr
    (f.2.2.1 r hr)

/-- every column of the transmitted matrix has even parity -/
theorem columns_128 (m : Bits) (hm : m.length = 72) (c : Nat) (hc : c < 16) :
    xorAll (v128.txCol c (enc128 m)) = false :=
  (v128.facts_msg facts128 m (cs5Bits m) false hm (cs5Bits_length m)).2.2.2.1 c hc

/-- message, message-with-checksum (any 5 trailing bits: they are recomputed) and the fully
de-interleaved code word all encode to the same 128 bits -/
theorem reencode_128 (m : Bits) (hm : m.length = 72) :
    encode128 (m ++ cs5Bits m) = encode128 m
      ∧ (∀ y : Bits, y.length = 77 → encode128 y = encode128 (y.take 72))
      ∧ (v128.deinterleaveAll (enc128 m) >>= encode128) = .ok (enc128 m) := by
  have hw : ∀ y : Bits, y.length = 77 → encode128 y = encode128 (y.take 72) := fun y hy =>
    v128.encode_withCs cs5Bits y true (by decide) hy (by decide)
  refine ⟨?_, hw, ?_⟩
  · rw [hw _ (by simp [hm, cs5Bits_length])]
    congr 1
    rw [← hm, List.take_left']; rfl
  · have f := v128.facts_msg facts128 m (cs5Bits m) false hm (cs5Bits_length m)
    have hl : (enc128 m).length = v128.n := v128.encCore_length _ _
    have hal : (v128.allRaw (enc128 m)).length = v128.n := by
      simp [VCode.allRaw, putLoop_length]; rfl
    have hfa : v128.fromAll (v128.allRaw (enc128 m)) = m := f.2.2.2.2
    unfold VCode.deinterleaveAll
    simp only [hl, ne_eq, not_true_eq_false, if_false]
    rw [ok_bind]
    unfold encode128
    rw [v128.encode_all cs5Bits _ true hal (by decide) (by rw [hfa]; exact hm), hfa]
    simp only [enc128, Bool.not_true]

/-! ## (68,28): CACH short LC with CRC-8 -/

def enc68 (m : Bits) : Bits := v68.encCore (m ++ crc8Bits m) false

theorem encode68_ok (m : Bits) (hm : m.length = 28) :
    encode68 m = .ok (enc68 m) ∧ (enc68 m).length = 68 :=
  ⟨v68.encode_msg crc8Bits m true hm (by decide), v68.encCore_length _ _⟩

/-- the extractor returns the message; with `include_crc8` it appends the CRC as its own CRC
extractor returns it (least significant bit first) -/
theorem extract_68 (m : Bits) (hm : m.length = 28) :
    deinterleaveData68 (enc68 m) false = .ok m
      ∧ deinterleaveData68 (enc68 m) true = .ok (m ++ (crc8Bits m).reverse) := by
  have f := v68.facts_msg facts68 m (crc8Bits m) false hm (crc8Bits_length m)
  have hl : (enc68 m).length = v68.n := v68.encCore_length _ _
  unfold deinterleaveData68
  simp only [hl, ne_eq, not_true_eq_false, if_false, if_true, Bool.false_eq_true]
  unfold enc68
  rw [f.1, f.2.1]
  simp

/-- the CRC-8 read back by `deinterleave_crc8_bits` is the CRC-8 of the message in the extractor's
bit order: bit `i` of the result is bit `i` of the CRC counted from the least significant end, i.e.
the result equals `int2ba(crc, length=8, endian="little")`; read that way it is the number itself -/
theorem crc8_readback (m : Bits) (hm : m.length = 28) :
    deinterleaveCrc8 (enc68 m) = .ok (natToBits 8 (crc8 m)).reverse
      ∧ bitsToNat (natToBits 8 (crc8 m)) = crc8 m := by
  have f := v68.facts_msg facts68 m (crc8Bits m) false hm (crc8Bits_length m)
  have hl : (enc68 m).length = v68.n := v68.encCore_length _ _
  refine ⟨?_, bitsToNat_natToBits 8 _ (crc8_lt m)⟩
  unfold deinterleaveCrc8
  simp only [hl, ne_eq, not_true_eq_false, if_false]
  unfold enc68
  rw [f.2.1]; rfl

/-- every data row of the transmitted 4 × 17 matrix is a Hamming(17,12,3) code word -/
theorem rows_68 (m : Bits) (hm : m.length = 28) (r : Nat) (hr : r < 3) :
    h17123.check (v68.txRow r (enc68 m)) = true := by
  have f := v68.facts_msg facts68 m (crc8Bits m) false hm (crc8Bits_length m)
  exact (Code.check_iff (C06.wf (by simp [C06.codes])) _ (by simp [VCode.txRow]; rfl)).mpr
    (f.2.2.1 r hr)

/-- every column of the transmitted matrix has even parity -/
theorem columns_68 (m : Bits) (hm : m.length = 28) (c : Nat) (hc : c < 17) :
    xorAll (v68.txCol c (enc68 m)) = false :=
  (v68.facts_msg facts68 m (crc8Bits m) false hm (crc8Bits_length m)).2.2.2.1 c hc

theorem reencode_68 (m : Bits) (hm : m.length = 28) :
    encode68 (m ++ crc8Bits m) = encode68 m
      ∧ (∀ y : Bits, y.length = 36 → encode68 y = encode68 (y.take 28))
      ∧ (v68.deinterleaveAll (enc68 m) >>= encode68) = .ok (enc68 m) := by
  have hw : ∀ y : Bits, y.length = 36 → encode68 y = encode68 (y.take 28) := fun y hy =>
    v68.encode_withCs crc8Bits y true (by decide) hy (by decide)
  refine ⟨?_, hw, ?_⟩
  · rw [hw _ (by simp [hm, crc8Bits_length])]
    congr 1
    rw [← hm, List.take_left']; rfl
  · have f := v68.facts_msg facts68 m (crc8Bits m) false hm (crc8Bits_length m)
    have hl : (enc68 m).length = v68.n := v68.encCore_length _ _
    have hal : (v68.allRaw (enc68 m)).length = v68.n := by
      simp [VCode.allRaw, putLoop_length]; rfl
    have hfa : v68.fromAll (v68.allRaw (enc68 m)) = m := f.2.2.2.2
    unfold VCode.deinterleaveAll
    simp only [hl, ne_eq, not_true_eq_false, if_false]
    rw [ok_bind]
    unfold encode68
    rw [v68.encode_all crc8Bits _ true hal (by decide) (by rw [hfa]; exact hm), hfa]
    simp only [enc68, Bool.not_true]

/-! ## (32,11): single burst, even parity or (reverse channel) odd parity -/

def enc32 (m : Bits) (even : Bool) : Bits := v32.encCore m (!even)

theorem encode32_ok (m : Bits) (even : Bool) (hm : m.length = 11) :
    encode32 m even = .ok (enc32 m even) ∧ (enc32 m even).length = 32 := by
  have := v32.encode_msg (fun _ => []) m even hm (by decide)
  simp only [List.append_nil] at this
  exact ⟨this, v32.encCore_length _ _⟩

theorem facts32_msg (m : Bits) (even : Bool) (hm : m.length = 11) :
    v32.dataRaw (enc32 m even) = m
    ∧ (∀ r, r < v32.hrows → v32.txRow r (enc32 m even)
        = v32.H.gen ((v32.txRow r (enc32 m even)).take v32.H.k))
    ∧ (∀ c, c < v32.W → xorAll (v32.txCol c (enc32 m even)) = !even)
    ∧ v32.fromAll (v32.allRaw (enc32 m even)) = m := by
  have f := v32.facts_msg facts32 m [] (!even) hm rfl
  simp only [List.append_nil] at f
  exact ⟨f.1, f.2.2.1, f.2.2.2.1, f.2.2.2.2⟩

theorem extract_32 (m : Bits) (even : Bool) (hm : m.length = 11) :
    deinterleaveData32 (enc32 m even) = .ok m := by
  have f := facts32_msg m even hm
  have hl : (enc32 m even).length = v32.n := v32.encCore_length _ _
  unfold deinterleaveData32
  simp only [hl, ne_eq, not_true_eq_false, if_false]
  rw [f.1]

/-- the data row of the transmitted 2 × 16 matrix is a Hamming(16,11,4) code word -/
theorem rows_32 (m : Bits) (even : Bool) (hm : m.length = 11) :
    h16114.check (v32.txRow 0 (enc32 m even)) = true := by
  have f := facts32_msg m even hm
  exact (Code.check_iff (C06.wf (by simp [C06.codes])) _ (by simp [VCode.txRow]; rfl)).mpr
    (f.2.1 0 (by decide))

/-- every column has even parity for `even_parity=True` and odd parity for the reverse-channel
variant `even_parity=False` -/
theorem columns_32 (m : Bits) (even : Bool) (hm : m.length = 11) (c : Nat) (hc : c < 16) :
    xorAll (v32.txCol c (enc32 m even)) = !even :=
  (facts32_msg m even hm).2.2.1 c hc

theorem reencode_32 (m : Bits) (even : Bool) (hm : m.length = 11) :
    (v32.deinterleaveAll (enc32 m even) >>= (encode32 · even)) = .ok (enc32 m even) := by
  have f := facts32_msg m even hm
  have hl : (enc32 m even).length = v32.n := v32.encCore_length _ _
  have hal : (v32.allRaw (enc32 m even)).length = v32.n := by
    simp [VCode.allRaw, putLoop_length]; rfl
  have hfa : v32.fromAll (v32.allRaw (enc32 m even)) = m := f.2.2.2
  unfold VCode.deinterleaveAll
  simp only [hl, ne_eq, not_true_eq_false, if_false]
  rw [ok_bind]
  unfold encode32
  rw [v32.encode_all (fun _ => []) _ even hal (by decide) (by rw [hfa]; exact hm), hfa]
  simp only [enc32, List.append_nil]

/-! ## non-vacuity and the regression witness of the repaired defect -/

/-- a 9-octet message whose 5-bit checksum 22 = 10110 is not a palindrome (the pre-fix encoder stored
it as 01101, so `cs5_readback` failed for it; the only test vector has checksum 10001) -/
example : fiveBitChecksumRaw [0x00, 0x10, 0x20, 0x00, 0x0c, 0x30, 0x2f, 0x9b, 0x16] = 22
    ∧ natToBits 5 22 = [true, false, true, true, false]
    ∧ natToBits 5 22 ≠ (natToBits 5 22).reverse := by decide
/-- the length hypotheses are satisfiable by non-trivial messages; the first one is the regression
message above as a 72-bit string -/
example : (bytesToBits [0x00, 0x10, 0x20, 0x00, 0x0c, 0x30, 0x2f, 0x9b, 0x16]).length = 72
    ∧ (natToBits 28 0x9abcdef).length = 28 ∧ (natToBits 11 0x5a5).length = 11 := by decide
example := cs5_readback (bytesToBits [0x00, 0x10, 0x20, 0x00, 0x0c, 0x30, 0x2f, 0x9b, 0x16]) (by decide)
example := crc8_readback (natToBits 28 0x9abcdef) (by decide)
example := columns_32 (natToBits 11 0x5a5) false (by decide) 15 (by decide)

end Dmr.C09
