import DmrVerif.Lemmas.HyteraPdu
import DmrVerif.Lemmas.HyteraHstrp

/-!
# C12b — HSTRP: packet type octet, option TLV chain, an application PDU nested in HSTRP

`HSTRP.as_bytes`: `"2B"`, version, packet type, 16-bit sequence number, options, payload.
-/

namespace Dmr.C12
open Dmr Dmr.Hytera Dmr.Gen.Hytera

/-- bit layout of the packet type octet: `00 option reject close connect heartbeat ack`, and the
parser reads the six flags back (all 64 combinations) -/
theorem pkt_type_layout (t : PktType) :
    t.asByte = 32 * t.haveOptions.toNat + 16 * t.isReject.toNat + 8 * t.isClose.toNat + 4 * t.isConnect.toNat
        + 2 * t.isHeartbeat.toNat + t.isAck.toNat
      ∧ PktType.ofByte t.asByte = t := by
  refine ⟨?_, pktType_roundtrip t⟩
  obtain ⟨a, b, c, d, e, f⟩ := t
  cases a <;> cases b <;> cases c <;> cases d <;> cases e <;> cases f <;> rfl

/-- `len(options)` is the number of octets the chain occupies -/
theorem options_len (os : Opts) : optionsLen os = (optionsBytes os).length := optionsLen_eq os

/-- the option chain is read back whatever follows it: any number of options, any data of 0..255
octets, continuation bit on all but the last (induction over the list) -/
theorem options_roundtrip (os : Opts) (hne : os ≠ []) (h : optsWF os) (rest : Bytes) :
    parseOptions (optionsBytes os ++ rest) = .ok os :=
  parseOptions_roundtrip os h rest (fun h0 => absurd h0 hne)

/-- the chain is a function of the option VALUES by POSITION: every option in front of the last one is
written with the continuation bit and the last one without — also when the last option equals (in
Python: IS) one of the earlier ones.  `optionsCont` writes `cmd | 0x80, len, data` for every entry -/
theorem options_position_not_identity (pre : Opts) (o : Nat × Bytes) :
    optionsBytes (pre ++ [o]) = optionsCont pre ++ ([o.1, o.2.length] ++ o.2) := by
  rw [optionsBytes_append pre [o] (by simp)]
  obtain ⟨c, d⟩ := o
  simp [optionsBytes]

/-- one option named `n + 1` times (the same list entry again and again; any `n`: 1 000, 20 000 … there
is no bound in the model): the chain occupies `(n + 1)(2 + len)` octets and is read back whole -/
theorem options_replicate (o : Nat × Bytes) (n : Nat) (ho : o.1 ∈ hstrpOptionValues ∧ o.2.length < 256)
    (rest : Bytes) :
    parseOptions (optionsBytes (List.replicate (n + 1) o) ++ rest) = .ok (List.replicate (n + 1) o)
      ∧ (optionsBytes (List.replicate (n + 1) o)).length = (n + 1) * (2 + o.2.length) := by
  refine ⟨parseOptions_roundtrip _ (fun x hx => by rw [List.eq_of_mem_replicate hx]; exact ho) rest
    (fun h0 => by simp [List.replicate_succ] at h0), ?_⟩
  rw [← optionsLen_eq]
  obtain ⟨c, d⟩ := o
  induction n with
  | zero => simp [optionsLen]
  | succ k ih => rw [List.replicate_succ, optionsLen, ih]; simp only []; rw [Nat.succ_mul (k + 1)]; omega

/-- HDAP (or nothing) in HSTRP: any packet type bits, any version, `sn < 65536`, any consistent option
list -/
theorem hstrp_wrap (ver sn : Nat) (t : PktType) (os : Opts) (pl : Option Pdu) (hsn : sn < 65536)
    (hpl : ∀ p, pl = some p → p.WF) (hc : Consistent t os pl) :
    ∃ b pb, Hstrp.asBytes ⟨ver, t, sn, os, pl⟩ = .ok b
      ∧ ((match pl with | none => pure [] | some p => p.asBytes) : R Bytes) = .ok pb
      -- the frame: header, version, type, sequence number, options, payload bytes
      ∧ b = hstrpHeader ++ [ver] ++ [t.asByte] ++ be2 sn ++ optionsBytes os ++ pb
      -- parse: equal fields (payload fields up to `norm`) …
      ∧ Hstrp.fromBytes b = .ok (some ⟨ver, t, sn, os, pl.map Pdu.norm⟩)
      -- … and the same bytes again
      ∧ Hstrp.asBytes ⟨ver, t, sn, os, pl.map Pdu.norm⟩ = .ok b := by
  cases pl with
  | none =>
    obtain ⟨b, h1, _, h3⟩ := hstrp_roundtrip ver sn t os none none [] rfl rfl (fun _ => rfl)
      (fun h => absurd rfl h) hsn hc
    refine ⟨b, [], h1, rfl, ?_, h3, h1⟩
    simpa [Hstrp.asBytes, bind, Except.bind, pure, Except.pure] using h1.symm
  | some p =>
    have hp := hpl p rfl
    obtain ⟨f, hf, hfit, ho, hparse⟩ := pdu_frame_roundtrip p hp
    obtain ⟨hb, _, hlen⟩ := pdu_len_bytes p f hf ho
    have hne : f.asBytes ≠ [] := by
      intro h0; rw [h0] at hlen; simp at hlen; omega
    obtain ⟨b, h1, _, h3⟩ := hstrp_roundtrip ver sn t os (some p) (some p.norm) f.asBytes hb hparse
      (fun h => by cases h) (fun _ => hne) hsn hc
    have h1' := h1
    simp only [Hstrp.asBytes, hb, bind, Except.bind, pure, Except.pure] at h1'
    refine ⟨b, f.asBytes, h1, hb, (Except.ok.inj h1').symm, h3, ?_⟩
    have hb' : p.norm.asBytes = .ok f.asBytes := by rw [pdu_asBytes_norm p hp]; exact hb
    simp only [Option.map, Hstrp.asBytes, hb', bind, Except.bind, pure, Except.pure]
    exact h1'

/-- `Consistent` cannot be dropped: option bit set, no options, a payload — the datagram the library's
own `rrs_confirm` builds (`32420020<sn>1100800009…`).  The parser reads the RRS service octet `0x11` as
option type 17 and raises `ValueError`; kernel-checked on the registration answer of test_rrs.py -/
theorem hstrp_inconsistent_witness :
    let t : PktType := ⟨true, false, false, false, false, false⟩
    let p : Pdu := .rrs ⟨false, rrsRadioRegistrationAnswer, ⟨10, 80⟩, rrsResultSuccess, 3600, rrsStateOnline⟩
    p.WF ∧ ¬ Consistent t [] (some p)
      ∧ (Hstrp.asBytes ⟨0, t, 1, [], some p⟩ >>= Hstrp.fromBytes) = .error .value := by
  refine ⟨by decide, by decide, by decide +kernel⟩

/-! ## non-vacuity -/

/-- the captured registration `32420020000183040001869f04010211000300040a000064bd03` (test_hstrp):
option bit, sequence number 1, device id and channel id options, RRS registration request -/
example : Consistent ⟨true, false, false, false, false, false⟩ [(3, [0, 1, 0x86, 0x9f]), (4, [2])]
    (some (.rrs ⟨false, rrsRadioRegistrationRequest, ⟨10, 100⟩, 0, 1, 0⟩)) := by decide
example : Hstrp.asBytes ⟨0, ⟨true, false, false, false, false, false⟩, 1, [(3, [0, 1, 0x86, 0x9f]), (4, [2])],
    some (.rrs ⟨false, rrsRadioRegistrationRequest, ⟨10, 100⟩, 0, 1, 0⟩)⟩
    = .ok [0x32, 0x42, 0x00, 0x20, 0x00, 0x01, 0x83, 0x04, 0x00, 0x01, 0x86, 0x9f, 0x04, 0x01, 0x02,
           0x11, 0x00, 0x03, 0x00, 0x04, 0x0a, 0x00, 0x00, 0x64, 0xbd, 0x03] := by decide +kernel
/-- the same option first and last: the first occurrence keeps its continuation bit -/
example : optionsBytes [(1, []), (4, [2]), (1, [])] = [0x81, 0, 0x84, 1, 2, 0x01, 0] := by decide
/-- a heartbeat without options and payload is consistent as well -/
example : Consistent ⟨false, false, false, false, true, false⟩ [] none := by decide

end Dmr.C12
