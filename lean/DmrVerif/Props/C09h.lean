import DmrVerif.Props.C09
import DmrVerif.Lemmas.VbptcStore

/-!
# C09 — histories of calls: what was called before, and which object carries a value, does not matter

`Props/C09.lean` states the property for the entry points as functions of their arguments.  Here the
same entry points are steps of a caller who keeps the objects he passes in and the objects he gets back
(`Model/VbptcStore.lean`): the statements below say that, in the model, every call returns the
history-free value of the *current content* of its argument in a new object, that held objects are left
alone, and that the property therefore holds for a code word kept across any number of further calls.
The correspondence run of `harness/props/c09.py` executes the same histories on the Python classes and
compares every line (`vh.*` operations of the driver).
-/

namespace Dmr.C09
open Dmr Dmr.Vbptc Dmr.Gen

/-! ## the entry points on a big-endian bitarray are the functions the theorems of `Props/C09.lean` speak of -/

theorem big_endian_is_model (b : Bits) (e : Bool) (k : Kind) :
    encodeK .c128 .big b e = liftErr (encode128 b)
    ∧ encodeK .c68 .big b e = liftErr (encode68 b)
    ∧ encodeK .c32 k b e = liftErr (encode32 b e)
    ∧ crc8Calc .big b = .ok (crc8 b) :=
  ⟨encodeK_big_128 b e, encodeK_big_68 b e, encodeK_32 k b e, crc8Calc_big b⟩

/-! ## `fill_encoding_table` -/

/-- the loop over `INTERLEAVING_INDICES` assigns every cell of the `R × W` table -/
theorem fill_cover : [v128, v68, v32].all VCode.fillCover = true := by decide +kernel

theorem fill_cover_cls (c : Cls) : c.code.fillCover = true := by
  have h := fill_cover
  simp only [List.all_cons, List.all_nil, Bool.and_true, Bool.and_eq_true] at h
  cases c
  · exact h.1
  · exact h.2.1
  · exact h.2.2

/-- whatever `R × W` table it is given (a new one, one that was used before, one the caller scribbled
on), `fill_encoding_table` returns what it builds from the all-zero table of `make_encoding_table()` -/
theorem fill_forgets_table (c : Cls) (t x : Bits) (ht : t.length = c.code.R * c.code.W) :
    fillK c t x = fillK c (makeTable c) x := by
  simp only [fillK, makeTable]
  split
  · rw [c.code.fillOn_forgets (fill_cover_cls c) t x ht]
  · rfl

/-- … and for a message that is the table `encode` starts from -/
theorem fill_is_encoder_fill (c : Cls) (m : Bits) (hm : m.length = c.code.k) :
    fillK c (makeTable c) m = .ok (c.code.fillTable m) := by
  simp [fillK, makeTable, hm, c.code.fillOn_zeros_msg m hm]

/-! ## calls are history free -/

/-- in every store (= after every history of calls, held objects and in-place edits) an entry point
called on an object built for the call returns the history-free function of `Model/VbptcStore.lean` of
that object's content, in a new handle -/
theorem calls_are_history_free (s : Store) (c : Cls) (k : Kind) (x : Bits) (f : Bool) (d : Bytes) :
    step s (.encode c f (.lit (.bits k x))) = s.ret (encodeK c k x f)
    ∧ step s (.data c f (.lit (.bits k x))) = s.ret (dataK c x f)
    ∧ step s (.all c (.lit (.bits k x))) = s.ret (allK c x)
    ∧ (∀ r, csK c x = some r → step s (.cs c (.lit (.bits k x))) = s.ret r)
    ∧ step s (.cs5calc (.lit (.octets d))) = s.retNum (liftErr (fiveBitChecksum d))
    ∧ step s (.crc8calc (.lit (.bits k x))) = s.retNum (crc8Calc k x)
    ∧ step s (.make c) = (s.push (.obj (.arr (makeTable c))), .val (.arr (makeTable c))) := by
  refine ⟨rfl, rfl, rfl, ?_, rfl, rfl, rfl⟩
  intro r hr
  simp [step, Arg.obj, hr]

/-- … and called on a held object it returns the same function of what the object holds *now*: the
value is read at the time of the call, no earlier content of the object (and no other object) matters -/
theorem calls_read_current_content (s : Store) (c : Cls) (h : Nat) (k : Kind) (x : Bits) (f : Bool)
    (hx : s.get h = some (.bits k x)) :
    step s (.encode c f (.ref h)) = step s (.encode c f (.lit (.bits k x)))
    ∧ step s (.data c f (.ref h)) = step s (.data c f (.lit (.bits k x)))
    ∧ step s (.all c (.ref h)) = step s (.all c (.lit (.bits k x)))
    ∧ step s (.cs c (.ref h)) = step s (.cs c (.lit (.bits k x)))
    ∧ step s (.crc8calc (.ref h)) = step s (.crc8calc (.lit (.bits k x))) := by
  simp [step, Arg.obj, hx]

/-- the results of `encode`, the extractors and `make_encoding_table` are never an object the caller
already holds (only `fill_encoding_table` and `set_parity` return their argument) -/
theorem results_are_new_objects (s : Store) (c : Cls) (f : Bool) (a : Arg) (j : Nat) (o : Obj) :
    (step s (.encode c f a)).2 ≠ .same j o
    ∧ (step s (.data c f a)).2 ≠ .same j o
    ∧ (step s (.all c a)).2 ≠ .same j o
    ∧ (step s (.cs c a)).2 ≠ .same j o
    ∧ (step s (.make c)).2 ≠ .same j o := by
  have hret : ∀ r : Except HErr Bits, (s.ret r).2 ≠ .same j o := by
    intro r; cases r <;> simp [Store.ret]
  refine ⟨?_, ?_, ?_, ?_, ?_⟩ <;> simp only [step] <;> (repeat' split) <;>
    first
      | exact hret _
      | simp

/-- a held object is left as it is by every history none of whose steps names it (or an alias of it) as
the object to overwrite: no call reaches into an object that was handed out or passed in earlier -/
theorem held_objects_untouched (s : Store) (hs : List Step) (k : Nat) (hk : k < s.size)
    (ht : untouched k s hs = true) : (runSteps s hs).slots[k]? = s.slots[k]? :=
  runSteps_frame s hs k hk ht

/-! ## the property over histories -/

theorem ret_ok (s : Store) (b : Bits) : (s.ret (.ok b)).2 = .val (.bits .big b) := rfl

/-- (128,72): after ANY history `before`, `encode` of a 72-bit message hands out the code word of
`Props/C09.lean` as a new object (handle `k`); after ANY further history `after` that does not overwrite
that object, it still holds the code word, and the extractors called on the held object return the
message, the message with its checksum, and the checksum the library computes over the message.  (Rows
and columns of the held word: `rows_128`, `columns_128` apply to its content.) -/
theorem history_roundtrip_128 (before after : List Step) (m : Bits) (hm : m.length = 72) :
    let s₁ := runSteps Store.empty before
    let k := s₁.size
    step s₁ (.encode .c128 true (.lit (.bits .big m)))
      = (s₁.push (.obj (.bits .big (enc128 m))), .val (.bits .big (enc128 m)))
    ∧ (untouched k (s₁.push (.obj (.bits .big (enc128 m)))) after = true →
        let s₂ := runSteps (s₁.push (.obj (.bits .big (enc128 m)))) after
        s₂.get k = some (.bits .big (enc128 m))
        ∧ (step s₂ (.data .c128 false (.ref k))).2 = .val (.bits .big m)
        ∧ (step s₂ (.data .c128 true (.ref k))).2 = .val (.bits .big (m ++ cs5Bits m))
        ∧ (step s₂ (.cs .c128 (.ref k))).2 = .val (.bits .big (natToBits 5 (cs5 m)))) := by
  intro s₁ k
  have henc : encodeK .c128 .big m true = .ok (enc128 m) := by
    rw [encodeK_big_128, (encode128_ok m hm).1]; rfl
  have hd0 : dataK .c128 (enc128 m) false = .ok m := by
    simp only [dataK]; rw [(extract_128 m hm).1]; rfl
  have hd1 : dataK .c128 (enc128 m) true = .ok (m ++ cs5Bits m) := by
    simp only [dataK]; rw [(extract_128 m hm).2]; rfl
  have hcs : csK .c128 (enc128 m) = some (.ok (natToBits 5 (cs5 m))) := by
    simp only [csK]; rw [cs5_readback m hm]; rfl
  obtain ⟨h1, h2⟩ := history_generic before after .c128 .big true m (enc128 m) henc
  refine ⟨h1, fun ht => ?_⟩
  obtain ⟨hk, hd, _, hc⟩ := h2 ht
  exact ⟨hk, by rw [hd false, hd0, ret_ok], by rw [hd true, hd1, ret_ok], by rw [hc _ hcs, ret_ok]⟩

/-- (68,28): the same for the CACH short LC code; the CRC-8 comes back least significant bit first -/
theorem history_roundtrip_68 (before after : List Step) (m : Bits) (hm : m.length = 28) :
    let s₁ := runSteps Store.empty before
    let k := s₁.size
    step s₁ (.encode .c68 true (.lit (.bits .big m)))
      = (s₁.push (.obj (.bits .big (enc68 m))), .val (.bits .big (enc68 m)))
    ∧ (untouched k (s₁.push (.obj (.bits .big (enc68 m)))) after = true →
        let s₂ := runSteps (s₁.push (.obj (.bits .big (enc68 m)))) after
        s₂.get k = some (.bits .big (enc68 m))
        ∧ (step s₂ (.data .c68 false (.ref k))).2 = .val (.bits .big m)
        ∧ (step s₂ (.data .c68 true (.ref k))).2 = .val (.bits .big (m ++ (crc8Bits m).reverse))
        ∧ (step s₂ (.cs .c68 (.ref k))).2 = .val (.bits .big (natToBits 8 (crc8 m)).reverse)) := by
  intro s₁ k
  have henc : encodeK .c68 .big m true = .ok (enc68 m) := by
    rw [encodeK_big_68, (encode68_ok m hm).1]; rfl
  have hd0 : dataK .c68 (enc68 m) false = .ok m := by
    simp only [dataK]; rw [(extract_68 m hm).1]; rfl
  have hd1 : dataK .c68 (enc68 m) true = .ok (m ++ (crc8Bits m).reverse) := by
    simp only [dataK]; rw [(extract_68 m hm).2]; rfl
  have hcs : csK .c68 (enc68 m) = some (.ok (natToBits 8 (crc8 m)).reverse) := by
    simp only [csK]; rw [(crc8_readback m hm).1]; rfl
  obtain ⟨h1, h2⟩ := history_generic before after .c68 .big true m (enc68 m) henc
  refine ⟨h1, fun ht => ?_⟩
  obtain ⟨hk, hd, _, hc⟩ := h2 ht
  exact ⟨hk, by rw [hd false, hd0, ret_ok], by rw [hd true, hd1, ret_ok], by rw [hc _ hcs, ret_ok]⟩

/-- (32,11): the same for the single-burst code, both parities, any container of the 11 bits -/
theorem history_roundtrip_32 (before after : List Step) (m : Bits) (even : Bool) (kind : Kind)
    (hm : m.length = 11) :
    let s₁ := runSteps Store.empty before
    let k := s₁.size
    step s₁ (.encode .c32 even (.lit (.bits kind m)))
      = (s₁.push (.obj (.bits .big (enc32 m even))), .val (.bits .big (enc32 m even)))
    ∧ (untouched k (s₁.push (.obj (.bits .big (enc32 m even)))) after = true →
        let s₂ := runSteps (s₁.push (.obj (.bits .big (enc32 m even)))) after
        s₂.get k = some (.bits .big (enc32 m even))
        ∧ (∀ incl, (step s₂ (.data .c32 incl (.ref k))).2 = .val (.bits .big m))) := by
  intro s₁ k
  have henc : encodeK .c32 kind m even = .ok (enc32 m even) := by
    rw [encodeK_32, (encode32_ok m even hm).1]; rfl
  have hd0 : ∀ incl, dataK .c32 (enc32 m even) incl = .ok m := by
    intro incl; simp only [dataK]; rw [extract_32 m even hm]; rfl
  obtain ⟨h1, h2⟩ := history_generic before after .c32 kind even m (enc32 m even) henc
  refine ⟨h1, fun ht => ?_⟩
  obtain ⟨hk, hd, _, _⟩ := h2 ht
  exact ⟨hk, fun incl => by rw [hd incl, hd0 incl, ret_ok]⟩

/-! ## non-vacuity -/

/-- the history the seeded "same burst as last time" shortcut gets wrong: one buffer is encoded, changed
in place, and encoded again with the same parity.  In the model the second answer is the code word of
the new content, the first answer (handle 1) is still the code word of the old content -/
def exampleBuf : Bits := natToBits 11 0x5
def exampleReuse : List Step := [.new (.bits .big exampleBuf), .encode .c32 true (.ref 0), .flip 0 3]
def exampleReuseChk : Bool :=
  let s := runSteps Store.empty exampleReuse
  decide ((step s (.encode .c32 true (.ref 0))).2 = (s.ret (encodeK .c32 .big (flipAt 3 exampleBuf) true)).2)
  && decide (s.get 1 = some (.bits .big (enc32 exampleBuf true)))
  && decide ((s.ret (encodeK .c32 .big (flipAt 3 exampleBuf) true)).2 ≠ (s.ret (encodeK .c32 .big exampleBuf true)).2)
  && untouched 1 (runSteps Store.empty (exampleReuse.take 2)) (exampleReuse.drop 2)

example : exampleReuseChk = true := by decide +kernel

/-- a history that uses aliases: a table is made, scribbled on, filled (the result is the same object),
the alias is edited, a full column goes through `set_parity` (again the same object) -/
def exampleAlias : List Step :=
  [.make .c32, .setAll 0 true, .fill .c32 0 (.lit (.bits .seq exampleBuf)),
    .flip 1 0, .new (.arr [true, false]), .setParity .c32 false (.ref 2)]
def exampleAliasChk : Bool :=
  let s := runSteps Store.empty exampleAlias
  decide (s.size = 4) && decide (s.root 1 = 0) && decide (s.root 3 = 2)
  && decide (s.get 3 = some (.arr [true, false]))
  && decide (s.get 0 = some (.arr (flipAt 0 (v32.fillTable exampleBuf))))
  && !untouched 0 Store.empty exampleAlias

example : exampleAliasChk = true := by decide +kernel

end Dmr.C09
