import DmrVerif.Props.C03
import DmrVerif.Lemmas.TranslCsbkDec

/-!
# C03t — the SOURCE of `CSBK` (csbk.py), translated, equals the model of C03

`Gen/TranslCsbk.lean` is regenerated on every run by `tools/py2lean_bits.py` (on top of `tools/py2lean.py`) from
`inspect.getsource` of the live `CSBK.{__init__, as_bits, calculate_crc_ccit, from_bits}`, `ServiceOptions.*`, `bits_to_bytes`
and the `as_bits` / `from_bits` of the elements they call; semantics of the Python subset: `Model/Py.lean`, `Model/PyBits.lean`.
Not translated (the `Ext` parameter of every definition): `CRC16.calculate(data, mask)` — an ARBITRARY function `g` here, as in
the C03 theorems (its correctness is C05) — and `bytes_to_bits`.  The model's CRC parameter is `crcOf g`.

`csbkObj` spells out all 39 attributes of the Python object in terms of the model's record: the attributes the opcode carries
from the payload, every other one at the constructor's default.  The equalities hold for ALL bit strings (any length, every
opcode value, every error case), the round-trip theorems of C03 are restated about the translated source (`transl_*`).
-/

namespace Dmr.C03t
open Dmr Dmr.Py Dmr.PyBits Dmr.Gen Dmr.Transl.Csbk

/-- `CSBK.from_bits(bits)` is `Csbk.dec (crcOf g) bits`: the same object, attribute by attribute, or the same exception
class — for every bit string of any length, all nine implemented opcodes, every other opcode value, and whatever
`CRC16.calculate` computes -/
theorem csbk_from_bits_eq (g : Bytes → Int → Nat) (bits : Bits) :
    CSBK.from_bits (csbkExt g) bits = ofE csbkObj (Csbk.dec (crcOf g) bits) :=
  Transl.Csbk.csbk_from_bits_eq g bits

/-- `CSBK.as_bits()` of the object of an in-range model record is `Csbk.enc` (all nine opcodes) -/
theorem csbk_as_bits_eq (g : Bytes → Int → Nat) (p : Csbk) (h : p.WF) :
    CSBK.as_bits (csbkExt g) (csbkObj p) = .ok p.enc := by
  obtain ⟨h1, h2, h3⟩ := wf_ok p h
  exact csbk_as_bits g p h1 h2 h3

/-- the end of `CSBK.__init__` (`if self.crc <= 0: self.calculate_crc_ccit()`) is `Csbk.init` -/
theorem csbk_init_finish (g : Bytes → Int → Nat) (p : Csbk) (h : p.WF) :
    (do
      let mut self := csbkObj p
      if (decide ((← PyBits.attr self.crc) ≤ 0)) then
        self := (← CSBK.calculate_crc_ccit (csbkExt g) self).1
      return self : PyM CSBK) = .ok (csbkObj (Csbk.init (crcOf g) p)) := by
  obtain ⟨h1, _, h3⟩ := wf_ok p h
  exact init_finish g p h1 h3

/-- `ServiceOptions.from_bits` / `as_bits` (as regenerated in this unit) are the model's `dec` / `enc` -/
theorem so_from_bits_eq (g : Bytes → Int → Nat) (bits : Bits) :
    Transl.Csbk.ServiceOptions.from_bits (csbkExt g) bits = ofE soObj (Dmr.ServiceOptions.dec bits) :=
  Transl.Csbk.so_from_bits_eq g bits

theorem so_as_bits_eq (g : Bytes → Int → Nat) (s : Dmr.ServiceOptions) (h : s.WF) :
    Transl.Csbk.ServiceOptions.as_bits (csbkExt g) (soObj s) = .ok s.enc :=
  Transl.Csbk.so_as_bits_eq g s h

/-! ## round trips of C03, about the translated source -/

/-- `C03.csbk_roundtrip`: for an object as the constructor leaves it, `as_bits()` succeeds and `from_bits` of those bits
gives the object back, attribute by attribute -/
theorem transl_csbk_roundtrip (g : Bytes → Int → Nat) (hg : ∀ d m, g d m < 2 ^ 16) (p : Csbk) (h : p.WF) :
    ∃ bits, CSBK.as_bits (csbkExt g) (csbkObj (Csbk.init (crcOf g) p)) = .ok bits ∧ bits.length = 96 ∧
      CSBK.from_bits (csbkExt g) bits = .ok (csbkObj (Csbk.init (crcOf g) p)) := by
  have hf : ∀ x, crcOf g x < 2 ^ 16 := fun x => hg _ _
  have hw := Csbk.init_wf (crcOf g) hf p h
  refine ⟨_, csbk_as_bits_eq g _ hw, Csbk.enc_length _ hw, ?_⟩
  rw [csbk_from_bits_eq, C03.csbk_roundtrip (crcOf g) hf p h]
  rfl

/-- `C03.csbk_fixpoint`: whatever `from_bits` returns for a 96-bit string serialises to 96 bits that parse back to it -/
theorem transl_csbk_fixpoint (g : Bytes → Int → Nat) (hg : ∀ d m, g d m < 2 ^ 16) (bits : Bits) (hl : bits.length = 96)
    (o : CSBK) (h : CSBK.from_bits (csbkExt g) bits = .ok o) :
    ∃ b2, CSBK.as_bits (csbkExt g) o = .ok b2 ∧ b2.length = 96 ∧ CSBK.from_bits (csbkExt g) b2 = .ok o := by
  have hf : ∀ x, crcOf g x < 2 ^ 16 := fun x => hg _ _
  rw [csbk_from_bits_eq] at h
  cases hd : Csbk.dec (crcOf g) bits with
  | error e => rw [hd] at h; cases h
  | ok p =>
    rw [hd] at h
    have ho : o = csbkObj p := by injection h with h; exact h.symm
    subst ho
    have hw := Csbk.dec_wf (crcOf g) hf bits hl p hd
    obtain ⟨hfix, hlen⟩ := C03.csbk_fixpoint (crcOf g) hf bits hl p hd
    refine ⟨_, csbk_as_bits_eq g p hw, hlen, ?_⟩
    rw [csbk_from_bits_eq, hfix]
    rfl

/-- `C03.csbk_dec_total`: on a 96-bit string the translated `from_bits` returns an object or raises `ValueError` /
`NotImplementedError` — nothing else -/
theorem transl_csbk_dec_total (g : Bytes → Int → Nat) (bits : Bits) (hl : bits.length = 96) :
    (∃ o, CSBK.from_bits (csbkExt g) bits = .ok o) ∨ CSBK.from_bits (csbkExt g) bits = .error .value
      ∨ CSBK.from_bits (csbkExt g) bits = .error (.other "NotImplementedError") := by
  rw [csbk_from_bits_eq]
  rcases C03.csbk_dec_total (crcOf g) bits hl with ⟨p, hp⟩ | hp | hp
  · exact Or.inl ⟨csbkObj p, by rw [hp]; rfl⟩
  · exact Or.inr (Or.inl (by rw [hp]; rfl))
  · exact Or.inr (Or.inr (by rw [hp]; rfl))

end Dmr.C03t
