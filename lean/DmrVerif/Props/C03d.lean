import DmrVerif.Lemmas.PduArgs

/-!
# C03 — part 5: constructor arguments the opcode / format does not carry do not reach the wire (round 3)

`CSBK`, `DataHeader`, `FullLinkControl` and `ShortLinkControl` take the arguments of all their opcodes /
formats.  A PDU "built from in-range field values" may have anything in the arguments of the *other*
opcodes; `as_bits()` must write the carried fields only.  `XArgs` (`Model/PduArgs.lean`) is the whole
attribute record, `XArgs.enc` mirrors `as_bits()` branch by branch reading attributes, `XArgs.project` keeps the
carried fields.  The statements: the bits are the encoding of the projection (so every theorem of parts 1–4
applies to objects with every argument set), two records with equal projections give equal bits, and the
round trip returns the projection.  The harness sets **every** constructor argument of every class to 0 / max /
random non-zero values (all at once and one at a time, crossed with each carried field at 0 / max) and compares
the real `as_bits()` with `XArgs.enc` of all attributes of the real object, and the decoded carried fields with
the built ones.
-/

namespace Dmr.C03d
open Dmr Dmr.Gen

/-! ## data header -/

theorem dh_args_enc (a : DhArgs) : DhArgs.enc a = (DhArgs.project a).map DataHeader.enc := DhArgs.enc_project a

/-- whatever stands in the attributes the format does not carry, the bits are the same -/
theorem dh_ignored_args (a b : DhArgs) (h : DhArgs.project a = DhArgs.project b) : DhArgs.enc a = DhArgs.enc b := by
  rw [dh_args_enc, dh_args_enc, h]

/-- an object with every argument set serialises to 96 bits that decode to the carried fields -/
theorem dh_args_roundtrip (f : Bits → Nat) (a : DhArgs) (p : DataHeader) (hp : DhArgs.project a = some p) (hw : p.WF) :
    ∃ bits, DhArgs.enc a = some bits ∧ bits.length = 96 ∧ DataHeader.dec f bits = .ok (DataHeader.init f p) :=
  ⟨DataHeader.enc p, by rw [dh_args_enc, hp]; rfl, DataHeader.enc_length p hw, DataHeader.dec_enc f p hw⟩

/-! ## CSBK -/

theorem csbk_args_enc (a : CsbkArgs) (p : Csbk) (h : CsbkArgs.project a = some p) : CsbkArgs.enc a = Csbk.enc p :=
  CsbkArgs.enc_project a p h

theorem csbk_ignored_args (a b : CsbkArgs) (p : Csbk) (ha : CsbkArgs.project a = some p) (hb : CsbkArgs.project b = some p) :
    CsbkArgs.enc a = CsbkArgs.enc b := by
  rw [csbk_args_enc a p ha, csbk_args_enc b p hb]

theorem csbk_args_roundtrip (f : Bits → Nat) (a : CsbkArgs) (p : Csbk) (hp : CsbkArgs.project a = some p) (hw : p.WF) :
    (CsbkArgs.enc a).length = 96 ∧ Csbk.dec f (CsbkArgs.enc a) = .ok (Csbk.init f p) := by
  rw [csbk_args_enc a p hp]
  exact ⟨Csbk.enc_length p hw, Csbk.dec_enc f p hw⟩

/-! ## full LC, short LC -/

theorem flc_args_enc (a : FlcArgs) : FlcArgs.enc a = (FlcArgs.project a).map FullLc.enc := FlcArgs.enc_project a

theorem flc_ignored_args (a b : FlcArgs) (h : FlcArgs.project a = FlcArgs.project b) : FlcArgs.enc a = FlcArgs.enc b := by
  rw [flc_args_enc, flc_args_enc, h]

theorem flc_args_roundtrip (a : FlcArgs) (p : FullLc) (hp : FlcArgs.project a = some p) (hw : p.WF) :
    ∃ bits, FlcArgs.enc a = some bits ∧ bits.length = 72 + p.crc.length ∧ FullLc.dec bits = .ok p :=
  ⟨FullLc.enc p, by rw [flc_args_enc, hp]; rfl, FullLc.enc_length p hw, FullLc.dec_enc p hw⟩

theorem slc_args_enc (a : SlcArgs) : SlcArgs.enc a = (SlcArgs.project a).map ShortLc.enc := SlcArgs.enc_project a

theorem slc_ignored_args (a b : SlcArgs) (h : SlcArgs.project a = SlcArgs.project b) : SlcArgs.enc a = SlcArgs.enc b := by
  rw [slc_args_enc, slc_args_enc, h]

theorem slc_args_roundtrip (g : Bits → Bits) (a : SlcArgs) (p : ShortLc) (hp : SlcArgs.project a = some p) (hw : p.WF) :
    ∃ bits, SlcArgs.enc a = some bits ∧ bits.length = 36 ∧ ShortLc.dec g bits = .ok (ShortLc.init g p) :=
  ⟨ShortLc.enc p, by rw [slc_args_enc, hp]; rfl, ShortLc.enc_length p hw, ShortLc.dec_enc g p hw⟩

/-! ## non-vacuity: the shape of the seeded change -/

/-- a Defined-Data short data header with `appended_blocks = 0`, every other attribute at its maximum -/
def ddHead (btf : Nat) : DhArgs :=
  { dpf := 13, crc := natToBits 16 0x1234, isGroup := true, respReq := false, padOctets := 31, sap := 9, dst := 2308155,
    src := 2301, fmf := 1, btf := btf, rsf := 1, sendSeq := 7, fsn := 15, cls := 3, typ := 7, status := 7,
    appendedBlocks := 0, ddf := 5, sarq := 0, bitPadding := zeros 8, emergency := true, optionFlag := 1,
    padNibbles := 31, udtFormat := 10, udtOpcode := 61, sf := 1 }

/-- `blocks_to_follow` (an argument of the confirmed / unconfirmed / response formats) at 63 or at 0: same 96 bits,
and they decode to `appended_blocks = 0` -/
example : DhArgs.enc (ddHead 63) = DhArgs.enc (ddHead 0) := dh_ignored_args _ _ rfl
example : (DhArgs.project (ddHead 63)).map (fun p => decide p.WF) = some true := by decide +kernel
example : ((DhArgs.enc (ddHead 63)).map fun bits =>
    (bits.length, (DataHeader.dec (fun _ => 7) bits).toOption.map (·.payload)))
    = some (96, some (.shortDataDefined true false 0 9 2308155 2301 5 0 1 (zeros 8))) := by decide +kernel

end Dmr.C03d
