import DmrVerif.Lemmas.MbxmlX

/-!
# C14 — MBXML variable-length integers and floats decode to what was encoded

Property theorems only.  The model (`Model/Mbxml.lean`) mirrors `okdmr/dmrlib/motorola/mbxml.py` line by
line (bit-string reversal and septet slicing in `write_uintvar`, sign in bit 6 of the first octet, the
fraction writer `write_fraction`); it is tied to the code by the correspondence run of
`harness/props/c14.py`.  The two range constants come from `Gen/Mbxml.lean`, regenerated on every run.

All integer theorems hold for *every* natural number / integer: the assertions `value ≤ UINTVAR_MAX`,
`|value| ≤ SINTVAR_MAX` of the writers are the only place where 2^32 − 1 and 2^31 − 1 enter.

Floats: a Python `float` argument is an exact dyadic `num / 2^exp`; the writers' arithmetic on it is exact
in IEEE-754 (see the model), a reader's result is the exact triple `(int, dec, k)` standing for
`int + dec / 128^k`.  "Equal values" is therefore stated without division: `dec · 128^p = f · 128^k`.
-/

namespace Dmr.C14
open Dmr Dmr.Mbxml

/-! ## the extracted constants -/

theorem constants : UINTVAR_MAX = 2 ^ 32 - 1 ∧ SINTVAR_MAX = 2 ^ 31 - 1 := by decide

/-! ## unsigned integers -/

/-- for every value the writer accepts (`v ≤ 2^32 − 1`), at any position `pre.length` of a buffer and
whatever octets follow, the reader returns exactly `v` and the index just past the written octets -/
theorem read_write_uintvar (v : Nat) (hv : v ≤ 2 ^ 32 - 1) (pre rest : Bytes) :
    ∃ bs, writeU v = .ok bs ∧
      readU (pre ++ bs ++ rest) pre.length = .ok (v, pre.length + bs.length) := by
  refine ⟨writeURaw v, ?_, ?_⟩
  · have : ¬ (v > UINTVAR_MAX) := by have := constants.1; omega
    simp [writeU, this]
  · rw [writeURaw_eq]; exact readU_encU pre v rest

/-- the same without the range assertion: the septet loop itself is right for every natural number -/
theorem read_write_uintvar_unbounded (v : Nat) (pre rest : Bytes) :
    readU (pre ++ writeURaw v ++ rest) pre.length = .ok (v, pre.length + (writeURaw v).length) := by
  rw [writeURaw_eq]; exact readU_encU pre v rest

/-- the writer rejects exactly the values above `2^32 − 1` -/
theorem writeU_range (v : Nat) : (∃ bs, writeU v = .ok bs) ↔ v ≤ 2 ^ 32 - 1 := by
  have hc := constants.1
  unfold writeU
  constructor
  · intro ⟨bs, h⟩
    by_cases hv : v > UINTVAR_MAX
    · simp [hv] at h
    · omega
  · intro h
    have : ¬ (v > UINTVAR_MAX) := by omega
    exact ⟨writeURaw v, by simp [this]⟩

/-- canonical form: every octet but the last carries the continuation bit, the last one does not, and
there is no leading `0x80` septet -/
theorem writeU_canonical (v : Nat) : canonicalU (writeURaw v) = true := by
  rw [writeURaw_eq]; exact canonicalU_encU v

/-- shortest: no octet string with correct continuation bits that reads as `v` is shorter than the
writer's output for `v` -/
theorem writeU_shortest (bs : Bytes) (hw : wellFlagged bs = true) :
    ∃ v, readU bs 0 = .ok (v, bs.length) ∧ (writeURaw v).length ≤ bs.length := by
  refine ⟨decGo bs 0, ?_, ?_⟩
  · have := readUGo_wellFlagged bs [] 0 hw
    simp only [List.append_nil] at this
    simp [readU, this, shift]
  · rw [writeURaw_eq]; exact encU_shortest bs hw

/-- the canonical form is unique: a canonical octet string is the writer's output for its value -/
theorem writeU_unique (bs : Bytes) (hc : canonicalU bs = true) :
    ∃ v, readU bs 0 = .ok (v, bs.length) ∧ writeURaw v = bs := by
  have hw : wellFlagged bs = true := by
    unfold canonicalU at hc; simp only [Bool.and_eq_true] at hc; exact hc.1
  refine ⟨decGo bs 0, ?_, ?_⟩
  · have := readUGo_wellFlagged bs [] 0 hw
    simp only [List.append_nil] at this
    simp [readU, this, shift]
  · rw [writeURaw_eq]; exact encU_decGo bs hc

/-! ## signed integers -/

theorem readS_at (pre x : Bytes) :
    readS (pre ++ x) pre.length
      = (readS x 0).map (fun r => (r.1, pre.length + r.2.1, r.2.2)) := by
  unfold readS
  simp only [List.drop_left, List.drop_zero]
  cases x with
  | nil => rfl
  | cons b t =>
    simp only []
    split
    · simp [Except.map]
    · cases readUGo t (b % 64) with
      | error e => rfl
      | ok p => simp [readSRest, Except.map]; omega

/-- for every value the writer accepts (`|v| ≤ 2^31 − 1`), at any position and whatever follows, the
signed reader returns exactly `v`, the index just past the written octets, and the sign -/
theorem read_write_sintvar (v : Int) (hv : v.natAbs ≤ 2 ^ 31 - 1) (pre rest : Bytes) :
    ∃ bs, writeS v = .ok bs ∧
      readS (pre ++ bs ++ rest) pre.length = .ok (v, pre.length + bs.length, decide (v < 0)) := by
  have hc := constants.2
  have h2 : ¬ (v.natAbs > SINTVAR_MAX) := by omega
  refine ⟨writeSRaw v.natAbs (decide (v < 0)), ?_, ?_⟩
  · simp only [writeS, h2, if_false]
    congr 2
    by_cases h : v < 0
    · have : ¬ (v ≥ 0) := by omega
      simp [h, this]
    · have : v ≥ 0 := by omega
      simp [h, this]
  · rw [List.append_assoc, readS_at, readS_writeSRaw]
    have : applySign (decide (v < 0)) v.natAbs = v := by
      unfold applySign
      by_cases h : v < 0
      · simp [h]; omega
      · simp [h]; omega
    simp [Except.map, this]

/-- negative zero (`negative_zero=True`, used for floats in (−1, 0)): the sign survives -/
theorem read_write_negative_zero (rest : Bytes) :
    ∃ bs, writeS 0 true = .ok bs ∧ readS (bs ++ rest) 0 = .ok (0, bs.length, true) := by
  refine ⟨writeSRaw 0 true, by simp [writeS], ?_⟩
  have := readS_writeSRaw 0 true rest
  simpa [applySign] using this

/-- the signed writer never produces the same octets for two different values -/
theorem write_sintvar_injective (a b : Int) (ha : a.natAbs ≤ 2 ^ 31 - 1) (hb : b.natAbs ≤ 2 ^ 31 - 1)
    (h : writeS a = writeS b) : a = b := by
  obtain ⟨x, hx, rx⟩ := read_write_sintvar a ha [] []
  obtain ⟨y, hy, ry⟩ := read_write_sintvar b hb [] []
  rw [h, hy] at hx
  have hxy : y = x := by simpa using hx
  subst hxy
  rw [rx] at ry
  simp only [Except.ok.injEq, Prod.mk.injEq] at ry
  exact ry.1

/-- canonical signed form: continuation bits right and no leading bare continuation octet unless the
next septet has no room for the sign -/
theorem writeS_canonical (m : Nat) (neg : Bool) : canonicalS (writeSRaw m neg) = true :=
  canonicalS_writeSRaw m neg

/-- the canonical signed form is unique: a canonical octet string is the writer's output for the sign
and magnitude it reads as -/
theorem writeS_unique (bs rest : Bytes) (hc : canonicalS bs = true) :
    ∃ m neg, readS (bs ++ rest) 0 = .ok (applySign neg m, bs.length, neg) ∧ writeSRaw m neg = bs :=
  ⟨sMag bs, sNeg bs, canonicalS_unique bs rest hc⟩

/-! ## floats -/

/-- unsigned float writer/reader on every value representable at precision `p`
(`value = i + f / 128^p`, given as any dyadic `num / 2^exp` equal to it): the integer part comes back,
the fraction comes back as `dec / 128^k` with the same value, `k ≤ p` septets, all octets consumed -/
theorem ufloat_roundtrip (i f p num exp : Nat) (hp : 1 ≤ p) (hi : i ≤ 2 ^ 32 - 1) (hf : f < 128 ^ p)
    (hval : num * 128 ^ p = (i * 128 ^ p + f) * 2 ^ exp) (rest : Bytes) :
    ∃ bs r, writeUF num exp p = .ok bs ∧ readUF (bs ++ rest) 0 = .ok r ∧
      r.neg = false ∧ r.int = i ∧ r.dec * 128 ^ p = f * 128 ^ r.k ∧ 1 ≤ r.k ∧ r.k ≤ p ∧
      r.next = bs.length := by
  obtain ⟨h1, h2⟩ := split_grid_aux num (2 ^ exp) (128 ^ p) i f (pow2_pos exp) (pow128_pos p) hf hval
  have hc := constants.1
  have hw := writeUF_eq num exp p hp (by rw [h1]; omega)
  rw [h1, h2] at hw
  obtain ⟨dec, k, hr, hk1, hkp, hv⟩ := readUF_parts i f p hp hf rest
  exact ⟨_, _, hw, hr, rfl, rfl, hv, hk1, hkp, rfl⟩

/-- signed float writer/reader, including negative values with zero integer part (`neg`, `i = 0`,
`f ≠ 0`): sign, integer part and fraction come back (`-0.0` is written as `+0`) -/
theorem sfloat_roundtrip (neg : Bool) (i f p num exp : Nat) (hp : 1 ≤ p) (hi : i ≤ 2 ^ 31 - 1)
    (hf : f < 128 ^ p) (hval : num * 128 ^ p = (i * 128 ^ p + f) * 2 ^ exp) (rest : Bytes) :
    ∃ bs r, writeSF neg num exp p = .ok bs ∧ readSF (bs ++ rest) 0 = .ok r ∧
      r.neg = (neg && num != 0) ∧ r.int = i ∧ r.dec * 128 ^ p = f * 128 ^ r.k ∧ 1 ≤ r.k ∧ r.k ≤ p ∧
      r.next = bs.length := by
  obtain ⟨h1, h2⟩ := split_grid_aux num (2 ^ exp) (128 ^ p) i f (pow2_pos exp) (pow128_pos p) hf hval
  have hc := constants.2
  have hw := writeSF_eq neg num exp p hp (by rw [h1]; omega)
  rw [h1, h2] at hw
  obtain ⟨dec, k, hr, hk1, hkp, hv⟩ := readSF_parts (neg && num != 0) i f p hp hf rest
  exact ⟨_, _, hw, hr, rfl, rfl, hv, hk1, hkp, rfl⟩

/-- with one-septet precision the fraction is written as the single septet `f` (the form LRRP uses) -/
theorem fraction_one_septet (f : Nat) (hf : f < 128) : writeFraction f 1 = [f] := by
  simp [writeFraction, fracSeptets, stripTrailing, flagAllButLast]
  omega

/-! ## info-time, latitude, longitude against the decoding formulas of the XML view -/

/-- every date-time `strptime` accepts (in particular all of 2000..2099) is written as five octets
that the XML view decodes into the same fields -/
theorem infotime_roundtrip (t : DateTime) (hv : t.valid = true) :
    ∃ bs, writeInfotime t = .ok bs ∧ bs.length = 5 ∧ decodeInfotime bs = t := by
  obtain ⟨_, hy, _, hm, _, hd, hh, hmi, hs⟩ := t.valid_ranges hv
  obtain ⟨hlt, hfields⟩ := infotime_fields t (by omega) (by omega) (by omega) (by omega) (by omega)
    (by omega)
  refine ⟨beBytes 5 (infotimeNat t), ?_, beBytes_length _ 5, ?_⟩
  · simp only [writeInfotime, hv, Bool.not_true, Bool.false_eq_true, if_false]
    exact toBytes_nat 5 (infotimeNat t) hlt
  · unfold decodeInfotime
    simp only [beNat_beBytes 5 _ hlt]
    exact hfields

/-- latitudes of 0 … 90 degrees in steps of 10^-6 (`m` micro-degrees): the four octets decode, by the
XML view's `round(lat · 90 / 2^31, 6)`, to exactly `m` -/
theorem latitude_roundtrip (m : Nat) (h : m ≤ 90000000) :
    ∃ bs, writeLat (m : Int) = .ok bs ∧ bs.length = 4 ∧ decodeLat bs = m := by
  by_cases h90 : m = 90000000
  · subst h90
    refine ⟨beBytes 4 2147483647, writeLat_90, rfl, ?_⟩
    unfold decodeLat
    rw [beNat_beBytes 4 _ (by decide)]
    exact lat_round_90
  · refine ⟨_, writeLat_eq m (by omega), beBytes_length _ 4, ?_⟩
    unfold decodeLat
    rw [beNat_beBytes 4 _ (by simp; omega)]
    exact lat_round m

/-- longitudes of 0 … 359.999999 degrees in steps of 10^-6: decoded by `round(long · 360 / 2^32, 6)` to
exactly `m` -/
theorem longitude_roundtrip (m : Nat) (h : m < 360000000) :
    ∃ bs, writeLon (m : Int) = .ok bs ∧ bs.length = 4 ∧ decodeLon bs = m := by
  refine ⟨_, writeLon_eq m h, beBytes_length _ 4, ?_⟩
  unfold decodeLon
  rw [beNat_beBytes 4 _ (by simp; omega)]
  exact lon_round m

/-! ## latitude / longitude on EVERY double, the pole window, info-time injectivity (hardening round) -/

/-- the one special case of `write_latitude`, `math.isclose(value, 90.0)` evaluated in double arithmetic as
CPython does, only ever accepts doubles that `round(value, 6)` sends to 90.000000 anyway: the window of the
special case lies inside the rounding cell of the constant (a wider window — e.g. `rel_tol=1e-6` — would
write values as the pole that the XML view must show as 89.9999xx) -/
theorem pole_window_inside_rounding_cell (num exp : Nat) (h : isclose90 num exp = true) :
    microOf num exp = 90000000 :=
  isclose90_window num exp h

/-- away from the pole cell the writer on an arbitrary double is the writer on the value rounded to
micro-degrees (the function the grid theorems are about) -/
theorem writeLatD_eq_writeLat (num exp : Nat) (h : microOf num exp ≠ 90000000) :
    writeLatD num exp = writeLat (microOf num exp : Int) := by
  have hc : isclose90 num exp = false := by
    cases hb : isclose90 num exp with
    | false => rfl
    | true => exact absurd (isclose90_window num exp hb) h
  have hm : ¬ ((microOf num exp : Int) = 90000000) := by omega
  simp only [writeLatD, writeLat, hc, hm, if_false, Bool.false_eq_true]

/-- latitude, every non-negative double `num / 2^exp` that rounds into 0 … 90 degrees (not only multiples
of 10^-6, and whether or not the pole special case fires): four octets that the XML view decodes to the
value correctly rounded to six decimals -/
theorem latitude_any_double (num exp : Nat) (h : microOf num exp ≤ 90000000) :
    ∃ bs, writeLatD num exp = .ok bs ∧ bs.length = 4 ∧ decodeLat bs = microOf num exp := by
  cases hc : isclose90 num exp with
  | true =>
    have hm := isclose90_window num exp hc
    refine ⟨beBytes 4 2147483647, ?_, rfl, ?_⟩
    · simp only [writeLatD, hc, if_true]
      exact toBytes_nat 4 2147483647 (by simp)
    · unfold decodeLat
      rw [beNat_beBytes 4 _ (by decide), hm]
      exact lat_round_90
  | false =>
    refine ⟨beBytes 4 (microOf num exp * 16777216 / 703125), ?_, beBytes_length _ 4, ?_⟩
    · simp only [writeLatD, hc, if_false, Bool.false_eq_true]
      exact latQuot_ok _ h
    · unfold decodeLat
      rw [beNat_beBytes 4 _ (by simp; omega)]
      exact lat_round _

/-- longitude, every non-negative double that rounds into 0 … 359.999999 degrees -/
theorem longitude_any_double (num exp : Nat) (h : microOf num exp < 360000000) :
    ∃ bs, writeLonD num exp = .ok bs ∧ bs.length = 4 ∧ decodeLon bs = microOf num exp := by
  refine ⟨beBytes 4 (microOf num exp * 8388608 / 703125), lonQuot_ok _ h, beBytes_length _ 4, ?_⟩
  unfold decodeLon
  rw [beNat_beBytes 4 _ (by simp; omega)]
  exact lon_round _

/-- two different valid date-times are never written as the same five octets (a writer that moves a
wall-clock time of a skipped local hour onto the next hour is not injective) -/
theorem infotime_injective (a b : DateTime) (ha : a.valid = true) (hb : b.valid = true)
    (h : writeInfotime a = writeInfotime b) : a = b := by
  obtain ⟨x, hx, _, dx⟩ := infotime_roundtrip a ha
  obtain ⟨y, hy, _, dy⟩ := infotime_roundtrip b hb
  rw [hx, hy] at h
  have hxy : x = y := by simpa using h
  rw [← dx, ← dy, hxy]

/-! ## the hypotheses are satisfiable by non-trivial values (and the historical failures are covered) -/

-- 128 and 16384 (multiples of 128, mis-encoded before the repair), with a prefix and trailing octets
example : ∃ bs, writeU 16384 = .ok bs ∧ readU ([0xFF] ++ bs ++ [0x81]) 1 = .ok (16384, 1 + bs.length) :=
  read_write_uintvar 16384 (by decide) [0xFF] [0x81]
-- +64 (read back as −0 before the repair) and −8192
example : ∃ bs, writeS 64 = .ok bs ∧ readS ([] ++ bs ++ [0x7F]) 0 = .ok (64, 0 + bs.length, false) :=
  read_write_sintvar 64 (by decide) [] [0x7F]
example : ∃ bs, writeS (-8192) = .ok bs ∧ readS ([] ++ bs ++ []) 0 = .ok (-8192, 0 + bs.length, true) :=
  read_write_sintvar (-8192) (by decide) [] []
-- 1 + 1/16384 at precision 2 (leading zero septet of the fraction, lost before the repair), given as 16385/2^14
example : ∃ bs r, writeUF 16385 14 2 = .ok bs ∧ readUF (bs ++ []) 0 = .ok r ∧ r.neg = false ∧ r.int = 1 ∧
    r.dec * 128 ^ 2 = 1 * 128 ^ r.k ∧ 1 ≤ r.k ∧ r.k ≤ 2 ∧ r.next = bs.length :=
  ufloat_roundtrip 1 1 2 16385 14 (by decide) (by decide) (by decide) (by decide) []
-- −10/128 = −0.078125: negative fraction with zero integer part, given as −5/2^6
example : ∃ bs r, writeSF true 5 6 1 = .ok bs ∧ readSF (bs ++ []) 0 = .ok r ∧ r.neg = (true && 5 != 0) ∧
    r.int = 0 ∧ r.dec * 128 ^ 1 = 10 * 128 ^ r.k ∧ 1 ≤ r.k ∧ r.k ≤ 1 ∧ r.next = bs.length :=
  sfloat_roundtrip true 0 10 1 5 6 (by decide) (by decide) (by decide) (by decide) []
-- 2003-06-30 07:30:00 (the test vector) and a leap day
example : (⟨2003, 6, 30, 7, 30, 0⟩ : DateTime).valid = true := by decide
example : (⟨2096, 2, 29, 23, 59, 59⟩ : DateTime).valid = true := by decide
example : (⟨2099, 2, 29, 0, 0, 0⟩ : DateTime).valid = false := by decide
-- 1/128 degree = 0.0078125 is an exact rounding tie: shown as 0.007812 (ties to even)
example : microOf 1 7 = 7812 := by decide
-- 90 − 2^-24 (not a multiple of 10^-6) is inside the isclose window: written as the pole, shown as 90.0
example : isclose90 (90 * 2 ^ 24 - 1) 24 = true := by decide +kernel
example : ∃ bs, writeLatD (90 * 2 ^ 24 - 1) 24 = .ok bs ∧ bs.length = 4 ∧ decodeLat bs = microOf (90 * 2 ^ 24 - 1) 24 :=
  latitude_any_double _ _ (by decide)
-- 89.9999 (= 89999900 micro-degrees, given as the nearest double) is NOT inside the window
example : isclose90 3166589969557671 45 = false := by decide +kernel
-- the skipped hour of 2021-03-28 in CET and the hour after it are different octets; last Sunday of March 2021
example : writeInfotime ⟨2021, 3, 28, 2, 30, 0⟩ ≠ writeInfotime ⟨2021, 3, 28, 3, 30, 0⟩ := by decide
example : ruleDay 2021 3 5 0 = 28 ∧ weekdaySun 2021 3 28 = 0 := by decide

end Dmr.C14
