import DmrVerif.Gen.TranslPduSmall
import DmrVerif.Model.Integrity
import DmrVerif.Model.PduCsbk

/-!
The call boundary of `Gen/TranslPduSmall.lean` instantiated with the hand-written model: the library functions the translated
PDU code calls but that are not translated themselves (Golay / QR encoders and checks — numpy —, `numpy_array_to_int`, the CRC-8
front end) are the `Ext` parameter of every translated definition; `modelExt` supplies the model's functions (`Model/Codes`,
`Model/CrcFront`).  Used by the equality theorems (`Props/C04t`) and by the driver operations `t.ps.*`.  Trusted: that the
library functions are pure and that a numpy 0/1 vector behaves like a bit list under slicing.  Core Lean only.
-/

namespace Dmr.Transl.PduSmall
open Dmr Dmr.Py Dmr.Gen

/-- exceptions of the CRC model as Python exceptions -/
def liftCrc {α : Type} : Except CrcErr α → PyM α
  | .ok v => .ok v
  | .error .indexError => .error .index
  | .error .valueError => .error .value
  | .error .overflowError => .error .overflow
  | .error .assertionError => .error .assertion

def modelExt : Ext where
  Golay2087_generate := fun m => .ok (golay2087.gen m)
  Golay2087_check := fun w => .ok (golay2087.check w)
  QuadraticResidue1676_generate := fun m => .ok (qr1676.gen m)
  QuadraticResidue1676_check := fun w => .ok (qr1676.check w)
  numpy_array_to_int := fun a => .ok ((bitsToNat a : Nat) : Int)
  CRC8_calculate := fun d => liftCrc ((Crc.crc8 false d).map (fun (n : Nat) => (n : Int)))
  CRC8_check := fun d c => liftCrc (Crc.crc8Check false d c)

@[simp] theorem ext_golay_gen (m : Bits) : modelExt.Golay2087_generate m = .ok (golay2087.gen m) := rfl
@[simp] theorem ext_golay_check (w : Bits) : modelExt.Golay2087_check w = .ok (golay2087.check w) := rfl
@[simp] theorem ext_qr_gen (m : Bits) : modelExt.QuadraticResidue1676_generate m = .ok (qr1676.gen m) := rfl
@[simp] theorem ext_qr_check (w : Bits) : modelExt.QuadraticResidue1676_check w = .ok (qr1676.check w) := rfl
@[simp] theorem ext_np (a : Bits) : modelExt.numpy_array_to_int a = .ok ((bitsToNat a : Nat) : Int) := rfl
@[simp] theorem ext_crc8 (d : Bits) : modelExt.CRC8_calculate d = liftCrc ((Crc.crc8 false d).map (fun (n : Nat) => (n : Int))) := rfl
@[simp] theorem ext_crc8_check (d : Bits) (c : Int) : modelExt.CRC8_check d c = liftCrc (Crc.crc8Check false d c) := rfl

/-- exceptions of the integrity model as Python exceptions -/
def liftI : Integrity.IErr → PyErr
  | .assertionError => .assertion
  | .valueError => .value
  | .keyError => .other "KeyError"
  | .overflowError => .overflow
  | .indexError => .index
  | .typeError => .type
  | .hdap => .other "hdap"

/-- a result of the integrity model as a result of translated code -/
def ofI {α β : Type} (f : α → β) : Except Integrity.IErr α → PyM β
  | .ok v => .ok (f v)
  | .error e => .error (liftI e)

/-- the model's slot-type object as the translated class's object -/
def slotObj (o : Integrity.SlotObj) : SlotType :=
  { colour_code := some o.colourCode, data_type := some o.dataType, fec_parity := some o.parity, fec_parity_ok := some o.ok }

/-- the model's EMB object as the translated class's object -/
def embObj (o : Integrity.EmbObj) : EmbeddedSignalling :=
  { colour_code := some o.colourCode, preemption_and_power_control_indicator := some o.pi,
    link_control_start_stop := some o.lcss, emb_parity := some o.parity, emb_parity_ok := some o.ok }

/-- the model's short-LC object as the translated class's object -/
def slcObj (o : Integrity.SlcObj) : ShortLinkControl :=
  match o.payload with
  | .null =>
    { slco := some (Gen.Integrity.slcoNull : Nat), crc_8bit := some o.crc, ts1_activity_id := some none, ts1_address := some none,
      ts2_activity_id := some none, ts2_address := some none, crc_ok := some o.ok }
  | .activity t1 t2 a1 a2 =>
    { slco := some (Gen.Integrity.slcoActivity : Nat), crc_8bit := some o.crc, ts1_activity_id := some (some t1),
      ts1_address := some (some a1), ts2_activity_id := some (some t2), ts2_address := some (some a2), crc_ok := some o.ok }

/-- exceptions of the PDU codec models (C03) as Python exceptions -/
def liftE : Err → PyErr
  | .valueError => .value
  | .assertionError => .assertion
  | .notImplemented => .other "NotImplementedError"
  | .keyError => .other "KeyError"
  | .indexError => .index
  | .other => .unsupported "other"

def ofE {α β : Type} (f : α → β) : Except Err α → PyM β
  | .ok v => .ok (f v)
  | .error e => .error (liftE e)

/-- the model's service options as the translated class's object -/
def soObj (s : _root_.Dmr.ServiceOptions) : ServiceOptions :=
  { is_emergency := some s.isEmergency, is_broadcast := some s.isBroadcast, is_privacy := some s.isPrivacy,
    is_open_voice_call_mode := some s.isOvcm, priority_level := some (s.priority : Int), reserved := some s.reserved }

end Dmr.Transl.PduSmall
