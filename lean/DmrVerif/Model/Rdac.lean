import DmrVerif.Model.P2p

/-!
# Model of `RDACDatagramProtocol.datagram_received` and `step0 … step14` (C18)

Line-by-line model of `protocols/hytera/rdac_datagram_protocol.py` over the storage model of C20.
The request / response byte strings and attribute names are the extracted ones (`Gen/Proto.lean`).

* The step dictionary is keyed by **peer IP** (`addr[0]`), the storage by the full address — exactly
  as the code does; two peers behind one IP share a step.
* `read_snmp_values` (network I/O) is an external call: `snmpFails` says whether it raises.
* Exceptions the code can raise are explicit: `UnicodeDecodeError` of the four UTF-16 fields of the
  step-6 response, `IndexError` of `data[26]` in step 10, `AttributeError` of `getattr(self, "step9")`
  (unreachable: shown in Props/C18), the stubbed SNMP call in step 13.
* Python's `utf_16_le` decoder followed by `.encode("utf-8").strip(b"\x00").decode("utf-8")` is
  modelled on code points (`decodeField`); this is modelled, not verified, and cross-checked by the
  correspondence run only.
-/

namespace Dmr.Rdac
open Dmr Dmr.Storage Dmr.P2p

structure RState where
  store : Store
  /-- `self.step`: ip ↦ step (insertion-ordered dict) -/
  steps : List (List Nat × Nat)
  deriving DecidableEq, Repr, Inhabited

def init : RState := { store := Storage.init, steps := [] }

inductive ROut
  /-- `transport.sendto(data, addr)` -/
  | send (data : Bytes) (dest : Addr)
  /-- `self.callback(rpt.id)` -/
  | callback (id : Val)
  deriving DecidableEq, Repr, Inhabited

inductive RErr
  | unicodeDecodeError | indexError | attributeError | snmpError
  deriving DecidableEq, Repr, Inhabited

inductive RRes
  | ok
  | err (e : RErr)
  deriving DecidableEq, Repr, Inhabited

/-- `self.step.get(ip)` read as a number (`None` and 0 are both "not started") -/
def stepOf (steps : List (List Nat × Nat)) (ip : List Nat) : Nat := (dictGet steps ip).getD 0

/-- `data[:len(x)] == x` -/
def hasPrefix (x data : Bytes) : Bool := data.take x.length == x

/-! ### the UTF-16 fields of the step-6 response -/

/-- 16-bit little-endian units; an odd trailing octet is "truncated data" -/
def utf16Units : Bytes → Option (List Nat)
  | [] => some []
  | [_] => Option.none
  | lo :: hi :: t => (utf16Units t).map (fun r => (lo + 256 * hi) :: r)

/-- surrogate pairs to code points; a lone or misplaced surrogate is an error -/
def utf16CodePoints : List Nat → Option (List Nat)
  | [] => some []
  | [u] => if 0xD800 ≤ u ∧ u < 0xE000 then Option.none else some [u]
  | u :: u2 :: t =>
    if 0xD800 ≤ u ∧ u < 0xDC00 then
      if 0xDC00 ≤ u2 ∧ u2 < 0xE000 then
        (utf16CodePoints t).map (fun r => (0x10000 + (u - 0xD800) * 1024 + (u2 - 0xDC00)) :: r)
      else Option.none
    else if 0xDC00 ≤ u ∧ u < 0xE000 then Option.none
    else (utf16CodePoints (u2 :: t)).map (fun r => u :: r)

/-- `.strip(b"\x00")` on the UTF-8 form = dropping leading and trailing U+0000 -/
def stripNul (l : List Nat) : List Nat :=
  ((l.dropWhile (· == 0)).reverse.dropWhile (· == 0)).reverse

/-- `data[lo:hi].decode("utf_16_le").encode("utf-8").strip(b"\x00").decode("utf-8")` (`none`: `UnicodeDecodeError`) -/
def decodeField (data : Bytes) (lo hi : Nat) : Option (List Nat) :=
  ((utf16Units ((data.drop lo).take (hi - lo))).bind utf16CodePoints).map stripNul

/-- `int.from_bytes(data[lo:hi], byteorder="little")` -/
def leInt (data : Bytes) (lo hi : Nat) : Nat :=
  ((data.drop lo).take (hi - lo)).foldr (fun b acc => b + 256 * acc) 0

/-! ### the steps

Every method `stepK` (K = 1 … 13) has the shape `if data[:len(R)] == R: <body>`; `table K = (R, n)`
gives the response prefix `R` it compares with and the value `n` its body writes to `self.step[ip]`.
`step0` has no condition, `step14` is `pass`, `step9` and `step15…` do not exist. -/

def table : Nat → Option (Bytes × Nat)
  | 1 => some (Gen.Proto.rdacStep0Response, 2)
  | 2 => some (Gen.Proto.rdacStep1Response, 3)
  | 3 => some (Gen.Proto.rdacStep2Response, 4)
  | 4 => some (Gen.Proto.rdacStep3Response, 5)
  | 5 => some (Gen.Proto.rdacStep4Response1, 6)
  | 6 => some (Gen.Proto.rdacStep4Response2, 7)
  | 7 => some (Gen.Proto.rdacStep6Response, 8)
  | 8 => some (Gen.Proto.rdacStep7Response1, 10)
  | 10 => some (Gen.Proto.rdacStep7Response2, 11)
  | 11 => some (Gen.Proto.rdacStep10Response1, 12)
  | 12 => some (Gen.Proto.rdacStep10Response2, 13)
  | 13 => some (Gen.Proto.rdacStep12Response, 14)
  | _ => Option.none

/-- the requests the body of `stepK` sends -/
def requestsOf : Nat → List Bytes
  | 1 => [Gen.Proto.rdacStep1Request]
  | 3 => [Gen.Proto.rdacStep3Request]
  | 4 => [Gen.Proto.rdacStep4Request1, Gen.Proto.rdacStep4Request2]
  | 6 => [Gen.Proto.rdacStep6Request1, Gen.Proto.rdacStep6Request2]
  | 7 => [Gen.Proto.rdacStep7Request]
  | 10 => [Gen.Proto.rdacStep10Request]
  | 12 => [Gen.Proto.rdacStep12Request1, Gen.Proto.rdacStep12Request2]
  | _ => []

/-- the response prefix step `n` waits for -/
def expected (n : Nat) : Option Bytes := (table n).map Prod.fst

/-- the step after `n` -/
def nextStep (n : Nat) : Nat := if n = 0 then 1 else ((table n).map Prod.snd).getD n

def sends (l : List Bytes) (a : Addr) : List ROut := l.map (fun d => .send d a)

/-- outcome of one `stepK` call: the storage, the value written to `self.step[ip]` (if any), the
outputs in order, and whether it raised -/
abbrev StepResult := Store × Option Nat × List ROut × RRes

/-- the body of `stepK` after its prefix comparison succeeded; `nxt` is the value it writes -/
def body (store : Store) (cur nxt : Nat) (a : Addr) (data : Bytes) (snmpFails : Bool) : StepResult :=
  match cur with
  | 3 =>
    -- self.storage.match_incoming(address=address, patch={"dmr_id": int.from_bytes(data[18:21], "little")})
    let st := Storage.step store (.matchIncoming a.val false [(.field .dmrId, .int (leInt data 18 21))])
    (st.1, some nxt, sends (requestsOf 3) a, .ok)
  | 6 =>
    match decodeField data 88 108, decodeField data 120 184, decodeField data 56 88, decodeField data 184 216 with
    | some callsign, some hardware, some firmware, some serial =>
      -- self.storage.save(self.storage.match_incoming(address=address), {...})
      let found := (Storage.step store (.matchIncoming a.val false [])).2
      let rpt := match found with | .obj i => some i | _ => Option.none
      let st := Storage.step store (.save rpt
        [(Key.ofName Gen.Proto.rdacFirmwareKey, .str firmware), (Key.ofName Gen.Proto.rdacHardwareKey, .str hardware),
         (Key.ofName Gen.Proto.rdacCallsignKey, .str callsign), (Key.ofName Gen.Proto.rdacSerialnoKey, .str serial)])
      (st.1, some nxt, sends (requestsOf 6) a, .ok)
    | _, _, _, _ => (store, Option.none, [], .err .unicodeDecodeError)
  | 10 =>
    -- hytera_repeater_mode = data[26]
    if data.length ≤ 26 then (store, Option.none, [], .err .indexError)
    else
      let tx := leInt data 29 33
      let rq := leInt data 33 37
      let st := Storage.step store (.matchIncoming a.val false
        [(Key.ofName Gen.Proto.rdacRxFreqKey, .int tx), (Key.ofName Gen.Proto.rdacTxFreqKey, .int rq)])
      (st.1, some nxt, sends (requestsOf 10) a, .ok)
  | 13 =>
    -- self.step[ip] = 14 comes first; rpt = match_incoming(address); rpt.read_snmp_values(); callback(rpt.id)
    if snmpFails then (store, some nxt, [], .err .snmpError)
    else
      match store.first (fun r => r.addressIn == a.val) with
      | some i =>
        match store.objs[i]? with
        | some r => (store, some nxt, [.callback r.id], .ok)
        | Option.none => (store, some nxt, [], .err .attributeError)
      | Option.none => (store, some nxt, [], .err .attributeError)   -- `None.read_snmp_values`
  | n => (store, some nxt, sends (requestsOf n) a, .ok)

/-- `getattr(self, "step%d" % cur)(data, addr)`, after the auto-create -/
def stepN (store : Store) (cur : Nat) (a : Addr) (data : Bytes) (snmpFails : Bool) : StepResult :=
  if cur = 0 then (store, some 1, sends [Gen.Proto.rdacStep0Request] a, .ok)
  else if cur = 14 then (store, Option.none, [], .ok)
  else
    match table cur with
    | Option.none => (store, Option.none, [], .err .attributeError)   -- no such method (`step9`, `step15`, …)
    | some (resp, nxt) =>
      if hasPrefix resp data then body store cur nxt a data snmpFails
      else (store, Option.none, [], .ok)

/-- `datagram_received(data, addr)` -/
def step (s : RState) (a : Addr) (data : Bytes) (snmpFails : Bool) : RState × List ROut × RRes :=
  -- self.storage.match_incoming(address=addr, auto_create=True)
  let store1 := (Storage.step s.store (.matchIncoming a.val true [])).1
  -- if not self.step.get(addr[0]): self.step[addr[0]] = 0
  let cur := stepOf s.steps a.ip
  let steps1 := if cur = 0 then dictSet s.steps a.ip 0 else s.steps
  if data.length = 1 ∧ cur ≠ 14 then
    -- protocol reset: self.step[ip] = 0; self.step0(data, addr)
    ({ store := store1, steps := dictSet (dictSet steps1 a.ip 0) a.ip 1 },
      sends [Gen.Proto.rdacStep0Request] a, .ok)
  else if data.length ≠ 1 ∧ cur = 14 then
    ({ store := store1, steps := steps1 }, [], .ok)
  else if data.length = 1 ∧ cur = 14 then
    -- `bytes(0x41)` is 65 zero octets
    ({ store := store1, steps := steps1 },
      (if data.head? = some 0 then sends [List.replicate 0x41 0] a else []), .ok)
  else
    let r := stepN store1 cur a data snmpFails
    ({ store := r.1, steps := (match r.2.1 with | some n => dictSet steps1 a.ip n | Option.none => steps1) },
      r.2.2.1, r.2.2.2)

structure RInput where
  address : Addr
  data : Bytes
  snmpFails : Bool
  deriving DecidableEq, Repr, Inhabited

def runFrom (s : RState) : List RInput → RState × List (List ROut × RRes)
  | [] => (s, [])
  | i :: t =>
    let r := step s i.address i.data i.snmpFails
    let rest := runFrom r.1 t
    (rest.1, (r.2.1, r.2.2) :: rest.2)

def run (h : List RInput) : RState × List (List ROut × RRes) := runFrom init h

end Dmr.Rdac
