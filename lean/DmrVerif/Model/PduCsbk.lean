import DmrVerif.Model.Layout
import DmrVerif.Gen.Elements

/-!
Model of `okdmr/dmrlib/etsi/layer3/elements/service_options.py` and
`okdmr/dmrlib/etsi/layer2/pdu/csbk.py` (`CSBK.__init__`, `as_bits`, `from_bits`).

`enc` mirrors `as_bits`, `dec` mirrors `from_bits`; they are written separately, offset by offset, so
that an encoder that ignores a field or a decoder that drops one is representable (and makes the
round-trip theorem false).  The CRC-CCITT computation belongs to C05: here it is a parameter
`f : Bits → Nat` (`f body = CRC16.calculate(body.tobytes(), CrcMasks.CSBK)`), and the constructor's
"crc ≤ 0 ⇒ calculate" rule is `Csbk.init`.
-/

namespace Dmr
open Dmr.Gen

/-! ## ServiceOptions -/

structure ServiceOptions where
  isEmergency : Bool
  isPrivacy : Bool
  /-- two reserved bits, kept verbatim -/
  reserved : Bits
  isBroadcast : Bool
  isOvcm : Bool
  priority : Nat
deriving DecidableEq, Repr, Inhabited

namespace ServiceOptions

/-- `as_bits` -/
def enc (s : ServiceOptions) : Bits :=
  [s.isEmergency, s.isPrivacy, getBit s.reserved 0, getBit s.reserved 1, s.isBroadcast, s.isOvcm]
    ++ natToBits 2 s.priority

/-- `from_bits` (asserts an 8-bit input; the constructor's priority assert cannot fail on 2 bits) -/
def dec (bs : Bits) : Except Err ServiceOptions :=
  if bs.length ≠ 8 then .error .assertionError else
  .ok { isEmergency := getBit bs 0, isPrivacy := getBit bs 1, reserved := slice bs 2 2,
        isBroadcast := getBit bs 4, isOvcm := getBit bs 5, priority := getField bs 6 2 }

/-- in-range field values: `priority_level` 0…3 (asserted by the constructor), two reserved bits -/
def WF (s : ServiceOptions) : Prop := s.priority < 2 ^ 2 ∧ s.reserved.length = 2

instance (s : ServiceOptions) : Decidable s.WF := by unfold WF; exact inferInstance

end ServiceOptions

/-! ## CSBK -/

/-- the opcode-specific parameters of a `CSBK` object.  Every other attribute of the Python object
keeps the constructor's default (the harness checks that on the real code); the opcode is determined
by the variant (`Csbk.opcode`). -/
inductive CsbkPayload where
  /-- BS_Dwn_Act -/
  | bsDwnAct (bsAddress sourceAddress : Nat)
  /-- UU_V_Req -/
  | uuVReq (serviceOptions : ServiceOptions) (targetAddress sourceAddress : Nat)
  /-- UU_Ans_Rsp -/
  | uuAnsRsp (serviceOptions : ServiceOptions) (answerResponse targetAddress sourceAddress : Nat)
  /-- NACK_Rsp -/
  | nackRsp (additionalInformationField sourceType serviceType reasonCode sourceAddress targetAddress : Nat)
  /-- Pre_CSBK -/
  | preamble (contentFollowsPreambles targetIsIndividual : Bool) (blocksToFollow targetAddress sourceAddress : Nat)
  /-- CT_CSBK -/
  | channelTiming (syncAge generation leaderIdentifier newLeader leaderDynamicIdentifier
      channelTimingOpcode sourceIdentifier sourceDynamicIdentifier : Nat)
  /-- Hytera IPSC sync (manufacturer specific, 8 raw octets) -/
  | hyteraIpscSync (rawData : Bytes)
  /-- C_ALOHA -/
  | aloha (tsccasSupport siteTimeslotSynchronized : Bool) (documentVersionControl : Nat)
      (tsccIsOffsetTiming tsActiveConnection : Bool) (alohaMask serviceFunction nrandWait : Nat)
      (tsccRegRequired : Bool) (tsccBackoff systemIdentityCode targetAddress : Nat)
  /-- C_BCAST -/
  | broadcast (announcementType : Nat) (broadcastParams : Bits) (tsccRegRequired : Bool)
      (tsccBackoff systemIdentityCode : Nat)
deriving DecidableEq, Repr, Inhabited

structure Csbk where
  lastBlock : Bool
  protectFlag : Bool
  fid : Nat
  crc : Nat
  payload : CsbkPayload
deriving DecidableEq, Repr, Inhabited

namespace Csbk

/-- opcode values (each is checked to be a defined `CsbkOpcodes` member in `Props/C03.lean`) -/
def opBsDwnAct : Nat := 56
def opUuVReq : Nat := 4
def opUuAnsRsp : Nat := 5
def opNackRsp : Nat := 38
def opPreamble : Nat := 61
def opChannelTiming : Nat := 7
def opHyteraIpscSync : Nat := 8
def opAloha : Nat := 25
def opBroadcast : Nat := 40

/-- `self.csbko.value` -/
def opcode : CsbkPayload → Nat
  | .bsDwnAct .. => opBsDwnAct
  | .uuVReq .. => opUuVReq
  | .uuAnsRsp .. => opUuAnsRsp
  | .nackRsp .. => opNackRsp
  | .preamble .. => opPreamble
  | .channelTiming .. => opChannelTiming
  | .hyteraIpscSync .. => opHyteraIpscSync
  | .aloha .. => opAloha
  | .broadcast .. => opBroadcast

/-- the opcode specific part of `as_bits()` (bits 16 … 79) -/
def payloadBits : CsbkPayload → Bits
  | .bsDwnAct bs src =>
    natToBits 16 0 ++ (natToBits 24 bs ++ natToBits 24 src)
  | .uuVReq so tgt src =>
    so.enc ++ (natToBits 8 0 ++ (natToBits 24 tgt ++ natToBits 24 src))
  | .uuAnsRsp so ar tgt src =>
    so.enc ++ (natToBits 8 ar ++ (natToBits 24 tgt ++ natToBits 24 src))
  | .nackRsp aif st svc rc src tgt =>
    -- bitarray([aif == Valid, source_type == MSSourced]) + service_type + reason_code + src + tgt
    [aif == 1, st == 1] ++ (natToBits 6 svc ++ (natToBits 8 rc ++ (natToBits 24 src ++ natToBits 24 tgt)))
  | .preamble cf ind btf tgt src =>
    [!cf, !ind] ++ (natToBits 6 0 ++ (natToBits 8 btf ++ (natToBits 24 tgt ++ natToBits 24 src)))
  | .channelTiming age gen lid nl ldi cto sid sdi =>
    natToBits 11 age ++ (natToBits 5 gen ++ (natToBits 20 lid ++ (natToBits 1 nl ++ (natToBits 2 ldi
      ++ ([getBit (natToBits 2 cto) 0] ++ (natToBits 20 sid ++ ([false] ++ (natToBits 2 sdi
      ++ [getBit (natToBits 2 cto) 1]))))))))
  | .hyteraIpscSync raw => bytesToBits raw
  | .aloha tsccas sync dvc off act mask sf nrand reg backoff sys tgt =>
    [false, tsccas, sync] ++ (natToBits 3 dvc ++ ([off, act] ++ (natToBits 5 mask ++ (natToBits 2 sf
      ++ (natToBits 4 nrand ++ ([reg] ++ (natToBits 4 backoff ++ (natToBits 16 sys ++ natToBits 24 tgt))))))))
  | .broadcast at' params reg backoff sys =>
    natToBits 5 at' ++ (slice params 0 14 ++ ([reg] ++ (natToBits 4 backoff ++ (natToBits 16 sys
      ++ slice params 14 24))))

/-- `as_bits()` without the trailing CRC -/
def body (p : Csbk) : Bits :=
  [p.lastBlock, p.protectFlag] ++ (natToBits 6 (opcode p.payload) ++ (natToBits 8 p.fid ++ payloadBits p.payload))

/-- `as_bits` -/
def enc (p : Csbk) : Bits := body p ++ natToBits 16 p.crc

/-- end of `__init__`: `if self.crc <= 0: self.calculate_crc_ccit()` (CRC over `as_bits()[0:80]`) -/
def init (f : Bits → Nat) (p : Csbk) : Csbk :=
  if p.crc = 0 then { p with crc := f (slice (enc p) 0 80) } else p

/-- `from_bits` -/
def dec (f : Bits → Nat) (bs : Bits) : Except Err Csbk :=
  if bs.length < 96 then .error .assertionError else
  let lb := getBit bs 0
  let pf := getBit bs 1
  match eCsbkOpcodes.dec (getField bs 2 6) with
  | .error e => .error e
  | .ok op =>
  match eFeatureSetIDs.dec (getField bs 8 8) with
  | .error e => .error e
  | .ok fid =>
  let crc := getField bs 80 16
  let ret := fun (pl : CsbkPayload) => (Except.ok (init f ⟨lb, pf, fid, crc, pl⟩) : Except Err Csbk)
  if op = opBsDwnAct then
    ret (.bsDwnAct (getField bs 32 24) (getField bs 56 24))
  else if op = opUuVReq then
    match ServiceOptions.dec (slice bs 16 8) with
    | .error e => .error e
    | .ok so => ret (.uuVReq so (getField bs 32 24) (getField bs 56 24))
  else if op = opUuAnsRsp then
    match ServiceOptions.dec (slice bs 16 8) with
    | .error e => .error e
    | .ok so =>
    match eAnswerResponse.dec (getField bs 24 8) with
    | .error e => .error e
    | .ok ar => ret (.uuAnsRsp so ar (getField bs 32 24) (getField bs 56 24))
  else if op = opNackRsp then
    match eAdditionalInformationField.dec (b2n (getBit bs 16)) with
    | .error e => .error e
    | .ok aif =>
    match eSourceType.dec (b2n (getBit bs 17)) with
    | .error e => .error e
    | .ok st =>
    match eCsbkOpcodes.dec (getField bs 18 6) with
    | .error e => .error e
    | .ok svc =>
    match eReasonCode.dec (getField bs 24 8) with
    | .error e => .error e
    | .ok rc => ret (.nackRsp aif st svc rc (getField bs 32 24) (getField bs 56 24))
  else if op = opPreamble then
    ret (.preamble (!getBit bs 16) (!getBit bs 17) (getField bs 24 8) (getField bs 32 24) (getField bs 56 24))
  else if op = opChannelTiming then
    match eDynamicIdentifier.dec (getField bs 53 2) with
    | .error e => .error e
    | .ok ldi =>
    match eDynamicIdentifier.dec (getField bs 77 2) with
    | .error e => .error e
    | .ok sdi =>
    -- the constructor converts the integer channel_timing_opcode
    match eChannelTimingOpcode.dec (bitsToNat [getBit bs 55, getBit bs 79]) with
    | .error e => .error e
    | .ok cto =>
    ret (.channelTiming (getField bs 16 11) (getField bs 27 5) (getField bs 32 20) (b2n (getBit bs 52))
          ldi cto (getField bs 56 20) sdi)
  else if op = opHyteraIpscSync then
    ret (.hyteraIpscSync (bitsToBytes (slice bs 16 64)))
  else if op = opBroadcast then
    match eAnnouncementType.dec (getField bs 16 5) with
    | .error e => .error e
    | .ok at' =>
    ret (.broadcast at' (slice bs 21 14 ++ slice bs 56 24) (getBit bs 35) (getField bs 36 4) (getField bs 40 16))
  else if op = opAloha then
    -- the constructor converts the integer service_function
    match eRandomAccessServiceFunction.dec (getField bs 29 2) with
    | .error e => .error e
    | .ok sf =>
    ret (.aloha (getBit bs 17) (getBit bs 18) (getField bs 19 3) (getBit bs 22) (getBit bs 23)
          (getField bs 24 5) sf (getField bs 31 4) (getBit bs 35) (getField bs 36 4) (getField bs 40 16)
          (getField bs 56 24))
  else .error .notImplemented

/-- in-range field values of the opcode specific parameters -/
def CsbkPayload.WF : CsbkPayload → Prop
  | .bsDwnAct bs src => bs < 2 ^ 24 ∧ src < 2 ^ 24
  | .uuVReq so tgt src => so.WF ∧ tgt < 2 ^ 24 ∧ src < 2 ^ 24
  | .uuAnsRsp so ar tgt src => so.WF ∧ eAnswerResponse.defined ar = true ∧ tgt < 2 ^ 24 ∧ src < 2 ^ 24
  | .nackRsp aif st svc rc src tgt =>
    eAdditionalInformationField.defined aif = true ∧ eSourceType.defined st = true ∧
    eCsbkOpcodes.defined svc = true ∧ eReasonCode.defined rc = true ∧ src < 2 ^ 24 ∧ tgt < 2 ^ 24
  | .preamble _ _ btf tgt src => btf < 2 ^ 8 ∧ tgt < 2 ^ 24 ∧ src < 2 ^ 24
  | .channelTiming age gen lid nl ldi cto sid sdi =>
    age < 2 ^ 11 ∧ gen < 2 ^ 5 ∧ lid < 2 ^ 20 ∧ nl < 2 ^ 1 ∧ eDynamicIdentifier.defined ldi = true ∧
    eChannelTimingOpcode.defined cto = true ∧ sid < 2 ^ 20 ∧ eDynamicIdentifier.defined sdi = true
  | .hyteraIpscSync raw => raw.length = 8 ∧ isBytes raw = true
  | .aloha _ _ dvc _ _ mask sf nrand _ backoff sys tgt =>
    dvc < 2 ^ 3 ∧ mask < 2 ^ 5 ∧ eRandomAccessServiceFunction.defined sf = true ∧ nrand < 2 ^ 4 ∧
    backoff < 2 ^ 4 ∧ sys < 2 ^ 16 ∧ tgt < 2 ^ 24
  | .broadcast at' params _ backoff sys =>
    eAnnouncementType.defined at' = true ∧ params.length = 38 ∧ backoff < 2 ^ 4 ∧ sys < 2 ^ 16

instance (pl : CsbkPayload) : Decidable (CsbkPayload.WF pl) := by
  cases pl <;> (unfold CsbkPayload.WF; exact inferInstance)

/-- a CSBK built from in-range field values: feature set a defined member, 16-bit CRC, payload in range -/
def WF (p : Csbk) : Prop :=
  eFeatureSetIDs.defined p.fid = true ∧ p.crc < 2 ^ 16 ∧ CsbkPayload.WF p.payload

instance (p : Csbk) : Decidable p.WF := by unfold WF; exact inferInstance

end Csbk
end Dmr
