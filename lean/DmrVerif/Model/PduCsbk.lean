import DmrVerif.Model.Layout
import DmrVerif.Gen.Elements

/-!
Model of `okdmr/dmrlib/etsi/layer3/elements/service_options.py` and
`okdmr/dmrlib/etsi/layer2/pdu/csbk.py` (`CSBK.__init__`, `as_bits`, `from_bits`).

`enc` mirrors `as_bits`, `dec` mirrors `from_bits`; they are written separately, offset by offset, so
that an encoder that ignores a field or a decoder that drops one is representable (and makes the
round-trip theorem false).  The CRC-CCITT computation belongs to C05: here it is a parameter
`f : Bits → Nat` (`f body = CRC16.calculate(body.tobytes(), CrcMasks.CSBK)`), and the constructor's
"crc ≤ 0 ⇒ calculate" rule is `Csbk.init`.
-/

namespace Dmr
open Dmr.Gen

/-! ## ServiceOptions -/

structure ServiceOptions where
  isEmergency : Bool
  isPrivacy : Bool
  /-- two reserved bits, kept verbatim -/
  reserved : Bits
  isBroadcast : Bool
  isOvcm : Bool
  priority : Nat
deriving DecidableEq, Repr, Inhabited

namespace ServiceOptions

/-- `as_bits` -/
def enc (s : ServiceOptions) : Bits :=
  [s.isEmergency, s.isPrivacy, getBit s.reserved 0, getBit s.reserved 1, s.isBroadcast, s.isOvcm]
    ++ natToBits 2 s.priority

/-- `from_bits` (asserts an 8-bit input; the constructor's priority assert cannot fail on 2 bits) -/
def dec (bs : Bits) : Except Err ServiceOptions :=
  if bs.length ≠ 8 then .error .assertionError else
  .ok { isEmergency := getBit bs 0, isPrivacy := getBit bs 1, reserved := slice bs 2 2,
        isBroadcast := getBit bs 4, isOvcm := getBit bs 5, priority := getField bs 6 2 }

/-- in-range field values: `priority_level` 0…3 (asserted by the constructor), two reserved bits -/
def WF (s : ServiceOptions) : Prop := s.priority < 4 ∧ s.reserved.length = 2

instance (s : ServiceOptions) : Decidable s.WF := by unfold WF; exact inferInstance

end ServiceOptions

/-! ## CSBK -/

/-- the attributes of a `CSBK` object (all of them; the ones an opcode does not use keep the
constructor's defaults, exactly as in Python) -/
structure Csbk where
  lastBlock : Bool
  protectFlag : Bool
  csbko : Nat
  fid : Nat
  crc : Nat
  bsAddress : Nat
  sourceAddress : Nat
  serviceOptions : Option ServiceOptions
  targetAddress : Nat
  answerResponse : Option Nat
  additionalInformationField : Option Nat
  sourceType : Option Nat
  serviceType : Option Nat
  reasonCode : Option Nat
  contentFollowsPreambles : Bool
  targetIsIndividual : Bool
  blocksToFollow : Nat
  syncAge : Nat
  generation : Nat
  leaderIdentifier : Nat
  newLeader : Nat
  leaderDynamicIdentifier : Nat
  channelTimingOpcode : Nat
  sourceIdentifier : Nat
  sourceDynamicIdentifier : Nat
  rawData : Bytes
  tsccasSupport : Bool
  siteTimeslotSynchronized : Bool
  documentVersionControl : Nat
  tsccIsOffsetTiming : Bool
  tsActiveConnection : Bool
  alohaMask : Nat
  serviceFunction : Nat
  nrandWait : Nat
  tsccRegRequired : Bool
  tsccBackoff : Nat
  systemIdentityCode : Nat
  broadcastParams : Bits
  announcementType : Nat
deriving DecidableEq, Repr, Inhabited

namespace Csbk

/-- opcode values (checked against the extracted `CsbkOpcodes` in `Lemmas/PduCsbk.lean`) -/
def opBsDwnAct : Nat := 56
def opUuVReq : Nat := 4
def opUuAnsRsp : Nat := 5
def opNackRsp : Nat := 38
def opPreamble : Nat := 61
def opChannelTiming : Nat := 7
def opHyteraIpscSync : Nat := 8
def opAloha : Nat := 25
def opBroadcast : Nat := 40

/-- the constructor's defaults for everything but the four leading parameters -/
def base (lb pf : Bool) (op fid crc : Nat) : Csbk :=
  { lastBlock := lb, protectFlag := pf, csbko := op, fid := fid, crc := crc,
    bsAddress := 0, sourceAddress := 0, serviceOptions := none, targetAddress := 0,
    answerResponse := none, additionalInformationField := none, sourceType := none,
    serviceType := none, reasonCode := none, contentFollowsPreambles := false,
    targetIsIndividual := false, blocksToFollow := 0, syncAge := 0, generation := 0,
    leaderIdentifier := 0, newLeader := 0, leaderDynamicIdentifier := 0, channelTimingOpcode := 0,
    sourceIdentifier := 0, sourceDynamicIdentifier := 0, rawData := [], tsccasSupport := false,
    siteTimeslotSynchronized := false, documentVersionControl := 3, tsccIsOffsetTiming := false,
    tsActiveConnection := false, alohaMask := 0, serviceFunction := 0, nrandWait := 0,
    tsccRegRequired := false, tsccBackoff := 1, systemIdentityCode := 0, broadcastParams := [],
    announcementType := 7 }

/-- `x.as_bits()` of an optional `ServiceOptions` (Python raises AttributeError on `None`; the
well-formedness predicate excludes that case) -/
def soBits (s : Option ServiceOptions) : Bits :=
  match s with
  | some s => s.enc
  | none => []

/-- `as_bits()` without the trailing CRC: header + opcode specific part -/
def body (p : Csbk) : Bits :=
  [p.lastBlock, p.protectFlag] ++ (natToBits 6 p.csbko ++ (natToBits 8 p.fid ++
  (if p.csbko = opBsDwnAct then
    natToBits 16 0 ++ (natToBits 24 p.bsAddress ++ natToBits 24 p.sourceAddress)
  else if p.csbko = opUuVReq then
    soBits p.serviceOptions ++ (natToBits 8 0 ++ (natToBits 24 p.targetAddress ++ natToBits 24 p.sourceAddress))
  else if p.csbko = opUuAnsRsp then
    soBits p.serviceOptions ++ (natToBits 8 (p.answerResponse.getD 0)
      ++ (natToBits 24 p.targetAddress ++ natToBits 24 p.sourceAddress))
  else if p.csbko = opNackRsp then
    [p.additionalInformationField == some 1, p.sourceType == some 1]
      ++ (natToBits 6 (p.serviceType.getD 0) ++ (natToBits 8 (p.reasonCode.getD 0)
      ++ (natToBits 24 p.sourceAddress ++ natToBits 24 p.targetAddress)))
  else if p.csbko = opPreamble then
    [!p.contentFollowsPreambles, !p.targetIsIndividual]
      ++ (natToBits 6 0 ++ (natToBits 8 p.blocksToFollow
      ++ (natToBits 24 p.targetAddress ++ natToBits 24 p.sourceAddress)))
  else if p.csbko = opChannelTiming then
    natToBits 11 p.syncAge ++ (natToBits 5 p.generation ++ (natToBits 20 p.leaderIdentifier
      ++ (natToBits 1 p.newLeader ++ (natToBits 2 p.leaderDynamicIdentifier
      ++ ([getBit (natToBits 2 p.channelTimingOpcode) 0] ++ (natToBits 20 p.sourceIdentifier
      ++ ([false] ++ (natToBits 2 p.sourceDynamicIdentifier
      ++ [getBit (natToBits 2 p.channelTimingOpcode) 1]))))))))
  else if p.csbko = opHyteraIpscSync then
    bytesToBits p.rawData
  else if p.csbko = opAloha then
    [false, p.tsccasSupport, p.siteTimeslotSynchronized] ++ (natToBits 3 p.documentVersionControl
      ++ ([p.tsccIsOffsetTiming, p.tsActiveConnection] ++ (natToBits 5 p.alohaMask
      ++ (natToBits 2 p.serviceFunction ++ (natToBits 4 p.nrandWait ++ ([p.tsccRegRequired]
      ++ (natToBits 4 p.tsccBackoff ++ (natToBits 16 p.systemIdentityCode
      ++ natToBits 24 p.targetAddress))))))))
  else if p.csbko = opBroadcast then
    natToBits 5 p.announcementType ++ (slice p.broadcastParams 0 14 ++ ([p.tsccRegRequired]
      ++ (natToBits 4 p.tsccBackoff ++ (natToBits 16 p.systemIdentityCode
      ++ slice p.broadcastParams 14 24))))
  else [])))

/-- `as_bits` -/
def enc (p : Csbk) : Bits := body p ++ natToBits 16 p.crc

/-- end of `__init__`: `if self.crc <= 0: self.calculate_crc_ccit()` (CRC over `as_bits()[0:80]`) -/
def init (f : Bits → Nat) (p : Csbk) : Csbk :=
  if p.crc = 0 then { p with crc := f (slice (enc p) 0 80) } else p

/-- `from_bits` -/
def dec (f : Bits → Nat) (bs : Bits) : Except Err Csbk :=
  if bs.length < 96 then .error .assertionError else
  let lb := getBit bs 0
  let pf := getBit bs 1
  match eCsbkOpcodes.dec (getField bs 2 6) with
  | .error e => .error e
  | .ok op =>
  match eFeatureSetIDs.dec (getField bs 8 8) with
  | .error e => .error e
  | .ok fid =>
  let crc := getField bs 80 16
  let b := base lb pf op fid crc
  if op = opBsDwnAct then
    .ok (init f { b with bsAddress := getField bs 32 24, sourceAddress := getField bs 56 24 })
  else if op = opUuVReq then
    match ServiceOptions.dec (slice bs 16 8) with
    | .error e => .error e
    | .ok so =>
    .ok (init f { b with serviceOptions := some so, targetAddress := getField bs 32 24,
                           sourceAddress := getField bs 56 24 })
  else if op = opUuAnsRsp then
    match ServiceOptions.dec (slice bs 16 8) with
    | .error e => .error e
    | .ok so =>
    match eAnswerResponse.dec (getField bs 24 8) with
    | .error e => .error e
    | .ok ar =>
    .ok (init f { b with serviceOptions := some so, answerResponse := some ar,
                           targetAddress := getField bs 32 24, sourceAddress := getField bs 56 24 })
  else if op = opNackRsp then
    match eAdditionalInformationField.dec (b2n (getBit bs 16)) with
    | .error e => .error e
    | .ok aif =>
    match eSourceType.dec (b2n (getBit bs 17)) with
    | .error e => .error e
    | .ok st =>
    match eCsbkOpcodes.dec (getField bs 18 6) with
    | .error e => .error e
    | .ok svc =>
    match eReasonCode.dec (getField bs 24 8) with
    | .error e => .error e
    | .ok rc =>
    .ok (init f { b with additionalInformationField := some aif, sourceType := some st,
                           serviceType := some svc, reasonCode := some rc,
                           sourceAddress := getField bs 32 24, targetAddress := getField bs 56 24 })
  else if op = opPreamble then
    .ok (init f { b with contentFollowsPreambles := !getBit bs 16, targetIsIndividual := !getBit bs 17,
                           blocksToFollow := getField bs 24 8, targetAddress := getField bs 32 24,
                           sourceAddress := getField bs 56 24 })
  else if op = opChannelTiming then
    match eDynamicIdentifier.dec (getField bs 53 2) with
    | .error e => .error e
    | .ok ldi =>
    match eChannelTimingOpcode.dec (bitsToNat [getBit bs 55, getBit bs 79]) with
    | .error e => .error e
    | .ok cto =>
    match eDynamicIdentifier.dec (getField bs 77 2) with
    | .error e => .error e
    | .ok sdi =>
    .ok (init f { b with syncAge := getField bs 16 11, generation := getField bs 27 5,
                           leaderIdentifier := getField bs 32 20, newLeader := b2n (getBit bs 52),
                           leaderDynamicIdentifier := ldi, channelTimingOpcode := cto,
                           sourceIdentifier := getField bs 56 20, sourceDynamicIdentifier := sdi })
  else if op = opHyteraIpscSync then
    .ok (init f { b with rawData := bitsToBytes (slice bs 16 64) })
  else if op = opBroadcast then
    match eAnnouncementType.dec (getField bs 16 5) with
    | .error e => .error e
    | .ok at' =>
    .ok (init f { b with announcementType := at', tsccRegRequired := getBit bs 35,
                           tsccBackoff := getField bs 36 4, systemIdentityCode := getField bs 40 16,
                           broadcastParams := slice bs 21 14 ++ slice bs 56 24 })
  else if op = opAloha then
    match eRandomAccessServiceFunction.dec (getField bs 29 2) with
    | .error e => .error e
    | .ok sf =>
    .ok (init f { b with tsccasSupport := getBit bs 17, siteTimeslotSynchronized := getBit bs 18,
                           documentVersionControl := getField bs 19 3, tsccIsOffsetTiming := getBit bs 22,
                           tsActiveConnection := getBit bs 23, alohaMask := getField bs 24 5,
                           serviceFunction := sf, nrandWait := getField bs 31 4,
                           tsccRegRequired := getBit bs 35, tsccBackoff := getField bs 36 4,
                           systemIdentityCode := getField bs 40 16, targetAddress := getField bs 56 24 })
  else .error .notImplemented

/-- the nine opcodes with a PDU layout in the library -/
def implemented : List Nat :=
  [opBsDwnAct, opUuVReq, opUuAnsRsp, opNackRsp, opPreamble, opChannelTiming, opHyteraIpscSync,
   opAloha, opBroadcast]

/-- in-range field values for the opcode of `p`, every attribute the opcode does not carry at the
constructor's default (i.e. `p` is what `CSBK(csbko=…, <the opcode's parameters>)` builds) -/
def WF (p : Csbk) : Prop :=
  eFeatureSetIDs.defined p.fid = true ∧ p.crc < 2 ^ 16 ∧
  ( (p.csbko = opBsDwnAct ∧ p.bsAddress < 2 ^ 24 ∧ p.sourceAddress < 2 ^ 24 ∧
      p = { base p.lastBlock p.protectFlag p.csbko p.fid p.crc with
            bsAddress := p.bsAddress, sourceAddress := p.sourceAddress })
  ∨ (p.csbko = opUuVReq ∧ optIs p.serviceOptions ServiceOptions.WF ∧
      p.targetAddress < 2 ^ 24 ∧ p.sourceAddress < 2 ^ 24 ∧
      p = { base p.lastBlock p.protectFlag p.csbko p.fid p.crc with
            serviceOptions := p.serviceOptions, targetAddress := p.targetAddress,
            sourceAddress := p.sourceAddress })
  ∨ (p.csbko = opUuAnsRsp ∧ optIs p.serviceOptions ServiceOptions.WF ∧
      optIs p.answerResponse (fun v => eAnswerResponse.defined v = true) ∧
      p.targetAddress < 2 ^ 24 ∧ p.sourceAddress < 2 ^ 24 ∧
      p = { base p.lastBlock p.protectFlag p.csbko p.fid p.crc with
            serviceOptions := p.serviceOptions, answerResponse := p.answerResponse,
            targetAddress := p.targetAddress, sourceAddress := p.sourceAddress })
  ∨ (p.csbko = opNackRsp ∧
      optIs p.additionalInformationField (fun v => eAdditionalInformationField.defined v = true) ∧
      optIs p.sourceType (fun v => eSourceType.defined v = true) ∧
      optIs p.serviceType (fun v => eCsbkOpcodes.defined v = true) ∧
      optIs p.reasonCode (fun v => eReasonCode.defined v = true) ∧
      p.targetAddress < 2 ^ 24 ∧ p.sourceAddress < 2 ^ 24 ∧
      p = { base p.lastBlock p.protectFlag p.csbko p.fid p.crc with
            additionalInformationField := p.additionalInformationField, sourceType := p.sourceType,
            serviceType := p.serviceType, reasonCode := p.reasonCode,
            targetAddress := p.targetAddress, sourceAddress := p.sourceAddress })
  ∨ (p.csbko = opPreamble ∧ p.blocksToFollow < 2 ^ 8 ∧
      p.targetAddress < 2 ^ 24 ∧ p.sourceAddress < 2 ^ 24 ∧
      p = { base p.lastBlock p.protectFlag p.csbko p.fid p.crc with
            contentFollowsPreambles := p.contentFollowsPreambles,
            targetIsIndividual := p.targetIsIndividual, blocksToFollow := p.blocksToFollow,
            targetAddress := p.targetAddress, sourceAddress := p.sourceAddress })
  ∨ (p.csbko = opChannelTiming ∧ p.syncAge < 2 ^ 11 ∧ p.generation < 2 ^ 5 ∧
      p.leaderIdentifier < 2 ^ 20 ∧ p.newLeader < 2 ∧
      eDynamicIdentifier.defined p.leaderDynamicIdentifier = true ∧
      eChannelTimingOpcode.defined p.channelTimingOpcode = true ∧
      p.sourceIdentifier < 2 ^ 20 ∧ eDynamicIdentifier.defined p.sourceDynamicIdentifier = true ∧
      p = { base p.lastBlock p.protectFlag p.csbko p.fid p.crc with
            syncAge := p.syncAge, generation := p.generation, leaderIdentifier := p.leaderIdentifier,
            newLeader := p.newLeader, leaderDynamicIdentifier := p.leaderDynamicIdentifier,
            channelTimingOpcode := p.channelTimingOpcode, sourceIdentifier := p.sourceIdentifier,
            sourceDynamicIdentifier := p.sourceDynamicIdentifier })
  ∨ (p.csbko = opHyteraIpscSync ∧ p.rawData.length = 8 ∧ isBytes p.rawData = true ∧
      p = { base p.lastBlock p.protectFlag p.csbko p.fid p.crc with rawData := p.rawData })
  ∨ (p.csbko = opAloha ∧ p.documentVersionControl < 2 ^ 3 ∧ p.alohaMask < 2 ^ 5 ∧
      eRandomAccessServiceFunction.defined p.serviceFunction = true ∧ p.nrandWait < 2 ^ 4 ∧
      p.tsccBackoff < 2 ^ 4 ∧ p.systemIdentityCode < 2 ^ 16 ∧ p.targetAddress < 2 ^ 24 ∧
      p = { base p.lastBlock p.protectFlag p.csbko p.fid p.crc with
            tsccasSupport := p.tsccasSupport, siteTimeslotSynchronized := p.siteTimeslotSynchronized,
            documentVersionControl := p.documentVersionControl,
            tsccIsOffsetTiming := p.tsccIsOffsetTiming, tsActiveConnection := p.tsActiveConnection,
            alohaMask := p.alohaMask, serviceFunction := p.serviceFunction, nrandWait := p.nrandWait,
            tsccRegRequired := p.tsccRegRequired, tsccBackoff := p.tsccBackoff,
            systemIdentityCode := p.systemIdentityCode, targetAddress := p.targetAddress })
  ∨ (p.csbko = opBroadcast ∧ eAnnouncementType.defined p.announcementType = true ∧
      p.tsccBackoff < 2 ^ 4 ∧ p.systemIdentityCode < 2 ^ 16 ∧ p.broadcastParams.length = 38 ∧
      p = { base p.lastBlock p.protectFlag p.csbko p.fid p.crc with
            announcementType := p.announcementType, tsccRegRequired := p.tsccRegRequired,
            tsccBackoff := p.tsccBackoff, systemIdentityCode := p.systemIdentityCode,
            broadcastParams := p.broadcastParams }))

instance (p : Csbk) : Decidable p.WF := by unfold WF; exact inferInstance

end Csbk
end Dmr
