import DmrVerif.Model.Tms
import DmrVerif.Gen.Ars

/-!
# Model of `okdmr/dmrlib/motorola/automatic_registration_service.py` (property C16, ARS half)

Line-by-line model of `FirstHeader`, `ResponseSecondHeader`, `RegistrationRequestHeader`,
`AutomaticRegistrationService` (`encode_len_val`, `read_len_val`, `get_payload`, `from_bytes`,
`as_bytes`), default `endian="big"`.  Identifiers and the password are the UTF-8 *byte strings* of the
Python `str` fields: `str.encode("utf-8")` / `bytes.decode("utf-8")` of the runtime are trusted to be
inverse bijections between `str` and the well-formed UTF-8 byte strings; `validUtf8` is the
well-formedness test of the Unicode standard (Table 3-7), which is what CPython's strict decoder
accepts, so that the model raises `UnicodeDecodeError` where the code does.
-/

namespace Dmr.Ars
open Dmr Dmr.Tms

/-! ### enumerations (values and lookups from `Gen/Ars.lean`) -/

inductive PduType
  | devReg | devDereg | userReg | userDereg | userRegResp | query | response
  deriving DecidableEq, Repr

def PduType.idx : PduType → Nat
  | .devReg => 0 | .devDereg => 1 | .userReg => 2 | .userDereg => 3 | .userRegResp => 4
  | .query => 5 | .response => 6

def PduType.ofIdx : Nat → Option PduType
  | 0 => some .devReg | 1 => some .devDereg | 2 => some .userReg | 3 => some .userDereg
  | 4 => some .userRegResp | 5 => some .query | 6 => some .response | _ => none

def PduType.val (t : PduType) : Nat := Gen.Ars.pduTypeVal.getD t.idx 0

/-- `ARSPDUType(v)`; `none` = ValueError -/
def PduType.ofCode (v : Nat) : Option PduType :=
  (Gen.Ars.pduTypeGraph.getD v none).bind PduType.ofIdx

inductive Event
  | dontCare | initial | refresh
  deriving DecidableEq, Repr

def Event.idx : Event → Nat
  | .dontCare => 0 | .initial => 1 | .refresh => 2

def Event.ofIdx : Nat → Option Event
  | 0 => some .dontCare | 1 => some .initial | 2 => some .refresh | _ => none

def Event.val (e : Event) : Nat := Gen.Ars.eventVal.getD e.idx 0

def Event.ofCode (v : Nat) : Option Event := (Gen.Ars.eventGraph.getD v none).bind Event.ofIdx

inductive Enc
  | utf8
  deriving DecidableEq, Repr

def Enc.idx : Enc → Nat
  | .utf8 => 0

def Enc.ofIdx : Nat → Option Enc
  | 0 => some .utf8 | _ => none

def Enc.val (e : Enc) : Nat := Gen.Ars.encodingVal.getD e.idx 0

def Enc.ofCode (v : Nat) : Option Enc := (Gen.Ars.encodingGraph.getD v none).bind Enc.ofIdx

inductive Failure
  | notAuthorized | userIdNotValid | validationTimeout | transmissionFailure
  deriving DecidableEq, Repr

def Failure.idx : Failure → Nat
  | .notAuthorized => 0 | .userIdNotValid => 1 | .validationTimeout => 2 | .transmissionFailure => 3

def Failure.ofIdx : Nat → Option Failure
  | 0 => some .notAuthorized | 1 => some .userIdNotValid | 2 => some .validationTimeout
  | 3 => some .transmissionFailure | _ => none

def Failure.val (f : Failure) : Nat := Gen.Ars.failureVal.getD f.idx 0

/-- `FailureReason(v)` (with `_missing_`) -/
def Failure.ofCode (v : Nat) : Option Failure := (Gen.Ars.failureGraph.getD v none).bind Failure.ofIdx

/-! ### well-formed UTF-8 (Unicode Table 3-7) -/

def isCont (b : Nat) : Bool := decide (0x80 ≤ b) && decide (b ≤ 0xBF)

def validUtf8 : Bytes → Bool
  | [] => true
  | b0 :: rest =>
    if b0 < 0x80 then validUtf8 rest
    else if 0xC2 ≤ b0 ∧ b0 ≤ 0xDF then
      match rest with
      | b1 :: r => isCont b1 && validUtf8 r
      | _ => false
    else if 0xE0 ≤ b0 ∧ b0 ≤ 0xEF then
      match rest with
      | b1 :: b2 :: r =>
        (if b0 = 0xE0 then decide (0xA0 ≤ b1) && decide (b1 ≤ 0xBF)
         else if b0 = 0xED then decide (0x80 ≤ b1) && decide (b1 ≤ 0x9F)
         else isCont b1) && isCont b2 && validUtf8 r
      | _ => false
    else if 0xF0 ≤ b0 ∧ b0 ≤ 0xF4 then
      match rest with
      | b1 :: b2 :: b3 :: r =>
        (if b0 = 0xF0 then decide (0x90 ≤ b1) && decide (b1 ≤ 0xBF)
         else if b0 = 0xF4 then decide (0x80 ≤ b1) && decide (b1 ≤ 0x8F)
         else isCont b1) && isCont b2 && isCont b3 && validUtf8 r
      | _ => false
    else false

/-! ### headers -/

structure FirstHeader where
  more : Bool
  ack : Bool
  priority : Bool
  ctl : Bool
  ptype : PduType
  deriving DecidableEq, Repr

/-- `FirstHeader.as_bytes` -/
def headerByte (h : FirstHeader) : Except Err Nat :=
  if h.ptype.val ≥ 16 then .error .overflow else
  .ok (128 * h.more.toNat + 64 * h.ack.toNat + 32 * h.priority.toNat + 16 * h.ctl.toNat + h.ptype.val)

/-- `FirstHeader.from_bytes` on one octet -/
def headerOfByte (b : Nat) : Except Err FirstHeader :=
  match PduType.ofCode (b % 16) with
  | none => .error .value
  | some t => .ok ⟨b / 128 % 2 == 1, b / 64 % 2 == 1, b / 32 % 2 == 1, b / 16 % 2 == 1, t⟩

structure Rrh where
  event : Event
  enc : Enc
  deriving DecidableEq, Repr

/-- `RegistrationRequestHeader.as_bytes`: `bytes([(event << 5) + encoding])` -/
def rrhBytes (r : Rrh) : Except Err Bytes :=
  let v := 32 * r.event.val + r.enc.val
  if v ≥ 256 then .error .value else .ok [v]

/-- `RegistrationRequestHeader.from_bytes` on one octet (bit 7 is ignored) -/
def rrhOfByte (b : Nat) : Except Err Rrh :=
  match Event.ofCode (b / 32 % 4) with
  | none => .error .value
  | some ev =>
    match Enc.ofCode (b % 32) with
    | none => .error .value
    | some en => .ok ⟨ev, en⟩

/-- `ResponseSecondHeader`; `ctx` is `first_header.is_acknowledged` of the header given to
`context()` (`none`: `context` was never called) -/
structure Rsh where
  failure : Option Failure
  refresh : Option Nat
  ctx : Option Bool
  deriving DecidableEq, Repr

/-- the constructor's `assert failure_reason or refresh_time` (enum members are truthy) -/
def Rsh.ctorOk (failure : Option Failure) (refresh : Option Nat) : Bool :=
  failure.isSome || (match refresh with | some r => r != 0 | none => false)

/-- `ResponseSecondHeader.as_bytes` -/
def rshBytes (r : Rsh) : Except Err Bytes :=
  let isFailure := match r.ctx with | none => true | some a => a
  match isFailure, r.failure, r.refresh with
  | true, some f, _ => if f.val ≥ 256 then .error .value else .ok [f.val]
  | false, _, some rt => if rt = 0 then .error .value else if rt ≥ 256 then .error .value else .ok [rt]
  | _, _, _ => .error .value

/-- `ResponseSecondHeader.from_bytes(octet).context(header)` -/
def rshOfByte (b : Nat) (ack : Bool) : Except Err Rsh :=
  match Failure.ofCode (b % 128) with
  | none => .error .value
  | some f => .ok ⟨some f, some (b % 128), some ack⟩

/-! ### the message -/

structure Msg where
  header : FirstHeader
  rrh : Option Rrh
  rsh : Option Rsh
  /-- UTF-8 bytes of the `str`; `none` = Python `None` -/
  device : Option Bytes
  user : Option Bytes
  password : Option Bytes
  csbk : Bool
  deriving DecidableEq, Repr

/-- `encode_len_val` -/
def lv : Option Bytes → Except Err Bytes
  | none => .ok [0]
  | some [] => .ok [0]
  | some d => if d.length ≥ 256 then .error .overflow else .ok (d.length :: d)

/-- `read_len_val(data, idx)` -/
def readLv (data : Bytes) (idx : Nat) : Except Err (Nat × Bytes) :=
  match data[idx]? with
  | none => .error .index
  | some l => .ok (idx + 1 + l, slice data (idx + 1) (idx + 1 + l))

def PduType.isReg : PduType → Bool
  | .devReg | .userReg => true
  | _ => false

/-- what `get_payload` appends to the first header, before the CSBK trailer -/
def bodyBytes (p : Msg) : Except Err Bytes :=
  match p.header.ptype with
  | .devReg | .userReg =>
    match (if p.header.more then
             (match p.rrh with | none => Except.error Err.attribute | some r => rrhBytes r)
           else .ok []) with
    | .error e => .error e
    | .ok r =>
      match lv p.device with
      | .error e => .error e
      | .ok d =>
        match lv p.user with
        | .error e => .error e
        | .ok u =>
          match lv p.password with
          | .error e => .error e
          | .ok w => .ok (r ++ d ++ u ++ w)
  | .response =>
    if p.header.more then
      match p.rsh with
      | none => .error .attribute
      | some r => rshBytes r
    else .ok []
  | .query | .devDereg => .ok []
  | .userDereg | .userRegResp => .error .value     -- "not implemented in ARS.get_payload"

/-- `get_payload` -/
def payload (p : Msg) : Except Err Bytes :=
  match headerByte p.header with
  | .error e => .error e
  | .ok hb =>
    match bodyBytes p with
    | .error e => .error e
    | .ok b => .ok (hb :: b ++ (if p.csbk then Gen.Ars.csbkEnd else []))

/-- `AutomaticRegistrationService.as_bytes` -/
def asBytes (p : Msg) : Except Err Bytes :=
  match payload p with
  | .error e => .error e
  | .ok pl =>
    if pl.length ≥ 65536 then .error .overflow else
    .ok (pl.length / 256 :: pl.length % 256 :: pl)

/-- the part of `from_bytes` after the first header and the trailer test: dispatch on the PDU type -/
def parseRest (data : Bytes) (h : FirstHeader) (csbk : Bool) : Except Err Msg :=
  match h.ptype with
  | .devReg | .userReg =>
    match (if h.more then
             (match data[3]? with
              | none => Except.error Err.assertion
              | some b => (rrhOfByte b).map some)
           else .ok none) with
    | .error e => .error e
    | .ok rrh =>
      let idx := if h.more then 4 else 3
      match readLv data idx with
      | .error e => .error e
      | .ok (i1, d) =>
        match readLv data i1 with
        | .error e => .error e
        | .ok (i2, u) =>
          match readLv data i2 with
          | .error e => .error e
          | .ok (_, w) =>
            if validUtf8 d && validUtf8 u && validUtf8 w then
              .ok ⟨h, rrh, none, some d, some u, some w, csbk⟩
            else .error .unicode
  | .response =>
    if h.more then
      match data[3]? with
      | none => .error .assertion
      | some b =>
        match rshOfByte b h.ack with
        | .error e => .error e
        | .ok r => .ok ⟨h, none, some r, none, none, none, csbk⟩
    else .ok ⟨h, none, none, none, none, none, csbk⟩
  | .query | .devDereg => .ok ⟨h, none, none, none, none, none, csbk⟩
  | .userDereg | .userRegResp => .error .value   -- "not implemented in ARS.from_bytes"

/-- `AutomaticRegistrationService.from_bytes` -/
def fromBytes (data : Bytes) : Except Err Msg :=
  let msgLen := be (data.take 2)
  if data.length < 3 || data.length < msgLen then .error .assertion else
  match data[2]? with
  | none => .error .assertion
  | some hb =>
    match headerOfByte hb with
    | .error e => .error e
    | .ok h => parseRest data h (slice data msgLen (msgLen + 2) == Gen.Ars.csbkEnd)

end Dmr.Ars
