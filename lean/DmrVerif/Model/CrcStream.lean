import DmrVerif.Model.Crc

/-!
Model of the *register objects* of `okdmr/dmrlib/etsi/crc/crc.py` (`BitCrcRegister`,
`TableBasedBitCrcRegister`) used through their documented workflow

    init()  →  update(piece) 1..n times  →  digest()

i.e. with the message handed over in pieces, and more generally under any sequence of `init` /
`update` / `digest` calls on one (re-used) register object.  `Model/Crc.lean` has the one-shot
calculator (`init(); update(whole); digest()`); this file adds the state between the calls.

Observables: the value `update` returns (`self.register` after the piece) and the value `digest`
returns.  State: the register content.  `digest` with `reverse_output_bytes` stores the reversed
register (`self.reverse()`), which is modelled; `reverse_input_bytes` is not (see `Model/Crc.lean`).
-/

namespace Dmr
namespace Crc

/-- one call on a register object; `le` = the piece is a little-endian bitarray -/
inductive RegAct where
  | init
  | update (le : Bool) (bits : Bits)
  | digest
deriving DecidableEq, Repr

/-- a register object: its configuration, whether it is a `TableBasedBitCrcRegister`, and the lookup
table it holds -/
structure RegKind where
  c : CrcConfig
  table : Bool
  tbl : List Bits

/-- `BitCrcRegister(c)` / `TableBasedBitCrcRegister(c)` (the table is built from width and polynomial) -/
def regKind (c : CrcConfig) (table : Bool) : RegKind :=
  { c := c, table := table, tbl := if table then lookupTable c.w c.poly else [] }

/-- `register.update(bits)` -/
def regUpdate (k : RegKind) (le : Bool) (r bits : Bits) : Except CrcErr Bits :=
  if k.table then updateTable k.c k.tbl le r bits else .ok (updateBitwise k.c r bits)

/-- the register content `digest` leaves behind (`self.reverse()` assigns the reversed register) -/
def digestState (c : CrcConfig) (r : Bits) : Bits := if c.revOut then r.reverse else r

/-- one call: new register content and what the call returns (`init` returns nothing) -/
def regStep (k : RegKind) (r : Bits) : RegAct → Except CrcErr (Bits × Option Bits)
  | .init => .ok (initReg k.c, none)
  | .update le bits => (regUpdate k le r bits).map (fun r' => (r', some r'))
  | .digest => .ok (digestState k.c r, some (digest k.c r))

/-- a sequence of calls on one register object whose content is `r`: the values returned, in order, and
the exception that ended the sequence, if any -/
def regRun (k : RegKind) (r : Bits) : List RegAct → List Bits × Option CrcErr
  | [] => ([], none)
  | a :: rest =>
    match regStep k r a with
    | .error e => ([], some e)
    | .ok (r', out) =>
      let (outs, err) := regRun k r' rest
      (match out with
        | some o => o :: outs
        | none => outs, err)

/-- a freshly constructed register object holds the initial value -/
def regNew (k : RegKind) : Bits := initReg k.c

/-- the documented workflow on the bit-by-bit register: `init(); update(p) for p in pieces; digest()` -/
def streamBitwise (c : CrcConfig) (pieces : List Bits) : Bits :=
  digest c (pieces.foldl (updateBitwise c) (initReg c))

/-- the documented workflow on the table register (explicit table) -/
def streamTableWith (c : CrcConfig) (tbl : List Bits) (le : Bool) (pieces : List Bits) :
    Except CrcErr Bits :=
  (pieces.foldlM (updateTable c tbl le) (initReg c)).map (digest c)

def streamTable (c : CrcConfig) (le : Bool) (pieces : List Bits) : Except CrcErr Bits :=
  streamTableWith c (lookupTable c.w c.poly) le pieces

/-- the workflow as a call sequence -/
def workflow (le : Bool) (pieces : List Bits) : List RegAct :=
  .init :: (pieces.map (.update le) ++ [.digest])

end Crc
end Dmr
