import DmrVerif.Model.PyArr

/-!
# Prelude of `tools/py2lean_rec.py`: calls of the IPSC enumerations

An enum member is carried as its INDEX in definition order (what `Model/Ipsc.lean` does).  `vals` is the list of member
values in definition order and `dflt` what `_missing_` answers for a value that is no member (`some i` = member `i`,
`none` = `ValueError`), both regenerated from the live classes on every run (`Gen/Ipsc.lean`, complete graphs over all 2^8 /
2^16 values checked by the table extractor).  Core Lean only.
-/

namespace Dmr.PyRec
open Dmr Dmr.Py

/-- `E(v)`: the member whose value is `v`, else what `_missing_` gives; a negative `v` is never a member value here and is
left outside the translated domain -/
def enumCall (vals : List Nat) (dflt : Option Nat) (v : Int) : PyM Int :=
  if v < 0 then throw (.unsupported "Enum call with a negative value")
  else match vals.findIdx? (· == v.toNat) with
    | some i => pure (i : Int)
    | none => match dflt with
      | some i => pure (i : Int)
      | none => throw .value

/-- `m.value` of the member with index `m` -/
def enumValue (vals : List Nat) (m : Int) : Int := ((vals.getD m.toNat 0 : Nat) : Int)

end Dmr.PyRec
