/-!
# Model of `okdmr.dmrlib.storage` (`RepeaterStorage`, `Repeater`) — properties C20 and C18

Line-by-line model of `storage/repeater_storage.py` and of the data part of `storage/repeater.py`.

* A **Python value** that reaches the storage is a `Val`: `None`, an `int` (Python `bool`s *are* ints:
  `True == 1`, so `True`/`False` are `int 1`/`int 0`), a `str` (list of code points), an address tuple
  `(str, int)` or a `UUID` (`uuid n` = the `n`-th value handed out by the fresh-id oracle); and the other
  shapes in which a transport / caller can hand over a peer address: a tuple `(str, int, …)` of another
  arity (`tupN`: the AF_INET6 peer `(host, port, flowinfo, scope_id)` of asyncio, 1- and 3-tuples), a
  `list` `[str, int, …]` (`lstN`; never equal to a tuple) and a tuple `(str, str)` (`addrS`: the port as
  text).  On this domain Python's `==` (and dict-key equality) is structural equality: a namedtuple or a
  `str`/`int` subclass instance compares (and is printed) as the plain value, `tupN ip [p]` is never
  built (the arity-2 tuple is `addr ip p`).
* The **heap** `objs` holds every `Repeater` the storage ever created, in creation order; the index in
  this list *is* the object identity ("creation index").  `dict` is `RepeaterStorage.__repeaters`:
  an insertion-ordered Python `dict` from key to object.  Key and object id are kept apart because
  `save` evaluates `rpt.id` *before* `rpt.patch(patch)` runs and because a patch may assign `id`
  (the excluded points of C20 are modelled, not assumed away).
* The fresh-id oracle (`uuid.uuid4`) is a counter: the `n`-th created object gets `uuid n`
  (`n = objs.length`; only the storage creates repeaters in the modelled histories).

No imports: this file is compiled into the native model drivers.
-/

namespace Dmr.Storage

/-- Python values in the modelled alphabet -/
inductive Val
  | none
  | int (n : Nat)
  | str (s : List Nat)
  | addr (ip : List Nat) (port : Nat)
  | uuid (n : Nat)
  /-- the tuple `(ip, *rest)` of arity ≠ 2 (`rest.length ≠ 1`; IPv6 peers: `[port, flowinfo, scope_id]`) -/
  | tupN (ip : List Nat) (rest : List Nat)
  /-- the list `[ip, *rest]` (any arity) -/
  | lstN (ip : List Nat) (rest : List Nat)
  /-- the tuple `(ip, port)` with the port given as a `str` -/
  | addrS (ip : List Nat) (port : List Nat)
  deriving DecidableEq, Repr, Inhabited

/-- the data members `Repeater.__init__` assigns (all of them but `logger` and the private dict) -/
inductive Field
  | id | addressIn | addressOut | addressNat | snmpEnabled | natEnabled | dmrId | callsign | serial
  deriving DecidableEq, Repr, Inhabited

/-- the Python name of the member -/
def Field.name : Field → String
  | .id => "id" | .addressIn => "address_in" | .addressOut => "address_out"
  | .addressNat => "address_nat" | .snmpEnabled => "snmp_enabled" | .natEnabled => "nat_enabled"
  | .dmrId => "dmr_id" | .callsign => "callsign" | .serial => "serial"

def Field.all : List Field :=
  [.id, .addressIn, .addressOut, .addressNat, .snmpEnabled, .natEnabled, .dmrId, .callsign, .serial]

/-- key of a patch entry: a data member (`hasattr` is true, `setattr` is used) or any other name
(`hasattr` is false, the value goes to the dynamic attributes).  Names of methods, of `logger`, of
the private dict and dunder names are outside the alphabet (assumption A1 of C20). -/
inductive Key
  | field (f : Field)
  | dyn (k : String)
  deriving DecidableEq, Repr, Inhabited

abbrev Patch := List (Key × Val)

/-- the key a Python name denotes: a data member if it is one of the nine names, else a dynamic attribute -/
def Key.ofName (s : String) : Key :=
  match Field.all.find? (fun f => f.name == s) with
  | some f => .field f
  | Option.none => .dyn s

/-- Python truthiness (`if not x`) of a value -/
def Val.truthy : Val → Bool
  | .none => false
  | .int n => n != 0
  | .str s => !s.isEmpty
  | .addr _ _ => true
  | .uuid _ => true
  | .tupN _ _ => true      -- at least one element
  | .lstN _ _ => true
  | .addrS _ _ => true

/-! ### Python `dict` (insertion ordered) -/

/-- `d[k] = v`: an existing key keeps its position, a new key is appended -/
def dictSet {κ β : Type} [DecidableEq κ] : List (κ × β) → κ → β → List (κ × β)
  | [], k, v => [(k, v)]
  | (k', v') :: t, k, v => if k' = k then (k', v) :: t else (k', v') :: dictSet t k v

/-- `d.get(k)` -/
def dictGet {κ β : Type} [DecidableEq κ] : List (κ × β) → κ → Option β
  | [], _ => Option.none
  | (k', v') :: t, k => if k' = k then some v' else dictGet t k

/-- `del d[k]` (callers check membership first) -/
def dictDel {κ β : Type} [DecidableEq κ] : List (κ × β) → κ → List (κ × β)
  | [], _ => []
  | (k', v') :: t, k => if k' = k then t else (k', v') :: dictDel t k

/-! ### `Repeater` -/

structure Rec where
  id : Val
  addressIn : Val
  addressOut : Val
  addressNat : Val
  snmpEnabled : Val
  natEnabled : Val
  dmrId : Val
  callsign : Val
  serial : Val
  /-- `Repeater.__attrs` -/
  attrs : List (String × Val)
  deriving DecidableEq, Repr, Inhabited

/-- `getattr(rpt, f)` -/
def Rec.get (r : Rec) : Field → Val
  | .id => r.id | .addressIn => r.addressIn | .addressOut => r.addressOut
  | .addressNat => r.addressNat | .snmpEnabled => r.snmpEnabled | .natEnabled => r.natEnabled
  | .dmrId => r.dmrId | .callsign => r.callsign | .serial => r.serial

/-- `setattr(rpt, f, v)` -/
def Rec.set (r : Rec) (f : Field) (v : Val) : Rec :=
  match f with
  | .id => { r with id := v } | .addressIn => { r with addressIn := v }
  | .addressOut => { r with addressOut := v } | .addressNat => { r with addressNat := v }
  | .snmpEnabled => { r with snmpEnabled := v } | .natEnabled => { r with natEnabled := v }
  | .dmrId => { r with dmrId := v } | .callsign => { r with callsign := v }
  | .serial => { r with serial := v }

/-- `rpt.attr(k)` (read): `self.__attrs.get(key, None)` -/
def Rec.attr (r : Rec) (k : String) : Val := (dictGet r.attrs k).getD .none

/-- `rpt.attr(k, v)` with `v is not None` (write) -/
def Rec.setAttr (r : Rec) (k : String) (v : Val) : Rec := { r with attrs := dictSet r.attrs k v }

/-- one iteration of the loop of `Repeater.patch`:
`if hasattr(self, key): setattr(self, key, value)  elif value is not None: self.attr(key, value)` -/
def applyEntry (r : Rec) (e : Key × Val) : Rec :=
  match e.1 with
  | .field f => r.set f e.2
  | .dyn k => if e.2 = .none then r else r.setAttr k e.2

/-- `Repeater.patch(patch)`: entries in dict order -/
def applyPatch (p : Patch) (r : Rec) : Rec := p.foldl applyEntry r

/-- `ADDRESS_EMPTY = ("", 0)` -/
def addressEmpty : Val := .addr [] 0

/-- `create_repeater(dmr_id=None, address_in=address)`: the constructor defaults of `Repeater`,
`id` from the fresh-id oracle -/
def newRec (n : Nat) (address : Val) : Rec :=
  { id := .uuid n, addressIn := address, addressOut := addressEmpty, addressNat := addressEmpty,
    snmpEnabled := .int 1, natEnabled := .int 0, dmrId := .none, callsign := .str [], serial := .str [],
    attrs := [] }

/-! ### `RepeaterStorage` -/

structure Store where
  /-- every repeater object ever created by the storage, by creation index -/
  objs : List Rec
  /-- `__repeaters`: key ↦ object (creation index), in dict order -/
  dict : List (Val × Nat)
  deriving DecidableEq, Repr, Inhabited

def init : Store := ⟨[], []⟩

/-- exception classes the modelled calls can raise; `badRef` is not Python: the driver's answer to an
object reference that does not exist (never generated by the harness) -/
inductive Err
  | attributeError | keyError | systemError | typeError | indexError | badRef
  deriving DecidableEq, Repr, Inhabited

/-- result of one call -/
inductive Res
  | obj (i : Nat)      -- a repeater object (creation index)
  | none               -- Python `None`
  | val (v : Val)      -- a plain value (`attr`)
  | true               -- `delete_attr` found the key
  | err (e : Err)
  deriving DecidableEq, Repr, Inhabited

def Res.ofOption : Option Nat → Res
  | some i => .obj i
  | Option.none => .none

/-- `len(storage)` -/
def Store.len (s : Store) : Nat := s.dict.length

/-- `storage.all()` as object references -/
def Store.refs (s : Store) : List Nat := s.dict.map Prod.snd

/-- `storage.all()` as records -/
def Store.records (s : Store) : List Rec := s.refs.filterMap (fun i => s.objs[i]?)

/-- the first stored object satisfying `p`, in dict order (`found` of the two matching loops; the
later matches only cause a log line) -/
def Store.first (s : Store) (p : Rec → Bool) : Option Nat :=
  s.refs.find? (fun i => match s.objs[i]? with | some r => p r | Option.none => false)

/-- name passed to `match_attr`: a data member, or a name `getattr` does not find -/
inductive AttrName
  | field (f : Field)
  | unknown
  /-- not a `str` at all (`getattr(repeater, 1)`: `TypeError`) -/
  | bad
  deriving DecidableEq, Repr, Inhabited

/-- `match_attr(attr_name, match_value)`; `getattr` of an unknown name raises as soon as there is a
record to look at -/
def Store.matchAttr (s : Store) (name : AttrName) (v : Val) : Res :=
  match name with
  | .unknown => if s.dict.isEmpty then .none else .err .attributeError
  | .bad => if s.dict.isEmpty then .none else .err .typeError
  | .field f => Res.ofOption (s.first (fun r => r.get f == v))

/-- `repeater.address_in[0]` -/
def ipOf : Val → Except Err (List Nat)
  | .addr ip _ => .ok ip
  | .tupN ip _ => .ok ip
  | .lstN ip _ => .ok ip
  | .addrS ip _ => .ok ip
  | .str [] => .error .indexError
  | .str (c :: _) => .ok [c]
  | _ => .error .typeError

/-- the loop of `match_ip_incoming` over the object references still to visit -/
def matchIpLoop (objs : List Rec) (ip : List Nat) : List Nat → Option Nat → Res
  | [], found => Res.ofOption found
  | i :: t, found =>
    match objs[i]? with
    | Option.none => matchIpLoop objs ip t found
    | some r =>
      match ipOf r.addressIn with
      | .error e => .err e
      | .ok x => matchIpLoop objs ip t (if x = ip ∧ found = Option.none then some i else found)

def Store.matchIp (s : Store) (ip : List Nat) : Res := matchIpLoop s.objs ip s.refs Option.none

/-- `match_uuid` -/
def Store.matchUuid (s : Store) (v : Val) : Res :=
  match s.matchAttr (.field .id) v with
  | .none => .err .systemError
  | r => r

/-- `save(rpt, patch)`: `if len(patch): self.__repeaters.update({rpt.id: rpt.patch(patch)})`; `return rpt`.
The key `rpt.id` is evaluated before the patch runs. -/
def Store.save (s : Store) (rpt : Option Nat) (p : Patch) : Store × Res :=
  if p.isEmpty then (s, Res.ofOption rpt) else
  match rpt with
  | Option.none => (s, .err .attributeError)
  | some i =>
    match s.objs[i]? with
    | Option.none => (s, .err .badRef)
    | some r => ({ objs := s.objs.set i (applyPatch p r), dict := dictSet s.dict r.id i }, .obj i)

/-- `create_repeater` + `self.__repeaters[found.id] = found` -/
def Store.create (s : Store) (address : Val) : Store × Nat :=
  let n := s.objs.length
  ({ objs := s.objs ++ [newRec n address], dict := dictSet s.dict (.uuid n) n }, n)

/-- `match_incoming(address, auto_create, patch)` -/
def Store.matchIncoming (s : Store) (address : Val) (auto : Bool) (p : Patch) : Store × Res :=
  match s.first (fun r => r.addressIn == address) with
  | some i => s.save (some i) p
  | Option.none =>
    if auto then
      let c := s.create address
      c.1.save (some c.2) p
    else s.save Option.none p

/-! ### malformed patches (error path)

`Repeater.patch` walks the entries of the patch in dict order; `hasattr(self, key)` raises `TypeError`
for a key that is not a `str`, *after* the entries before it were applied.  A patch that is no mapping
but has a non-zero `len` (a list of pairs, a `str`) raises `AttributeError` at `patch.items()`, before
any entry.  Both are "the entries `pre` are applied, then `e` is raised"; `save` never reaches its
dictionary update, `match_incoming` has already stored a record it created. -/

/-- `rpt.patch(patch)` raising `e` after the entries `pre` -/
def Store.patchBad (s : Store) (i : Nat) (pre : Patch) (e : Err) : Store × Res :=
  match s.objs[i]? with
  | Option.none => (s, .err .badRef)
  | some r => ({ s with objs := s.objs.set i (applyPatch pre r) }, .err e)

/-- `save(rpt, patch)` with such a patch (`len(patch)` is non-zero): `rpt.id` is evaluated first
(`AttributeError` for `None`), then `rpt.patch(patch)` raises; `self.__repeaters.update` is not reached -/
def Store.saveBad (s : Store) (rpt : Option Nat) (pre : Patch) (e : Err) : Store × Res :=
  match rpt with
  | Option.none => (s, .err .attributeError)
  | some i => s.patchBad i pre e

/-- `match_incoming(address, auto_create, patch)` with such a patch -/
def Store.matchIncomingBad (s : Store) (address : Val) (auto : Bool) (pre : Patch) (e : Err) : Store × Res :=
  match s.first (fun r => r.addressIn == address) with
  | some i => s.saveBad (some i) pre e
  | Option.none =>
    if auto then
      let c := s.create address
      c.1.saveBad (some c.2) pre e
    else s.saveBad Option.none pre e

/-! ### operations of the histories of C20 -/

inductive Op
  | matchIncoming (address : Val) (auto : Bool) (patch : Patch)
  | save (rpt : Option Nat) (patch : Patch)
  | matchAttr (name : AttrName) (v : Val)
  | matchIpIncoming (ip : List Nat)
  | matchUuid (v : Val)
  /-- `rpt.attr(key, value)`; `value = none` reads -/
  | attr (rpt : Nat) (key : String) (value : Val)
  | deleteAttr (rpt : Nat) (key : String)
  /-- `rpt.patch(patch)` on an object obtained from the storage -/
  | patch (rpt : Nat) (patch : Patch)
  /-- the three patching calls with a malformed patch: the entries `pre`, then the exception `e` -/
  | matchIncomingBad (address : Val) (auto : Bool) (pre : Patch) (e : Err)
  | saveBad (rpt : Option Nat) (pre : Patch) (e : Err)
  | patchBad (rpt : Nat) (pre : Patch) (e : Err)
  deriving DecidableEq, Repr, Inhabited

/-- the operation carries a malformed patch -/
def Op.malformed : Op → Bool
  | .matchIncomingBad .. => true
  | .saveBad .. => true
  | .patchBad .. => true
  | _ => false

def step (s : Store) : Op → Store × Res
  | .matchIncoming a auto p => s.matchIncoming a auto p
  | .save rpt p =>
    match rpt with
    | some i => if i < s.objs.length then s.save rpt p else (s, .err .badRef)
    | Option.none => s.save rpt p
  | .matchAttr n v => (s, s.matchAttr n v)
  | .matchIpIncoming ip => (s, s.matchIp ip)
  | .matchUuid v => (s, s.matchUuid v)
  | .attr i k v =>
    match s.objs[i]? with
    | Option.none => (s, .err .badRef)
    | some r =>
      if v = .none then (s, .val (r.attr k))
      else ({ s with objs := s.objs.set i (r.setAttr k v) }, .val v)
  | .deleteAttr i k =>
    match s.objs[i]? with
    | Option.none => (s, .err .badRef)
    | some r =>
      match dictGet r.attrs k with
      | Option.none => (s, .err .keyError)
      | some _ => ({ s with objs := s.objs.set i { r with attrs := dictDel r.attrs k } }, .true)
  | .patch i p =>
    match s.objs[i]? with
    | Option.none => (s, .err .badRef)
    | some r => ({ s with objs := s.objs.set i (applyPatch p r) }, .obj i)
  | .matchIncomingBad a auto pre e => s.matchIncomingBad a auto pre e
  | .saveBad rpt pre e => s.saveBad rpt pre e
  | .patchBad i pre e => s.patchBad i pre e

/-- run a history, collecting the results -/
def runFrom (s : Store) : List Op → Store × List Res
  | [] => (s, [])
  | op :: t =>
    let r := step s op
    let rest := runFrom r.1 t
    (rest.1, r.2 :: rest.2)

def run (h : List Op) : Store × List Res := runFrom init h

/-! ### the two preconditions of the C20 theorems, as decidable predicates on (state, operation)

P1: no patch entry assigns `id`.  P2: `address_in` is only assigned a value that no stored record
other than the patched one holds.  They are evaluated against the state the operation meets. -/

/-- some stored record other than `except` has `address_in == v` -/
def Store.holdsAddr (s : Store) (except : Option Nat) (v : Val) : Bool :=
  s.refs.any (fun j => some j != except &&
    match s.objs[j]? with | some r => r.addressIn == v | Option.none => false)

def okPatch (s : Store) (target : Option Nat) (p : Patch) : Bool :=
  p.all (fun e => e.1 != .field .id && (e.1 != .field .addressIn || !s.holdsAddr target e.2))

def okOp (s : Store) : Op → Bool
  | .matchIncoming a _ p => okPatch s (s.first (fun r => r.addressIn == a)) p
  | .save (some i) p => okPatch s (some i) p
  | .save Option.none _ => true
  | .patch i p => okPatch s (some i) p
  | .matchIncomingBad a _ pre _ => okPatch s (s.first (fun r => r.addressIn == a)) pre
  | .saveBad (some i) pre _ => okPatch s (some i) pre
  | .saveBad Option.none _ _ => true
  | .patchBad i pre _ => okPatch s (some i) pre
  | _ => true

/-- the preconditions hold at every operation of the history -/
def okHist (s : Store) : List Op → Bool
  | [] => true
  | op :: t => okOp s op && okHist (step s op).1 t

end Dmr.Storage
