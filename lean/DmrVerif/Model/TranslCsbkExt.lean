import DmrVerif.Gen.TranslCsbk
import DmrVerif.Model.PduCsbk

/-!
The call boundary of `Gen/TranslCsbk.lean` and the reading of the C03 model's `Csbk` record as the attributes of the Python
`CSBK` object.  `CRC16.calculate(data, mask)` is NOT translated: it is an arbitrary function `g : Bytes → Int → Nat` here (the C03
theorems hold for whatever it computes; its correctness is C05), `bytes_to_bits` is the model's `bytesToBits`.  The model's CRC
parameter `f : Bits → Nat` (`f body = CRC16.calculate(body.tobytes(), CrcMasks.CSBK)`) is `crcOf g`.  Core Lean only.
-/

namespace Dmr.Transl.Csbk
open Dmr Dmr.Py Dmr.PyBits Dmr.Gen

/-- `CrcMasks.CSBK.value` -/
def maskCsbk : Int := 0xA5A5

def csbkExt (g : Bytes → Int → Nat) : Ext where
  CRC16_calculate := fun d m => .ok ((g d m : Nat) : Int)
  bytes_to_bits := fun d => .ok (bytesToBits d)

/-- the CRC parameter of `Model/PduCsbk.lean` that corresponds to the external `g` -/
def crcOf (g : Bytes → Int → Nat) : Bits → Nat := fun body => g (bitsToBytes body) maskCsbk

@[simp] theorem ext_crc16 (g : Bytes → Int → Nat) (d : Bytes) (m : Int) :
    (csbkExt g).CRC16_calculate d m = .ok ((g d m : Nat) : Int) := rfl
@[simp] theorem ext_b2b (g : Bytes → Int → Nat) (d : Bytes) : (csbkExt g).bytes_to_bits d = .ok (bytesToBits d) := rfl

/-- exceptions of the PDU codec models (C03) as Python exceptions -/
def liftE : Err → PyErr
  | .valueError => .value
  | .assertionError => .assertion
  | .notImplemented => .other "NotImplementedError"
  | .keyError => .other "KeyError"
  | .indexError => .index
  | .other => .unsupported "other"

def ofE {α β : Type} (f : α → β) : Except Err α → PyM β
  | .ok v => .ok (f v)
  | .error e => .error (liftE e)

/-- the model's service options as the translated class's object -/
def soObj (s : _root_.Dmr.ServiceOptions) : ServiceOptions :=
  { is_emergency := some s.isEmergency, is_broadcast := some s.isBroadcast, is_privacy := some s.isPrivacy,
    is_open_voice_call_mode := some s.isOvcm, priority_level := some (s.priority : Int), reserved := some s.reserved }

/-- a `CSBK` object whose opcode-specific attributes all have the constructor's defaults -/
def csbkBase (lb pf : Bool) (op fid crc : Nat) : CSBK :=
  { last_block := some lb, protect_flag := some pf, csbko := some (op : Int), feature_set := some (fid : Int),
    crc := some (crc : Int), bs_address := some 0, source_address := some 0, service_options := some none,
    target_address := some 0, answer_response := some none, additional_information_field := some none,
    source_type := some none, service_type := some none, reason_code := some none,
    csbk_content_follows_preambles := some false, target_address_is_individual := some false,
    blocks_to_follow := some 0, sync_age := some 0, generation := some 0, leader_identifier := some 0,
    new_leader := some 0, leader_dynamic_identifier := some 0, channel_timing_opcode := some 0,
    source_identifier := some 0, source_dynamic_identifier := some 0, raw_data := some [],
    tsccas_support := some false, site_timeslot_synchronized := some false, document_version_control := some 3,
    tscc_is_offset_timing := some false, ts_active_connection := some false, aloha_mask := some 0,
    service_function := some 0, nrand_wait := some 0, tscc_reg_required := some false, tscc_backoff := some 1,
    system_identity_code := some 0, broadcast_params := some [], announcement_type := some 7 }

/-- the model's `Csbk` record as the Python object `CSBK.from_bits` returns: the carried attributes from the payload, every
other attribute at the constructor's default -/
def csbkObj (p : Csbk) : CSBK :=
  let b := csbkBase p.lastBlock p.protectFlag (Csbk.opcode p.payload) p.fid p.crc
  match p.payload with
  | .bsDwnAct bs src => { b with bs_address := some (bs : Int), source_address := some (src : Int) }
  | .uuVReq so tgt src =>
    { b with service_options := some (some (soObj so)), target_address := some (tgt : Int), source_address := some (src : Int) }
  | .uuAnsRsp so ar tgt src =>
    { b with service_options := some (some (soObj so)), answer_response := some (some (ar : Int)),
             target_address := some (tgt : Int), source_address := some (src : Int) }
  | .nackRsp aif st svc rc src tgt =>
    { b with additional_information_field := some (some (aif : Int)), source_type := some (some (st : Int)),
             service_type := some (some (svc : Int)), reason_code := some (some (rc : Int)),
             source_address := some (src : Int), target_address := some (tgt : Int) }
  | .preamble cf ind btf tgt src =>
    { b with csbk_content_follows_preambles := some cf, target_address_is_individual := some ind,
             blocks_to_follow := some (btf : Int), target_address := some (tgt : Int), source_address := some (src : Int) }
  | .channelTiming age gen lid nl ldi cto sid sdi =>
    { b with sync_age := some (age : Int), generation := some (gen : Int), leader_identifier := some (lid : Int),
             new_leader := some (nl : Int), leader_dynamic_identifier := some (ldi : Int),
             channel_timing_opcode := some (cto : Int), source_identifier := some (sid : Int),
             source_dynamic_identifier := some (sdi : Int) }
  | .hyteraIpscSync raw => { b with raw_data := some raw }
  | .aloha tsccas sync dvc off act mask sf nrand reg backoff sys tgt =>
    { b with tsccas_support := some tsccas, site_timeslot_synchronized := some sync,
             document_version_control := some (dvc : Int), tscc_is_offset_timing := some off,
             ts_active_connection := some act, aloha_mask := some (mask : Int), service_function := some (sf : Int),
             nrand_wait := some (nrand : Int), tscc_reg_required := some reg, tscc_backoff := some (backoff : Int),
             system_identity_code := some (sys : Int), target_address := some (tgt : Int) }
  | .broadcast at' params reg backoff sys =>
    { b with announcement_type := some (at' : Int), broadcast_params := some params, tscc_reg_required := some reg,
             tscc_backoff := some (backoff : Int), system_identity_code := some (sys : Int) }

end Dmr.Transl.Csbk
