import DmrVerif.Model.Hdap

/-!
# HRNP — executable model of `okdmr/dmrlib/hytera/pdu/hrnp.py`

`Hrnp.init` is `HRNP.__init__` (inner data given as bytes is parsed with `HDAP.from_bytes`, then
`verify_checksum` runs), `Hrnp.fromBytes` / `Hrnp.asBytes` / `Hrnp.len` the three methods.
`self.checksum` always holds the checksum *computed* over the object's own serialisation;
`checksum_correct` says whether the value handed to the constructor equals it, and `from_bytes`
overwrites it with the verdict on the received octets (commit 4e51d6f) and the cross-check of the
announced length with the length the carried HDAP message states (repair of the length octets).
Core Lean only.
-/

namespace Dmr.Hytera
open Dmr Dmr.Gen.Hytera

/-- big-endian 16-bit words of a byte string; an odd tail is padded with `0x00` -/
def words16 : Bytes → List Nat
  | [] => []
  | [a] => [a * 256]
  | a :: b :: rest => (a * 256 + b) :: words16 rest

/-- `while check >> 16: check = (check & 0xFFFF) + (check >> 16)`; the fuel is never exhausted
because every round strictly decreases a value `≥ 65536` (`Lemmas/HyteraHrnp.lean`) -/
def fold16Go : Nat → Nat → Nat
  | 0, c => c
  | f + 1, c => if c / 65536 = 0 then c else fold16Go f (c % 65536 + c / 65536)

def fold16 (c : Nat) : Nat := fold16Go c c

/-- the check value of `verify_checksum`: `~fold(sum of words) & 0xFFFF` -/
def hrnpCheck (checked : Bytes) : Nat := 0xFFFF - fold16 (words16 checked).sum

/-- `pdu.get_endianness() == "little"`: only `RadioControlProtocol` overrides it -/
def Pdu.little : Pdu → Bool
  | .rcp _ => true
  | _ => false

structure Hrnp where
  header : Bytes
  version : Bytes
  block : Nat
  opcode : Nat
  source : Nat
  destination : Nat
  packetNumber : Nat
  data : Option Pdu
  /-- `self.checksum` as an integer -/
  checksum : Nat
  checksumCorrect : Bool
deriving DecidableEq, Repr

/-- `HRNP.__len__` given the attributes it reads (`len(None)` is a `TypeError`) -/
def hrnpLen (opcode : Nat) (data : Option Pdu) : R Nat :=
  if opcode = hrnpDATA then
    match data with
    | none => throw .type
    | some p => (12 + ·) <$> p.len
  else pure 12

/-- the ten header octets in front of the checksum field -/
def hrnpHead (header version : Bytes) (block opcode source destination pn len : Nat) : Bytes :=
  header ++ version ++ [block, opcode, source, destination] ++ be2 pn ++ be2 len

/-- `HRNP.verify_checksum`: (`check == checksum`, `check`) -/
def hrnpVerify (header version : Bytes) (block opcode source destination pn : Nat) (data : Option Pdu)
    (checksum : Nat) : R (Bool × Nat) := do
  let len ← hrnpLen opcode data
  let inner ← if opcode = hrnpDATA then
      (match data with | none => throw .attribute | some p => p.asBytes)
    else pure []
  let check := hrnpCheck (hrnpHead header version block opcode source destination pn len ++ inner)
  pure (check == checksum, check)

/-- `HRNP.__init__` with `data` already an `Optional[HDAP]` -/
def Hrnp.init (data : Option Pdu) (opcode source destination block pn checksum : Nat)
    (header version : Bytes) : R Hrnp := do
  let (ok, check) ← hrnpVerify header version block opcode source destination pn data checksum
  pure ⟨header, version, block, opcode, source, destination, pn, data, check, ok⟩

/-- `HRNP.from_bytes` -/
def Hrnp.fromBytes (d : Bytes) : R Hrnp := do
  if d.length < 12 then throw .assertion
  let plen := ofBe (sl d 8 10)
  if d.length < plen then throw .assertion
  let block ← idx d 2
  let opcode ← enumOf hrnpValues (← idx d 3)
  let source ← idx d 4
  let destination ← idx d 5
  let inner ← Hdap.fromBytes (sl d 12 plen)
  let q ← Hrnp.init inner opcode source destination block (ofBe (sl d 6 8)) (ofBe (sl d 10 12)) (sl d 0 1) (sl d 1 2)
  -- the verdict on a received packet is about the received octets:
  -- `calculate_checksum(data[0:10] + data[12:len]) == data[10:12]` (two byte strings)
  let sumOk := be2 (hrnpCheck (sl d 0 10 ++ sl d 12 plen)) == sl d 10 12
  -- … and, for a DATA packet, the announced length must be the one the carried HDAP message accounts
  -- for: `hrnp_packet_len == 12 + 7 + int.from_bytes(data[15:17], hrnp.data.get_endianness())`
  -- (`isinstance(hrnp.data, HDAP)` fails for `None`; with opcode DATA that raised `TypeError` above)
  let lenOk := if opcode = hrnpDATA then
      (match inner with
       | some p => plen == 12 + 7 + (if p.little then ofLe (sl d 15 17) else ofBe (sl d 15 17))
       | none => false)
    else true
  pure { q with checksumCorrect := sumOk && lenOk }

def Hrnp.len (q : Hrnp) : R Nat := hrnpLen q.opcode q.data

/-- `HRNP.as_bytes` (the checksum is recomputed from the data assembled here) -/
def Hrnp.asBytes (q : Hrnp) : R Bytes := do
  let len ← q.len
  let (_, check) ← hrnpVerify q.header q.version q.block q.opcode q.source q.destination q.packetNumber q.data q.checksum
  let inner ← if q.opcode = hrnpDATA then
      (match q.data with | none => throw .attribute | some p => p.asBytes)
    else pure []
  pure (hrnpHead q.header q.version q.block q.opcode q.source q.destination q.packetNumber len ++ be2 check ++ inner)

end Dmr.Hytera
