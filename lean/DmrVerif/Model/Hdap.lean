import DmrVerif.Model.Bits
import DmrVerif.Gen.Hytera

/-!
# Hytera HDAP application PDUs (RRS, LP, TMP, RCP) — executable model of
`okdmr/dmrlib/hytera/pdu/{hdap,radio_ip,radio_registration_service,location_protocol,
text_message_protocol,radio_control_protocol}.py`

Conventions
* bytes are `List Nat` (`Dmr.Bytes`); a Python slice `data[a:b]` with literal non-negative bounds is
  `sl data a b`, an index `data[i]` is `idx data i` (`IndexError` outside), `data[5:-2]` is
  `sl data 5 (data.length - 2)` (truncated subtraction = Python's clamping), the one slice whose bound
  can be negative at run time (TMP option data) goes through `slI`;
* every Python exception class the parsers can raise is a constructor of `Err`; `Err.unmodelled` marks
  the inputs on which the model does not claim to know Python's answer (non-ASCII-digit text given
  to `int()`/`float()`, empty id slices) — the harness never feeds those;
* enum-typed fields are their integer values; `enumOf vals v` is `Enum(v)` (`ValueError` for a
  non-member), `enumFold` the `_missing_` variant; the member lists and named constants come from
  `Gen/Hytera.lean` (regenerated from /repo on every run);
* serialisers are total on the model side; the Python `OverflowError`/`ValueError` for a field that
  does not fit its width is covered by the explicit `WF` predicates of the theorems.
Core Lean only (compiled into the driver).
-/

namespace Dmr.Hytera
open Dmr Dmr.Gen.Hytera

/-! ## errors, slices, integers -/

inductive Err
  | index | value | assertion | key | type | attribute | unicode | unmodelled
deriving DecidableEq, Repr

def Err.name : Err → String
  | .index => "IndexError"
  | .value => "ValueError"
  | .assertion => "AssertionError"
  | .key => "KeyError"
  | .type => "TypeError"
  | .attribute => "AttributeError"
  | .unicode => "UnicodeDecodeError"
  | .unmodelled => "Unmodelled"

abbrev R := Except Err

/-- `data[a:b]`, `0 ≤ a`, `0 ≤ b` -/
def sl {α : Type} (d : List α) (a b : Nat) : List α := (d.take b).drop a

/-- `data[i]` -/
def idx (d : Bytes) (i : Nat) : R Nat :=
  match d[i]? with
  | some b => pure b
  | none => throw .index

/-- Python's normalisation of one slice bound -/
def normIdx (n : Nat) (i : Int) : Nat := if i < 0 then (i + n).toNat else min i.toNat n

/-- `data[a:b]` with bounds that may be negative -/
def slI {α : Type} (d : List α) (a b : Int) : List α :=
  sl d (normIdx d.length a) (normIdx d.length b)

/-- `int.from_bytes(bs, "big")` -/
def ofBe (bs : Bytes) : Nat := bs.foldl (fun a b => a * 256 + b) 0
/-- `int.from_bytes(bs, "little")` -/
def ofLe (bs : Bytes) : Nat := bs.foldr (fun b a => a * 256 + b) 0

def be2 (v : Nat) : Bytes := [v / 256 % 256, v % 256]
def be3 (v : Nat) : Bytes := [v / 65536 % 256, v / 256 % 256, v % 256]
def be4 (v : Nat) : Bytes := [v / 16777216 % 256, v / 65536 % 256, v / 256 % 256, v % 256]
def le2 (v : Nat) : Bytes := [v % 256, v / 256 % 256]
def le4 (v : Nat) : Bytes := [v % 256, v / 256 % 256, v / 65536 % 256, v / 16777216 % 256]

/-- `Enum(v)` of an enum without `_missing_` -/
def enumOf (vals : List Nat) (v : Nat) : R Nat := if v ∈ vals then pure v else throw .value
/-- `Enum(v)` of an enum whose `_missing_` returns a fixed member -/
def enumFold (vals : List Nat) (missing v : Nat) : Nat := if v ∈ vals then v else missing

/-- attribute access on an optional field (`None.as_bytes()` raises `AttributeError`) -/
def need {α : Type} : Option α → R α
  | some x => pure x
  | none => throw .attribute

/-! ## HDAP frame -/

/-- `HDAP.get_hdap_checksum` -/
def hdapChecksum (checked : Bytes) : Nat :=
  (((checked.foldl (fun c b => (c + b) &&& 0xFF) 0) ^^^ 0xFF) + 0x33) &&& 0xFF

/-- what a concrete service hands to `HDAP.as_bytes`: `get_service_type().value`, `is_reliable`,
`get_opcode()`, `get_endianness() == "little"`, `get_payload()` -/
structure Frame where
  service : Nat
  reliable : Bool
  opcode : Bytes
  little : Bool
  payload : Bytes
deriving DecidableEq, Repr

/-- `n.to_bytes(length=2, byteorder=self.get_endianness())` -/
def len16 (little : Bool) (n : Nat) : Bytes := if little then le2 n else be2 n

def Frame.checked (f : Frame) : Bytes := f.opcode ++ len16 f.little f.payload.length ++ f.payload

/-- `HDAP.as_bytes` -/
def Frame.asBytes (f : Frame) : Bytes :=
  [f.service ||| (if f.reliable then 0x80 else 0)] ++ f.checked ++ [hdapChecksum f.checked] ++ hdapMsgEnd

/-- `HDAP.__len__` -/
def Frame.len (f : Frame) : Nat := 7 + f.payload.length

/-- `HDAP.get_reliable_and_service` on an int -/
def reliableAndService (first : Nat) : R (Bool × Option Nat) :=
  if first > 0 then do
    let s ← enumOf svcValues (first &&& 0x7F)
    pure (first &&& 0x80 == 0x80, some s)
  else pure (false, none)

/-- `HDAP.get_reliable_and_service` on a bytes object (`byte[0] if len(byte) > 0 else 0`) -/
def reliableAndServiceB (b : Bytes) : R (Bool × Option Nat) :=
  reliableAndService (match b with | [] => 0 | x :: _ => x)

/-! ## RadioIP -/

structure RadioIp where
  subnet : Nat
  radioId : Nat
deriving DecidableEq, Repr

def RadioIp.asBytes (ip : RadioIp) : Bytes := ip.subnet :: be3 ip.radioId

/-- `RadioIP.from_bytes` (big endian, the only order the HDAP parsers use) -/
def RadioIp.fromBytes (d : Bytes) : R RadioIp :=
  match d with
  | [a, b, c, e] => pure ⟨a, ofBe [b, c, e]⟩
  | _ => throw .assertion

def RadioIp.WF (ip : RadioIp) : Prop := ip.subnet < 256 ∧ ip.radioId < 16777216
instance (ip : RadioIp) : Decidable ip.WF := by unfold RadioIp.WF; infer_instance

/-! ## RRS — radio registration service -/

structure Rrs where
  reliable : Bool
  opcode : Nat
  ip : RadioIp
  result : Nat
  renew : Nat
  state : Nat
deriving DecidableEq, Repr

def Rrs.isRequest (op : Nat) : Bool :=
  op == rrsRadioRegistrationRequest || op == rrsRadioGoingOffline || op == rrsRegistrationStatusCheckRequest

/-- `RadioRegistrationService.get_payload` -/
def Rrs.payload (p : Rrs) : R Bytes :=
  if Rrs.isRequest p.opcode then pure p.ip.asBytes
  else if p.opcode = rrsRadioRegistrationAnswer then pure (p.ip.asBytes ++ [p.result] ++ be4 p.renew)
  else if p.opcode = rrsRegistrationStatusCheckAnswer then pure (p.ip.asBytes ++ [p.state])
  else throw .value

def Rrs.frame (p : Rrs) : R Frame := do
  let pl ← p.payload
  pure ⟨svcRRS, p.reliable, [0x00, p.opcode], false, pl⟩

/-- `RadioRegistrationService.__init__` with `radio_ip` given as bytes and the enums as ints -/
def Rrs.init (opcode : Nat) (reliable : Bool) (ipBytes : Bytes) (result renew state : Nat) : R Rrs := do
  let ip ← RadioIp.fromBytes ipBytes
  let result ← enumOf rrsResultValues result
  if ¬ (0x0001 ≤ renew ∧ renew ≤ 0xFFFE) then throw .assertion
  let state ← enumOf rrsStateValues state
  pure ⟨reliable, opcode, ip, result, renew, state⟩

/-- `RadioRegistrationService.from_bytes` (falls off the `if/elif` chain with `None`) -/
def Rrs.fromBytes (d : Bytes) : R (Option Rrs) := do
  let (rel, svc) ← reliableAndServiceB (sl d 0 1)
  if svc ≠ some svcRRS then throw .assertion
  let op ← enumOf rrsValues (← idx d 2)
  if Rrs.isRequest op then
    some <$> Rrs.init op rel (sl d 5 9) rrsResultSuccess 1 rrsStateOnline
  else if op = rrsRadioRegistrationAnswer then do
    let r ← idx d 9
    some <$> Rrs.init op rel (sl d 5 9) r (ofBe (sl d 10 14)) rrsStateOnline
  else if op = rrsRegistrationStatusCheckAnswer then do
    let s ← idx d 9
    some <$> Rrs.init op rel (sl d 5 9) rrsResultSuccess 1 s
  else pure none

/-! ## LP — location protocol -/

/-- non-negative decimal number `ip.frac` (digits), the exact value of an ASCII float field -/
structure Dec where
  ip : Nat
  frac : List Nat
deriving DecidableEq, Repr

def Dec.isZero (x : Dec) : Bool := x.ip == 0 && x.frac.all (· == 0)

def stripTrailingZeros (l : List Nat) : List Nat := (l.reverse.dropWhile (· == 0)).reverse

/-- the digits Python's `repr(float)` shows: no trailing zeros, at least one fraction digit -/
def Dec.norm (x : Dec) : Dec :=
  let f := stripTrailingZeros x.frac
  ⟨x.ip, if f = [] then [0] else f⟩

def Dec.zero : Dec := ⟨0, [0]⟩

structure Gps where
  valid : Bool                      -- 'A' / 'V'
  time : Option (Nat × Nat × Nat)   -- hour, minute, second
  date : Option (Nat × Nat × Nat)   -- day, month, year - 2000
  north : Bool                      -- 'N' / 'S'
  lat4 : Nat                        -- ddmm.mmmm in units of 10^-4
  east : Bool                       -- 'E' / 'W'
  lon4 : Nat                        -- dddmm.mmmm in units of 10^-4
  speed : Dec                       -- knots
  direction : Nat
deriving DecidableEq, Repr

def isDigit (b : Nat) : Bool := 48 ≤ b && b ≤ 57

/-- the octets on which the model states what `int()` / `float()` answer: digits, `.`, NUL, `X` -/
def modelled (b : Nat) : Bool := isDigit b || b == 46 || b == 0 || b == 88

/-- `len(x.replace(b"\x00", b"")) == 0` -/
def allNul (bs : Bytes) : Bool := bs.all (· == 0)

def digitsVal (bs : Bytes) : Nat := bs.foldl (fun a b => 10 * a + (b - 48)) 0

/-- `int(bs)` for a bytes object over the modelled alphabet -/
def pyInt (bs : Bytes) : R Nat :=
  if ¬ bs.all modelled then throw .unmodelled
  else if bs ≠ [] ∧ bs.all isDigit then pure (digitsVal bs)
  else throw .value

/-- `float(bs.decode("ascii"))` over the modelled alphabet, as an exact decimal with the digits as
written (`Dec.norm` gives the digits of the float's `repr`) -/
def pyFloat (bs : Bytes) : R Dec :=
  if ¬ bs.all modelled then throw .unmodelled
  else
    let ip := bs.takeWhile isDigit
    match bs.dropWhile isDigit with
    | [] => if ip = [] then throw .value else pure ⟨digitsVal ip, []⟩
    | 46 :: fr =>
      if fr.all isDigit ∧ (ip ≠ [] ∨ fr ≠ []) then pure ⟨digitsVal ip, fr.map (· - 48)⟩
      else throw .value
    | _ => throw .value

/-- value in units of 10^-4 of a decimal with at most four fraction digits -/
def Dec.toFixed4 (x : Dec) : R Nat :=
  match x.frac with
  | [] => pure (x.ip * 10000)
  | [a] => pure (x.ip * 10000 + a * 1000)
  | [a, b] => pure (x.ip * 10000 + a * 1000 + b * 100)
  | [a, b, c] => pure (x.ip * 10000 + a * 1000 + b * 100 + c * 10)
  | [a, b, c, e] => pure (x.ip * 10000 + a * 1000 + b * 100 + c * 10 + e)
  | _ => throw .unmodelled

def natDigits (n : Nat) : Bytes := (Nat.toDigits 10 n).map Char.toNat

def dig (v p : Nat) : Nat := 48 + v / p % 10

/-- two-digit field of `strftime` (`%H %M %S %d %m %y`) -/
def d2 (n : Nat) : Bytes := [dig n 10, dig n 1]

/-- `f"{latitude:09.4f}"` for the value `v4 / 10^4` -/
def fmtLat (v4 : Nat) : Bytes :=
  if v4 < 100000000 then
    [dig v4 10000000, dig v4 1000000, dig v4 100000, dig v4 10000, 46, dig v4 1000, dig v4 100, dig v4 10, dig v4 1]
  else natDigits (v4 / 10000) ++ [46, dig v4 1000, dig v4 100, dig v4 10, dig v4 1]

/-- `f"{longitude:010.4f}"` -/
def fmtLon (v4 : Nat) : Bytes :=
  if v4 < 1000000000 then
    [dig v4 100000000, dig v4 10000000, dig v4 1000000, dig v4 100000, dig v4 10000, 46,
     dig v4 1000, dig v4 100, dig v4 10, dig v4 1]
  else natDigits (v4 / 10000) ++ [46, dig v4 1000, dig v4 100, dig v4 10, dig v4 1]

/-- `"\0"*3 if speed <= 0 else f"{speed:03}"`: a float is written with `repr` precision, the minimum
width 3 never pads because the shortest repr (`d.d`) already has three characters -/
def fmtSpeed (s : Dec) : Bytes :=
  if s.isZero then [0, 0, 0]
  else (if s.ip < 10 then [48 + s.ip] else natDigits s.ip) ++ [46] ++ s.frac.map (48 + ·)

/-- `"\0"*3 if not direction else f"{direction:03}"` -/
def fmtDir (d : Nat) : Bytes :=
  if d = 0 then [0, 0, 0]
  else if d < 1000 then [dig d 100, dig d 10, dig d 1]
  else natDigits d

def nul6 : Bytes := [0, 0, 0, 0, 0, 0]

/-- `"\0" * 6 if t is None else t.strftime("%H%M%S")` -/
def timeBytes : Option (Nat × Nat × Nat) → Bytes
  | none => nul6
  | some (h, m, s) => d2 h ++ d2 m ++ d2 s

/-- `"\0" * 6 if d is None else d.strftime("%d%m%y")` -/
def dateBytes : Option (Nat × Nat × Nat) → Bytes
  | none => nul6
  | some (d, m, y) => d2 d ++ d2 m ++ d2 y

/-- `GPSData.as_bytes` -/
def Gps.asBytes (g : Gps) : Bytes :=
  [if g.valid then 65 else 86]
  ++ timeBytes g.time
  ++ dateBytes g.date
  ++ [if g.north then 78 else 83]
  ++ fmtLat g.lat4
  ++ [if g.east then 69 else 87]
  ++ fmtLon g.lon4
  ++ fmtSpeed g.speed
  ++ fmtDir g.direction

def daysInMonth (m yy : Nat) : Nat :=
  if m = 2 then (if yy % 4 = 0 then 29 else 28)
  else if m = 4 ∨ m = 6 ∨ m = 9 ∨ m = 11 then 30 else 31

/-- `time(hour=int(b[0:2]), minute=int(b[2:4]), second=int(b[4:6]))` or `None` for six NULs -/
def parseTime (b : Bytes) : R (Option (Nat × Nat × Nat)) :=
  if allNul b then pure none else do
    let h ← pyInt (sl b 0 2)
    let m ← pyInt (sl b 2 4)
    let s ← pyInt (sl b 4 6)
    if h < 24 ∧ m < 60 ∧ s < 60 then pure (some (h, m, s)) else throw .value

/-- `date(day=int(b[0:2]), month=int(b[2:4]), year=2000 + int(b[4:6]))` or `None` for six NULs -/
def parseDate (b : Bytes) : R (Option (Nat × Nat × Nat)) :=
  if allNul b then pure none else do
    let d ← pyInt (sl b 0 2)
    let m ← pyInt (sl b 2 4)
    let y ← pyInt (sl b 4 6)
    if 1 ≤ m ∧ m ≤ 12 ∧ 1 ≤ d ∧ d ≤ daysInMonth m y then pure (some (d, m, y)) else throw .value

/-- `float(b.decode("ascii")) if len(b.replace(b"\x00", b"")) else 0` -/
def parseSpeed (b : Bytes) : R Dec := if allNul b then pure Dec.zero else Dec.norm <$> pyFloat b

/-- `int(b) if len(b.replace(b"\x00", b"")) else 0` -/
def parseDir (b : Bytes) : R Nat := if allNul b then pure 0 else pyInt b

/-- `float(b.decode("ascii"))` of a coordinate, in units of 10^-4 -/
def parseCoord (b : Bytes) : R Nat := pyFloat b >>= Dec.toFixed4

/-- `GPSData.from_bytes` followed by `GPSData.__init__` (evaluation order of the constructor) -/
def Gps.fromBytes (d : Bytes) : R Gps := do
  if d.length ≠ 40 then throw .assertion
  let time ← parseTime (sl d 1 7)
  let date ← parseDate (sl d 7 13)
  let lat ← parseCoord (sl d 14 23)
  let lon ← parseCoord (sl d 24 34)
  let speed ← parseSpeed (sl d 34 37)
  let dir ← parseDir (sl d 37 40)
  pure ⟨sl d 0 1 == [65], time, date, sl d 13 14 == [78], lat, sl d 23 24 == [69], lon, speed, dir⟩

/-- stands for `GPSData.zero()` (evaluated once at import time with that day's date); it is only the
default of a `StandardRequest`, is never serialised there and is not a field of that PDU -/
def Gps.zero : Gps := ⟨false, some (0, 0, 0), none, true, 0, true, 0, Dec.zero, 0⟩

structure Lp where
  reliable : Bool
  opcode : Nat
  requestId : Nat
  ip : RadioIp
  result : Nat
  gps : Gps
deriving DecidableEq, Repr

/-- `LocationProtocol.get_payload` -/
def Lp.payload (p : Lp) : R Bytes :=
  if p.opcode = lpStandardReport then
    pure (be4 p.requestId ++ p.ip.asBytes ++ be2 p.result ++ p.gps.asBytes)
  else if p.opcode = lpStandardRequest then pure (be4 p.requestId ++ p.ip.asBytes)
  else throw .value

def Lp.frame (p : Lp) : R Frame := do
  let pl ← p.payload
  pure ⟨svcLP, p.reliable, be2 p.opcode, false, pl⟩

/-- `LocationProtocol.from_bytes` (constructor order: request id, radio ip, result, gps data) -/
def Lp.fromBytes (d : Bytes) : R Lp := do
  let (rel, svc) ← reliableAndServiceB (sl d 0 1)
  if svc ≠ some svcLP then throw .assertion
  let op ← enumOf lpValues (ofBe (sl d 1 3))
  if op = lpStandardReport then do
    let ip ← RadioIp.fromBytes (sl d 9 13)
    let res ← enumOf lpResultValues (ofBe (sl d 13 15))
    let gps ← Gps.fromBytes (sl d 15 55)
    pure ⟨rel, op, ofBe (sl d 5 9), ip, res, gps⟩
  else if op = lpStandardRequest then do
    let ip ← RadioIp.fromBytes (sl d 9 13)
    let res ← enumOf lpResultValues 0
    pure ⟨rel, op, ofBe (sl d 5 9), ip, res, Gps.zero⟩
  else throw .value

/-! ## TMP — text message protocol -/

structure Tmp where
  reliable : Bool
  confirmed : Bool
  hasOption : Bool
  opcode : Nat
  requestId : Nat
  dst : Option RadioIp
  src : Option RadioIp
  text : Bytes
  optionData : Option Bytes
  result : Option Nat
  shortData : Bytes
deriving DecidableEq, Repr

/-- `TextMessageProtocol.get_opcode` -/
def Tmp.opcodeBytes (p : Tmp) : Bytes :=
  [(0 ||| (if p.confirmed then 0x80 else 0)) ||| (if p.hasOption then 0x40 else 0), p.opcode]

def Tmp.isTmp (op : Nat) : Bool :=
  op == tmpSendPrivateMessage || op == tmpSendGroupMessage || op == tmpSendGroupMessageAck
    || op == tmpSendPrivateMessageAck

def Tmp.isMessage (op : Nat) : Bool := op == tmpSendPrivateMessage || op == tmpSendGroupMessage

/-- the opcode-dependent middle part of `TextMessageProtocol.get_payload` -/
def Tmp.body (p : Tmp) : R Bytes :=
  if Tmp.isTmp p.opcode then do
    let d ← need p.dst
    let s ← if p.opcode = tmpSendGroupMessageAck then pure [] else RadioIp.asBytes <$> need p.src
    let t ← if Tmp.isMessage p.opcode then pure p.text else (fun r => [r]) <$> need p.result
    pure (d.asBytes ++ s ++ t)
  else if p.opcode = tmpPrivateShortData then do
    let d ← need p.dst
    let s ← need p.src
    pure (d.asBytes ++ s.asBytes ++ p.shortData)
  else if p.opcode = tmpPrivateShortDataAck then do
    let d ← need p.dst
    let s ← need p.src
    let r ← need p.result
    pure (d.asBytes ++ s.asBytes ++ [r])
  else if p.opcode = tmpGroupShortData then do
    let d ← need p.dst
    let s ← need p.src
    pure (d.asBytes ++ s.asBytes ++ p.shortData)
  else if p.opcode = tmpGroupShortDataAck then do
    let d ← need p.dst
    let r ← need p.result
    pure (d.asBytes ++ [r])
  else pure []

/-- `TextMessageProtocol.get_payload` -/
def Tmp.payload (p : Tmp) : R Bytes := do
  let pre ← if p.hasOption then
      (match p.optionData with | some o => pure (be2 o.length) | none => throw .type)
    else pure []
  let opt := if p.hasOption then p.optionData.getD [] else []
  let body ← p.body
  pure (pre ++ be4 p.requestId ++ body ++ opt)

def Tmp.frame (p : Tmp) : R Frame := do
  let pl ← p.payload
  pure ⟨svcTMP, p.reliable, p.opcodeBytes, false, pl⟩

/-- the locals `TextMessageProtocol.from_bytes` computes before it branches on the opcode -/
structure TmpHead where
  rel : Bool
  conf : Bool
  ho : Bool
  op : Nat
  /-- `payload_idx` -/
  pi : Nat
  /-- `option_data_start_idx` (negative when the announced option length exceeds the payload) -/
  optStart : Int
  opt : Option Bytes
deriving DecidableEq, Repr

/-- first half of `TextMessageProtocol.from_bytes` (endian = "big", the only way `HDAP.from_bytes`
calls it): flags, opcode, payload index, option data -/
def Tmp.parseHead (d : Bytes) : R TmpHead := do
  let (rel, svc) ← reliableAndServiceB (sl d 0 1)
  if svc ≠ some svcTMP then throw .assertion
  let op ← enumOf tmpValues (← idx d 2)
  let b1 ← idx d 1
  let conf := b1 &&& 0x80 != 0
  let ho := b1 &&& 0x40 != 0
  let pi : Nat := if ho then 7 else 5
  let plen := ofBe (sl d 3 5)
  let olen := ofBe (sl d 5 7)
  let optStart : Int := if ho then (pi : Int) + plen - olen - 2 else (pi : Int) + plen
  let opt : Option Bytes := if ho then some (slI d optStart ((pi : Int) + plen - 2)) else none
  pure ⟨rel, conf, ho, op, pi, optStart, opt⟩

/-- second half: the `if/elif` chain over the opcode (falls off the end with `None`) -/
def Tmp.parseBody (d : Bytes) (h : TmpHead) : R (Option Tmp) :=
  let pi := h.pi
  let rid := ofBe (sl d pi (pi + 4))
  if Tmp.isMessage h.op then do
    let dst ← RadioIp.fromBytes (sl d (pi + 4) (pi + 8))
    let src ← RadioIp.fromBytes (sl d (pi + 8) (pi + 12))
    pure (some ⟨h.rel, h.conf, h.ho, h.op, rid, some dst, some src, slI d ((pi : Int) + 12) h.optStart, h.opt, none, []⟩)
  else if h.op = tmpSendGroupMessageAck then do
    let dst ← RadioIp.fromBytes (sl d (pi + 4) (pi + 8))
    let rc ← enumOf tmpResultValues (← idx d (pi + 8))
    pure (some ⟨h.rel, h.conf, h.ho, h.op, rid, some dst, none, [], h.opt, some rc, []⟩)
  else if h.op = tmpSendPrivateMessageAck then do
    let dst ← RadioIp.fromBytes (sl d (pi + 4) (pi + 8))
    let src ← RadioIp.fromBytes (sl d (pi + 8) (pi + 12))
    let rc ← enumOf tmpResultValues (← idx d (pi + 12))
    pure (some ⟨h.rel, h.conf, h.ho, h.op, rid, some dst, some src, [], h.opt, some rc, []⟩)
  else if h.op = tmpPrivateShortData then do
    let dst ← RadioIp.fromBytes (sl d (pi + 4) (pi + 8))
    let src ← RadioIp.fromBytes (sl d (pi + 8) (pi + 12))
    pure (some ⟨h.rel, h.conf, h.ho, h.op, rid, some dst, some src, [], h.opt, none, slI d ((pi : Int) + 12) h.optStart⟩)
  else if h.op = tmpPrivateShortDataAck then do
    let dst ← RadioIp.fromBytes (sl d (pi + 4) (pi + 8))
    let src ← RadioIp.fromBytes (sl d (pi + 8) (pi + 12))
    let rc ← enumOf tmpResultValues (← idx d (pi + 12))
    pure (some ⟨h.rel, h.conf, h.ho, h.op, rid, some dst, some src, [], h.opt, some rc, []⟩)
  else if h.op = tmpGroupShortData then do
    let dst ← RadioIp.fromBytes (sl d (pi + 4) (pi + 8))
    let src ← RadioIp.fromBytes (sl d (pi + 8) (pi + 12))
    pure (some ⟨h.rel, h.conf, h.ho, h.op, rid, some dst, some src, [], h.opt, none, slI d ((pi : Int) + 12) h.optStart⟩)
  else if h.op = tmpGroupShortDataAck then do
    let dst ← RadioIp.fromBytes (sl d (pi + 4) (pi + 8))
    let rc ← enumOf tmpResultValues (← idx d (pi + 8))
    pure (some ⟨h.rel, h.conf, h.ho, h.op, rid, some dst, none, [], h.opt, some rc, []⟩)
  else pure none

/-- `TextMessageProtocol.from_bytes` -/
def Tmp.fromBytes (d : Bytes) : R (Option Tmp) := do
  let h ← Tmp.parseHead d
  Tmp.parseBody d h

/-! ## RCP — radio control protocol (little endian) -/

/-- one constructor per implemented opcode, carrying the attributes that opcode serialises -/
inductive RcpBody
  | unknown (rawOpcode raw : Bytes)
  | callRequest (callType target : Nat)
  | callReply (result : Nat)
  | rptBroadcastTx (mode status service callType target sender : Nat)
  | bcastMsgCfgReq (broadcastType : Nat)
  | bcastMsgCfgReply (result : Nat)
  | idIpQueryReq (target : Nat)
  | idIpQueryReply (result target : Nat) (raw : Bytes)
  | bcastStatusCfgReq (raw : Bytes)
  | bcastStatusCfgReply (result : Nat)
  | talkerAliasReq (callType sender target format : Nat) (alias : Bytes)
  | talkerAliasReply (result callType sender target : Nat)
  | zoneChanReq (raw : Bytes)
  | zoneChanReply (raw : Bytes)
  | statusNotifyReq (settings : List (Nat × Nat))
  | statusNotifyReply (result : Nat)
  | radioStatusReport (target value : Nat)
deriving DecidableEq, Repr

structure Rcp where
  reliable : Bool
  body : RcpBody
deriving DecidableEq, Repr

/-- `self.opcode.value` -/
def RcpBody.opcode : RcpBody → Nat
  | .unknown .. => rcpUnknownService
  | .callRequest .. => rcpCallRequest
  | .callReply .. => rcpCallReply
  | .rptBroadcastTx .. => rcpRepeaterBroadcastTransmitStatus
  | .bcastMsgCfgReq .. => rcpBroadcastMessageConfigurationRequest
  | .bcastMsgCfgReply .. => rcpBroadcastMessageConfigurationReply
  | .idIpQueryReq .. => rcpRadioIDAndRadioIPQueryRequest
  | .idIpQueryReply .. => rcpRadioIDAndRadioIPQueryReply
  | .bcastStatusCfgReq .. => rcpBroadcastStatusConfigurationRequest
  | .bcastStatusCfgReply .. => rcpBroadcastStatusConfigurationReply
  | .talkerAliasReq .. => rcpSendTalkerAliasRequest
  | .talkerAliasReply .. => rcpSendTalkerAliasReply
  | .zoneChanReq .. => rcpZoneAndChannelOperationRequest
  | .zoneChanReply .. => rcpZoneAndChannelOperationReply
  | .statusNotifyReq .. => rcpStatusChangeNotificationRequest
  | .statusNotifyReply .. => rcpStatusChangeNotificationReply
  | .radioStatusReport .. => rcpRadioStatusReport

/-- `RadioControlProtocol.get_opcode` -/
def RcpBody.opcodeBytes : RcpBody → Bytes
  | .unknown ro _ => sl ro 0 2
  | b => le2 b.opcode

def settingsBytes : List (Nat × Nat) → Bytes
  | [] => []
  | (t, s) :: r => t :: s :: settingsBytes r

/-- `RadioControlProtocol.get_payload` -/
def RcpBody.payload : RcpBody → R Bytes
  | .unknown _ raw => pure raw
  | .callRequest ct t => pure ([ct] ++ le4 t)
  | .callReply r => pure [r]
  | .rptBroadcastTx m st sv ct t s => pure (le2 m ++ le2 st ++ le2 sv ++ le2 ct ++ le4 t ++ le4 s)
  | .bcastMsgCfgReq bt => pure [bt, 0, 0, 0, 0, 0, 0, 0]
  | .bcastMsgCfgReply r => pure [r]
  | .idIpQueryReq t => pure [t]
  | .idIpQueryReply r t raw => if raw.length = 4 then pure ([r, t] ++ raw) else throw .assertion
  | .bcastStatusCfgReq raw => pure raw
  | .bcastStatusCfgReply r => pure [r]
  | .talkerAliasReq ct s t f a => pure ([ct] ++ le4 s ++ le4 t ++ [f, a.length] ++ a)
  | .talkerAliasReply r ct s t => pure ([r, ct] ++ le4 s ++ le4 t)
  | .zoneChanReq raw => pure raw
  | .zoneChanReply raw => pure raw
  | .statusNotifyReq st => pure ([st.length] ++ settingsBytes st)
  | .statusNotifyReply r => pure [r]
  | .radioStatusReport t v => pure ([t] ++ le2 v)

def Rcp.frame (p : Rcp) : R Frame := do
  let pl ← p.body.payload
  pure ⟨svcRCP, p.reliable, p.body.opcodeBytes, true, pl⟩

/-- id attribute given as a slice: `x if not x else int.from_bytes(x, "little")` — an empty slice
stays `b""`, an object the property does not talk about -/
def idOf (b : Bytes) : R Nat := if b = [] then throw .unmodelled else pure (ofLe b)

/-- insertion into a Python dict that keeps insertion order -/
def dictInsert (l : List (Nat × Nat)) (k v : Nat) : List (Nat × Nat) :=
  if l.any (·.1 == k) then l.map (fun e => if e.1 == k then (k, v) else e) else l ++ [(k, v)]

/-- the loop of the `StatusChangeNotificationRequest` branch -/
def parseSettings (d : Bytes) : Nat → Nat → List (Nat × Nat) → R (List (Nat × Nat))
  | 0, _, acc => pure acc
  | n + 1, i, acc => do
    let t ← idx d (6 + i)
    let s ← idx d (7 + i)
    parseSettings d n (i + 2)
      (dictInsert acc (enumFold scnTargetValues scnTargetMissing t) (enumFold scnSettingValues scnSettingMissing s))

/-- `RadioControlProtocol.from_bytes` -/
def Rcp.fromBytes (d : Bytes) : R Rcp := do
  let (rel, svc) ← reliableAndServiceB (sl d 0 1)
  if svc ≠ some svcRCP then throw .assertion
  let op := enumFold rcpValues rcpMissing (ofLe (sl d 1 3))
  if op = rcpUnknownService then
    pure ⟨rel, .unknown (sl d 1 3) (sl d 5 (d.length - 2))⟩
  else if op = rcpCallRequest then do
    let ct ← enumOf rcpCallTypeValues (← idx d 5)
    pure ⟨rel, .callRequest ct (← idOf (sl d 6 10))⟩
  else if op = rcpCallReply then do
    pure ⟨rel, .callReply (← enumOf rcpResultValues (← idx d 5))⟩
  else if op = rcpRepeaterBroadcastTransmitStatus then do
    let m ← enumOf rptModeValues (ofLe (sl d 5 7))
    let st ← enumOf rptStatusValues (ofLe (sl d 7 9))
    let sv ← enumOf rptServiceValues (ofLe (sl d 9 11))
    let ct ← enumOf rcpCallTypeValues (ofLe (sl d 11 13))
    let t ← idOf (sl d 13 17)
    let s ← idOf (sl d 17 21)
    pure ⟨rel, .rptBroadcastTx m st sv ct t s⟩
  else if op = rcpBroadcastMessageConfigurationRequest then do
    pure ⟨rel, .bcastMsgCfgReq (← idx d 5)⟩
  else if op = rcpBroadcastMessageConfigurationReply then do
    pure ⟨rel, .bcastMsgCfgReply (← enumOf rcpResultValues (← idx d 5))⟩
  else if op = rcpRadioIDAndRadioIPQueryRequest then do
    pure ⟨rel, .idIpQueryReq (← enumOf rcpIdTargetValues (← idx d 5))⟩
  else if op = rcpRadioIDAndRadioIPQueryReply then do
    let r ← enumOf rcpResultValues (← idx d 5)
    let t ← enumOf rcpIdTargetValues (← idx d 6)
    pure ⟨rel, .idIpQueryReply r t (sl d 7 11)⟩
  else if op = rcpBroadcastStatusConfigurationRequest then do
    let n ← idx d 5
    pure ⟨rel, .bcastStatusCfgReq (sl d 5 (5 + 1 + n * 2))⟩
  else if op = rcpBroadcastStatusConfigurationReply then do
    pure ⟨rel, .bcastStatusCfgReply (← enumOf rcpResultValues (← idx d 5))⟩
  else if op = rcpSendTalkerAliasRequest then do
    let ct ← enumOf rcpCallTypeValues (← idx d 5)
    let f ← enumOf talkerAliasFormatValues (← idx d 14)
    let n ← idx d 15
    let s ← idOf (sl d 6 10)
    let t ← idOf (sl d 10 14)
    pure ⟨rel, .talkerAliasReq ct s t f (sl d 16 (16 + n))⟩
  else if op = rcpSendTalkerAliasReply then do
    let r ← enumOf rcpResultValues (← idx d 5)
    let ct ← enumOf rcpCallTypeValues (← idx d 6)
    let s ← idOf (sl d 7 11)
    let t ← idOf (sl d 11 15)
    pure ⟨rel, .talkerAliasReply r ct s t⟩
  else if op = rcpZoneAndChannelOperationRequest then
    pure ⟨rel, .zoneChanReq (sl d 5 10)⟩
  else if op = rcpZoneAndChannelOperationReply then
    pure ⟨rel, .zoneChanReply (sl d 5 (d.length - 2))⟩
  else if op = rcpStatusChangeNotificationRequest then do
    let n ← idx d 5
    pure ⟨rel, .statusNotifyReq (← parseSettings d n 0 [])⟩
  else if op = rcpStatusChangeNotificationReply then do
    pure ⟨rel, .statusNotifyReply (← enumOf rcpResultValues (← idx d 5))⟩
  else if op = rcpRadioStatusReport then do
    let t ← idx d 5
    pure ⟨rel, .radioStatusReport (enumFold scnTargetValues scnTargetMissing t) (ofLe (sl d 6 8))⟩
  else throw .value

/-! ## HDAP dispatch -/

inductive Pdu
  | rrs (p : Rrs)
  | lp (p : Lp)
  | tmp (p : Tmp)
  | rcp (p : Rcp)
deriving DecidableEq, Repr

def Pdu.frame : Pdu → R Frame
  | .rrs p => p.frame
  | .lp p => p.frame
  | .tmp p => p.frame
  | .rcp p => p.frame

/-- `p.as_bytes()` -/
def Pdu.asBytes (p : Pdu) : R Bytes := Frame.asBytes <$> p.frame
/-- `len(p)` -/
def Pdu.len (p : Pdu) : R Nat := Frame.len <$> p.frame

/-- `HDAP.from_bytes`: `None` for empty data, `KeyError` for a service without parser -/
def Hdap.fromBytes (d : Bytes) : R (Option Pdu) :=
  match d with
  | [] => pure none
  | first :: _ => do
    let (_, svc) ← reliableAndService first
    match svc with
    | none => throw .key
    | some s =>
      if s = svcLP then (fun p => some (Pdu.lp p)) <$> Lp.fromBytes d
      else if s = svcRCP then (fun p => some (Pdu.rcp p)) <$> Rcp.fromBytes d
      else if s = svcRRS then (Option.map Pdu.rrs) <$> Rrs.fromBytes d
      else if s = svcTMP then (Option.map Pdu.tmp) <$> Tmp.fromBytes d
      else throw .key

/-! ## the text argument of the TMP constructor

`self.text_data = text_data if isinstance(text_data, bytes) else text_data.encode("utf-16-le")`:
octets are stored as they are (no decoding, no byte order mark handling, no validation); a `str`
(its code points) goes through Python's strict UTF-16-LE codec, which writes no byte order mark, treats
U+FEFF / U+FFFE like any other character and refuses surrogate code points (`UnicodeEncodeError`). -/

/-- the UTF-16 code units of one code point (`none`: a surrogate code point, or not a code point) -/
def utf16Units (c : Nat) : Option (List Nat) :=
  if c < 0xD800 then some [c]
  else if c < 0xE000 then none
  else if c < 0x10000 then some [c]
  else if c < 0x110000 then some [0xD800 + (c - 0x10000) / 0x400, 0xDC00 + (c - 0x10000) % 0x400]
  else none

/-- one code unit, low octet first -/
def unitLe (u : Nat) : Bytes := [u % 256, u / 256]

/-- `s.encode("utf-16-le")` on the code points of `s` (`none` = `UnicodeEncodeError`) -/
def utf16le : List Nat → Option Bytes
  | [] => some []
  | c :: cs =>
    match utf16Units c, utf16le cs with
    | some us, some r => some (us.flatMap unitLe ++ r)
    | _, _ => none

/-- what `text_data` may be: a `bytes` object or a `str` -/
inductive TextArg
  | octets (b : Bytes)
  | str (cps : List Nat)
deriving DecidableEq, Repr

/-- the value the constructor stores in `self.text_data` -/
def TextArg.stored : TextArg → Option Bytes
  | .octets b => some b
  | .str cps => utf16le cps

/-! ## the forms of the `GPSData` / `LocationProtocol` constructor arguments

The constructors take `Union[bytes, X]` arguments and keep an `X` object as it is.  An `X` object may
carry more than is serialised (a `datetime.time` has microseconds, a UTC offset and `fold`; a
`datetime` is a `date` with a time of day) or be of another numeric type (an `int` for a coordinate).
The model gives every form a reading: the value the serialiser will see. -/

/-- `greenwich_time: Union[bytes, time]`: a `datetime.time` (or subclass) with everything it carries,
or six octets (`hhmmss` in ASCII digits, six NULs = absent) -/
inductive TimeArg
  | time (h m s us : Nat) (tz : Option Int) (fold : Nat)
  | octets (b : Bytes)
deriving DecidableEq, Repr

/-- what `as_bytes` reads of the stored object: `strftime("%H%M%S")` looks at hour, minute and second
only; octets go through `time(hour=int(b[0:2]), …)` -/
def TimeArg.stored : TimeArg → R (Option (Nat × Nat × Nat))
  | .time h m s _ _ _ => pure (some (h, m, s))
  | .octets b => parseTime b

/-- `greenwich_date: Union[bytes, date]`: a `date`, a `datetime` (a subclass of `date`: day + time of
day, microseconds, UTC offset), or six octets (`ddmmyy`) -/
inductive DateArg
  | date (d m yy : Nat)
  | datetime (d m yy h mi s us : Nat) (tz : Option Int)
  | octets (b : Bytes)
deriving DecidableEq, Repr

/-- `strftime("%d%m%y")` looks at day, month and year only -/
def DateArg.stored : DateArg → R (Option (Nat × Nat × Nat))
  | .date d m y => pure (some (d, m, y))
  | .datetime d m y _ _ _ _ _ => pure (some (d, m, y))
  | .octets b => parseDate b

/-- a coordinate: a number on the 10^-4 grid (`float`, `numpy.float64`, `Decimal`, `Fraction`: its value
in units of 10^-4), a Python `int` (`bool`, `IntEnum`), or ASCII octets -/
inductive CoordArg
  | fixed4 (v4 : Nat)
  | int (n : Nat)
  | octets (b : Bytes)
deriving DecidableEq, Repr

def CoordArg.stored : CoordArg → R Nat
  | .fixed4 v => pure v
  | .int n => pure (n * 10000)
  | .octets b => parseCoord b

/-- `speed_knots: Union[bytes, float]` -/
inductive SpeedArg
  | float (s : Dec)
  | octets (b : Bytes)
deriving DecidableEq, Repr

def SpeedArg.stored : SpeedArg → R Dec
  | .float s => pure s
  | .octets b => parseSpeed b

/-- `direction: Union[bytes, int]` -/
inductive DirArg
  | int (n : Nat)
  | octets (b : Bytes)
deriving DecidableEq, Repr

def DirArg.stored : DirArg → R Nat
  | .int n => pure n
  | .octets b => parseDir b

structure GpsArgs where
  valid : Bool
  time : TimeArg
  date : DateArg
  north : Bool
  lat : CoordArg
  east : Bool
  lon : CoordArg
  speed : SpeedArg
  dir : DirArg
deriving DecidableEq, Repr

/-- `GPSData.__init__` (evaluation order of the constructor) followed by what `as_bytes` reads -/
def GpsArgs.init (a : GpsArgs) : R Gps := do
  let time ← a.time.stored
  let date ← a.date.stored
  let lat ← a.lat.stored
  let lon ← a.lon.stored
  let speed ← a.speed.stored
  let dir ← a.dir.stored
  pure ⟨a.valid, time, date, a.north, lat, a.east, lon, speed, dir⟩

/-- the plain form of GPS values: `time` / `date` objects without anything extra, floats, an int -/
def Gps.plainArgs (g : Gps) : GpsArgs :=
  ⟨g.valid,
   match g.time with | some (h, m, s) => .time h m s 0 none 0 | none => .octets nul6,
   match g.date with | some (d, m, y) => .date d m y | none => .octets nul6,
   g.north, .fixed4 g.lat4, g.east, .fixed4 g.lon4, .float g.speed, .int g.direction⟩

/-- an integer argument that may also be handed over as octets (`Union[int, bytes]`): request id,
result (big-endian), RCP ids (little-endian), the id of a `RadioIP` -/
inductive IntArg
  | int (n : Nat)
  | octets (b : Bytes)
deriving DecidableEq, Repr

def IntArg.be : IntArg → Nat
  | .int n => n
  | .octets b => ofBe b

def IntArg.le : IntArg → Nat
  | .int n => n
  | .octets b => ofLe b

end Dmr.Hytera
