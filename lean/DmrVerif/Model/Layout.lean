import DmrVerif.Model.Bits
import DmrVerif.Model.Elem

/-!
Field-layout vocabulary shared by the PDU models (C03) and the burst model (C01).

Everything mirrors one bitarray idiom of the library:

* `slice bs off w`       `bits[off : off + w]`
* `getField bs off w`    `ba2int(bits[off : off + w])`
* `getBit bs i`          `bits[i]`                                  (from `Model/Bits.lean`)
* `natToBits w v`        `int2ba(v, length = w)`                    (from `Model/Bits.lean`)
* `boolBits [a, b]`      `bitarray([a, b])`
* `bytesToBits d`        `bytes_to_bits(d)`        `bitsToBytes bs`  `bits.tobytes()` / `bits_to_bytes`
* `toSigned w u`         `ba2int(bits, signed=True)` of a `w`-bit field whose unsigned value is `u`
* `fromSigned w n`       the unsigned value of `int2ba(n, length = w, signed=True)`
-/

namespace Dmr

/-- `bits[off : off + w]` (Python slicing: shorter if the string ends early) -/
def slice (bs : Bits) (off w : Nat) : Bits := (bs.drop off).take w

/-- `ba2int(bits[off : off + w])` -/
def getField (bs : Bits) (off w : Nat) : Nat := bitsToNat (slice bs off w)

/-- the integer `0/1` of a flag, as `int2ba` / `<<` see it -/
def b2n (b : Bool) : Nat := if b then 1 else 0

/-- `x in (True, 1)` for an `x` that is a bit of a bitarray (an int 0/1) or a bool -/
def n2b (n : Nat) : Bool := n == 1

/-- two's complement reading of a `w`-bit field with unsigned value `u` -/
def toSigned (w u : Nat) : Int := if u < 2 ^ (w - 1) then (u : Int) else (u : Int) - (2 ^ w : Nat)

/-- unsigned value of the `w`-bit two's complement field that encodes `n` -/
def fromSigned (w : Nat) (n : Int) : Nat := (n % ((2 ^ w : Nat) : Int)).toNat

/-- `int2ba(n, length = w, signed = True)` accepts exactly this range (else `OverflowError`) -/
def signedInRange (w : Nat) (n : Int) : Prop :=
  -((2 ^ (w - 1) : Nat) : Int) ≤ n ∧ n < ((2 ^ (w - 1) : Nat) : Int)

instance (w : Nat) (n : Int) : Decidable (signedInRange w n) := by unfold signedInRange; exact inferInstance

/-- every octet is `< 256` (what Python's `bytes` guarantees) -/
def isBytes (d : Bytes) : Bool := d.all (fun b => decide (b < 256))

/-- all bits zero: `ba2int(x) == 0` -/
def allZero (bs : Bits) : Bool := bs.all (fun b => !b)

/-- an optional attribute is present and satisfies `P` -/
def optIs {α : Type} (o : Option α) (P : α → Prop) : Prop :=
  match o with
  | some a => P a
  | none => False

instance {α : Type} (o : Option α) (P : α → Prop) [DecidablePred P] : Decidable (optIs o P) := by
  unfold optIs; cases o <;> exact inferInstance

/-! ### text encodings for the line protocol -/

def natOfString (s : String) : Option Nat := s.toNat?

def intOfString (s : String) : Option Int :=
  if s.startsWith "-" then (s.drop 1).toNat?.map (fun n => -(n : Int)) else s.toNat?.map (fun n => (n : Int))

def boolOfString (s : String) : Option Bool :=
  if s == "1" then some true else if s == "0" then some false else none

def b01 (b : Bool) : String := if b then "1" else "0"

/-- bit strings may be empty: "-" encodes the empty string -/
def bitsOfString' (s : String) : Option Bits := if s == "-" then some [] else bitsOfString s

def bitsToString' (bs : Bits) : String := if bs.isEmpty then "-" else bitsToString bs

def exceptToString {α : Type} (f : α → String) : Except Err α → String
  | .ok a => f a
  | .error e => e.toString

end Dmr
