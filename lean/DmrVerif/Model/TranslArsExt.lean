import DmrVerif.Gen.TranslArs
import DmrVerif.Model.Ars

/-!
The call boundary of `Gen/TranslArs.lean` instantiated with the hand-written model of C16, and the attributes of the Python
objects spelled out in terms of the model's records.  Used by the equality theorems (`Props/C16t`) and by the driver
operations `t.ars.*`.

`modelExt`: `bytes_to_bits` / `bits_to_bytes` (bitarray `frombytes` / `tobytes`, big endian) are `bytesToBits` / `bitsToBytes` of
`Model/Bits`; `str.encode("utf-8")` / `bytes.decode("utf-8")` are THE MODEL'S CODEC: a `str` is represented by its UTF-8 encoding
(`PyObj.Str`), so `encode` is the projection and `decode` succeeds exactly on the well-formed octet strings (`Ars.validUtf8`,
Unicode Table 3-7 — what CPython's strict decoder accepts; compared with it on every run by `ars.utf8` and by `t.ars.dec`),
`UnicodeDecodeError` otherwise.  Trusted: that these are the right models of the four callees, and their purity.
Core Lean only.
-/

namespace Dmr.Transl.Ars
open Dmr Dmr.Py Dmr.PyBits

def modelExt : Ext where
  bytes_to_bits := fun b => .ok (bytesToBits b)
  bits_to_bytes := fun b => .ok (bitsToBytes b)
  str_encode_utf8 := fun s => .ok s.utf8
  bytes_decode_utf8 := fun b => if Dmr.Ars.validUtf8 b then .ok ⟨b⟩ else .error (.other "UnicodeDecodeError")

@[simp] theorem ext_b2b (b : List Nat) : modelExt.bytes_to_bits b = .ok (bytesToBits b) := rfl
@[simp] theorem ext_bits2b (b : List Bool) : modelExt.bits_to_bytes b = .ok (bitsToBytes b) := rfl
@[simp] theorem ext_enc (s : PyObj.Str) : modelExt.str_encode_utf8 s = .ok s.utf8 := rfl
@[simp] theorem ext_dec (b : List Nat) :
    modelExt.bytes_decode_utf8 b = if Dmr.Ars.validUtf8 b then .ok ⟨b⟩ else .error (.other "UnicodeDecodeError") := rfl

/-- exception classes of the C16 models as Python exceptions -/
def liftE : Tms.Err → PyErr
  | .assertion => .assertion
  | .value => .value
  | .index => .index
  | .type => .type
  | .overflow => .overflow
  | .attribute => .other "AttributeError"
  | .unicode => .other "UnicodeDecodeError"

/-- a result of the model as a result of translated code -/
def ofE {α β : Type} (f : α → β) : Except Tms.Err α → PyM β
  | .ok v => .ok (f v)
  | .error e => .error (liftE e)

@[simp] theorem ofE_ok {α β : Type} (f : α → β) (v : α) : ofE f (.ok v) = .ok (f v) := rfl
@[simp] theorem ofE_error {α β : Type} (f : α → β) (e : Tms.Err) : ofE f (.error e : Except Tms.Err α) = .error (liftE e) := rfl

/-- the model's first header as the Python object (Enum member = its value) -/
def fhObj (h : Dmr.Ars.FirstHeader) : FirstHeader :=
  { has_more_headers := some h.more, is_acknowledged := some h.ack, is_priority := some h.priority,
    is_control_message := some h.ctl, pdu_type := some (h.ptype.val : Nat) }

def rrhObj (r : Dmr.Ars.Rrh) : RegistrationRequestHeader :=
  { event := some (r.event.val : Nat), encoding := some (r.enc.val : Nat) }

/-- the model's response header: `ctx = some a` is the object after `.context(h)` with a header `h` whose
`is_acknowledged` is `a` — the message's own header with that flag (`from_bytes` passes the message's own header, `a = hdr.ack`) -/
def rshObj (hdr : Dmr.Ars.FirstHeader) (r : Dmr.Ars.Rsh) : ResponseSecondHeader :=
  { failure_reason := some (r.failure.map (fun f => ((f.val : Nat) : Int))),
    refresh_time := some (r.refresh.map (fun n => ((n : Nat) : Int))),
    first_header := some (r.ctx.map (fun a => fhObj { hdr with ack := a })) }

def strOf (b : Bytes) : PyObj.Str := ⟨b⟩

/-- the model's message as the Python object -/
def arsObj (m : Dmr.Ars.Msg) : AutomaticRegistrationService :=
  { header := some (fhObj m.header),
    response_second_header := some (m.rsh.map (rshObj m.header)),
    registration_request_header := some (m.rrh.map rrhObj),
    device_identifier := some (m.device.map strOf),
    user_identifier := some (m.user.map strOf),
    password := some (m.password.map strOf),
    is_csbk_ars := some m.csbk }

/-- every element is an octet (the invariant of a Python `bytes`) -/
def isBytes (l : List Nat) : Prop := ∀ x ∈ l, x < 256

end Dmr.Transl.Ars
