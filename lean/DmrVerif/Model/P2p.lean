import DmrVerif.Model.Bits
import DmrVerif.Model.Storage
import DmrVerif.Gen.Proto

/-!
# Model of `P2PDatagramProtocol.datagram_received` (C18)

Line-by-line model of `protocols/hytera/p2p_datagram_protocol.py` over the storage model of C20.
The byte constants are the ones `tools/extract_proto.py` read from `/repo` (`Gen/Proto.lean`).

* An input is a datagram `(data, address)` plus the outcome of the external call
  `Repeater.read_snmp_values` (network I/O; `snmpFails` = it raises), or an *environment* action: the
  application stores the repeater's outbound address (`storage.match_incoming(address,
  auto_create=True, patch={"address_out": out})` — "must be handled outside" in the source), or any
  other single member / attribute (`envPatch`; the theorems assume it never writes `id`, `address_in`
  or the is-registered key itself: `envOk`).
* An output is one `transport.sendto(data, dest)`, tagged with the statement that emitted it.
* Every exception the code can raise on a datagram is an explicit `Res.err`: `data[4] += 1` with
  `data[4] = 255` (`ValueError`), `data[12]`/`data[14]` of a ping shorter than 15 octets
  (`IndexError`), `port.to_bytes(2, "little")` with a port ≥ 65536 (`OverflowError`, after the accept
  was already sent), the stubbed SNMP call, and `"… %s:%s" % address` with a peer address that is not a
  2-tuple (`TypeError`, after the accept was sent: the log message of the two start-up handlers is
  formatted eagerly).
* A peer address is what the transport hands over: `(ip, port)`, or a longer tuple `(ip, port, *ext)` —
  asyncio reports AF_INET6 peers as `(host, port, flowinfo, scope_id)`.  The storage compares the whole
  tuple: peers that differ only in `ext` are different peers.
-/

namespace Dmr.P2p
open Dmr Dmr.Storage

/-- `(ip, port, *ext)`; the ip is a Python `str` kept as code points; `ext = []` for the usual 2-tuple,
`[flowinfo, scope_id]` for an AF_INET6 peer -/
structure Addr where
  ip : List Nat
  port : Nat
  ext : List Nat := []
  deriving DecidableEq, Repr, Inhabited

/-- the Python value of the address tuple -/
def Addr.val (a : Addr) : Val :=
  match a.ext with
  | [] => .addr a.ip a.port
  | e :: t => .tupN a.ip (a.port :: e :: t)

/-- `"%s:%s" % address` needs exactly two elements -/
def Addr.isPair (a : Addr) : Bool := a.ext.isEmpty

/-- handler configuration: `p2p_port`, `rdac_port` -/
structure Cfg where
  p2pPort : Nat
  rdacPort : Nat
  deriving DecidableEq, Repr, Inhabited

def Cfg.default : Cfg := { p2pPort := Gen.Proto.p2pDefaultP2pPort, rdacPort := Gen.Proto.p2pDefaultRdacPort }

inductive Input
  /-- `datagram_received(data, address)`; `snmpFails`: the stubbed `read_snmp_values` raises -/
  | datagram (address : Addr) (data : Bytes) (snmpFails : Bool)
  /-- the application records the outbound address of the repeater at `address` -/
  | setOut (address : Addr) (out : Val)
  /-- the application patches one member / dynamic attribute of the repeater at `address`:
  `storage.match_incoming(address, auto_create=True, patch={key: v})` (used to give records attributes
  whose names nearly equal the is-registered key) -/
  | envPatch (address : Addr) (key : Key) (v : Val)
  deriving DecidableEq, Repr, Inhabited

/-- which `sendto` statement emitted the datagram -/
inductive OutKind
  | registrationAnswer | reject | rdacAccept | rdacRedirect | dmrAccept | dmrRedirect | pingAnswer
  deriving DecidableEq, Repr, Inhabited

structure Out where
  kind : OutKind
  data : Bytes
  dest : Val
  deriving DecidableEq, Repr, Inhabited

inductive Err
  | valueError | indexError | overflowError | snmpError | typeError
  deriving DecidableEq, Repr, Inhabited

inductive Res
  | ok
  | err (e : Err)
  deriving DecidableEq, Repr, Inhabited

/-- `STORAGE_ATTR_IS_REGISTERED` -/
def regKey : String := Gen.Proto.p2pIsRegisteredKey

/-- `data[:3] == COMMAND_PREFIX` -/
def isCommand (data : Bytes) : Bool := data.take 3 == Gen.Proto.p2pCommandPrefix
/-- `data[4:9] == PING_PREFIX` -/
def isPing (data : Bytes) : Bool := (data.drop 4).take 5 == Gen.Proto.p2pPingPrefix
/-- `data[4:9] == ACK_PREFIX` (only used for logging by the code) -/
def isAck (data : Bytes) : Bool := (data.drop 4).take 5 == Gen.Proto.p2pAckPrefix
/-- `data[20] if len(data) > 20 else 0` -/
def commandType (data : Bytes) : Nat := data.getD 20 0

/-- what `datagram_received` dispatches to -/
inductive Dispatch
  | registration | rdacRequest | dmrRequest | ping | nothing
  deriving DecidableEq, Repr, Inhabited

def dispatch (data : Bytes) : Dispatch :=
  if isCommand data then
    if commandType data = Gen.Proto.p2pTypeRegistration then .registration
    else if commandType data = Gen.Proto.p2pTypeRdacStartup then .rdacRequest
    else if commandType data = Gen.Proto.p2pTypeDmrStartup then .dmrRequest
    else .nothing
  else if isPing data then .ping
  else .nothing

/-- `bytearray` item assignment `data[i] = v` (`none`: `IndexError`) -/
def setByte (data : Bytes) (i v : Nat) : Option Bytes :=
  if i < data.length then some (data.set i v) else Option.none

/-- `data[i] += 1` (`Except`: `IndexError` if out of range, `ValueError` if the octet is 255) -/
def incByte (data : Bytes) (i : Nat) : Except Err Bytes :=
  match data[i]? with
  | Option.none => .error .indexError
  | some b => if b + 1 < 256 then .ok (data.set i (b + 1)) else .error .valueError

/-- several `data[i] = v` in sequence -/
def setBytes (data : Bytes) : List (Nat × Nat) → Option Bytes
  | [] => some data
  | (i, v) :: t => (setByte data i v).bind (fun d => setBytes d t)

/-- `get_redirect_packet(data, target_port)` (`Except`: `IndexError` / `OverflowError`) -/
def redirectPacket (data : Bytes) (port : Nat) : Except Err Bytes :=
  match setBytes (data.take (data.length - 1)) [(4, 0x0B), (12, 0xFF), (13, 0xFF), (14, 0x01), (15, 0x00)] with
  | Option.none => .error .indexError
  | some d =>
    if port < 65536 then .ok (d ++ [0xFF, 0x01] ++ [port % 256, port / 256]) else .error .overflowError

/-- the stored record of the requester and whether it is registered:
`rpt = self.storage.match_incoming(address)`; `not rpt or not rpt.attr(IS_REGISTERED)` -/
def registeredRec (s : Store) (a : Addr) : Option Rec :=
  match s.first (fun r => r.addressIn == a.val) with
  | some i =>
    match s.objs[i]? with
    | some r => if (r.attr regKey).truthy then some r else Option.none
    | Option.none => Option.none
  | Option.none => Option.none

/-- `handle_registration` -/
def handleRegistration (s : Store) (a : Addr) (data : Bytes) (snmpFails : Bool) : Store × List Out × Res :=
  match setByte data 3 0x50 with
  | Option.none => (s, [], .err .indexError)
  | some d1 =>
    match incByte d1 4 with
    | .error e => (s, [], .err e)
    | .ok d2 =>
      match setBytes d2 [(13, 0x01), (14, 0x01), (15, 0x5A)] with
      | Option.none => (s, [], .err .indexError)
      | some d3 =>
        let answer := d3 ++ [0x01]
        -- rpt = self.storage.match_incoming(address=address, auto_create=True)
        let m := Storage.step s (.matchIncoming a.val true [])
        match m.2 with
        | .obj i =>
          match m.1.objs[i]? with
          | some r =>
            let outs := [{ kind := .registrationAnswer, data := answer, dest := r.addressOut : Out }]
            if snmpFails then (m.1, outs, .err .snmpError)
            else ((Storage.step m.1 (.attr i regKey (.int 1))).1, outs, .ok)
          | Option.none => (m.1, [], .err .indexError)   -- unreachable (the returned object exists)
        | _ => (m.1, [], .err .indexError)                -- unreachable (auto-create always returns an object)

/-- `handle_rdac_request` -/
def handleRdacRequest (cfg : Cfg) (s : Store) (a : Addr) (data : Bytes) : Store × List Out × Res :=
  match registeredRec s a with
  | Option.none => (s, [{ kind := .reject, data := [0x00], dest := a.val }], .ok)
  | some r =>
    match incByte data 4 with
    | .error e => (s, [], .err e)
    | .ok d1 =>
      match setByte d1 13 0x01 with
      | Option.none => (s, [], .err .indexError)
      | some d2 =>
        let accept := d2 ++ [0x01]
        let o1 : Out := { kind := .rdacAccept, data := accept, dest := r.addressOut }
        -- self.log_debug("RDAC Accept for %s:%s" % address)
        if a.isPair = false then (s, [o1], .err .typeError) else
        match redirectPacket accept cfg.rdacPort with
        | .error e => (s, [o1], .err e)
        | .ok red => (s, [o1, { kind := .rdacRedirect, data := red, dest := r.addressOut }], .ok)

/-- `rpt.address_in[1]` of a record whose `address_in` equals the requester's address tuple -/
def portOf : Val → Option Nat
  | .addr _ p => some p
  | .tupN _ (p :: _) => some p
  | _ => Option.none

/-- `handle_dmr_request` -/
def handleDmrRequest (cfg : Cfg) (s : Store) (a : Addr) (data : Bytes) : Store × List Out × Res :=
  match registeredRec s a with
  | Option.none => (s, [{ kind := .reject, data := [0x00], dest := a.val }], .ok)
  | some r =>
    let responseAddress : Val := .addr a.ip cfg.p2pPort
    match incByte data 4 with
    | .error e => (s, [], .err e)
    | .ok d1 =>
      match setByte d1 13 0x01 with
      | Option.none => (s, [], .err .indexError)
      | some d2 =>
        let accept := d2 ++ [0x01]
        let o1 : Out := { kind := .dmrAccept, data := accept, dest := responseAddress }
        -- self.log_debug("DMR Accept for %s:%s" % address)
        if a.isPair = false then (s, [o1], .err .typeError) else
        match portOf r.addressIn with
        | Option.none => (s, [o1], .err .indexError)     -- unreachable: address_in == the address tuple
        | some port =>
          match redirectPacket accept port with
          | .error e => (s, [o1], .err e)
          | .ok red => (s, [o1, { kind := .dmrRedirect, data := red, dest := responseAddress }], .ok)

/-- `handle_ping` -/
def handlePing (s : Store) (a : Addr) (data : Bytes) : Store × List Out × Res :=
  match registeredRec s a with
  | Option.none => (s, [{ kind := .reject, data := [0x00], dest := a.val }], .ok)
  | some _ =>
    match setBytes data [(12, 0xFF), (14, 0x01)] with
    | Option.none => (s, [], .err .indexError)
    | some d => (s, [{ kind := .pingAnswer, data := d, dest := a.val }], .ok)

/-- one input -/
def step (cfg : Cfg) (s : Store) : Input → Store × List Out × Res
  | .datagram a data snmpFails =>
    match dispatch data with
    | .registration => handleRegistration s a data snmpFails
    | .rdacRequest => handleRdacRequest cfg s a data
    | .dmrRequest => handleDmrRequest cfg s a data
    | .ping => handlePing s a data
    | .nothing => (s, [], .ok)
  | .setOut a out =>
    ((Storage.step s (.matchIncoming a.val true [(.field .addressOut, out)])).1, [], .ok)
  | .envPatch a key v =>
    ((Storage.step s (.matchIncoming a.val true [(key, v)])).1, [], .ok)

/-- run a history, collecting outputs and outcomes per input -/
def runFrom (cfg : Cfg) (s : Store) : List Input → Store × List (List Out × Res)
  | [] => (s, [])
  | i :: t =>
    let r := step cfg s i
    let rest := runFrom cfg r.1 t
    (rest.1, (r.2.1, r.2.2) :: rest.2)

def run (cfg : Cfg) (h : List Input) : Store × List (List Out × Res) := runFrom cfg Storage.init h

end Dmr.P2p
