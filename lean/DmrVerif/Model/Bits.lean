/-
Bit strings and byte strings used by every model.

`Bits` is a `List Bool` in bitarray index order (index 0 first).  `natToBits w v` mirrors
`bitarray.util.int2ba(v, length=w)` (big endian, most significant bit first) and `bitsToNat`
mirrors `ba2int` on a big-endian bitarray.  Bytes are `List Nat` with every element `< 256`.
This file has no imports so the line-protocol driver can be compiled to a native executable.
-/

namespace Dmr

abbrev Bits := List Bool
abbrev Bytes := List Nat

/-- `ba2int` of a big-endian bitarray. -/
def bitsToNat (bs : Bits) : Nat := bs.foldl (fun acc b => 2 * acc + b.toNat) 0

/-- `int2ba(v, length = w)`: the low `w` bits of `v`, most significant first. -/
def natToBits : Nat → Nat → Bits
  | 0, _ => []
  | w + 1, v => (v / 2 ^ w % 2 == 1) :: natToBits w v

/-- bitwise xor of two equally long bit strings (zipWith truncates like Python's zip) -/
def xorBits (a b : Bits) : Bits := List.zipWith Bool.xor a b

def zeros (n : Nat) : Bits := List.replicate n false

/-- number of set bits -/
def weight (bs : Bits) : Nat := (bs.filter id).length

/-- invert the bit at index `i` (no change if out of range, like a guarded `invert`) -/
def flipAt (i : Nat) (bs : Bits) : Bits := bs.modify i not

/-- `bits[i]` with `false` outside (callers establish the range) -/
def getBit (bs : Bits) (i : Nat) : Bool := bs.getD i false

/-- gather: `out[i] = bits[tbl[i]]` — every (de)interleaver of the library is one of these -/
def gather (tbl : List Nat) (bs : Bits) : Bits := tbl.map (getBit bs)

/-- mod-2 dot product of two bit vectors (`numpy.dot` mod 2 of two 0/1 vectors) -/
def dot : Bits → Bits → Bool
  | a :: as, b :: bs => Bool.xor (a && b) (dot as bs)
  | _, _ => false

/-- the `i`-th unit vector of length `n` -/
def unit : Nat → Nat → Bits
  | 0, _ => []
  | n + 1, 0 => true :: zeros n
  | n + 1, i + 1 => false :: unit n i

/-- bytes → bits, most significant bit of every octet first (`bitarray.frombytes`, big endian) -/
def bytesToBits (bs : Bytes) : Bits := bs.flatMap (natToBits 8)

set_option linter.unusedVariables false in
/-- chunks of `n` elements; a trailing short chunk is kept (callers pass multiples) -/
def chunks {α : Type} (n : Nat) (l : List α) : List (List α) :=
  if h : n = 0 ∨ l = [] then [] else
    l.take n :: chunks n (l.drop n)
termination_by l.length
decreasing_by
  simp only [List.length_drop]
  have : l.length ≠ 0 := by
    intro h0; exact h (Or.inr (List.eq_nil_of_length_eq_zero h0))
  omega

/-- bits → bytes, zero padded at the end like `bitarray.tobytes` -/
def bitsToBytes (bs : Bits) : Bytes :=
  (chunks 8 bs).map (fun c => bitsToNat (c ++ zeros (8 - c.length)))

/-! ### text encodings for the line protocol -/

def bitsToString (bs : Bits) : String := String.ofList (bs.map (fun b => if b then '1' else '0'))

def bitsOfString (s : String) : Option Bits :=
  s.toList.mapM (fun c => if c == '0' then some false else if c == '1' then some true else none)

def hexDigit (n : Nat) : Char :=
  if n < 10 then Char.ofNat (48 + n) else Char.ofNat (87 + n)

def bytesToHex (bs : Bytes) : String :=
  String.ofList (bs.flatMap (fun b => [hexDigit (b / 16 % 16), hexDigit (b % 16)]))

def hexVal (c : Char) : Option Nat :=
  if '0' ≤ c ∧ c ≤ '9' then some (c.toNat - 48)
  else if 'a' ≤ c ∧ c ≤ 'f' then some (c.toNat - 87)
  else if 'A' ≤ c ∧ c ≤ 'F' then some (c.toNat - 55)
  else none

def hexToBytesAux : List Char → Option Bytes
  | [] => some []
  | [_] => none
  | a :: b :: rest => do
    let x ← hexVal a
    let y ← hexVal b
    let r ← hexToBytesAux rest
    pure ((16 * x + y) :: r)

/-- "-" encodes the empty byte string so that every argument is a non-empty token -/
def hexToBytes (s : String) : Option Bytes :=
  if s == "-" then some [] else hexToBytesAux s.toList

def bytesToHex' (bs : Bytes) : String := if bs.isEmpty then "-" else bytesToHex bs

end Dmr
