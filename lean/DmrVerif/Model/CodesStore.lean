import DmrVerif.Model.Codes

/-!
Two aspects of the block-code entry points that the plain functions of `Model/Codes.lean` abstract
away, made explicit so that the correspondence run can exercise them (C06 hardening):

* **storage of the argument** — a `bitarray` is a buffer of octets plus `endian()` plus `len()`;
  the entry points read the *logical* bit sequence (`bits.tolist()`), never the buffer.
  `bitsOfStore` / `storeOfBits` model `bitarray(buffer…)` / `tobytes()` for both bit orders, and
  `Code.genStore / checkStore / cacStore` are the entry points seen from the buffer.
* **result objects over a history of calls** — `generate` returns a *new* `ndarray`,
  `check_and_correct` / `correct_numpy_array` hand back one object per call; the caller may keep
  every one of them and may overwrite any of them.  `Heap` is the list of the objects handed out
  so far, `HOp.run` one step of a history.
-/

namespace Dmr

/-! ### the buffer of a bitarray -/

/-- the eight bits of one buffer octet in index order: `endian='big'` keeps the lower index in the
more significant bit, `endian='little'` in the less significant one -/
def byteBits (little : Bool) (b : Nat) : Bits :=
  if little then (natToBits 8 b).reverse else natToBits 8 b

/-- the logical bits of a bitarray with buffer `bs`, bit order `little` and `len() = n` -/
def bitsOfStore (little : Bool) (bs : Bytes) (n : Nat) : Bits :=
  (bs.flatMap (byteBits little)).take n

/-- the buffer octet holding the eight bits `c` (index order) -/
def byteOfBits (little : Bool) (c : Bits) : Nat :=
  bitsToNat (if little then c.reverse else c)

/-- the first `c` octets of `tobytes()`: unused (pad) bits of the last octet are zero -/
def storeN (little : Bool) : Nat → Bits → Bytes
  | 0, _ => []
  | c + 1, w =>
    byteOfBits little (w.take 8 ++ zeros (8 - (w.take 8).length)) :: storeN little c (w.drop 8)

/-- `tobytes()` of a bitarray with the logical bits `w` and bit order `little` -/
def storeOfBits (little : Bool) (w : Bits) : Bytes := storeN little ((w.length + 7) / 8) w

namespace Code

/-- `generate` applied to a bitarray given by its buffer -/
def genStore (C : Code) (little : Bool) (bs : Bytes) (n : Nat) : Bits :=
  C.gen (bitsOfStore little bs n)

/-- `check` applied to a bitarray given by its buffer -/
def checkStore (C : Code) (little : Bool) (bs : Bytes) (n : Nat) : Bool :=
  C.check (bitsOfStore little bs n)

/-- `check_and_correct` applied to a bitarray given by its buffer; the result is the same object,
so it keeps its bit order: verdict and the buffer afterwards -/
def cacStore (C : Code) (little : Bool) (bs : Bytes) (n : Nat) : Bool × Bytes :=
  let r := C.checkAndCorrect (bitsOfStore little bs n)
  (r.1, storeOfBits little r.2)

end Code

/-! ### result objects over a history of calls -/

/-- the objects handed out so far (oldest first); a handle is the index of its object.  An `Array`
so that the compiled driver can follow histories of tens of thousands of objects. -/
structure Heap where
  cells : Array Bits

namespace Heap

def empty : Heap := ⟨#[]⟩
def size (h : Heap) : Nat := h.cells.size
/-- current content of object `r` -/
def read (h : Heap) (r : Nat) : Option Bits := h.cells[r]?
/-- a new object; its handle is the old `size` -/
def push (h : Heap) (v : Bits) : Heap := ⟨h.cells.push v⟩
/-- overwrite object `r` in place (nothing happens for a handle that was never handed out) -/
def write (h : Heap) (r : Nat) (v : Bits) : Heap := ⟨h.cells.setIfInBounds r v⟩

end Heap

/-- one step of a caller's history.  Arguments are passed by value (the harness builds a fresh
argument object per call), every result is a new handle. -/
inductive HOp where
  /-- `X.generate(m)`: the code word is a freshly allocated array -/
  | gen (C : Code) (m : Bits)
  /-- `X.check(w)`: a `bool`, no object is handed out or touched -/
  | check (C : Code) (w : Bits)
  /-- `X.check_and_correct(w)`: the (possibly repaired) bitarray is held by the caller -/
  | cac (C : Code) (w : Bits)
  /-- `X.correct_numpy_array(w)`: the resulting array is held by the caller -/
  | correct (C : Code) (w : Bits)
  /-- the caller overwrites object `r` with `v` -/
  | overwrite (r : Nat) (v : Bits)

namespace HOp

/-- the handle an operation writes to, if any -/
def target : HOp → Option Nat
  | overwrite r _ => some r
  | _ => none

def run (h : Heap) : HOp → Heap
  | gen C m => h.push (C.gen m)
  | check _ _ => h
  | cac C w => h.push (C.checkAndCorrect w).2
  | correct C w => h.push (C.correct w)
  | overwrite r v => h.write r v

end HOp

/-- a whole history -/
def runHistory (h : Heap) (ops : List HOp) : Heap := ops.foldl HOp.run h

/-- the code book a caller collects: `[X.generate(m) for m in ms]` -/
def Code.genAll (C : Code) (h : Heap) (ms : List Bits) : Heap := runHistory h (ms.map (HOp.gen C))

/-! ### argument checks: calls that are rejected -/

namespace HOp

/-- does the call pass the length assertion of its entry point (`assert len(bits) == …`) -/
def accepted : HOp → Bool
  | gen C m => m.length == C.k
  | check C w => w.length == C.n
  | cac C w => w.length == C.n
  | correct C w => w.length == C.n
  | overwrite _ _ => true

/-- one step as the library runs it: a rejected call raises `AssertionError`, hands out nothing and
leaves every object as it is -/
def runE (h : Heap) (op : HOp) : Heap := if op.accepted then op.run h else h

end HOp

/-- a whole history in which calls may be rejected -/
def runHistoryE (h : Heap) (ops : List HOp) : Heap := ops.foldl HOp.runE h

/-! ### the memory of an ndarray argument

`correct_numpy_array` (and, in practice, `generate`) receive one-dimensional ndarrays: rows and
columns of the BPTC tables, arrays over foreign buffers (`numpy.frombuffer`), frozen arrays.  What
the entry points read is `bits.tolist()`: the element values, whatever the memory looks like.  The
view is modelled as a buffer of octets plus item size, byte order, offset and stride (distance of
consecutive elements in octets); whether the memory may be written is deliberately *not* part of
the model: the entry points never write into their ndarray argument (`correct_numpy_array`
converts to a bitarray and returns a new array), so a read-only argument must give the same result. -/

/-- the view of a one-dimensional ndarray on its buffer -/
structure NdLayout where
  /-- `itemsize` in octets -/
  sz : Nat
  /-- byte order of one element (`>` = big) -/
  big : Bool
  /-- offset of element 0 in the buffer, in octets -/
  off : Nat
  /-- `strides[0]`: distance of consecutive elements, in octets -/
  stride : Nat

/-- the integer an element holds, from its octets -/
def elemVal (big : Bool) (bs : Bytes) : Nat :=
  (if big then bs else bs.reverse).foldl (fun acc b => 256 * acc + b) 0

/-- the bit an element stands for; `none`: the element is cut off by the end of the buffer, or its
value is neither 0 nor 1 (`bitarray(values)` raises) -/
def elemBit (L : NdLayout) (bs : Bytes) : Option Bool :=
  if bs.length != L.sz then none else
  match elemVal L.big bs with
  | 0 => some false
  | 1 => some true
  | _ => none

def ndBitsAux (L : NdLayout) : Nat → Bytes → Option Bits
  | 0, _ => some []
  | n + 1, buf =>
    match elemBit L (buf.take L.sz), ndBitsAux L n (buf.drop L.stride) with
    | some b, some r => some (b :: r)
    | _, _ => none

/-- `bits.tolist()` of the view: `n` elements, each `stride` octets after the previous one -/
def bitsOfNd (L : NdLayout) (buf : Bytes) (n : Nat) : Option Bits := ndBitsAux L n (buf.drop L.off)

/-- the octets of an element holding the bit `b` -/
def elemBytes (L : NdLayout) (b : Bool) : Bytes :=
  if L.big then List.replicate (L.sz - 1) 0 ++ [b.toNat] else b.toNat :: List.replicate (L.sz - 1) 0

def ndBody (L : NdLayout) (pad : Nat) : Bits → Bytes
  | [] => []
  | b :: w => elemBytes L b ++ (List.replicate (L.stride - L.sz) pad ++ ndBody L pad w)

/-- a buffer on which the view `L` shows the bits `w`: `off` octets, then per element its octets and
`stride - sz` octets of whatever else lives there (`pad`: other columns of the table, garbage) -/
def ndOfBits (L : NdLayout) (pad : Nat) (w : Bits) : Bytes := List.replicate L.off pad ++ ndBody L pad w

namespace Code

/-- `generate` applied to an ndarray given by its memory; `none` = the call raises -/
def genNd (C : Code) (L : NdLayout) (buf : Bytes) (n : Nat) : Option Bits :=
  if n != C.k then none else (bitsOfNd L buf n).map C.gen

/-- `check` applied to an ndarray given by its memory -/
def checkNd (C : Code) (L : NdLayout) (buf : Bytes) (n : Nat) : Option Bool :=
  if n != C.n then none else (bitsOfNd L buf n).map C.check

/-- `correct_numpy_array` applied to an ndarray given by its memory -/
def correctNd (C : Code) (L : NdLayout) (buf : Bytes) (n : Nat) : Option Bits :=
  if n != C.n then none else (bitsOfNd L buf n).map C.correct

end Code

end Dmr
