import DmrVerif.Model.Codes

/-!
Two aspects of the block-code entry points that the plain functions of `Model/Codes.lean` abstract
away, made explicit so that the correspondence run can exercise them (C06 hardening):

* **storage of the argument** — a `bitarray` is a buffer of octets plus `endian()` plus `len()`;
  the entry points read the *logical* bit sequence (`bits.tolist()`), never the buffer.
  `bitsOfStore` / `storeOfBits` model `bitarray(buffer…)` / `tobytes()` for both bit orders, and
  `Code.genStore / checkStore / cacStore` are the entry points seen from the buffer.
* **result objects over a history of calls** — `generate` returns a *new* `ndarray`,
  `check_and_correct` / `correct_numpy_array` hand back one object per call; the caller may keep
  every one of them and may overwrite any of them.  `Heap` is the list of the objects handed out
  so far, `HOp.run` one step of a history.
-/

namespace Dmr

/-! ### the buffer of a bitarray -/

/-- the eight bits of one buffer octet in index order: `endian='big'` keeps the lower index in the
more significant bit, `endian='little'` in the less significant one -/
def byteBits (little : Bool) (b : Nat) : Bits :=
  if little then (natToBits 8 b).reverse else natToBits 8 b

/-- the logical bits of a bitarray with buffer `bs`, bit order `little` and `len() = n` -/
def bitsOfStore (little : Bool) (bs : Bytes) (n : Nat) : Bits :=
  (bs.flatMap (byteBits little)).take n

/-- the buffer octet holding the eight bits `c` (index order) -/
def byteOfBits (little : Bool) (c : Bits) : Nat :=
  bitsToNat (if little then c.reverse else c)

/-- the first `c` octets of `tobytes()`: unused (pad) bits of the last octet are zero -/
def storeN (little : Bool) : Nat → Bits → Bytes
  | 0, _ => []
  | c + 1, w =>
    byteOfBits little (w.take 8 ++ zeros (8 - (w.take 8).length)) :: storeN little c (w.drop 8)

/-- `tobytes()` of a bitarray with the logical bits `w` and bit order `little` -/
def storeOfBits (little : Bool) (w : Bits) : Bytes := storeN little ((w.length + 7) / 8) w

namespace Code

/-- `generate` applied to a bitarray given by its buffer -/
def genStore (C : Code) (little : Bool) (bs : Bytes) (n : Nat) : Bits :=
  C.gen (bitsOfStore little bs n)

/-- `check` applied to a bitarray given by its buffer -/
def checkStore (C : Code) (little : Bool) (bs : Bytes) (n : Nat) : Bool :=
  C.check (bitsOfStore little bs n)

/-- `check_and_correct` applied to a bitarray given by its buffer; the result is the same object,
so it keeps its bit order: verdict and the buffer afterwards -/
def cacStore (C : Code) (little : Bool) (bs : Bytes) (n : Nat) : Bool × Bytes :=
  let r := C.checkAndCorrect (bitsOfStore little bs n)
  (r.1, storeOfBits little r.2)

end Code

/-! ### result objects over a history of calls -/

/-- the objects handed out so far (oldest first); a handle is the index of its object.  An `Array`
so that the compiled driver can follow histories of tens of thousands of objects. -/
structure Heap where
  cells : Array Bits

namespace Heap

def empty : Heap := ⟨#[]⟩
def size (h : Heap) : Nat := h.cells.size
/-- current content of object `r` -/
def read (h : Heap) (r : Nat) : Option Bits := h.cells[r]?
/-- a new object; its handle is the old `size` -/
def push (h : Heap) (v : Bits) : Heap := ⟨h.cells.push v⟩
/-- overwrite object `r` in place (nothing happens for a handle that was never handed out) -/
def write (h : Heap) (r : Nat) (v : Bits) : Heap := ⟨h.cells.setIfInBounds r v⟩

end Heap

/-- one step of a caller's history.  Arguments are passed by value (the harness builds a fresh
argument object per call), every result is a new handle. -/
inductive HOp where
  /-- `X.generate(m)`: the code word is a freshly allocated array -/
  | gen (C : Code) (m : Bits)
  /-- `X.check(w)`: a `bool`, no object is handed out or touched -/
  | check (C : Code) (w : Bits)
  /-- `X.check_and_correct(w)`: the (possibly repaired) bitarray is held by the caller -/
  | cac (C : Code) (w : Bits)
  /-- `X.correct_numpy_array(w)`: the resulting array is held by the caller -/
  | correct (C : Code) (w : Bits)
  /-- the caller overwrites object `r` with `v` -/
  | overwrite (r : Nat) (v : Bits)

namespace HOp

/-- the handle an operation writes to, if any -/
def target : HOp → Option Nat
  | overwrite r _ => some r
  | _ => none

def run (h : Heap) : HOp → Heap
  | gen C m => h.push (C.gen m)
  | check _ _ => h
  | cac C w => h.push (C.checkAndCorrect w).2
  | correct C w => h.push (C.correct w)
  | overwrite r v => h.write r v

end HOp

/-- a whole history -/
def runHistory (h : Heap) (ops : List HOp) : Heap := ops.foldl HOp.run h

/-- the code book a caller collects: `[X.generate(m) for m in ms]` -/
def Code.genAll (C : Code) (h : Heap) (ms : List Bits) : Heap := runHistory h (ms.map (HOp.gen C))

end Dmr
