import DmrVerif.Model.Layout
import DmrVerif.Gen.Elements

/-!
Model of `okdmr/dmrlib/etsi/layer2/pdu/data_header.py` (`DataHeader.__init__`, `as_bits`, `from_bits`):
the five data packet formats with a layout (confirmed, unconfirmed, response, defined short data,
unified data transport).  `enc` and `dec` are written separately, offset by offset.

The CRC is a 16-bit bitarray attribute; `f` stands for
`CRC16.calculate(bits.tobytes(), CrcMasks.DataHeader)` (C05), `init` for the constructor's rule
"`len(crc) != 16 or ba2int(crc) <= 0` ⇒ compute it over `as_bits()[:-16]`".
`crc_ok` is an integrity indicator (C04) and is not part of this model.
-/

namespace Dmr
open Dmr.Gen

/-- format-specific parameters of a `DataHeader` object; every other attribute keeps its default -/
inductive DhPayload where
  /-- DataPacketConfirmed (C_HEAD) -/
  | confirmed (isGroup respReq : Bool) (padOctets sap dst src fmf btf rsf sendSeq fsn : Nat)
  /-- DataPacketUnconfirmed (U_HEAD) -/
  | unconfirmed (isGroup respReq : Bool) (padOctets sap dst src fmf btf fsn : Nat)
  /-- ResponsePacket (C_RHEAD) -/
  | response (respReq : Bool) (sap dst src fmf btf cls typ status : Nat)
  /-- ShortDataDefined (DD_HEAD) -/
  | shortDataDefined (isGroup respReq : Bool) (appendedBlocks sap dst src ddf sarq fmf : Nat) (bitPadding : Bits)
  /-- UnifiedDataTransport (UDT_HEAD) -/
  | udt (isGroup respReq emergency : Bool)
      (optionFlag sap udtFormat dst src padNibbles appendedBlocks sf opcode : Nat)
deriving DecidableEq, Repr, Inhabited

structure DataHeader where
  crc : Bits
  payload : DhPayload
deriving DecidableEq, Repr, Inhabited

namespace DataHeader

def dpfUdt : Nat := 0
def dpfResponse : Nat := 1
def dpfUnconfirmed : Nat := 2
def dpfConfirmed : Nat := 3
def dpfShortDataDefined : Nat := 13

/-- `self.data_packet_format.value` -/
def dpf : DhPayload → Nat
  | .confirmed .. => dpfConfirmed
  | .unconfirmed .. => dpfUnconfirmed
  | .response .. => dpfResponse
  | .shortDataDefined .. => dpfShortDataDefined
  | .udt .. => dpfUdt

/-- `as_bits()` without the trailing CRC -/
def body : DhPayload → Bits
  | .confirmed g a poc sap dst src fmf btf rsf ns fsn =>
    [g, a, false, getBit (natToBits 5 poc) 0] ++ (natToBits 4 dpfConfirmed ++ (natToBits 4 sap
      ++ ((natToBits 5 poc).drop 1 ++ (natToBits 24 dst ++ (natToBits 24 src ++ (natToBits 1 fmf
      ++ (natToBits 7 btf ++ (natToBits 1 rsf ++ (natToBits 3 ns ++ natToBits 4 fsn)))))))))
  | .unconfirmed g a poc sap dst src fmf btf fsn =>
    [g, a, false, getBit (natToBits 5 poc) 0] ++ (natToBits 4 dpfUnconfirmed ++ (natToBits 4 sap
      ++ ((natToBits 5 poc).drop 1 ++ (natToBits 24 dst ++ (natToBits 24 src ++ (natToBits 1 fmf
      ++ (natToBits 7 btf ++ (zeros 4 ++ natToBits 4 fsn))))))))
  | .response a sap dst src fmf btf cls typ status =>
    [false, a, false, false] ++ (natToBits 4 dpfResponse ++ (natToBits 4 sap ++ (zeros 4
      ++ (natToBits 24 dst ++ (natToBits 24 src ++ (natToBits 1 fmf ++ (natToBits 7 btf
      ++ (natToBits 2 cls ++ (natToBits 3 typ ++ natToBits 3 status)))))))))
  | .shortDataDefined g a ab sap dst src ddf sarq fmf pad =>
    [g, a, getBit (natToBits 6 ab) 0, getBit (natToBits 6 ab) 1] ++ (natToBits 4 dpfShortDataDefined
      ++ (natToBits 4 sap ++ ((natToBits 6 ab).drop 2 ++ (natToBits 24 dst ++ (natToBits 24 src
      ++ (natToBits 6 ddf ++ (natToBits 1 sarq ++ (natToBits 1 fmf ++ pad))))))))
  | .udt g a e of sap fmt dst src pn ab sf op =>
    [g, a, e] ++ (natToBits 1 of ++ (natToBits 4 dpfUdt ++ (natToBits 4 sap ++ (natToBits 4 fmt
      ++ (natToBits 24 dst ++ (natToBits 24 src ++ (natToBits 5 pn ++ ([false] ++ (natToBits 2 ab
      ++ (natToBits 1 sf ++ ([false] ++ natToBits 6 op)))))))))))

/-- `as_bits` -/
def enc (p : DataHeader) : Bits := body p.payload ++ p.crc

/-- end of `__init__` -/
def init (f : Bits → Nat) (p : DataHeader) : DataHeader :=
  if p.crc.length ≠ 16 ∨ allZero p.crc = true then
    { p with crc := natToBits 16 (f ((enc p).take ((enc p).length - 16))) }
  else p

/-- `from_bits` = `fields_from_bits` (+ a `crc_ok` verdict, C04) (the code has no length check: shorter inputs are outside the property's domain and
answered with `other`) -/
def dec (f : Bits → Nat) (bs : Bits) : Except Err DataHeader :=
  if bs.length < 96 then .error .other else
  match eDataPacketFormats.dec (getField bs 4 4) with
  | .error e => .error e
  | .ok dpf =>
  let crc := slice bs 80 16
  let ret := fun (pl : DhPayload) => (Except.ok (init f ⟨crc, pl⟩) : Except Err DataHeader)
  if dpf = dpfConfirmed then
    match eSAPIdentifier.dec (getField bs 8 4) with
    | .error e => .error e
    | .ok sap =>
    match eFullMessageFlag.dec (b2n (getBit bs 64)) with
    | .error e => .error e
    | .ok fmf =>
    match eResynchronizeFlag.dec (b2n (getBit bs 72)) with
    | .error e => .error e
    | .ok rsf =>
    match eFragmentSequenceNumber.dec (getField bs 76 4) with
    | .error e => .error e
    | .ok fsn =>
    ret (.confirmed (getBit bs 0) (getBit bs 1) (b2n (getBit bs 3) * 16 + getField bs 12 4) sap
          (getField bs 16 24) (getField bs 40 24) fmf (getField bs 65 7) rsf (getField bs 73 3) fsn)
  else if dpf = dpfResponse then
    match eSAPIdentifier.dec (getField bs 8 4) with
    | .error e => .error e
    | .ok sap =>
    match eFullMessageFlag.dec (b2n (getBit bs 64)) with
    | .error e => .error e
    | .ok fmf =>
    ret (.response (getBit bs 1) sap (getField bs 16 24) (getField bs 40 24) fmf (getField bs 65 7)
          (getField bs 72 2) (getField bs 74 3) (getField bs 77 3))
  else if dpf = dpfShortDataDefined then
    match eSAPIdentifier.dec (getField bs 8 4) with
    | .error e => .error e
    | .ok sap =>
    match eDefinedDataFormats.dec (getField bs 64 6) with
    | .error e => .error e
    | .ok ddf =>
    match eSARQ.dec (b2n (getBit bs 70)) with
    | .error e => .error e
    | .ok sarq =>
    match eFullMessageFlag.dec (b2n (getBit bs 71)) with
    | .error e => .error e
    | .ok fmf =>
    ret (.shortDataDefined (getBit bs 0) (getBit bs 1) (bitsToNat (slice bs 2 2 ++ slice bs 12 4)) sap
          (getField bs 16 24) (getField bs 40 24) ddf sarq fmf (slice bs 72 8))
  else if dpf = dpfUnconfirmed then
    match eSAPIdentifier.dec (getField bs 8 4) with
    | .error e => .error e
    | .ok sap =>
    match eFullMessageFlag.dec (b2n (getBit bs 64)) with
    | .error e => .error e
    | .ok fmf =>
    match eFragmentSequenceNumber.dec (getField bs 76 4) with
    | .error e => .error e
    | .ok fsn =>
    ret (.unconfirmed (getBit bs 0) (getBit bs 1) (b2n (getBit bs 3) * 16 + getField bs 12 4) sap
          (getField bs 16 24) (getField bs 40 24) fmf (getField bs 65 7) fsn)
  else if dpf = dpfUdt then
    match eUDTOptionFlag.dec (b2n (getBit bs 3)) with
    | .error e => .error e
    | .ok of =>
    match eSAPIdentifier.dec (getField bs 8 4) with
    | .error e => .error e
    | .ok sap =>
    match eUDTFormat.dec (getField bs 12 4) with
    | .error e => .error e
    | .ok fmt =>
    match eSupplementaryFlag.dec (b2n (getBit bs 72)) with
    | .error e => .error e
    | .ok sf =>
    match eCsbkOpcodes.dec (getField bs 74 6) with
    | .error e => .error e
    | .ok op =>
    ret (.udt (getBit bs 0) (getBit bs 1) (getBit bs 2) of sap fmt (getField bs 16 24) (getField bs 40 24)
          (getField bs 64 5) (getField bs 70 2) sf op)
  else .error .notImplemented

/-- in-range field values per format -/
def DhPayload.WF : DhPayload → Prop
  | .confirmed _ _ poc sap dst src fmf btf rsf ns fsn =>
    poc < 2 ^ 5 ∧ eSAPIdentifier.defined sap = true ∧ dst < 2 ^ 24 ∧ src < 2 ^ 24 ∧
    eFullMessageFlag.defined fmf = true ∧ btf < 2 ^ 7 ∧ eResynchronizeFlag.defined rsf = true ∧
    ns < 2 ^ 3 ∧ eFragmentSequenceNumber.defined fsn = true
  | .unconfirmed _ _ poc sap dst src fmf btf fsn =>
    poc < 2 ^ 5 ∧ eSAPIdentifier.defined sap = true ∧ dst < 2 ^ 24 ∧ src < 2 ^ 24 ∧
    eFullMessageFlag.defined fmf = true ∧ btf < 2 ^ 7 ∧ eFragmentSequenceNumber.defined fsn = true
  | .response _ sap dst src fmf btf cls typ status =>
    eSAPIdentifier.defined sap = true ∧ dst < 2 ^ 24 ∧ src < 2 ^ 24 ∧
    eFullMessageFlag.defined fmf = true ∧ btf < 2 ^ 7 ∧ cls < 2 ^ 2 ∧ typ < 2 ^ 3 ∧ status < 2 ^ 3
  | .shortDataDefined _ _ ab sap dst src ddf sarq fmf pad =>
    ab < 2 ^ 6 ∧ eSAPIdentifier.defined sap = true ∧ dst < 2 ^ 24 ∧ src < 2 ^ 24 ∧
    eDefinedDataFormats.defined ddf = true ∧ eSARQ.defined sarq = true ∧
    eFullMessageFlag.defined fmf = true ∧ pad.length = 8
  | .udt _ _ _ of sap fmt dst src pn ab sf op =>
    eUDTOptionFlag.defined of = true ∧ eSAPIdentifier.defined sap = true ∧ eUDTFormat.defined fmt = true ∧
    dst < 2 ^ 24 ∧ src < 2 ^ 24 ∧ pn < 2 ^ 5 ∧ ab < 2 ^ 2 ∧ eSupplementaryFlag.defined sf = true ∧
    eCsbkOpcodes.defined op = true

instance (pl : DhPayload) : Decidable (DhPayload.WF pl) := by
  cases pl <;> (unfold DhPayload.WF; exact inferInstance)

/-- a data header built from in-range field values with a 16-bit CRC attribute (all-zero = "compute") -/
def WF (p : DataHeader) : Prop := p.crc.length = 16 ∧ DhPayload.WF p.payload

instance (p : DataHeader) : Decidable p.WF := by unfold WF; exact inferInstance

end DataHeader
end Dmr
