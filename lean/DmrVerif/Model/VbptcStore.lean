import DmrVerif.Model.Vbptc

/-!
Histories of calls of the three variable-length BPTC classes and of the two checksum functions
(C09 hardening).

`Model/Vbptc.lean` gives every entry point as a function of its arguments.  That is a claim about the
Python code: nothing a call leaves behind (a remembered "last burst", a table of already encoded
payloads, a scratch table, a buffer that is handed out again, the register of `CRC8.CALC`) influences a
later call; the objects handed out belong to the caller; the arguments are left as they were; *which*
Python object carries a value does not matter.  This file makes the claim explicit so that the
correspondence run can exercise it.  A `Store` holds the objects the caller holds (the ones he built as
arguments and the ones the calls handed out, handle = index), a `Step` is one thing the caller does,
`step` says what he observes:

* `encode`, `deinterleave_data_bits`, `deinterleave_all_bits`, `deinterleave_cs5_bits` /
  `deinterleave_crc8_bits` allocate their result inside the call (`bitarray([0] * n)`, always in a
  big-endian container) and read their argument only;
* `make_encoding_table()` hands out a new all-zero `R × W` table;
* `fill_encoding_table(table, bits)` writes into the table it is given and returns **that** table: the
  new handle is an alias (`Slot.alias`) of the argument;
* `set_parity(column)` writes the parity cell into the column it is given and returns **that** column
  when the column already has `R` cells; a column of `R - 1` cells (the two classes with a checksum
  accept it) is copied by `numpy.append`, the result is a new object;
* `FiveBitChecksum.calculate`, `CRC8.calculate` return numbers;
* `flip` / `setAll` / `extend` / `clear` / `assign` / `put` are the caller editing an object he holds in
  place, `read` looks at it.

An argument is described by what the code reads from it.  The (de)interleavers only subscript, so any
0/1 sequence does; `VBPTC12873.encode` calls `tobytes()` on the 72 message bits (a little-endian
container gives the octets bit-reversed, a `list` has no `tobytes`: `AttributeError`), `VBPTC6828.encode`
and `CRC8.calculate` run `ba2int` on whole octets (honours the container's bit order; `TypeError` for a
`list` slice).  Hence `Kind`.  A `frozenbitarray` behaves like the bitarray it freezes (`Kind.big`).

Core Lean only (compiled into the native driver).
-/

namespace Dmr.Vbptc
open Dmr Dmr.Gen

/-- exception classes the entry points raise on the argument kinds of this file -/
inductive HErr where
  | assertion
  | attribute
  | type
  deriving DecidableEq, Repr

def liftErr {α : Type} : Except Err α → Except HErr α
  | .ok v => .ok v
  | .error .assertion => .error .assertion

/-- what carries the bits: a bitarray in a big-endian container (also `frozenbitarray`), a bitarray in
a little-endian container, another 0/1 sequence (`list`, `tuple`) -/
inductive Kind where
  | big
  | little
  | seq
  deriving DecidableEq, Repr

inductive Cls where
  | c128
  | c68
  | c32
  deriving DecidableEq, Repr

def Cls.code : Cls → VCode
  | .c128 => v128
  | .c68 => v68
  | .c32 => v32

/-! ### the two checksums as the container's bit order lets the code see the bits -/

/-- `bits.tobytes()` of a little-endian container: bit `i` of an octet is worth `2 ^ i` -/
def bitsToBytesLittle (bs : Bits) : Bytes :=
  (chunks 8 bs).map (fun c => bitsToNat (c ++ zeros (8 - c.length)).reverse)

/-- `int2ba(FiveBitChecksum.calculate(bits.tobytes()), length=5)` -/
def cs5BitsK : Kind → Bits → Bits
  | .little, m => natToBits 5 (fiveBitChecksumRaw (bitsToBytesLittle m))
  | _, m => cs5Bits m

/-- `TableBasedBitCrcRegister._process_bits`: a whole chunk goes through `ba2int`, which reads a
little-endian container from the other end; a short chunk is iterated bit by bit in index order -/
def crcChunkK (little : Bool) (reg : Nat) (chunk : Bits) : Nat :=
  if little && (crc8TableBased && chunk.length == crc8Feed) then crcChunk reg chunk.reverse
  else crcChunk reg chunk

/-- `CRC8.calculate(data)` on a bitarray -/
def crc8K (little : Bool) (data : Bits) : Nat :=
  ((chunks crc8Feed data).foldl (crcChunkK little) (crc8Init &&& crcMask)) ^^^ crc8FinalXor

/-- `CRC8.calculate(data)`: a `list` slice of a whole chunk is refused by `ba2int` -/
def crc8Calc (kind : Kind) (data : Bits) : Except HErr Nat :=
  if kind = .seq ∧ crc8TableBased = true ∧ crc8Feed ≤ data.length ∧ 0 < crc8Feed then .error .type
  else .ok (crc8K (kind == .little) data)

/-! ### the entry points on an argument of a given kind -/

/-- `encode(bits[, even_parity])`.  The fully de-interleaved form is re-read into a new big-endian
bitarray, the message-with-checksum form is a slice of the argument (same container). -/
def encodeK (c : Cls) (kind : Kind) (bits : Bits) (even : Bool) : Except HErr Bits :=
  match c with
  | .c128 =>
    if kind = .seq ∧ (bits.length = 72 ∨ bits.length = 77) then .error .attribute
    else liftErr (v128.encode (cs5BitsK (if bits.length = 128 then .big else kind)) bits true)
  | .c68 =>
    if kind = .seq ∧ (bits.length = 28 ∨ bits.length = 36) then .error .type
    else liftErr (v68.encode
      (fun m => natToBits 8 (crc8K (kind == .little && bits.length != 68) m)) bits true)
  | .c32 => liftErr (encode32 bits even)

def dataK (c : Cls) (bits : Bits) (incl : Bool) : Except HErr Bits :=
  match c with
  | .c128 => liftErr (deinterleaveData128 bits incl)
  | .c68 => liftErr (deinterleaveData68 bits incl)
  | .c32 => liftErr (deinterleaveData32 bits)

def allK (c : Cls) (bits : Bits) : Except HErr Bits := liftErr (c.code.deinterleaveAll bits)

/-- `deinterleave_cs5_bits` / `deinterleave_crc8_bits`; `VBPTC3211` has no such function -/
def csK (c : Cls) (bits : Bits) : Option (Except HErr Bits) :=
  match c with
  | .c128 => some (liftErr (deinterleaveCs5 bits))
  | .c68 => some (liftErr (deinterleaveCrc8 bits))
  | .c32 => none

def setParityK (c : Cls) (col : Bits) (even : Bool) : Except HErr Bits :=
  match c with
  | .c128 => liftErr (v128.setParity true col true)
  | .c68 => liftErr (v68.setParity true col true)
  | .c32 => liftErr (v32.setParity false col even)

/-- `make_encoding_table()` -/
def makeTable (c : Cls) : Bits := zeros (c.code.R * c.code.W)

/-- `fill_encoding_table(table, bits)` after its length assertion, on the table `t` it is given:
`bits_interleaved[il] = bits[index]` over the map the length selects, then every cell of
`INTERLEAVING_INDICES` is assigned -/
def VCode.fillOn (V : VCode) (t bits : Bits) : Bits :=
  let mapping := if bits.length = V.k then V.T.deinterleaveInfo else V.T.fullDeinterleaving
  let bi := putLoop (mapping.map (fun p => (p.2, p.1))) bits (zeros V.n)
  putLoop (V.T.ii.map (fun e => (V.cell (e.row - 1) e.col, e.il))) bi t

def fillK (c : Cls) (t bits : Bits) : Except HErr Bits :=
  if bits.length = c.code.k ∨ bits.length = c.code.n then .ok (c.code.fillOn t bits)
  else .error .assertion

/-! ### objects, store -/

/-- an object the caller holds -/
inductive Obj where
  /-- bitarray / frozenbitarray / list / tuple of 0/1 -/
  | bits (k : Kind) (b : Bits)
  /-- numpy integer array of 0/1: a column, or a table (row-major) -/
  | arr (b : Bits)
  /-- `bytes` / `bytearray` -/
  | octets (d : Bytes)
  /-- `int` -/
  | num (n : Nat)
  deriving DecidableEq, Repr

inductive Slot where
  | obj (o : Obj)
  /-- the same Python object as handle `k` (which is an `obj` slot) -/
  | alias (k : Nat)
  /-- nothing was handed out (the call raised) -/
  | none
  deriving DecidableEq, Repr

structure Store where
  slots : List Slot
  deriving Repr

namespace Store
def empty : Store := ⟨[]⟩
def size (s : Store) : Nat := s.slots.length
/-- the handle under which the object of handle `k` is kept -/
def root (s : Store) (k : Nat) : Nat :=
  match s.slots[k]? with
  | some (.alias j) => j
  | _ => k
def get (s : Store) (k : Nat) : Option Obj :=
  match s.slots[s.root k]? with
  | some (.obj o) => some o
  | _ => none
def push (s : Store) (x : Slot) : Store := ⟨s.slots ++ [x]⟩
/-- the object of handle `k` gets a new content, in place -/
def write (s : Store) (k : Nat) (o : Obj) : Store := ⟨s.slots.set (s.root k) (.obj o)⟩
end Store

inductive Arg where
  /-- an object built for this call and dropped afterwards -/
  | lit (o : Obj)
  /-- an object the caller holds -/
  | ref (k : Nat)
  deriving Repr

def Arg.obj (s : Store) : Arg → Option Obj
  | .lit o => some o
  | .ref k => s.get k

inductive Step where
  | new (o : Obj)
  | encode (c : Cls) (even : Bool) (a : Arg)
  | data (c : Cls) (incl : Bool) (a : Arg)
  | all (c : Cls) (a : Arg)
  | cs (c : Cls) (a : Arg)
  | setParity (c : Cls) (even : Bool) (a : Arg)
  | make (c : Cls)
  | fill (c : Cls) (t : Nat) (a : Arg)
  | cs5calc (a : Arg)
  | crc8calc (a : Arg)
  | flip (k i : Nat)
  | setAll (k : Nat) (v : Bool)
  | extend (k : Nat) (b : Bits)
  | clear (k : Nat)
  | assign (k : Nat) (b : Bits)
  | put (k i v : Nat)
  | read (k : Nat)
  /-- nothing happens; `push = true` uses up a handle -/
  | nop (push : Bool)
  deriving Repr

/-- what the caller sees -/
inductive Out where
  /-- a new object (or, for `read`, the content of a held one) -/
  | val (o : Obj)
  /-- the call returned the object of handle `k` itself -/
  | same (k : Nat) (o : Obj)
  | err (e : HErr)
  | done
  | void
  deriving DecidableEq, Repr

/-- a call that hands out a new big-endian bitarray -/
def Store.ret (s : Store) : Except HErr Bits → Store × Out
  | .ok b => (s.push (.obj (.bits .big b)), .val (.bits .big b))
  | .error e => (s.push .none, .err e)

def Store.retNum (s : Store) : Except HErr Nat → Store × Out
  | .ok n => (s.push (.obj (.num n)), .val (.num n))
  | .error e => (s.push .none, .err e)

/-- the handle whose object a step may overwrite, if any -/
def Step.target : Step → Option Nat
  | .fill _ t _ => some t
  | .setParity _ _ (.ref k) => some k
  | .flip k _ => some k
  | .setAll k _ => some k
  | .extend k _ => some k
  | .clear k => some k
  | .assign k _ => some k
  | .put k _ _ => some k
  | _ => none

/-- in-place edits by the caller -/
def editObj : Step → Obj → Option Obj
  | .flip _ i, .bits k b => some (.bits k (flipAt i b))
  | .flip _ i, .arr b => some (.arr (flipAt i b))
  | .setAll _ v, .bits k b => some (.bits k (List.replicate b.length v))
  | .setAll _ v, .arr b => some (.arr (List.replicate b.length v))
  | .extend _ x, .bits k b => some (.bits k (b ++ x))
  | .clear _, .bits k _ => some (.bits k [])
  | .assign _ x, .bits k _ => some (.bits k x)
  | .put _ i v, .octets d => some (.octets (d.set i v))
  | _, _ => none

def step (s : Store) : Step → Store × Out
  | .new o => (s.push (.obj o), .val o)
  | .encode c even a => match a.obj s with
    | some (.bits k b) => s.ret (encodeK c k b even)
    | _ => (s.push .none, .void)
  | .data c incl a => match a.obj s with
    | some (.bits _ b) => s.ret (dataK c b incl)
    | _ => (s.push .none, .void)
  | .all c a => match a.obj s with
    | some (.bits _ b) => s.ret (allK c b)
    | _ => (s.push .none, .void)
  | .cs c a => match a.obj s with
    | some (.bits _ b) => match csK c b with
      | some r => s.ret r
      | none => (s.push .none, .void)
    | _ => (s.push .none, .void)
  | .setParity c even a => match a with
    | .lit (.arr col) => match setParityK c col even with
      | .ok r => (s.push (.obj (.arr r)), .val (.arr r))
      | .error e => (s.push .none, .err e)
    | .ref h => match s.get h with
      | some (.arr col) => match setParityK c col even with
        | .ok r =>
          if col.length = c.code.R then ((s.write h (.arr r)).push (.alias (s.root h)), .same (s.root h) (.arr r))
          else (s.push (.obj (.arr r)), .val (.arr r))
        | .error e => (s.push .none, .err e)
      | _ => (s.push .none, .void)
    | _ => (s.push .none, .void)
  | .make c => (s.push (.obj (.arr (makeTable c))), .val (.arr (makeTable c)))
  | .fill c t a => match s.get t, a.obj s with
    | some (.arr tb), some (.bits _ b) =>
      if tb.length = c.code.R * c.code.W then
        match fillK c tb b with
        | .ok r => ((s.write t (.arr r)).push (.alias (s.root t)), .same (s.root t) (.arr r))
        | .error e => (s.push .none, .err e)
      else (s.push .none, .void)
    | _, _ => (s.push .none, .void)
  | .cs5calc a => match a.obj s with
    | some (.octets d) => s.retNum (liftErr (fiveBitChecksum d))
    | _ => (s.push .none, .void)
  | .crc8calc a => match a.obj s with
    | some (.bits k b) => s.retNum (crc8Calc k b)
    | _ => (s.push .none, .void)
  | .read k => match s.get k with
    | some o => (s, .val o)
    | none => (s, .void)
  | .nop p => (if p then s.push .none else s, .void)
  | st@(.flip k _) | st@(.setAll k _) | st@(.extend k _) | st@(.clear k) | st@(.assign k _)
  | st@(.put k _ _) => match s.get k with
    | some o => match editObj st o with
      | some o' => (s.write k o', .done)
      | none => (s, .void)
    | none => (s, .void)

/-- the store after a whole history -/
def runSteps (s : Store) (hs : List Step) : Store := hs.foldl (fun s st => (step s st).1) s

/-- no step of the history overwrites the object kept under (root) handle `k`; the handle a step names
is resolved in the store of that moment, so aliases handed out during the history count -/
def untouched (k : Nat) : Store → List Step → Bool
  | _, [] => true
  | s, st :: hs =>
    (match st.target with
      | some j => s.root j != k
      | none => true) && untouched k (step s st).1 hs

end Dmr.Vbptc
