import DmrVerif.Model.Bits
import DmrVerif.Gen.Rs

/-!
Executable model of `okdmr/dmrlib/etsi/fec/reed_solomon_12_9_4.py` (class `ReedSolomon1294`), line by
line.  Core Lean only.  Octet strings are `Bytes = List Nat` (every element `< 256`, as in a Python
`bytes`).  The three tables come from `Gen/Rs.lean` (regenerated from `/repo` on every run).

Also here, because the property statements refer to them: the reference multiplication of
GF(2^8) = GF(2)[x]/(x^8+x^4+x^3+x^2+1) (`clmulMod`, carry-less product followed by long division),
polynomial evaluation over the model's field operations (`evalAt`), the syndromes and `unmask`.
-/

namespace Dmr.Rs
open Dmr Dmr.Gen

/-- `EXPONENTIAL_TABLE[i]` (the default is never reached for the indices the code uses, see
`Lemmas/RsBase.lean: tables_ok`; the driver answers `ERR IndexError` instead of defaulting) -/
def expAt (i : Nat) : Nat := rsExp.getD i 0
/-- `LOG_TABLE[a]` -/
def logAt (a : Nat) : Nat := rsLog.getD a 0
/-- `POLYNOMIAL[k]` -/
def polyAt (k : Nat) : Nat := rsPoly.getD k 0

/-- `log_multiply(a, b)` -/
def logMultiply (a b : Nat) : Nat :=
  if a = 0 ∨ b = 0 then 0 else expAt (logAt a + logAt b)

/-- `log_multiply` with Python's `IndexError` made explicit (`none`): a zero operand short-cuts
before any table access, otherwise both `LOG_TABLE` reads and the `EXPONENTIAL_TABLE` read must be
in range -/
def logMultiplyE (a b : Nat) : Option Nat :=
  if a = 0 ∨ b = 0 then some 0 else do
    let la ← rsLog[a]?
    let lb ← rsLog[b]?
    rsExp[la + lb]?

/-- `xor_bytes(data, mask)`: `zip` stops at the shorter argument -/
def xorBytes (a b : Bytes) : Bytes := List.zipWith Nat.xor a b

/-- one pass of the loop body of `generate`; the state is `(parity[0], parity[1], parity[2])` -/
def step (p : Nat × Nat × Nat) (x : Nat) : Nat × Nat × Nat :=
  let single := Nat.xor x p.2.2
  (logMultiply (polyAt 0) single,
   Nat.xor p.1 (logMultiply (polyAt 1) single),
   Nat.xor p.2.1 (logMultiply (polyAt 2) single))

/-- the parity register after the loop of `generate` -/
def parity (data : Bytes) : Nat × Nat × Nat := data.foldl step (0, 0, 0)

/-- `bytes(parity[::-1])` -/
def parityBytes (data : Bytes) : Bytes :=
  let p := parity data
  [p.2.2, p.2.1, p.1]

/-- the value `generate` returns when its assertion holds -/
def encode (data mask : Bytes) : Bytes := data ++ xorBytes (parityBytes data) mask

/-- `generate(data, mask)`; `none` = `AssertionError` (`len(data) != 9`) -/
def generate (data mask : Bytes) : Option Bytes :=
  if data.length = 9 then some (encode data mask) else none

/-- `check(data, mask)`; `none` = `AssertionError` (`len(data) != 12`) -/
def check (w mask : Bytes) : Option Bool :=
  if w.length = 12 then (generate (w.take 9) mask).map (fun g => decide (g = w)) else none

/-! ### reference arithmetic of GF(2^8) and the syndromes (specification side) -/

/-- bit `k` of `a` as a number (0 or 1) -/
def bitAt (a k : Nat) : Nat := Nat.land (Nat.shiftRight a k) 1

/-- carry-less (GF(2)[x]) product of the low `k` bits of `a` with `b`:
the xor of `b·x^i` over the set bits `i < k` of `a` -/
def clmulAux : Nat → Nat → Nat → Nat
  | 0, _, _ => 0
  | k + 1, a, b => Nat.xor (Nat.mul (bitAt a k) (Nat.shiftLeft b k)) (clmulAux k a b)

/-- carry-less product of two octets (a polynomial of degree ≤ 14) -/
def clmul (a b : Nat) : Nat := clmulAux 8 a b

/-- long division by the degree-8 polynomial `m`: cancel the coefficients of x^(k+7) … x^8 from the
top by adding `m·x^(k-1)`, … , `m·x^0` where the coefficient is set -/
def reduceAux (m : Nat) : Nat → Nat → Nat
  | 0, p => p
  | k + 1, p => reduceAux m k (Nat.xor p (Nat.mul (bitAt p (k + 8)) (Nat.shiftLeft m k)))

/-- product in GF(2)[x]/(m), `m` of degree 8 given as a 9-bit number, operands octets -/
def clmulMod (m a b : Nat) : Nat := reduceAux m 7 (clmul a b)

/-- the field polynomial x^8+x^4+x^3+x^2+1 -/
def fieldPoly : Nat := 0x11D

/-- value at `r` of the polynomial whose coefficients are the octets of `w`, highest degree first
(Horner), with the model's field operations: addition = xor, multiplication = `logMultiply` -/
def evalAt (r : Nat) (w : Bytes) : Nat := w.foldl (fun acc x => Nat.xor (logMultiply acc r) x) 0

/-- α = x = 0x02 is the primitive element; `alphaPow j` = α^j read from the table -/
def alphaPow (j : Nat) : Nat := expAt j

/-- syndrome `j` of a received word: its polynomial evaluated at α^j -/
def syndrome (j : Nat) (w : Bytes) : Nat := evalAt (alphaPow j) w

/-- remove the data-type mask from the three parity octets -/
def unmask (mask w : Bytes) : Bytes := w.take 9 ++ xorBytes (w.drop 9) mask

/-- all three syndromes at α^1, α^2, α^3 vanish -/
def syndromesZero (w : Bytes) : Bool :=
  syndrome 1 w == 0 && syndrome 2 w == 0 && syndrome 3 w == 0

/-- A checker that evaluates the unmasked word only at the roots α^j, `j ∈ js` (`none` = the assertion on
the length, as in `check`).  `check` is the case `js = [1, 2, 3]` (`Props/C11: check_eq_checkRoots`); for
a proper sub-list the accepted set is a strictly larger (super-)code, whose words of weight 3 at distance
3 from every code word are given by `subWitness`. -/
def checkRoots (js : List Nat) (w mask : Bytes) : Option Bool :=
  if w.length = 12 then some (js.all (fun j => syndrome j (unmask mask w) == 0)) else none

/-- the locator of octet position `p` of a 12-octet word (degree `11 - p`), raised to the power `u` -/
def locPow (u p : Nat) : Nat := alphaPow (u * (11 - p))

/-- For positions `a`, `b`, `c`: the pattern, zero elsewhere, that vanishes at α^u and α^v
(cross product of the two rows `(x_a^u, x_b^u, x_c^u)`, `(x_a^v, x_b^v, x_c^v)`; characteristic 2). -/
def subWitness (u v a b c : Nat) : Bytes :=
  let cross (p q : Nat) : Nat :=
    Nat.xor (logMultiply (locPow u p) (locPow v q)) (logMultiply (locPow v p) (locPow u q))
  (List.range 12).map (fun p =>
    if p = a then cross b c else if p = b then cross a c else if p = c then cross a b else 0)

/-- every element is an octet -/
def isBytes (w : Bytes) : Bool := w.all (fun x => decide (x < 256))

/-- number of octet positions in which two equally long words differ -/
def symDist : Bytes → Bytes → Nat
  | a :: as, b :: bs => (if a = b then 0 else 1) + symDist as bs
  | _, _ => 0

/-! ### stationary register (fixed points of the loop body of `generate`)

The loop body is the affine map `step · x` on the 3-cell register.  For every feedback symbol `s` there is exactly one
register it leaves unchanged (`Lemmas/RsStation.lean`); a message whose division reaches that register and continues
with the symbol `fixSym s` has a loop pass that changes nothing.  The differential run constructs such messages for
every `s` and every step (`stationary_msgs` in `harness/props/c11.py`). -/

/-- the register `(parity[0], parity[1], parity[2])` that a loop pass with feedback symbol `s` leaves unchanged -/
def fixOf (s : Nat) : Nat × Nat × Nat :=
  let a := logMultiply (polyAt 0) s
  let b := Nat.xor a (logMultiply (polyAt 1) s)
  (a, b, Nat.xor b (logMultiply (polyAt 2) s))

/-- the message octet under which `fixOf s` is stationary (feedback = octet xor `parity[2]`) -/
def fixSym (s : Nat) : Nat := Nat.xor s (fixOf s).2.2

end Dmr.Rs
