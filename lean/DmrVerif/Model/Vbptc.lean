import DmrVerif.Model.Codes
import DmrVerif.Gen.Codes
import DmrVerif.Gen.Vbptc

/-!
Model of the three variable-length BPTC classes

* `okdmr/dmrlib/etsi/fec/vbptc_128_72.py`  (`VBPTC12873`, embedded LC, 5-bit checksum)
* `okdmr/dmrlib/etsi/fec/vbptc_68_28.py`   (`VBPTC6828`, CACH short LC, CRC-8)
* `okdmr/dmrlib/etsi/fec/vbptc_32_11.py`   (`VBPTC3211`, single burst, even / odd column parity)

together with `five_bit_checksum.py` and the CRC-8 calculator `crc/crc8.py` + `crc/crc.py` in the one
configuration `CRC8.CALC` uses.  All index tables come from `Gen/Vbptc.lean` (regenerated from /repo
on every run); what is hand-written here is the control flow of `encode`, `fill_encoding_table`,
`deinterleave_*`, `set_parity`, the hard-coded checksum cells and the two checksum functions.

The three classes have the same shape, so one parametrised model (`VCode`) is instantiated three
times.  The numpy encoding table (`shape=(R, W)`) is a flat row-major `Bits` of length `R * W`:
`table[r][c]` is index `r * W + c`.  Every Python loop of the form
`for … in mapping.items(): dst[d] = src[s]` is `putLoop`, which performs the assignments one after
the other with `List.set` exactly like the loop (so the model does not assume that the tables are
permutations; that is a theorem in `Props/C09.lean`).  Core Lean only (compiled into the driver).
-/

namespace Dmr.Vbptc
open Dmr Dmr.Gen

/-- the only exception class the modelled functions raise on well-typed arguments -/
inductive Err where
  | assertion
  deriving DecidableEq, Repr

/-- `for (d, s) in pairs: dst[d] = src[s]`, starting from `dst = out` -/
def putLoop (pairs : List (Nat × Nat)) (src out : Bits) : Bits :=
  pairs.foldl (fun o p => o.set p.1 (getBit src p.2)) out

/-- `c0 ^ c1 ^ …` -/
def xorAll (b : Bits) : Bool := b.foldl Bool.xor false

/-! ## 5-bit checksum (`FiveBitChecksum`) -/

/-- `FiveBitChecksum.calculate` after the padding / length assertion: sum of the octets, 16 bit, mod 31 -/
def fiveBitChecksumRaw (data : Bytes) : Nat :=
  ((data.reverse.foldl (· + ·) 0) &&& 0xFFFF) % 31

/-- `FiveBitChecksum.calculate(data)` -/
def fiveBitChecksum (data : Bytes) : Except Err Nat :=
  let data := if data.length < 9 then List.replicate (9 - data.length) 0 ++ data else data
  if data.length ≠ 9 then .error .assertion else .ok (fiveBitChecksumRaw data)

/-! ## CRC-8 (`CRC8.calculate` = `ba2int(BitCrcCalculator(table_based=True, Crc8.ETSI_DMR).calculate_checksum(data))`)

The register is a `Nat` below `2 ^ width`.  The parameters are the extracted ones (`Gen.crc8*`); the
model follows the table-based register: whole `feed_width_bits` chunks go through the lookup table
(which is itself computed by the bit-wise register from a zero register), a trailing shorter chunk
goes through the bit-wise register.  `reverse_input_bytes` / `reverse_output_bytes` are `False` for
this configuration (stated as `crc8_config` in `Props/C09.lean`) and are not modelled. -/

def crcMask : Nat := 2 ^ crc8Width - 1
def crcTop : Nat := 2 ^ (crc8Width - 1)

/-- one iteration of `BitCrcRegister._process_bits` -/
def crcBit (reg : Nat) (b : Bool) : Nat :=
  let op := if b then reg ^^^ crcTop else reg
  let r := (reg <<< 1) &&& crcMask
  if op ≥ crcTop then (r ^^^ crc8Poly) &&& crcMask else r

def crcBitwise (reg : Nat) (bits : Bits) : Nat := bits.foldl crcBit reg

/-- `bits_create_lookup_table(width, polynomial)[i]` -/
def crcTableEntry (i : Nat) : Nat := crcBitwise 0 (natToBits crc8Feed i)

/-- `TableBasedBitCrcRegister._process_bits` -/
def crcChunk (reg : Nat) (chunk : Bits) : Nat :=
  if crc8TableBased && chunk.length == crc8Feed then
    crcTableEntry (bitsToNat chunk ^^^ (reg >>> (crc8Width - crc8Feed)))
      ^^^ ((reg <<< crc8Feed) &&& crcMask)
  else crcBitwise reg chunk

/-- `CRC8.calculate(data)` -/
def crc8 (data : Bits) : Nat :=
  ((chunks crc8Feed data).foldl crcChunk (crc8Init &&& crcMask)) ^^^ crc8FinalXor

/-! ## the parametrised code -/

structure VCode where
  /-- class attributes (generated) -/
  T : VTables
  /-- rows / columns of `make_encoding_table` -/
  R : Nat
  W : Nat
  /-- on-air bits, message bits, checksum bits -/
  n : Nat
  k : Nat
  c : Nat
  /-- row code and number of rows it is applied to (`for row in range(0, hrows)`) -/
  H : Code
  hrows : Nat
  /-- `table[r][c] = checksum_bits[j]` assignments of `encode`, in source order -/
  csCells : List (Nat × Nat)
  /-- `set_parity` is called with `table[:R-1, column]` (`false`) or with `table[:, column]` (`true`) -/
  colFull : Bool

namespace VCode
variable (V : VCode)

/-- flat index of `table[r][c]` -/
def cell (r c : Nat) : Nat := r * V.W + c

/-- `fill_encoding_table(table, bits_deinterleaved)` for data bits only (the branch `encode` uses) -/
def fillTable (m : Bits) : Bits :=
  -- bits_interleaved[interleave_index] = bits_deinterleaved[index]
  let bi := putLoop (V.T.deinterleaveInfo.map (fun p => (p.2, p.1))) m (zeros V.n)
  -- table[row_no - 1][col_no] = bits_interleaved[interleave_idx]
  putLoop (V.T.ii.map (fun e => (V.cell (e.row - 1) e.col, e.il))) bi (zeros (V.R * V.W))

/-- `table[r][c] = checksum_bits[j]` -/
def placeCs (cs t : Bits) : Bits :=
  putLoop ((List.range V.csCells.length).map
    (fun j => (V.cell (V.csCells.getD j (0, 0)).1 (V.csCells.getD j (0, 0)).2, j))) cs t

/-- `table[row] = Hamming.generate(table[row][:k])`: reads cells `(row, 0 … k-1)`, assigns the whole row -/
def rowStep (r : Nat) (t : Bits) : Bits :=
  let word := V.H.gen (gather ((List.range V.H.k).map (fun c => V.cell r c)) t)
  putLoop ((List.range V.W).map (fun c => (V.cell r c, c))) word t

/-- the body of the three `set_parity` functions: a column without its parity cell gets one appended,
then the last cell becomes the XOR of the others (`odd` inverts it: `not column[0]`) -/
def setParityRaw (col : Bits) (odd : Bool) : Bits :=
  let col := if col.length + 1 = V.R then col ++ [false] else col
  col.set (V.R - 1) (Bool.xor (xorAll (col.take (V.R - 1))) odd)

/-- `table[:, column] = set_parity(table[:R-1, column] or table[:, column])` -/
def colStep (odd : Bool) (c : Nat) (t : Bits) : Bits :=
  let rows := if V.colFull then V.R else V.R - 1
  let col := gather ((List.range rows).map (fun r => V.cell r c)) t
  putLoop ((List.range V.R).map (fun r => (V.cell r c, r))) (V.setParityRaw col odd) t

/-- `out[interleave_index] = table[row - 1][col]` -/
def readOut (t : Bits) : Bits :=
  putLoop (V.T.ii.map (fun e => (e.il, V.cell (e.row - 1) e.col))) t (zeros V.n)

/-- everything `encode` does after the checksum has been computed; `x` = message ++ checksum bits -/
def encCore (x : Bits) (odd : Bool) : Bits :=
  let t := V.fillTable (x.take V.k)
  let t := V.placeCs (x.drop V.k) t
  let t := (List.range V.hrows).foldl (fun t r => V.rowStep r t) t
  let t := (List.range V.W).foldl (fun t c => V.colStep odd c t) t
  V.readOut t

/-- loop body of `deinterleave_data_bits`: `out[i] = bits[n]` over `DEINTERLEAVE_INFO_BITS_ONLY_MAP` -/
def dataRaw (bits : Bits) : Bits :=
  putLoop V.T.deinterleaveInfo bits (zeros V.T.deinterleaveInfo.length)

/-- loop of `deinterleave_cs5_bits` / `deinterleave_crc8_bits` (before `bytereverse`) -/
def csRaw (bits : Bits) : Bits :=
  putLoop V.T.deinterleaveChecksum bits (zeros V.T.deinterleaveChecksum.length)

/-- loop of `deinterleave_all_bits`: `out[i] = bits[n]` over `FULL_DEINTERLEAVING_MAP` -/
def allRaw (bits : Bits) : Bits :=
  putLoop V.T.fullDeinterleaving bits (zeros V.T.fullDeinterleaving.length)

/-- the "full deinterleaved data" branch of `encode`:
`interleaved[data_index] = bits_deinterleaved[interleave_index]`, then the data bits of that -/
def fromAll (bits : Bits) : Bits :=
  V.dataRaw (putLoop (V.T.ii.map (fun e => (e.key, e.il))) bits (zeros V.n))

/-- `encode(bits_deinterleaved[, even_parity])`; `cs` computes the checksum bits of the message -/
def encode (cs : Bits → Bits) (bits : Bits) (even : Bool) : Except Err Bits :=
  let m :=
    if V.c ≠ 0 ∧ bits.length = V.k + V.c then bits.take V.k
    else if bits.length = V.n then V.fromAll bits
    else bits
  if m.length ≠ V.k then .error .assertion else .ok (V.encCore (m ++ cs m) (!even))

/-- `deinterleave_all_bits` -/
def deinterleaveAll (bits : Bits) : Except Err Bits :=
  if bits.length ≠ V.n then .error .assertion else .ok (V.allRaw bits)

/-- `set_parity(column[, even_parity])`; `short` = the class also accepts a column without parity cell -/
def setParity (short : Bool) (col : Bits) (even : Bool) : Except Err Bits :=
  if col.length = V.R ∨ (short ∧ col.length + 1 = V.R) then .ok (V.setParityRaw col (!even))
  else .error .assertion

/-! ### the transmitted matrix (specification side: which on-air bit is cell `(r, c)`) -/

/-- on-air index of matrix cell `(r, c)` (0-based row) according to `INTERLEAVING_INDICES` -/
def cellIl (r c : Nat) : Nat :=
  match V.T.ii.find? (fun e => e.row == r + 1 && e.col == c) with
  | some e => e.il
  | none => V.n

/-- row `r` of the transmitted matrix -/
def txRow (r : Nat) (w : Bits) : Bits := gather ((List.range V.W).map (V.cellIl r)) w

/-- column `c` of the transmitted matrix -/
def txCol (c : Nat) (w : Bits) : Bits := gather ((List.range V.R).map (fun r => V.cellIl r c)) w

end VCode

/-! ## the three classes -/

/-- `VBPTC12873`: 8 × 16, Hamming(16,11,4) on rows 0–6, CS(4)…CS(0) in column 10 of rows 2–6 -/
def v128 : VCode where
  T := vbptc12873
  R := 8
  W := 16
  n := 128
  k := 72
  c := 5
  H := h16114
  hrows := 7
  csCells := [(2, 10), (3, 10), (4, 10), (5, 10), (6, 10)]
  colFull := false

/-- `VBPTC6828`: 4 × 17, Hamming(17,12,3) on rows 0–2, CRC-8 in columns 4–11 of row 2 -/
def v68 : VCode where
  T := vbptc6828
  R := 4
  W := 17
  n := 68
  k := 28
  c := 8
  H := h17123
  hrows := 3
  csCells := [(2, 4), (2, 5), (2, 6), (2, 7), (2, 8), (2, 9), (2, 10), (2, 11)]
  colFull := false

/-- `VBPTC3211`: 2 × 16, Hamming(16,11,4) on row 0, row 1 repeats (even) or inverts (odd) row 0 -/
def v32 : VCode where
  T := vbptc3211
  R := 2
  W := 16
  n := 32
  k := 11
  c := 0
  H := h16114
  hrows := 1
  csCells := []
  colFull := true

/-- `int2ba(FiveBitChecksum.calculate(bits.tobytes()), length=5)` -/
def cs5 (m : Bits) : Nat := fiveBitChecksumRaw (bitsToBytes m)
def cs5Bits (m : Bits) : Bits := natToBits 5 (cs5 m)
/-- `int2ba(CRC8.calculate(bits), length=8)` -/
def crc8Bits (m : Bits) : Bits := natToBits 8 (crc8 m)

/-- `VBPTC12873.encode` (the 9-octet assertion of `FiveBitChecksum.calculate` cannot fire on 72 bits) -/
def encode128 (bits : Bits) : Except Err Bits := v128.encode cs5Bits bits true
/-- `VBPTC6828.encode` -/
def encode68 (bits : Bits) : Except Err Bits := v68.encode crc8Bits bits true
/-- `VBPTC3211.encode(bits, even_parity)` -/
def encode32 (bits : Bits) (even : Bool) : Except Err Bits := v32.encode (fun _ => []) bits even

/-- `VBPTC12873.deinterleave_cs5_bits` -/
def deinterleaveCs5 (bits : Bits) : Except Err Bits :=
  if bits.length ≠ v128.n then .error .assertion else .ok (v128.csRaw bits)

/-- `VBPTC6828.deinterleave_crc8_bits`: the 8 extracted bits, then `out.bytereverse()` (one octet:
the bit order is reversed, i.e. the CRC is returned least significant bit first) -/
def deinterleaveCrc8 (bits : Bits) : Except Err Bits :=
  if bits.length ≠ v68.n then .error .assertion else .ok (v68.csRaw bits).reverse

/-- `VBPTC12873.deinterleave_data_bits(bits, include_cs5)` -/
def deinterleaveData128 (bits : Bits) (incl : Bool) : Except Err Bits :=
  if bits.length ≠ v128.n then .error .assertion
  else .ok (v128.dataRaw bits ++ if incl then v128.csRaw bits else [])

/-- `VBPTC6828.deinterleave_data_bits(bits, include_crc8)` -/
def deinterleaveData68 (bits : Bits) (incl : Bool) : Except Err Bits :=
  if bits.length ≠ v68.n then .error .assertion
  else .ok (v68.dataRaw bits ++ if incl then (v68.csRaw bits).reverse else [])

/-- `VBPTC3211.deinterleave_data_bits(bits)` -/
def deinterleaveData32 (bits : Bits) : Except Err Bits :=
  if bits.length ≠ v32.n then .error .assertion else .ok (v32.dataRaw bits)

end Dmr.Vbptc
