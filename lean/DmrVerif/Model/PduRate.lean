import DmrVerif.Model.Layout
import DmrVerif.Gen.Elements

/-!
Model of `okdmr/dmrlib/etsi/layer2/pdu/rate12_data.py`, `rate34_data.py`, `rate1_data.py` (the three
files are the same code up to the block size): `__init__`, `as_bits`, `from_bits_typed`, `convert`.

A block carries `data` octets and, depending on its variant, a 7-bit serial number + 9-bit CRC-9
(confirmed) and a 32-bit CRC-32 (last block).  The variant of an object is **derived from the data
length** (`RateXDataTypes(len(data))`, table extracted into `Gen/Elements.lean`).  `f9` stands for
`CRC9.calculate_from_parts(data, dbsn, crc32, mask)` (C05); the constructor replaces `crc9 ≤ 0` by it.
`crc9_ok` is an integrity indicator (C04) and not modelled.
-/

namespace Dmr
open Dmr.Gen

inductive RateType where
  | unconfirmed | confirmed | unconfirmedLast | confirmedLast | undefined
deriving DecidableEq, Repr, Inhabited

/-- block size in octets and the data length of each variant (enum values of `RateXDataTypes`) -/
structure RateCfg where
  total : Nat
  /-- Unconfirmed, Confirmed, UnconfirmedLastBlock, ConfirmedLastBlock, Undefined -/
  lens : List Nat
deriving DecidableEq, Repr

def rate12 : RateCfg := ⟨12, rate12Lens⟩
def rate34 : RateCfg := ⟨18, rate34Lens⟩
def rate1 : RateCfg := ⟨24, rate1Lens⟩

structure RateData where
  data : Bytes
  dbsn : Nat
  crc9 : Nat
  crc32 : Nat
deriving DecidableEq, Repr, Inhabited

namespace RateData

/-- `packet_type.value` -/
def lenOf (c : RateCfg) : RateType → Nat
  | .unconfirmed => c.lens.getD 0 0
  | .confirmed => c.lens.getD 1 0
  | .unconfirmedLast => c.lens.getD 2 0
  | .confirmedLast => c.lens.getD 3 0
  | .undefined => c.lens.getD 4 0

/-- `RateXDataTypes(n)`: the member whose value is `n`, else `ValueError` -/
def typeOfLen (c : RateCfg) (n : Nat) : Except Err RateType :=
  if n = lenOf c .unconfirmed then .ok .unconfirmed
  else if n = lenOf c .confirmed then .ok .confirmed
  else if n = lenOf c .unconfirmedLast then .ok .unconfirmedLast
  else if n = lenOf c .confirmedLast then .ok .confirmedLast
  else if n = lenOf c .undefined then .ok .undefined
  else .error .valueError

/-- `__init__(data, packet_type, dbsn, crc9, crc32)` with integer arguments -/
def init (c : RateCfg) (f9 : Bytes → Nat → Nat → Nat) (t : RateType) (a : RateData) : Except Err RateData :=
  -- validate_packet_type
  if a.data.length ≠ 0 ∧ t ≠ .undefined ∧ a.data.length ≠ lenOf c t then .error .assertionError else
  match typeOfLen c a.data.length with
  | .error e => .error e
  | .ok _ =>
  .ok { a with crc9 := if a.crc9 = 0 then f9 a.data a.dbsn a.crc32 else a.crc9 }

/-- `as_bits` (an object with no data has type Undefined and `as_bits()` returns `None`: `[]` here,
excluded by the well-formedness predicate) -/
def enc (c : RateCfg) (p : RateData) : Bits :=
  match typeOfLen c p.data.length with
  | .ok .unconfirmed => bytesToBits p.data
  | .ok .confirmed => natToBits 7 p.dbsn ++ ((natToBits 9 p.crc9).reverse ++ bytesToBits p.data)
  | .ok .unconfirmedLast => bytesToBits p.data ++ natToBits 32 p.crc32
  | .ok .confirmedLast =>
    natToBits 7 p.dbsn ++ ((natToBits 9 p.crc9).reverse ++ (bytesToBits p.data ++ natToBits 32 p.crc32))
  | _ => []

/-- `from_bits_typed(bits, data_type)` -/
def dec (c : RateCfg) (f9 : Bytes → Nat → Nat → Nat) (t : RateType) (bs : Bits) : Except Err RateData :=
  if bs.length ≠ 8 * c.total then .error .assertionError else
  let n := 8 * c.total
  match t with
  | .undefined => init c f9 t ⟨bitsToBytes bs, 0, 0, 0⟩
  | .unconfirmed => init c f9 t ⟨bitsToBytes bs, 0, 0, 0⟩
  | .confirmed =>
    init c f9 t ⟨bitsToBytes (slice bs 16 (n - 16)), getField bs 0 7, bitsToNat (slice bs 7 9).reverse, 0⟩
  | .confirmedLast =>
    init c f9 t ⟨bitsToBytes (slice bs 16 (n - 48)), getField bs 0 7, bitsToNat (slice bs 7 9).reverse,
                 getField bs (n - 32) 32⟩
  | .unconfirmedLast =>
    init c f9 t ⟨bitsToBytes (slice bs 0 (n - 32)), 0, 0, getField bs (n - 32) 32⟩

/-- `convert(new_type)` -/
def convert (c : RateCfg) (f9 : Bytes → Nat → Nat → Nat) (p : RateData) (t : RateType) : Except Err RateData :=
  dec c f9 t (enc c p)

/-- constructor arguments in range for variant `t`: data of the variant's length; serial number and
CRC-9 only on confirmed blocks, CRC-32 only on last blocks (the other variants do not serialise them) -/
def WF (c : RateCfg) (t : RateType) (a : RateData) : Prop :=
  t ≠ .undefined ∧ a.data.length = lenOf c t ∧ isBytes a.data = true ∧
  (if t = .confirmed ∨ t = .confirmedLast then a.dbsn < 2 ^ 7 ∧ a.crc9 < 2 ^ 9 else a.dbsn = 0 ∧ a.crc9 = 0) ∧
  (if t = .unconfirmedLast ∨ t = .confirmedLast then a.crc32 < 2 ^ 32 else a.crc32 = 0)

instance (c : RateCfg) (t : RateType) (a : RateData) : Decidable (WF c t a) := by
  unfold WF; exact inferInstance

end RateData
end Dmr
