import DmrVerif.Model.Py
import DmrVerif.Model.PyBits

/-!
# Prelude of `tools/py2lean_arr.py`: `array('b' | 'B')`, mutable `bitarray` locals, dict tables, `int(a / b)`

Core Lean only.  Same soundness rule as `Model/Py.lean`.  An `array` is carried as `List Int`; the C char range of its
typecode is a parameter of the two operations that store into it.  A (big-endian) `bitarray` is a `List Bool` in index order
(`Model/PyBits.lean` has `ba2int`, `getBit`, `bitOfInt`, `tobytes`, `frombytes`).
-/

namespace Dmr.PyArr
open Dmr Dmr.Py

/-- `[0] * n` as the initialiser of an array: `n ≤ 0` gives the empty array -/
def zeros (n : Int) : List Int := List.replicate n.toNat 0

/-- `bitarray(n * [0])` -/
def baZeros (n : Int) : List Bool := List.replicate n.toNat false

/-- `a[i] = v` on an `array` with item range `lo..hi`: CPython normalises and checks the index first (`IndexError`), then
converts the value (`OverflowError` outside the C type).  The value comes before the index in the argument list because
Python evaluates the right-hand side of an assignment before the subscript of its target. -/
def setArr (lo hi : Int) (l : List Int) (v i : Int) : PyM (List Int) := do
  let k ← normIndex l.length i
  if lo ≤ v ∧ v ≤ hi then pure (l.set k v) else throw .overflow

/-- `a.append(v)` on an `array` with item range `lo..hi` -/
def appendArr (lo hi : Int) (l : List Int) (v : Int) : PyM (List Int) :=
  if lo ≤ v ∧ v ≤ hi then pure (l ++ [v]) else throw .overflow

/-- `b[i] = bit` on a bitarray (value before index, as for `setArr`) -/
def baSet (l : List Bool) (b : Bool) (i : Int) : PyM (List Bool) := do
  let k ← normIndex l.length i
  pure (l.set k b)

/-- `d[k]` of a dict given as its items in dict order (keys are distinct): `KeyError` if absent -/
def dictGet {κ ν : Type} [BEq κ] (tbl : List (κ × ν)) (k : κ) : PyM ν :=
  match tbl.lookup k with
  | some v => pure v
  | none => throw (.other "KeyError")

/-- `int(a / b)` for an int `a` and a literal int `b > 0`: Python computes the float `a / b` (correctly rounded) and
truncates.  For `0 ≤ a < 2^53` the float cannot reach the next integer above `⌊a/b⌋` (that integer is at least `1/b` away,
rounding moves the quotient by at most `(a/b)·2^-53 < 1/b`) and never falls below `⌊a/b⌋` (an integer `< 2^53` is a float and
rounding is monotone), so the result is `a // b`.  Everything else is `unsupported`. -/
def truncDiv (a : Int) (b : Nat) : PyM Int :=
  if 0 ≤ a ∧ a < 2 ^ 53 then pure (a / b) else throw (.unsupported "int(a / b) outside 0 <= a < 2**53")

/-- `b * n` of a bytes value: `n ≤ 0` gives `b""` -/
def bytesMul (b : List Nat) (n : Int) : List Nat := (List.replicate n.toNat b).flatten

/-- neighbouring items exchanged -/
def swapList {α : Type} : List α → List α
  | a :: b :: r => b :: a :: swapList r
  | r => r

/-- `x[0::2], x[1::2] = x[1::2], x[0::2]` on a bytearray: the right-hand side is two copies; an extended slice can only be
assigned a sequence of its own length, so an odd length is `ValueError` (at the first of the two assignments) -/
def swapPairs (l : List Nat) : PyM (List Nat) := if l.length % 2 = 0 then pure (swapList l) else throw .value

end Dmr.PyArr
