import DmrVerif.Model.Hdap

/-!
# HSTRP — executable model of `okdmr/dmrlib/hytera/pdu/hstrp.py`

`PktType` is `HSTRPPacketType` (one octet: two reserved bits, then option / reject / close / connect /
heartbeat / ack, most significant bit first), `Opts` the list inside `HSTRPOptions`
(command value, data), `Hstrp` the packet.  `options = None` and an empty `HSTRPOptions()` serialise
identically and the parser always produces an `HSTRPOptions`, so both are the empty list here.
Core Lean only.
-/

namespace Dmr.Hytera
open Dmr Dmr.Gen.Hytera

structure PktType where
  haveOptions : Bool
  isReject : Bool
  isClose : Bool
  isConnect : Bool
  isHeartbeat : Bool
  isAck : Bool
deriving DecidableEq, Repr

/-- `HSTRPPacketType.as_bytes`: `bitarray([0, 0, option, reject, close, connect, heartbeat, ack]).tobytes()` -/
def PktType.asByte (t : PktType) : Nat :=
  bitsToNat [false, false, t.haveOptions, t.isReject, t.isClose, t.isConnect, t.isHeartbeat, t.isAck]

/-- `HSTRPPacketType.from_bytes` on one octet (`bytes_to_bits`, big endian) -/
def PktType.ofByte (b : Nat) : PktType :=
  let bits := natToBits 8 b
  ⟨getBit bits 2, getBit bits 3, getBit bits 4, getBit bits 5, getBit bits 6, getBit bits 7⟩

/-- property `has_options` -/
def PktType.hasOptions (t : PktType) : Bool := !t.isHeartbeat && t.haveOptions
/-- property `has_data` -/
def PktType.hasData (t : PktType) : Bool := t.haveOptions || t.isAck

abbrev Opts := List (Nat × Bytes)

/-- `HSTRPOptions.as_bytes`: every option but the last carries the continuation bit -/
def optionsBytes : Opts → Bytes
  | [] => []
  | [(c, d)] => [c ||| 0x00, d.length] ++ d
  | (c, d) :: rest => [c ||| 0x80, d.length] ++ d ++ optionsBytes rest

/-- `HSTRPOptions.__len__` -/
def optionsLen : Opts → Nat
  | [] => 0
  | (_, d) :: rest => 2 + d.length + optionsLen rest

/-- the `while has_next` loop of `HSTRPOptions.from_bytes`, run on the suffix `data[idx:]`; one unit
of fuel per round (every round consumes at least two octets, `parseOptions` passes the length) -/
def parseOptionsGo : Nat → Bytes → R Opts
  | 0, _ => throw .index
  | f + 1, d => do
    let b0 ← idx d 0
    let cmd ← enumOf hstrpOptionValues (b0 &&& 0x7F)
    let n ← idx d 1
    let opt := (cmd, sl d 2 (2 + n))
    if b0 &&& 0x80 == 0x80 then do
      let rest ← parseOptionsGo f (d.drop (2 + n))
      pure (opt :: rest)
    else pure [opt]

/-- `HSTRPOptions.from_bytes` -/
def parseOptions (d : Bytes) : R Opts :=
  if d.length > 0 then parseOptionsGo d.length d else pure []

structure Hstrp where
  version : Nat
  pktType : PktType
  sn : Nat
  options : Opts
  payload : Option Pdu
deriving DecidableEq, Repr

/-- `HSTRP.as_bytes` -/
def Hstrp.asBytes (h : Hstrp) : R Bytes := do
  let pl ← match h.payload with
    | none => pure []
    | some p => p.asBytes
  pure (hstrpHeader ++ [h.version] ++ [h.pktType.asByte] ++ be2 h.sn ++ optionsBytes h.options ++ pl)

/-- `HSTRPOptions.from_bytes(data[6:]) if pkt_type.has_options else HSTRPOptions()` -/
def Hstrp.parseOpts (t : PktType) (d : Bytes) : R Opts :=
  if t.hasOptions then parseOptions (d.drop 6) else pure []

/-- `HDAP.from_bytes(data[6 + len(options):]) if pkt_type.has_data or len(data) > 6 + len(options) else None`
("payload might be there even if the options is_option=False") -/
def Hstrp.parsePayload (t : PktType) (d : Bytes) (n : Nat) : R (Option Pdu) :=
  if t.hasData ∨ d.length > 6 + n then Hdap.fromBytes (d.drop (6 + n)) else pure none

/-- `HSTRP.from_bytes` -/
def Hstrp.fromBytes (d : Bytes) : R (Option Hstrp) := do
  if d.length < 6 then return none
  if sl d 0 2 ≠ hstrpHeader then throw .assertion
  let t := PktType.ofByte (← idx d 3)
  let opts ← Hstrp.parseOpts t d
  let payload ← Hstrp.parsePayload t d (optionsLen opts)
  pure (some ⟨← idx d 2, t, ofBe (sl d 4 6), opts, payload⟩)

end Dmr.Hytera
