import DmrVerif.Model.Bits
import DmrVerif.Gen.Mbxml

/-!
# MBXML variable-length numbers (C14) — executable model of `okdmr/dmrlib/motorola/mbxml.py`

The four readers (`read_uintvar`, `read_sintvar`, `read_ufloatvar`, `read_sfloatvar`), the four writers
(`write_uintvar`, `write_sintvar`, `write_ufloatvar`, `write_sfloatvar` + the helper `write_fraction`),
`write_latitude`, `write_longitude`, `write_infotime` and the decoding formulas of the XML view
(`MBXMLToken.as_xml`), written the way the Python is written (bit string reversal, septet slicing, sign
in bit 6 of the first septet).  Core Lean only: this file is compiled into the model drivers.

Numbers.  Python `int`s are `Nat`/`Int`.  A Python `float` argument is an exact dyadic rational
`± num / 2^exp` (every finite double is one): `int(value)`, `value % 1`, `value % -1`, `abs` and the
multiplication by the power of two `128**precision` are exact in IEEE-754 arithmetic, so the float
writers are modelled exactly for every finite double.  A float *result* (`integer + decimal / 128**k`)
is returned as the exact triple `(integer, decimal, k)`; the division and the addition in doubles are
not modelled (cross-checked by the harness only).  Latitude / longitude go through `round(value, 6)`;
they are modelled on the integer number of micro-degrees (see `writeLat`).
-/

namespace Dmr.Mbxml

/-- the Python exception classes that the modelled functions raise -/
inductive Err where
  | index       -- IndexError
  | assertion   -- AssertionError
  | overflow    -- OverflowError
  | value       -- ValueError
  | key         -- KeyError
  | type        -- TypeError
  | attribute   -- AttributeError
  | notFound    -- ModuleNotFoundError
  | fuel        -- not a Python exception: the model's recursion budget ran out (proved impossible, C15 parse_total)
  deriving DecidableEq, Repr, Inhabited

def Err.name : Err → String
  | .index => "IndexError"
  | .assertion => "AssertionError"
  | .overflow => "OverflowError"
  | .value => "ValueError"
  | .key => "KeyError"
  | .type => "TypeError"
  | .attribute => "AttributeError"
  | .notFound => "ModuleNotFoundError"
  | .fuel => "MODEL-FUEL-EXHAUSTED"

abbrev R (α : Type) := Except Err α

instance instDecEqExcept {ε α : Type} [DecidableEq ε] [DecidableEq α] : DecidableEq (Except ε α)
  | .ok a, .ok b => if h : a = b then isTrue (by rw [h]) else isFalse (by intro h'; cases h'; exact h rfl)
  | .error a, .error b => if h : a = b then isTrue (by rw [h]) else isFalse (by intro h'; cases h'; exact h rfl)
  | .ok _, .error _ => isFalse (by intro h; cases h)
  | .error _, .ok _ => isFalse (by intro h; cases h)

/-- `MBXML.UINTVAR_MAX`, `MBXML.SINTVAR_MAX` as extracted from the class on this run -/
abbrev UINTVAR_MAX : Nat := Dmr.Gen.Mbxml.UINTVAR_MAX
abbrev SINTVAR_MAX : Nat := Dmr.Gen.Mbxml.SINTVAR_MAX

/-! ## read_uintvar -/

/-- `k` more octets consumed -/
def bump (k : Nat) : R (Nat × Nat) → R (Nat × Nat)
  | .ok (v, n) => .ok (v, n + k)
  | .error e => .error e

/-- the `while True` loop of `read_uintvar` on the octets from the read position on; `acc` is
`uintvar` so far.  Result: the value and the number of octets consumed.  Running off the end is the
`IndexError` of `data[idx]`. -/
def readUGo : Bytes → Nat → R (Nat × Nat)
  | [], _ => .error .index
  | b :: rest, acc =>
    let acc' := acc * 128 + b % 128          -- (uintvar << 7) + (this & 0x7F)
    if b / 128 % 2 = 0 then .ok (acc', 1)    -- this & 0x80 == 0
    else bump 1 (readUGo rest acc')

/-- from "octets consumed" to "new index" -/
def shift (idx : Nat) : R (Nat × Nat) → R (Nat × Nat)
  | .ok (v, n) => .ok (v, idx + n)
  | .error e => .error e

/-- `MBXML.read_uintvar(data, idx)` = (value, new idx) -/
def readU (data : Bytes) (idx : Nat) : R (Nat × Nat) := shift idx (readUGo (data.drop idx) 0)

/-! ## write_uintvar -/

def bitsLsbF : Nat → Nat → Bits
  | 0, _ => []
  | f + 1, v => if v = 0 then [] else (v % 2 == 1) :: bitsLsbF f (v / 2)

/-- binary digits, least significant first, no leading zeros (`[]` for 0) -/
def bitsLsb (v : Nat) : Bits := bitsLsbF v v

/-- `bin(value)[2:][::-1]`: the reversed binary string (`"0"` for 0) -/
def binRev (v : Nat) : Bits := if v = 0 then [false] else bitsLsb v

def chunk7F : Nat → Bits → List Bits
  | 0, _ => []
  | f + 1, l => if l.isEmpty then [] else l.take 7 :: chunk7F f (l.drop 7)

/-- `[bin_val[i*7:(i+1)*7] for i in range(ceil(len/7))]` -/
def chunk7 (l : Bits) : List Bits := chunk7F l.length l

/-- `int(chunk[::-1], 2)` of a chunk that is least significant bit first -/
def septetVal (c : Bits) : Nat := c.foldr (fun b acc => b.toNat + 2 * acc) 0

/-- the octets in the order the loop produces them (least significant septet first): the first one
without, the others with the continuation bit -/
def septetBytes : Bool → List Bits → Bytes
  | _, [] => []
  | first, c :: cs => Nat.lor (septetVal c) (if first then 0 else 128) :: septetBytes false cs

/-- `write_uintvar` without the range assertions -/
def writeURaw (v : Nat) : Bytes := (septetBytes true (chunk7 (binRev v))).reverse

/-- `MBXML.write_uintvar(value)` for `value ≥ 0` -/
def writeU (v : Nat) : R Bytes :=
  if v > UINTVAR_MAX then .error .assertion else .ok (writeURaw v)

/-- `MBXML.write_uintvar(value)` for any Python int -/
def writeUInt (v : Int) : R Bytes :=
  if v < 0 then .error .assertion else writeU v.toNat

/-! ## read_sintvar / write_sintvar -/

/-- `sintvar * sign` -/
def applySign (neg : Bool) (m : Nat) : Int := if neg then -(m : Int) else (m : Int)

/-- the rest of `read_sintvar` after the first octet at `idx`: value with sign, new index, sign -/
def readSRest (neg : Bool) (idx : Nat) : R (Nat × Nat) → R (Int × Nat × Bool)
  | .ok (v, n) => .ok (applySign neg v, idx + 1 + n, neg)
  | .error e => .error e

/-- `MBXML.read_sintvar(data, idx)` = (value, new idx, sign is −1) -/
def readS (data : Bytes) (idx : Nat) : R (Int × Nat × Bool) :=
  match data.drop idx with
  | [] => .error .index
  | b :: rest =>
    let neg := b / 64 % 2 = 1                 -- this & 0x40 > 0
    let acc := b % 64                         -- (0 << 7) + (this & 0x3F)
    if b / 128 % 2 = 0 then .ok (applySign neg acc, idx + 1, neg)
    else readSRest neg idx (readUGo rest acc)

/-- `if sintvar[0] & 0x40: sintvar = b"\x80" + sintvar` -/
def signRoom : Bytes → Bytes
  | [] => []
  | b :: t => if b / 64 % 2 = 1 then 128 :: b :: t else b :: t

/-- `bytes([sintvar[0] | 0x40]) + sintvar[1:]` when the sign is to be set -/
def setSign : Bool → Bytes → Bytes
  | false, s => s
  | true, [] => []
  | true, b :: t => Nat.lor b 64 :: t

/-- the octets of `write_sintvar` for magnitude `m` and sign flag `neg` (no range assertion):
`write_uintvar(m)`, a further leading septet when bit 6 of the first octet is taken, the sign -/
def writeSRaw (m : Nat) (neg : Bool) : Bytes := setSign neg (signRoom (writeURaw m))

/-- `MBXML.write_sintvar(value, negative_zero)` -/
def writeS (v : Int) (negZero : Bool := false) : R Bytes :=
  if v.natAbs > SINTVAR_MAX then .error .assertion
  else .ok (writeSRaw v.natAbs (!(decide (v ≥ 0) && !negZero)))

/-! ## floats -/

/-- `[(dec_part >> (7 * i)) & 0x7F for i in range(precision - 1, -1, -1)]` -/
def fracSeptets (d : Nat) : Nat → List Nat
  | 0 => []
  | p + 1 => (d / 128 ^ p % 128) :: fracSeptets d p

/-- `while len(septets) > 1 and septets[-1] == 0: septets.pop()`: when everything after the head is
zero the loop stops at the head (length 1), otherwise it never reaches the head -/
def stripTrailing : List Nat → List Nat
  | [] => []
  | x :: t => if t.all (· == 0) then [x] else x :: stripTrailing t

/-- `bytes([septet | 0x80 for septet in septets[:-1]] + septets[-1:])` -/
def flagAllButLast : List Nat → Bytes
  | [] => []
  | [s] => [s]
  | s :: t => Nat.lor s 128 :: flagAllButLast t

/-- `MBXML.write_fraction(dec_part, precision)` -/
def writeFraction (d p : Nat) : Bytes := flagAllButLast (stripTrailing (fracSeptets d p))

/-- `MBXML.write_ufloatvar(value, precision)` for the double `value = num / 2^exp ≥ 0` -/
def writeUF (num exp p : Nat) : R Bytes :=
  if p < 1 then .error .assertion else
  let ip := num / 2 ^ exp                                  -- int(value)
  let dp := num % 2 ^ exp * 128 ^ p / 2 ^ exp              -- int(value % 1 * 128**precision)
  match writeU ip with
  | .error e => .error e
  | .ok integer => .ok (integer ++ writeFraction dp p)

/-- `MBXML.write_sfloatvar(value, precision)` for the double `value = ± num / 2^exp`
(`neg` with `num = 0` is `-0.0`, for which `value < 0` is false) -/
def writeSF (neg : Bool) (num exp p : Nat) : R Bytes :=
  if p < 1 then .error .assertion else
  let isNeg := neg && num != 0                             -- value < 0
  let ip := num / 2 ^ exp                                  -- abs(int(value))
  let dp := num % 2 ^ exp * 128 ^ p / 2 ^ exp              -- int(abs(value % ±1) * 128**precision)
  match writeS (applySign isNeg ip) isNeg with
  | .error e => .error e
  | .ok integer => .ok (integer ++ writeFraction dp p)

/-- result of a float reader: the value is `± (int + dec / 128^k)`, `next` the new index -/
structure FloatRes where
  neg : Bool
  int : Nat
  dec : Nat
  k : Nat
  next : Nat
  deriving DecidableEq, Repr

/-- `MBXML.read_ufloatvar(data, idx)` -/
def readUF (data : Bytes) (idx : Nat) : R FloatRes :=
  match readU data idx with
  | .error e => .error e
  | .ok (integer, idx1) =>
    match readU data idx1 with
    | .error e => .error e
    | .ok (decimal, idx2) => .ok ⟨false, integer, decimal, idx2 - idx1, idx2⟩

/-- `MBXML.read_sfloatvar(data, idx)` (`copysign(abs(integer) + decimal / 128**k, sign)`) -/
def readSF (data : Bytes) (idx : Nat) : R FloatRes :=
  match readS data idx with
  | .error e => .error e
  | .ok (integer, idx1, neg) =>
    match readU data idx1 with
    | .error e => .error e
    | .ok (decimal, idx2) => .ok ⟨neg, integer.natAbs, decimal, idx2 - idx1, idx2⟩

/-! ## latitude, longitude, info-time and the XML view -/

/-- `int.to_bytes(length = n, byteorder = "big")` of a non-negative int that fits -/
def beBytes : Nat → Nat → Bytes
  | 0, _ => []
  | n + 1, v => (v / 256 ^ n % 256) :: beBytes n v

/-- `int.from_bytes(b, byteorder = "big")` -/
def beNat (b : Bytes) : Nat := b.foldl (fun acc x => acc * 256 + x) 0

/-- `value.to_bytes(length=n, byteorder="big")` of a Python int: negative or too big is OverflowError -/
def toBytes (n : Nat) (v : Int) : R Bytes :=
  if v < 0 then .error .overflow
  else if v.toNat ≥ 256 ^ n then .error .overflow
  else .ok (beBytes n v.toNat)

/-- `MBXML.write_latitude(value)` where `value` is the double nearest to `m / 10^6` (`m` micro-degrees).
`math.isclose(value, 90.0)` holds for `m = 90 000 000` only (the neighbours are 10^-6 away, the
tolerance is 9·10^-8).  `int((round(value, 6) * 2**31) / 90)` truncates towards zero; the exact quotient
is `m · 2^24 / 703125`, and the double computation lands on the same side of every integer because a
non-integral quotient is at least `1/703125` away from one while the two roundings move it by less than
`2^32 · 2^-52` (argument in DESIGN §5 C14; cross-checked by the harness, not proved). -/
def writeLat (m : Int) : R Bytes :=
  if m = 90000000 then toBytes 4 2147483647
  else toBytes 4 (Int.tdiv (m * 16777216) 703125)

/-- `MBXML.write_longitude(value)`: `int((round(value, 6) * 2**32) / 360)` = `m · 2^23 / 703125` -/
def writeLon (m : Int) : R Bytes := toBytes 4 (Int.tdiv (m * 8388608) 703125)

/-- round half to even of `n / d` (`round(x, 6)` is correctly rounded, ties to even) -/
def roundHalfEven (n d : Nat) : Nat :=
  let q := n / d
  let r := n % d
  if 2 * r > d then q + 1 else if 2 * r = d ∧ q % 2 = 1 then q + 1 else q

/-- XML view: `round((_lat * 90) / 2**31, 6)` in micro-degrees -/
def decodeLat (b : Bytes) : Nat := roundHalfEven (beNat b * 703125) 16777216

/-- XML view: `round((_long * 360) / 2**32, 6)` in micro-degrees -/
def decodeLon (b : Bytes) : Nat := roundHalfEven (beNat b * 703125) 8388608

structure DateTime where
  year : Nat
  month : Nat
  day : Nat
  hour : Nat
  minute : Nat
  second : Nat
  deriving DecidableEq, Repr

def isLeap (y : Nat) : Bool := (y % 4 == 0 && y % 100 != 0) || y % 400 == 0

def daysInMonth (y m : Nat) : Nat :=
  if m = 2 then (if isLeap y then 29 else 28)
  else if m = 4 ∨ m = 6 ∨ m = 9 ∨ m = 11 then 30 else 31

/-- what `datetime.strptime(value, "%Y%m%d%H%M%S")` accepts for a string of 14 digits -/
def DateTime.valid (t : DateTime) : Bool :=
  1 ≤ t.year && t.year ≤ 9999 && 1 ≤ t.month && t.month ≤ 12 && 1 ≤ t.day
    && t.day ≤ daysInMonth t.year t.month && t.hour ≤ 23 && t.minute ≤ 59 && t.second ≤ 59

/-- `MBXML.write_infotime(value)` for a 14-digit string / int / datetime with these fields -/
def writeInfotime (t : DateTime) : R Bytes :=
  if !t.valid then .error .value
  else toBytes 5 (t.year * 2 ^ 26 + t.month * 2 ^ 22 + t.day * 2 ^ 17 + t.hour * 2 ^ 12
    + t.minute * 2 ^ 6 + t.second : Nat)

/-- XML view of a 5-octet info-time: the bit slices `[0:-26] [-26:-22] [-22:-17] [-17:-12] [-12:-6] [-6:]` -/
def decodeInfotime (b : Bytes) : DateTime :=
  let n := beNat b
  ⟨n / 2 ^ 26, n / 2 ^ 22 % 16, n / 2 ^ 17 % 32, n / 2 ^ 12 % 32, n / 2 ^ 6 % 64, n % 64⟩

def pad2 (n : Nat) : String := if n < 10 then "0" ++ toString n else toString n

def padSpace4 (n : Nat) : String :=
  let s := toString n
  String.ofList (List.replicate (4 - s.length) ' ') ++ s

/-- the text node of the XML view: `f"{year:4}{month:02}{day:02}{hour:02}{minute:02}{second:02}"` -/
def DateTime.text (t : DateTime) : String :=
  padSpace4 t.year ++ pad2 t.month ++ pad2 t.day ++ pad2 t.hour ++ pad2 t.minute ++ pad2 t.second

/-! ## canonical forms (decidable predicates used by the theorems and by C15) -/

/-- continuation bits right: every octet but the last has bit 7 set, the last has not; octets < 256 -/
def wellFlagged : Bytes → Bool
  | [] => false
  | [b] => b < 128
  | b :: t => 128 ≤ b && b < 256 && wellFlagged t

/-- canonical unsigned form: well flagged and no leading `0x80` septet -/
def canonicalU (bs : Bytes) : Bool :=
  wellFlagged bs && (bs.length == 1 || bs.head? != some 128)

/-- canonical signed form: well flagged, and the first octet is not a bare continuation (`0x80` / `0xC0`)
followed by a septet that has room for the sign (bit 6 clear) -/
def canonicalS (bs : Bytes) : Bool :=
  wellFlagged bs &&
    match bs with
    | b :: c :: _ => !(b % 64 == 0 && c / 64 % 2 == 0)
    | _ => true

end Dmr.Mbxml
