import DmrVerif.Model.Codes
import DmrVerif.Gen.Codes
import DmrVerif.Gen.Bptc

/-!
Model of `okdmr/dmrlib/etsi/fec/bptc_196_96.py` (class `BPTC19696`) as the file is now: the repair loop
corrects all 13 rows and then all 15 columns (fix 23ad248) and the write-back skips key 0 (fix 87ec7cf).

Conventions
* bitarrays are `Bits`; the 13×15 numpy table is kept **row-major flat** (`table[r][c]` = element
  `15*r + c` of a 195-bit list), which is also how numpy stores it;
* every `for k, v in <dict>.items(): dst[..] = src[..]` loop is a left fold of `List.set` over the
  generated item list **in dict order** (`scatter`), so "later writes win" is kept — this matters for
  key 0, whose row number is 0: `table[row - 1]` is `table[-1]`, the *last* row (`pyRow`);
* `for row in range(13): table[row] = f(table[row])` and `for col in range(15): table[:, col] =
  f(table[:, col])` are modelled as the simultaneous application of `f` to the 13 rows / 15 columns
  (`mapRows` / `mapCols`): iteration `i` reads and writes row / column `i` only;
* `assert` failures are `Err.assertion` (the harness canonicalises `AssertionError` to the same token);
* only `repair_if_necessary(bits, deinterleaved=False)` is modelled (the library never passes `True`).
-/

namespace Dmr.Bptc
open Dmr Dmr.Gen Dmr.Gen.Bptc19696

inductive Err where
  | assertion
deriving DecidableEq, Repr

/-- `for i, n in pairs: out[i] = src[n]` -/
def scatter (pairs : List (Nat × Nat)) (src out : Bits) : Bits :=
  pairs.foldl (fun o p => o.set p.1 (getBit src p.2)) out

/-- index of `table[row - 1]` in a 13-row ndarray: `row = 0` gives `-1`, the last row -/
def pyRow (row : Nat) : Nat := if row = 0 then 12 else row - 1

/-- flat position of `table[row - 1][col]` -/
def cell (row col : Nat) : Nat := 15 * pyRow row + col

/-- `(flat table position, interleave index)` for every item of `INTERLEAVING_INDICES`, dict order -/
def fillPairs : List (Nat × Nat) :=
  interleavingIndices.map (fun e => (cell e.2.2.1 e.2.2.2.1, e.2.1))

/-- `(interleave index, flat table position)` of the items `encode` writes (`is_reserved` skipped) -/
def encodeOutPairs : List (Nat × Nat) :=
  (interleavingIndices.filter (fun e => !e.2.2.2.2.1)).map (fun e => (e.2.1, cell e.2.2.1 e.2.2.2.1))

/-- `(interleave index, flat table position)` of the items `repair_if_necessary` writes back
(`row == 0` skipped) -/
def repairOutPairs : List (Nat × Nat) :=
  (interleavingIndices.filter (fun e => e.2.2.1 != 0)).map (fun e => (e.2.1, cell e.2.2.1 e.2.2.2.1))

/-- flat positions of the rows `table[r]`, `r = 0..12` -/
def rowIdx : List (List Nat) := (List.range 13).map (fun r => (List.range 15).map (fun c => 15 * r + c))
/-- flat positions of the columns `table[:, c]`, `c = 0..14` -/
def colIdx : List (List Nat) := (List.range 15).map (fun c => (List.range 13).map (fun r => 15 * r + c))
/-- row-major position `15*r + c` ↦ column-major position `13*c + r` -/
def trIdx : List Nat := (List.range 13).flatMap (fun r => (List.range 15).map (fun c => 13 * c + r))

/-- apply `f` to every listed block of `t` and concatenate the results -/
def blockMap (idxs : List (List Nat)) (f : Bits → Bits) (t : Bits) : Bits :=
  idxs.flatMap (fun ix => f (gather ix t))

/-- `for row in range(13): table[row] = f(table[row])` -/
def mapRows (f : Bits → Bits) (t : Bits) : Bits := blockMap rowIdx f t

/-- `for col in range(15): table[:, col] = f(table[:, col])` (result again row-major) -/
def mapCols (f : Bits → Bits) (t : Bits) : Bits := gather trIdx (blockMap colIdx f t)

/-- `deinterleave_all_bits` after its length assertion -/
def deinterleaveAllCore (bits : Bits) : Bits :=
  scatter fullDeinterleavingMap bits (zeros fullDeinterleavingMap.length)

def deinterleaveAllBits (bits : Bits) : Except Err Bits :=
  if bits.length = 196 then .ok (deinterleaveAllCore bits) else .error .assertion

/-- `fill_encoding_table` on a fresh all-zero table, for the chosen `mapping` -/
def fillCore (mapping : List (Nat × Nat)) (bitsDeinterleaved : Bits) : Bits :=
  -- `for index, interleave_index in mapping.items(): bits_interleaved[interleave_index] = bits_deinterleaved[index]`
  let bitsInterleaved := scatter (mapping.map (fun p => (p.2, p.1))) bitsDeinterleaved (zeros 196)
  scatter fillPairs bitsInterleaved (zeros (13 * 15))

def fillMapping (len : Nat) : List (Nat × Nat) :=
  if len = 96 then deinterleaveInfoBitsOnlyMap else fullDeinterleavingMap

def fillEncodingTable (bitsDeinterleaved : Bits) : Except Err Bits :=
  if bitsDeinterleaved.length = 96 ∨ bitsDeinterleaved.length = 196 then
    .ok (fillCore (fillMapping bitsDeinterleaved.length) bitsDeinterleaved)
  else .error .assertion

/-- the table of `encode` after the row and column generators -/
def encodeTable (mapping : List (Nat × Nat)) (bitsDeinterleaved : Bits) : Bits :=
  mapCols (fun c => h1393.gen (c.take 9))
    (mapRows (fun r => h15113.gen (r.take 11)) (fillCore mapping bitsDeinterleaved))

def encodeCore (mapping : List (Nat × Nat)) (bitsDeinterleaved : Bits) : Bits :=
  scatter encodeOutPairs (encodeTable mapping bitsDeinterleaved) (zeros 196)

/-- `BPTC19696.encode` (accepts 96 info bits, or 196 "deinterleaved" bits whose FEC is regenerated) -/
def encode (bitsDeinterleaved : Bits) : Except Err Bits :=
  if bitsDeinterleaved.length = 96 ∨ bitsDeinterleaved.length = 196 then
    .ok (encodeCore (fillMapping bitsDeinterleaved.length) bitsDeinterleaved)
  else .error .assertion

/-- the table of `repair_if_necessary` after the row pass and the column pass -/
def repairTable (t : Bits) : Bits := mapCols h1393.correct (mapRows h15113.correct t)

/-- `repair_if_necessary(bits)` after its length assertion -/
def repairCore (bits : Bits) : Bits :=
  let d := deinterleaveAllCore bits
  let t := fillCore fullDeinterleavingMap d
  scatter repairOutPairs (repairTable t) d

def repairIfNecessary (bits : Bits) : Except Err Bits :=
  if bits.length = 196 then .ok (repairCore bits) else .error .assertion

/-- the final gather of `deinterleave_data_bits` -/
def dataCore (bits : Bits) : Bits :=
  scatter deinterleaveInfoBitsOnlyMap bits (zeros deinterleaveInfoBitsOnlyMap.length)

/-- `BPTC19696.deinterleave_data_bits(bits, repair_if_necessary)` -/
def deinterleaveDataBits (bits : Bits) (repair : Bool) : Except Err Bits :=
  if bits.length = 196 then
    .ok (dataCore (if repair then repairCore bits else bits))
  else .error .assertion

end Dmr.Bptc
