/-!
Types of the generated LRRP / MBXML tables (`Gen/Lrrp.lean`) and of the C15 model.  No imports.
-/

namespace Dmr.Lrrp

/-- `GlobalToken` (okdmr/dmrlib/motorola/mbxml.py), one constructor per enum member -/
inductive TokType where
  | NO_VALUE | UNKNOWN | END | UINTVAR | SINTVAR | UFLOATVAR | SFLOATVAR | ENTITY | OPAQUE_I | OPAQUE_T
  | UINT8 | STR8_I | STR7_I | STR8_ST | CONCAT | RESERVED | DOCUMENT_SPECIFIC | CIRCLE_2D | CIRCLE_3D
  | INFO_TIME | POINT_2D | POINT_3D | POINT_3D_WITH_ACC
  deriving DecidableEq, Repr, Inhabited

/-- an element token definition: dict key, `MBXMLToken.name`, `.token_type`, `.length`, `.attributes` -/
structure ElemTok where
  id : Nat
  name : String
  ty : TokType
  length : Option Nat
  attrs : List Nat
  deriving DecidableEq, Repr, Inhabited

/-- an attribute token definition: dict key, name, type, preset `.value`, `.length`, `.last_attribute` -/
structure AttrTok where
  id : Nat
  name : String
  ty : TokType
  value : Option Nat
  length : Option Nat
  last : Bool
  deriving DecidableEq, Repr, Inhabited

/-- which class `MBXML.get_implementation` picks from the first four letters of the member name -/
inductive Impl where
  | lrrp | arrp | other
  deriving DecidableEq, Repr, Inhabited

/-- a member of `MBXMLDocumentIdentifier`: (document id, is NCDT), implementation -/
structure DocId where
  id : Nat
  ncdt : Bool
  impl : Impl
  deriving DecidableEq, Repr, Inhabited

end Dmr.Lrrp
