import DmrVerif.Model.Mbxml

/-!
# MBXML latitude / longitude for *every* double, and an ambient-free calendar (C14, hardening round)

`Model/Mbxml.lean` models `write_latitude` / `write_longitude` on integer micro-degrees (the argument is the
double nearest to `m / 10^6`).  This file adds, without touching that file (C15 imports it):

* `writeLatD` / `writeLonD`: the writers on an arbitrary non-negative double `num / 2^exp` — Python's
  `round(value, 6)` (correctly rounded, ties to even on the exact binary value) followed by the integer
  formula, and `math.isclose(value, 90.0)` evaluated the way CPython does, in IEEE-754 double arithmetic
  (`fl53` below rounds an exact positive rational to the nearest double, ties to even);
* `latFl` / `lonFl`: the expression `int((round(value, 6) * 2**31) / 90)` evaluated step by step in
  double arithmetic (`fl53`), so that the integer formula `m · 2^24 / 703125` of `writeLat` — justified by
  an error-analysis argument only — is cross-checked exactly on every value the harness sends;
* a proleptic Gregorian calendar (`ordinal`, `civilOfOrdinal`, `weekdaySun`, `addSeconds`, the
  `Mm.w.d` rule of POSIX `TZ` strings): the harness computes the skipped / repeated local hours of the
  time zones it switches the process to with its own arithmetic and has every instant confirmed by these
  functions; neither side reads the process' time zone, locale or any other ambient setting.

Core Lean only (compiled into the driver).
-/

namespace Dmr.Mbxml

/-! ## exact positive rationals and rounding to a double -/

/-- number of binary digits (`int.bit_length`) -/
def bitLen (n : Nat) : Nat := if n = 0 then 0 else Nat.log2 n + 1

/-- a non-negative rational `n / d` (`d > 0`) -/
structure Q where
  n : Nat
  d : Nat
  deriving Repr, DecidableEq

def Q.le (a b : Q) : Bool := a.n * b.d ≤ b.n * a.d
def Q.eq (a b : Q) : Bool := a.n * b.d == b.n * a.d
def Q.mul (a b : Q) : Q := ⟨a.n * b.n, a.d * b.d⟩
/-- `|a − b|` -/
def Q.absdiff (a b : Q) : Q :=
  ⟨(if a.n * b.d ≥ b.n * a.d then a.n * b.d - b.n * a.d else b.n * a.d - a.n * b.d), a.d * b.d⟩

/-- `m · 2^e` as a rational -/
def Q.ofDyadic (m : Nat) (e : Int) : Q :=
  if e < 0 then ⟨m, 2 ^ (-e).toNat⟩ else ⟨m * 2 ^ e.toNat, 1⟩

/-- numerator / denominator of `(n / d) / 2^e` -/
def scaleN (n : Nat) (e : Int) : Nat := if e < 0 then n * 2 ^ (-e).toNat else n
def scaleD (d : Nat) (e : Int) : Nat := if e < 0 then d else d * 2 ^ e.toNat

/-- the double nearest to the positive rational `n / d` (ties to even), as `mant · 2^e` with
`2^52 ≤ mant ≤ 2^53`; normal range only (no underflow / overflow: the magnitudes that occur are between
`10^-16` and `2^40`).  The exponent estimate `e0` from the bit lengths is at most one too small. -/
def fl53 (n d : Nat) : Nat × Int :=
  if n = 0 then (0, 0) else
  let e0 : Int := (bitLen n : Int) - (bitLen d : Int) - 53
  let e : Int :=
    if scaleN n e0 / scaleD d e0 ≥ 2 ^ 53 then e0 + 1
    else if scaleN n e0 / scaleD d e0 < 2 ^ 52 then e0 - 1 else e0
  (roundHalfEven (scaleN n e) (scaleD d e), e)

/-- rounding of a rational to the nearest double, as a rational again -/
def Q.fl (q : Q) : Q := let r := fl53 q.n q.d; Q.ofDyadic r.1 r.2

/-! ## latitude / longitude on arbitrary doubles -/

/-- `round(value, 6)` in micro-degrees for the double `value = num / 2^exp ≥ 0` -/
def microOf (num exp : Nat) : Nat := roundHalfEven (num * 1000000) (2 ^ exp)

/-- `math.isclose(value, 90.0)` (rel_tol = 1e-09, abs_tol = 0.0) as CPython evaluates it:
`a == b or fabs(b - a) <= fabs(rel_tol * b) or fabs(b - a) <= fabs(rel_tol * a)`, every operation
rounded to a double -/
def isclose90 (num exp : Nat) : Bool :=
  let a : Q := ⟨num, 2 ^ exp⟩
  let b : Q := ⟨90, 1⟩
  if a.eq b then true else
  let diff := (a.absdiff b).fl
  let rel := (Q.mk 1 1000000000).fl
  diff.le (rel.mul b).fl || diff.le (rel.mul a).fl

/-- `MBXML.write_latitude(value)` for any double `value = num / 2^exp ≥ 0` -/
def writeLatD (num exp : Nat) : R Bytes :=
  if isclose90 num exp then toBytes 4 2147483647
  else toBytes 4 (Int.tdiv ((microOf num exp : Int) * 16777216) 703125)

/-- `MBXML.write_longitude(value)` for any double `value = num / 2^exp ≥ 0` -/
def writeLonD (num exp : Nat) : R Bytes :=
  toBytes 4 (Int.tdiv ((microOf num exp : Int) * 8388608) 703125)

/-- `int((r * 2**sh) / div)` in double arithmetic, `r` the double nearest to `m / 10^6` (what
`round(value, 6)` returns): the multiplication by a power of two is exact, the division is rounded -/
def quotFl (m sh div : Nat) : Nat :=
  let r := fl53 m 1000000
  let p := Q.ofDyadic r.1 (r.2 + sh)
  let q := (Q.mk p.n (p.d * div)).fl
  q.n / q.d

/-- `int((round(value, 6) * 2**31) / 90)` in double arithmetic -/
def latFl (m : Nat) : Nat := quotFl m 31 90

/-- `int((round(value, 6) * 2**32) / 360)` in double arithmetic -/
def lonFl (m : Nat) : Nat := quotFl m 32 360

/-! ## calendar (proleptic Gregorian, no time zone anywhere) -/

def daysBeforeYear (y : Nat) : Nat :=
  let p := y - 1
  365 * p + p / 4 - p / 100 + p / 400

def daysBeforeMonth (y : Nat) : Nat → Nat
  | 0 => 0
  | 1 => 0
  | m + 1 => daysBeforeMonth y m + daysInMonth y m

/-- `datetime.date(y, m, d).toordinal()`: 0001-01-01 is day 1 -/
def ordinal (y m d : Nat) : Nat := daysBeforeYear y + daysBeforeMonth y m + d

/-- day of the week, 0 = Sunday (0001-01-01, ordinal 1, is a Monday) -/
def weekdaySun (y m d : Nat) : Nat := ordinal y m d % 7

def findYear : Nat → Nat → Nat → Nat
  | 0, y, _ => y
  | f + 1, y, n => if daysBeforeYear (y + 1) < n then findYear f (y + 1) n else y

def findMonth : Nat → Nat → Nat → Nat → Nat
  | 0, _, m, _ => m
  | f + 1, y, m, r => if m < 12 ∧ daysBeforeMonth y (m + 1) < r then findMonth f y (m + 1) r else m

/-- inverse of `ordinal` for `n ≥ 1` -/
def civilOfOrdinal (n : Nat) : Nat × Nat × Nat :=
  let y := findYear 64 (n / 366 + 1) n
  let r := n - daysBeforeYear y
  let m := findMonth 12 y 1 r
  (y, m, r - daysBeforeMonth y m)

/-- seconds since 0001-01-01 00:00:00 on the wall clock (no zone) -/
def DateTime.toSeconds (t : DateTime) : Nat :=
  (ordinal t.year t.month t.day - 1) * 86400 + t.hour * 3600 + t.minute * 60 + t.second

def DateTime.ofSeconds (s : Nat) : DateTime :=
  let (y, m, d) := civilOfOrdinal (s / 86400 + 1)
  let r := s % 86400
  ⟨y, m, d, r / 3600, r % 3600 / 60, r % 60⟩

/-- the wall clock `k` seconds later (earlier for negative `k`) -/
def DateTime.addSeconds (t : DateTime) (k : Int) : DateTime :=
  DateTime.ofSeconds ((t.toSeconds : Int) + k).toNat

/-- day of the month of the POSIX `TZ` rule `Mm.w.d`: week `w` (1..5, 5 = last) of weekday `d`
(0 = Sunday) in month `m` of year `y` -/
def ruleDay (y m w d : Nat) : Nat :=
  let first := 1 + (d + 7 - weekdaySun y m 1) % 7
  let day := first + 7 * (w - 1)
  let dim := daysInMonth y m
  if day > dim + 7 then day - 14 else if day > dim then day - 7 else day

end Dmr.Mbxml
