import DmrVerif.Model.Codes
import DmrVerif.Gen.Codes
import DmrVerif.Gen.PurityInit

/-!
# C19 — the hidden state of the Python library as an explicit record

A Lean function is pure by construction, so purity of the *Python* can only be stated about a model that makes
the hidden state of the Python explicit.  `S` holds every piece of state the inventory (`Gen/HiddenState.lean`)
shows a codec call can reach:

* the registers of the four shared calculators `CRC8/9/16/32.CALC` and of calculators a caller keeps,
* the `functools.lru_cache` of `bits_create_lookup_table` (one shared list of mutable bit arrays per
  `(width, polynomial)`, aliased by every table register),
* the class-level matrices of the block codes,
* the mutable default arguments (`Burst.full_bits`, `CSBK.broadcast_params`, `DataHeader.bit_padding`,
  `ServiceOptions.reserved`, `RadioControlProtocol.status_change_settings`),
* the class-level LRRP token / attribute tables,
* the `has_more_headers` flag of a TMS first header, which `as_bytes` rewrites, and `MBXML.DEBUG`,
* the wall clock the interpreter showed when the package was imported (`importClock`: what a class attribute, default argument
  or module constant computed from `date.today()` at import would have frozen; the code reads it into the default
  `GPSData.zero()` only, no parser does).

Every modelled entry point is `step : S → Call → S × Out × Call`: new state, result, and the call *with its
argument buffers as the Python leaves them* (only the documented in-place Hamming repair changes them).
`pureOut : Call → Out` is the history-free function: it never sees `S`, it reads the initial tables only.
`stepBuggy` mirrors the code before the repairs d571898 / a980052 / 2d27283 (counter-examples in Props/C19).
`stepUnsafe` is NOT code that ever existed: two hazards the model makes explicit - a conversion that hands back its argument
for one accepted form (so that the in-place `+=` of `CRC9.calculate_from_parts` lands in the caller's buffer) and a two-digit
year completed with the century of the import clock.
Core Lean only (compiled into the driver).
-/

namespace Dmr.Purity
open Dmr

/-! ## CRC registers (`etsi/crc/crc.py`) -/

structure CrcCfg where
  width : Nat
  poly : Nat
  init : Nat
  xorOut : Nat
  revIn : Bool
  revOut : Bool
deriving DecidableEq, Repr

/-- `BitCrcConfiguration.calc_feed_width_bits` -/
def feedWidth (w : Nat) : Nat :=
  if w % 8 == 0 then 8
  else match [15, 14, 13, 12, 11, 10, 9, 8, 7, 6, 5, 4, 3, 2].find? (fun c => w % c == 0) with
    | some c => c
    | none => 1

/-- `BitCrcRegister._process_bits` for one bit: `op = reg ^ topbit if b else reg; reg <<= 1; if op >= topbit: reg ^= poly`
(`>=` on equally long bit arrays is lexicographic, i.e. "the first bit of `op` is set") -/
def stepBit (w poly reg : Nat) (b : Bool) : Nat :=
  let sh := (reg * 2) % 2 ^ w
  if (reg.testBit (w - 1)) != b then (sh ^^^ poly) % 2 ^ w else sh

def stepBits (w poly : Nat) (reg : Nat) (bs : Bits) : Nat := bs.foldl (stepBit w poly) reg

/-- `bits_create_lookup_table(width, polynomial)`: entry `i` is the register after feeding the `feed width` bits of `i`
into a zero register of the plain configuration -/
def mkTable (w poly : Nat) : List Nat :=
  (List.range (2 ^ feedWidth w)).map (fun i => stepBits w poly 0 (natToBits (feedWidth w) i))

/-- `ba2int` of a chunk; a little-endian container gives index `i` the weight `2^i` -/
def chunkToNat (little : Bool) (c : Bits) : Nat := if little then bitsToNat c.reverse else bitsToNat c

/-- `TableBasedBitCrcRegister._process_bits` -/
def stepChunkTable (w poly : Nat) (tbl : List Nat) (little : Bool) (reg : Nat) (c : Bits) : Nat :=
  let fw := feedWidth w
  if c.length == fw then
    let idx := chunkToNat little c ^^^ (reg >>> (w - fw))
    (tbl.getD idx 0 ^^^ ((reg <<< fw) % 2 ^ w)) % 2 ^ w
  else stepBits w poly reg c

/-- `bitarray.bytereverse` on a whole number of octets -/
def byteReverse (bs : Bits) : Bits := ((chunks 8 bs).map List.reverse).flatten

/-- the bits `update` feeds: a byte-reversed *private copy* when `reverse_input_bytes` -/
def fedBits (cfg : CrcCfg) (data : Bits) : Bits := if cfg.revIn then byteReverse data else data

/-- `update` from register `reg` (`tbl = none`: plain register) -/
def crcUpdate (cfg : CrcCfg) (tbl : Option (List Nat)) (little : Bool) (reg : Nat) (data : Bits) : Nat :=
  let cs := chunks (feedWidth cfg.width) (fedBits cfg data)
  match tbl with
  | some t => cs.foldl (stepChunkTable cfg.width cfg.poly t little) reg
  | none => cs.foldl (stepBits cfg.width cfg.poly) reg

/-- the register after `digest` (`reverse_output_bytes` reverses it in place) -/
def crcFinalReg (cfg : CrcCfg) (reg : Nat) : Nat :=
  if cfg.revOut then bitsToNat (natToBits cfg.width reg).reverse else reg

/-- `init(); update(data); digest()` as a function of the table alone: (register left behind, checksum) -/
def crcRun (cfg : CrcCfg) (tbl : Option (List Nat)) (little : Bool) (data : Bits) : Nat × Bits :=
  let r := crcFinalReg cfg (crcUpdate cfg tbl little (cfg.init % 2 ^ cfg.width) data)
  (r, natToBits cfg.width (r ^^^ (cfg.xorOut % 2 ^ cfg.width)))

/-- the same without `init()`: what a register that is NOT re-initialised would answer (never used by `step`) -/
def crcRunFrom (cfg : CrcCfg) (tbl : Option (List Nat)) (little : Bool) (reg : Nat) (data : Bits) : Nat × Bits :=
  let r := crcFinalReg cfg (crcUpdate cfg tbl little reg data)
  (r, natToBits cfg.width (r ^^^ (cfg.xorOut % 2 ^ cfg.width)))

/-! ## LRRP token tables (`motorola/mbxml.py`, `motorola/lrrp.py`) -/

/-- an entry of a token's attribute list: the bare attribute id of the definition, or an attribute instance put there by `get_token` -/
inductive AttrRef
  | id (n : Nat)
  | inst (n : Nat) (v : Option Nat)
deriving DecidableEq, Repr

structure TokenDef where
  tid : Nat
  name : String
  attrs : List AttrRef
deriving DecidableEq, Repr

structure AttrDef where
  aid : Nat
  name : String
  preset : Option Nat
deriving DecidableEq, Repr

/-- a name argument: `str` or `int` -/
inductive Key
  | str (s : String)
  | num (n : Nat)
deriving DecidableEq, Repr

/-- `get_attribute(name, value)`: first definition that matches the key and whose preset (if any) equals the value;
returns (attribute id, value, value differs from the preset) -/
def getAttribute (defs : List AttrDef) (k : Key) (v : Option Nat) : Option (Nat × Option Nat × Bool) :=
  match defs.find? (fun d =>
      (match k with | .str s => d.name == s | .num n => d.aid == n) &&
      !(d.preset.isSome && d.preset != v)) with
  | some d => some (d.aid, v, v.isSome && v != d.preset)
  | none => none

/-- outcome of scanning the requested attributes against one candidate definition -/
inductive Scan
  | notFound                      -- `get_attribute` raised `ModuleNotFoundError` (propagates out of `get_token`)
  | invalid                       -- an attribute is not one of the candidate's
  | ok (toSet : List (Nat × Option Nat))

def scanAttrs (adefs : List AttrDef) (cand : TokenDef) : List (Key × Option Nat) → List (Nat × Option Nat) → Scan
  | [], acc => .ok acc.reverse
  | (k, v) :: rest, acc =>
    match getAttribute adefs k v with
    | none => .notFound
    | some (aid, v', changed) =>
      if !(cand.attrs.contains (.id aid)) then .invalid
      else scanAttrs adefs cand rest (if changed then (aid, v') :: acc else acc)

/-- `t.attributes.remove(id); t.attributes.append(instance)` for every attribute to set; `none` = `ValueError` of `remove` -/
def applyAttrs : List AttrRef → List (Nat × Option Nat) → Option (List AttrRef)
  | as, [] => some as
  | as, (aid, v) :: rest =>
    if as.contains (.id aid) then applyAttrs (as.erase (.id aid) ++ [.inst aid v]) rest else none

inductive TokRes
  | token (tid : Nat) (name : String) (attrs : List AttrRef)
  | notFound        -- ModuleNotFoundError
  | valueError
deriving DecidableEq, Repr

/-- `get_token` over the flattened token sets; returns the result and, for the pre-d571898 code, the index of the definition
whose attribute list was overwritten together with its new content -/
def getTokenAux (adefs : List AttrDef) (k : Key) (attrs : List (Key × Option Nat)) :
    List TokenDef → Nat → TokRes × Option (Nat × List AttrRef)
  | [], _ => (.notFound, none)
  | d :: rest, i =>
    if (match k with | .str s => d.name == s | .num n => d.tid == n) then
      match scanAttrs adefs d attrs [] with
      | .notFound => (.notFound, none)
      | .invalid => getTokenAux adefs k attrs rest (i + 1)
      | .ok toSet =>
        match applyAttrs d.attrs toSet with
        | some as => (.token d.tid d.name as, some (i, as))
        | none => (.valueError, none)
    else getTokenAux adefs k attrs rest (i + 1)

/-! ## the state -/

structure S where
  /-- registers of `CRC8/9/16/32.CALC` -/
  sharedRegs : List Nat
  /-- calculators kept by a caller: configuration, table based, register -/
  kept : List (CrcCfg × Bool × Nat)
  /-- `lru_cache` of `bits_create_lookup_table` -/
  tableCache : List ((Nat × Nat) × List Nat)
  /-- class-level matrices of Hamming (7,4,3) (13,9,3) (15,11,3) (16,11,4) (17,12,3), Golay, QR -/
  codes : List Code
  burstBits : Bits
  csbkParams : Bits
  dhPadding : Bits
  soReserved : Bits
  rcpSettings : List (Nat × Nat)
  tokReq : List TokenDef
  tokAns : List TokenDef
  attrDefs : List AttrDef
  /-- `has_more_headers` of the first header of a TMS object the caller keeps -/
  tmsFlag : Bool
  /-- `MBXML.DEBUG` -/
  mbxmlDebug : Bool
  /-- the year the wall clock showed when the package was imported -/
  importClock : Nat

def cfgOfShared (t : Nat × Nat × Nat × Nat × Bool × Bool × Nat × Bool) : CrcCfg :=
  { width := t.1, poly := t.2.1, init := t.2.2.1, xorOut := t.2.2.2.1, revIn := t.2.2.2.2.1, revOut := t.2.2.2.2.2.1 }

def sharedCfgs : List (CrcCfg × Bool) := Gen.PurityInit.sharedCalcs.map (fun t => (cfgOfShared t, t.2.2.2.2.2.2.2))

def mkTokens (l : List (List (Nat × String × List Nat))) : List TokenDef :=
  l.flatten.map (fun t => { tid := t.1, name := t.2.1, attrs := t.2.2.map AttrRef.id })

def theCodes : List Code := [Gen.h743, Gen.h1393, Gen.h15113, Gen.h16114, Gen.h17123, Gen.golay2087, Gen.qr1676]

/-- the state right after `import` (values read from the package by the translator) -/
def init : S where
  sharedRegs := sharedCfgs.map (fun c => c.1.init % 2 ^ c.1.width)
  kept := []
  tableCache := Gen.PurityInit.tableCache
  codes := theCodes
  burstBits := Gen.PurityInit.burstDefaultBits
  csbkParams := Gen.PurityInit.csbkDefaultParams
  dhPadding := Gen.PurityInit.dataHeaderDefaultPadding
  soReserved := Gen.PurityInit.serviceOptionsDefaultReserved
  rcpSettings := Gen.PurityInit.rcpDefaultSettings
  tokReq := mkTokens Gen.PurityInit.lrrpRequestTokens
  tokAns := mkTokens Gen.PurityInit.lrrpAnswerTokens
  attrDefs := Gen.PurityInit.lrrpAttributes.flatten.map (fun t => { aid := t.1, name := t.2.1, preset := t.2.2 })
  tmsFlag := false
  mbxmlDebug := false
  importClock := 2026

/-! ## forms of a buffer argument (`utils/bits_bytes.py: bytes_to_bits`) -/

/-- the forms in which a caller may hand over what a signature calls `bytes`: `bitarray.frombytes` (inside `bytes_to_bits`)
accepts everything with the buffer protocol.  `octets`: bytes / bytearray / memoryview (given here as the bits of the octets,
most significant first); `bits little`: a `bitarray` of that bit order, whose buffer octets are read -/
inductive BufForm
  | octets
  | bits (little : Bool)
deriving DecidableEq, Repr

/-- `bytes_to_bits(payload, endian="big")`: a NEW bit array read from the buffer octets of the payload.  A bit array that does
not fill its last octet is padded (the pad bits of the buffer, zero here; the harness compares whole octets only); the buffer
of a little-endian bit array holds every octet in the opposite bit order -/
def convBig (form : BufForm) (data : Bits) : Bits :=
  let padded := data ++ List.replicate ((8 - data.length % 8) % 8) false
  match form with
  | .octets => padded
  | .bits false => padded
  | .bits true => byteReverse padded

/-- the bit array `CRC9.calculate_from_parts` computes over: converted data, then the CRC-32 octets, then the 7-bit serial number
(`source_data += …` twice: IN PLACE on whatever `bytes_to_bits` handed back) -/
def crc9Source (form : BufForm) (data : Bits) (sn : Nat) (crc32 : Option Bytes) : Bits :=
  convBig form data ++ (match crc32 with | some b => bytesToBits b | none => []) ++ natToBits 7 sn

/-! ## dates (`hytera/pdu/location_protocol.py: GPSData`) -/

def isLeap (y : Nat) : Bool := y % 4 == 0 && (y % 100 != 0 || y % 400 == 0)

def daysIn (y m : Nat) : Nat :=
  if m == 2 then (if isLeap y then 29 else 28) else if m == 4 || m == 6 || m == 9 || m == 11 then 30 else 31

/-! ## calls and results -/

inductive Call
  /-- `CRC8/9/16/32.CALC.calculate_checksum(data)` (`k` = 0..3) -/
  | crcShared (k : Nat) (data : Bits) (little : Bool)
  /-- `BitCrcCalculator(cfg, table_based).calculate_checksum(data)` on a new calculator -/
  | crcNew (cfg : CrcCfg) (table : Bool) (data : Bits) (little : Bool)
  /-- the same on a calculator the caller keeps between calls -/
  | crcKept (cfg : CrcCfg) (table : Bool) (data : Bits) (little : Bool)
  | hamGenerate (code : Nat) (m : Bits)
  | hamCheck (code : Nat) (w : Bits)
  /-- `check_and_correct`: repairs its argument in place and returns it -/
  | hamCac (code : Nat) (w : Bits)
  /-- `FiveBitChecksum.calculate` -/
  | fiveBit (data : Bytes)
  /-- `byteswap_bytearray(bytearray)` -/
  | byteswap (data : Bytes)
  /-- `Burst().full_bits` -/
  | burstDefault
  /-- `CSBK(...).broadcast_params[:14]`, `[14:38]` with the default argument -/
  | csbkDefault
  /-- `DataHeader(...).bit_padding` with the default argument -/
  | dhDefault
  /-- `ServiceOptions().reserved` -/
  | soDefault
  /-- `RadioControlProtocol(StatusChangeNotificationRequest).get_payload()` with the default settings -/
  | rcpDefault
  /-- `LRRP.get_token(name, value, attributes, is_request)` -/
  | getToken (req : Bool) (name : Key) (attrs : List (Key × Option Nat))
  /-- `TextMessagingService.as_bytes()` on a kept object: (more headers follow, acknowledged, reserved, control, type bits, rest) -/
  | tmsAsBytes (more ack res ctl : Bool) (ty : Nat) (body : Bytes)
  /-- `CRC9.calculate_from_parts(data, serial_number, mask, crc32)` with `data` handed over in one of the accepted forms
  (`mask`: the value of the CRC mask; `crc32`: `None` or octets) -/
  | crc9Parts (form : BufForm) (data : Bits) (sn mask : Nat) (crc32 : Option Bytes)
  /-- the date of `GPSData.from_bytes`: six ASCII digits day, month, two-digit year -/
  | gpsDate (dd mm yy : Nat)
  /-- `<Enum of the etsi layer2 / layer3 element packages>.<member i>.as_bits()` (`cls` = `<module>.<Class>`, members in
  definition order): a new bit array on every call, built from the member's value -/
  | elementBits (cls : String) (i : Nat)
deriving DecidableEq

inductive Out
  | bits (b : Bits)
  | bytes (b : Bytes)
  | flagBits (ok : Bool) (b : Bits)
  | flag (b : Bool)
  | nat (n : Nat)
  | pairBits (a b : Bits)
  | tok (t : TokRes)
  | err (e : String)
deriving DecidableEq, Repr

/-- `byteswap_bytearray`: swap neighbouring octets, an odd last octet stays -/
def byteswap : Bytes → Bytes
  | a :: b :: rest => b :: a :: byteswap rest
  | l => l

/-- `FiveBitChecksum.calculate` (left padded to nine octets, longer input is an assertion error) -/
def fiveBit (data : Bytes) : Out :=
  if data.length > 9 then .err "AssertionError" else .nat ((data.foldl (· + ·) 0 % 65536) % 31)

/-- cache lookup of `bits_create_lookup_table`: (table, cache afterwards) -/
def cachedTable (cache : List ((Nat × Nat) × List Nat)) (w poly : Nat) : List Nat × List ((Nat × Nat) × List Nat) :=
  match cache.find? (fun e => e.1 == (w, poly)) with
  | some e => (e.2, cache)
  | none => (mkTable w poly, ((w, poly), mkTable w poly) :: cache)

def rcpPayload (settings : List (Nat × Nat)) : Bytes :=
  (settings.length % 256) :: settings.flatMap (fun p => [p.1, p.2])

/-- first-header octet of `FirstHeader.as_bytes` -/
def tmsHeaderByte (more ack res ctl : Bool) (ty : Nat) : Nat :=
  bitsToNat ([more, ack, res || (!ctl && ty == 0), ctl] ++ natToBits 4 ty)

def tmsBytes (more ack res ctl : Bool) (ty : Nat) (body : Bytes) : Bytes :=
  let n := body.length + 1
  [n / 256 % 256, n % 256, tmsHeaderByte more ack res ctl ty] ++ body

/-- `datetime.date(year, month, day)`: `ValueError` unless the day exists -/
def mkDate (y m d : Nat) : Out :=
  if 1 ≤ y && y ≤ 9999 && 1 ≤ m && m ≤ 12 && 1 ≤ d && d ≤ daysIn y m then .nat (y * 10000 + m * 100 + d) else .err "ValueError"

/-- `ba2int(~checksum) ^ mask.value` of `CRC9.calculate` -/
def crc9Value (mask : Nat) : Out → Out
  | .bits b => .nat (bitsToNat (b.map not) ^^^ mask)
  | o => o

/-- the checks of `calculate_from_parts` in the order the code makes them: `assert len(crc32) == 4`, then `int2ba(serial_number, length=7)` -/
def crc9Guard (sn : Nat) (crc32 : Option Bytes) : Option Out :=
  if (match crc32 with | some b => b.length != 4 | none => false) then some (.err "AssertionError")
  else if sn ≥ 128 then some (.err "OverflowError")
  else none

def codeOp (codes : List Code) (i : Nat) (len : Code → Nat) (x : Bits) (f : Code → Out) : Out :=
  match codes[i]? with
  | none => .err "no-such-code"
  | some C => if x.length != len C then .err "AssertionError" else f C

/-- `CRC8/9/16/32.CALC.calculate_checksum` -/
def stepCrcShared (s : S) (k : Nat) (data : Bits) (little : Bool) : S × Out × Call :=
  match sharedCfgs[k]? with
  | none => (s, .err "no-such-calculator", .crcShared k data little)
  | some (cfg, table) =>
    -- the register holds a reference to the cached table object
    let tbl := if table then (s.tableCache.find? (fun e => e.1 == (cfg.width, cfg.poly))).map (·.2) else none
    if table && tbl.isNone then (s, .err "table-missing", .crcShared k data little) else
    let r := crcRun cfg tbl little data        -- init() first: the old register is not read
    ({ s with sharedRegs := s.sharedRegs.set k r.1 }, .bits r.2, .crcShared k data little)

/-- `BitCrcCalculator(cfg, table_based).calculate_checksum` on a new calculator -/
def stepCrcNew (s : S) (cfg : CrcCfg) (table : Bool) (data : Bits) (little : Bool) : S × Out × Call :=
  if table then
    ({ s with tableCache := (cachedTable s.tableCache cfg.width cfg.poly).2 },
      .bits (crcRun cfg (some (cachedTable s.tableCache cfg.width cfg.poly).1) little data).2, .crcNew cfg table data little)
  else (s, .bits (crcRun cfg none little data).2, .crcNew cfg table data little)

/-- the same on a calculator the caller keeps: created on first use (the table register looks the table up in the
cache), afterwards only its register changes -/
def stepCrcKept (s : S) (cfg : CrcCfg) (table : Bool) (data : Bits) (little : Bool) : S × Out × Call :=
  let known := s.kept.any (fun e => e.1 == cfg && e.2.1 == table)
  let t := if table then some (cachedTable s.tableCache cfg.width cfg.poly).1 else none
  let cache := if table && !known then (cachedTable s.tableCache cfg.width cfg.poly).2 else s.tableCache
  let r := crcRun cfg t little data
  let kept := if known then s.kept.map (fun e => if e.1 == cfg && e.2.1 == table then (cfg, table, r.1) else e)
              else (cfg, table, r.1) :: s.kept
  ({ s with tableCache := cache, kept := kept }, .bits r.2, .crcKept cfg table data little)

/-- `check_and_correct`: the argument buffer IS the returned buffer -/
def stepHamCac (s : S) (i : Nat) (w : Bits) : S × Out × Call :=
  if i ≥ 5 then (s, .err "no-such-code", .hamCac i w) else
  match codeOp s.codes i (·.n) w (fun C => .flagBits (C.checkAndCorrect w).1 (C.checkAndCorrect w).2) with
  | .flagBits ok b => (s, .flagBits ok b, .hamCac i b)
  | o => (s, o, .hamCac i w)

/-- `CRC9.calculate_from_parts`: the conversion builds a new bit array whatever the form of `data`, the appends go there, the
shared CRC-9 calculator (index 1) does the rest; the caller's `data` is left as it was -/
def stepCrc9Parts (s : S) (form : BufForm) (data : Bits) (sn mask : Nat) (crc32 : Option Bytes) : S × Out × Call :=
  match crc9Guard sn crc32 with
  | some e => (s, e, .crc9Parts form data sn mask crc32)
  | none =>
    ((stepCrcShared s 1 (crc9Source form data sn crc32) false).1,
      crc9Value mask (stepCrcShared s 1 (crc9Source form data sn crc32) false).2.1, .crc9Parts form data sn mask crc32)

/-- what member `i` of element class `cls` serialises to (`Gen.PurityInit.elementBits`, read from the imported package every
run): its bits, or the exception `as_bits` raises for it (`SyncPatterns.EmbeddedSignalling = -1`) -/
def elementOut (cls : String) (i : Nat) : Out :=
  match Gen.PurityInit.elementBits.find? (fun e => e.1 == cls) with
  | none => .err "no-such-element"
  | some e =>
    match e.2[i]? with
    | none => .err "no-such-member"
    | some (err, b) => if err == "" then .bits b else .err err

/-- one call on the state, mirroring what the Python reads and writes -/
def step (s : S) : Call → S × Out × Call
  | .crcShared k data little => stepCrcShared s k data little
  | .crcNew cfg table data little => stepCrcNew s cfg table data little
  | .crcKept cfg table data little => stepCrcKept s cfg table data little
  | .hamGenerate i m => (s, codeOp s.codes i (·.k) m (fun C => .bits (C.gen m)), .hamGenerate i m)
  | .hamCheck i w => (s, codeOp s.codes i (·.n) w (fun C => .flag (C.check w)), .hamCheck i w)
  | .hamCac i w => stepHamCac s i w
  | .fiveBit data => (s, fiveBit data, .fiveBit data)
  | .byteswap data => (s, .bytes (byteswap data), .byteswap data)     -- works on a private copy (2d27283)
  | .burstDefault => (s, .bits s.burstBits, .burstDefault)
  | .csbkDefault => (s, .pairBits (s.csbkParams.take 14) ((s.csbkParams.drop 14).take 24), .csbkDefault)
  | .dhDefault => (s, .bits s.dhPadding, .dhDefault)
  | .soDefault => (s, .bits (s.soReserved.take 2), .soDefault)
  | .rcpDefault => (s, .bytes (rcpPayload s.rcpSettings), .rcpDefault)
  | .getToken req name attrs =>
    -- the token is a copy whose attribute list is copied as well (d571898): the tables are only read
    (s, .tok (getTokenAux s.attrDefs name attrs (if req then s.tokReq else s.tokAns) 0).1, .getToken req name attrs)
  | .tmsAsBytes more ack res ctl ty body =>
    -- `self.header.set_has_more_headers(more)` overwrites the flag with a value computed from the other fields
    ({ s with tmsFlag := more }, .bytes (tmsBytes more ack res ctl ty body), .tmsAsBytes more ack res ctl ty body)
  | .crc9Parts form data sn mask crc32 => stepCrc9Parts s form data sn mask crc32
  -- `year=2000 + int(greenwich_date[4:6])`: a constant century, `s.importClock` is not read
  | .gpsDate dd mm yy => (s, mkDate (2000 + yy) mm dd, .gpsDate dd mm yy)
  -- `int2ba(self.value, length=…)`: nothing of `s` is read, nothing is kept; the caller owns what it gets
  | .elementBits cls i => (s, elementOut cls i, .elementBits cls i)

/-! ## the history-free functions: no `S` anywhere -/

def initTokens (req : Bool) : List TokenDef := if req then init.tokReq else init.tokAns

def pureCrc (cfg : CrcCfg) (table : Bool) (data : Bits) (little : Bool) : Out :=
  .bits (crcRun cfg (if table then some (mkTable cfg.width cfg.poly) else none) little data).2

def pureCrcShared (k : Nat) (data : Bits) (little : Bool) : Out :=
  match sharedCfgs[k]? with
  | none => .err "no-such-calculator"
  | some (cfg, table) => pureCrc cfg table data little

def pureHamCac (i : Nat) (w : Bits) : Out :=
  if i ≥ 5 then .err "no-such-code"
  else codeOp theCodes i (·.n) w (fun C => .flagBits (C.checkAndCorrect w).1 (C.checkAndCorrect w).2)

def pureCrc9Parts (form : BufForm) (data : Bits) (sn mask : Nat) (crc32 : Option Bytes) : Out :=
  match crc9Guard sn crc32 with
  | some e => e
  | none => crc9Value mask (pureCrcShared 1 (crc9Source form data sn crc32) false)

def pureOut : Call → Out
  | .crcShared k data little => pureCrcShared k data little
  | .crcNew cfg table data little => pureCrc cfg table data little
  | .crcKept cfg table data little => pureCrc cfg table data little
  | .hamGenerate i m => codeOp theCodes i (·.k) m (fun C => .bits (C.gen m))
  | .hamCheck i w => codeOp theCodes i (·.n) w (fun C => .flag (C.check w))
  | .hamCac i w => pureHamCac i w
  | .fiveBit data => fiveBit data
  | .byteswap data => .bytes (byteswap data)
  | .burstDefault => .bits Gen.PurityInit.burstDefaultBits
  | .csbkDefault => .pairBits (Gen.PurityInit.csbkDefaultParams.take 14) ((Gen.PurityInit.csbkDefaultParams.drop 14).take 24)
  | .dhDefault => .bits Gen.PurityInit.dataHeaderDefaultPadding
  | .soDefault => .bits (Gen.PurityInit.serviceOptionsDefaultReserved.take 2)
  | .rcpDefault => .bytes (rcpPayload Gen.PurityInit.rcpDefaultSettings)
  | .getToken req name attrs => .tok (getTokenAux init.attrDefs name attrs (initTokens req) 0).1
  | .tmsAsBytes more ack res ctl ty body => .bytes (tmsBytes more ack res ctl ty body)
  | .crc9Parts form data sn mask crc32 => pureCrc9Parts form data sn mask crc32
  | .gpsDate dd mm yy => mkDate (2000 + yy) mm dd
  | .elementBits cls i => elementOut cls i

/-- the buffer `check_and_correct` leaves in its argument -/
def cacBuffer (i : Nat) (w : Bits) : Bits :=
  match pureHamCac i w with
  | .flagBits _ b => b
  | _ => w

/-- what the Python leaves in the argument buffers: only `check_and_correct` writes (its repaired word) -/
def argsAfter : Call → Call
  | .hamCac i w => .hamCac i (cacBuffer i w)
  | c => c

/-- run a history, collecting the results -/
def run : S → List Call → S × List Out
  | s, [] => (s, [])
  | s, c :: cs =>
    let r := step s c
    let rest := run r.1 cs
    (rest.1, r.2.1 :: rest.2)

/-- executable form of the invariant `Inv` of Lemmas/Purity.lean (`inv_of_invB`: it implies `Inv`); the driver's `inv` line -/
def invB (s : S) : Bool :=
  s.tableCache.all (fun e => e.2 == mkTable e.1.1 e.1.2)
  && sharedCfgs.all (fun c => !c.2 || s.tableCache.any (fun e => e.1 == (c.1.width, c.1.poly)))
  && s.codes.length == theCodes.length
  && (List.range theCodes.length).all (fun i =>
        match s.codes[i]?, theCodes[i]? with
        | some a, some b => a.n == b.n && a.k == b.k && a.G == b.G && a.H == b.H && a.S == b.S
        | _, _ => false)
  && s.burstBits == init.burstBits && s.csbkParams == init.csbkParams && s.dhPadding == init.dhPadding
  && s.soReserved == init.soReserved && s.rcpSettings == init.rcpSettings
  && s.tokReq == init.tokReq && s.tokAns == init.tokAns && s.attrDefs == init.attrDefs

/-! ## a "same as last time" shortcut in front of the entry points (NOT in the code; for the theorems about memo keys)

A calculator / codec that remembers its last call and hands out the remembered result when the next call "is the
same" adds hidden state: the remembered pair.  What "the same" means is the *key* the shortcut compares
(`data != self._last_data` compares what `bitarray.__eq__` sees).  Props/C19 proves: such a shortcut is invisible in
every history iff the key determines the result, and that the natural keys of a `bitarray` argument (`==` / `to01()`,
`tobytes()`, `ba2int()`) do not. -/

/-- one call on (hidden state, remembered key and result) -/
def memoStep {κ : Type} [DecidableEq κ] (key : Call → κ) (sm : S × Option (κ × Out)) (c : Call) : (S × Option (κ × Out)) × Out :=
  match sm.2 with
  | some (k, o) =>
    if key c = k then (sm, o)                                             -- "same as last time": the register is not touched
    else ((( step sm.1 c).1, some (key c, (step sm.1 c).2.1)), (step sm.1 c).2.1)
  | none => (((step sm.1 c).1, some (key c, (step sm.1 c).2.1)), (step sm.1 c).2.1)

def memoRun {κ : Type} [DecidableEq κ] (key : Call → κ) : S × Option (κ × Out) → List Call → List Out
  | _, [] => []
  | sm, c :: cs => (memoStep key sm c).2 :: memoRun key (memoStep key sm c).1 cs

/-- apply `f` to the bit buffer (and bit order) of a CRC call -/
def mapCrcData (f : Bits → Bool → Bits × Bool) : Call → Call
  | .crcShared k d l => .crcShared k (f d l).1 (f d l).2
  | .crcNew cfg t d l => .crcNew cfg t (f d l).1 (f d l).2
  | .crcKept cfg t d l => .crcKept cfg t (f d l).1 (f d l).2
  | c => c

/-- what `bitarray.__eq__`, `to01()`, `tolist()` and iteration see of the argument: the 0/1 values, not the bit order -/
def keyBitValues : Call → Call := mapCrcData (fun d _ => (d, false))

/-- what `tobytes()` sees: the buffer octets (pad bits are zero); how many bits of the last octet are used is lost -/
def keyOctets : Call → Call := mapCrcData (fun d l => (d ++ List.replicate ((8 - d.length % 8) % 8) false, l))

/-- what `ba2int()` sees: the number; the length is lost (leading zeros of a big-endian, trailing of a little-endian array) -/
def keyInt : Call → Call :=
  mapCrcData (fun d l => (if l then (d.reverse.dropWhile (· == false)).reverse else d.dropWhile (· == false), l))

/-! ## the code before the repairs (for the counter-examples) -/

/-- as `step`, but `get_token` writes the new attribute list back into the shared definition (before d571898),
`update` byte-reverses the caller's buffer (before a980052) and `byteswap_bytearray` swaps an even-length argument in place
(before 2d27283) -/
def stepBuggy (s : S) : Call → S × Out × Call
  | .getToken req name attrs =>
    let toks := if req then s.tokReq else s.tokAns
    let r := getTokenAux s.attrDefs name attrs toks 0
    let toks' := match r.2 with
      | some (i, as) => toks.modify i (fun d => { d with attrs := as })
      | none => toks
    ((if req then { s with tokReq := toks' } else { s with tokAns := toks' }), .tok r.1, .getToken req name attrs)
  | .crcNew cfg table data little =>
    let r := step s (.crcNew cfg table data little)
    (r.1, r.2.1, .crcNew cfg table (fedBits cfg data) little)
  | .byteswap data =>
    (s, .bytes (byteswap data), .byteswap (if data.length % 2 == 0 then byteswap data else data))
  | c => step s c

/-! ## two hazards that are NOT in the code (for the counter-examples of Props/C19) -/

/-- as `step`, but
* `bytes_to_bits` hands back its payload AS IT IS when that already is a bit array of the requested bit order on whole octets
  ("nothing to unpack") - the `source_data += …` of `calculate_from_parts` then grow the caller's buffer (also when `int2ba`
  raises afterwards: the CRC-32 octets are appended before);
* the two-digit GPS year is completed with the century of the clock at import (`CENTURY = date.today().year // 100 * 100`) -/
def stepUnsafe (s : S) : Call → S × Out × Call
  | .crc9Parts form data sn mask crc32 =>
    let r := step s (.crc9Parts form data sn mask crc32)
    if form == .bits false && data.length % 8 == 0 then
      let grown :=
        if (match crc32 with | some b => b.length != 4 | none => false) then data
        else if sn ≥ 128 then data ++ (match crc32 with | some b => bytesToBits b | none => [])
        else crc9Source form data sn crc32
      (r.1, r.2.1, .crc9Parts form grown sn mask crc32)
    else r
  | .gpsDate dd mm yy => (s, mkDate (s.importClock / 100 * 100 + yy) mm dd, .gpsDate dd mm yy)
  | c => step s c

/-- a third hazard that is NOT in the code: the members of an element Enum (process-wide singletons) keep the bit array they
hand out - built once, when the class is created - and `as_bits` returns that stored object.  `store cls i` is what member `i`
holds NOW: whatever a caller wrote into a buffer it was handed earlier. -/
def stepStored (store : String → Nat → Option Bits) (s : S) : Call → S × Out × Call
  | .elementBits cls i =>
    (s, (match store cls i with | some b => .bits b | none => elementOut cls i), .elementBits cls i)
  | c => step s c

end Dmr.Purity
