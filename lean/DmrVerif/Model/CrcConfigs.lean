import DmrVerif.Model.CrcStream

/-!
Register objects and calculators of `okdmr/dmrlib/etsi/crc/crc.py` under **any** configuration and
under **every public call**, not only the five ETSI configurations through the documented workflow:

* every field of `BitCrcConfiguration` may be set: explicit `feed_width_bits` (a value below 1 is
  replaced by the derived one in `__post_init__`), `init_value`, `final_xor_value`,
  `reverse_output_bytes`, and `reverse_input_bytes` for buffers of whole octets;
* the calls: `init()`, `update(bits)`, `digest()`, `reverse()`, reading and assigning the `register`
  property, and `BitCrcCalculator.calculate_checksum` / `verify_checksum` on the calculator that owns
  the register.

The model is a pure function of the configuration, the register kind and the call sequence on that one
object: the lookup table of a table register is `lookupTable width polynomial` whatever other
register objects of the process did before (in the library the table is a process-wide
`functools.lru_cache` entry keyed by `(width_bits, polynomial)`; that the entry is never written to is
what the correspondence run re-checks after every history, see `harness/props/c05.py`).

Not modelled: `reverse_input_bytes` on a buffer with a partial last octet (`bitarray.bytereverse`
moves the pad bits of the buffer into the message); the driver refuses such a line.
-/

namespace Dmr
namespace Crc

/-- `BitCrcConfiguration.__post_init__`: a feed width below 1 is replaced by the derived one -/
def effFeedWidth (fw w : Nat) : Nat := if fw < 1 then calcFeedWidth w else fw

/-- `bits.copy().bytereverse()` on a buffer of whole octets: the bits of every octet in reverse order
(the same in index order for a big-endian and a little-endian container) -/
def byteReverse (bits : Bits) : Bits :=
  if _h : bits.length < 8 then bits
  else (bits.take 8).reverse ++ byteReverse (bits.drop 8)
termination_by bits.length
decreasing_by
  simp only [List.length_drop]
  omega

/-- one public call on a register object / on the calculator that owns it -/
inductive CfgAct where
  | init
  | update (le : Bool) (bits : Bits)
  | digest
  | reverse                                   -- `register.reverse()`
  | get                                       -- reading `register.register`
  | set (v : Bits)                            -- `register.register = v`
  | sum (le : Bool) (bits : Bits)             -- `calculator.calculate_checksum(bits)`
  | verify (le : Bool) (bits : Bits) (e : Int) -- `calculator.verify_checksum(bits, e)`
deriving DecidableEq, Repr

/-- `register.update(bits)`: with `reverse_input_bytes` a byte-reversed private copy is fed -/
def cfgUpdate (k : RegKind) (le : Bool) (r bits : Bits) : Except CrcErr Bits :=
  regUpdate k le r (if k.c.revIn then byteReverse bits else bits)

/-- one call: new register content and the value the call returns, if any (`verify_checksum` returns a
Boolean, shown as a one-bit string) -/
def cfgStep (k : RegKind) (r : Bits) : CfgAct → Except CrcErr (Bits × Option Bits)
  | .init => .ok (initReg k.c, none)
  | .update le bits => (cfgUpdate k le r bits).map (fun r' => (r', some r'))
  | .digest => .ok (digestState k.c r, some (digest k.c r))
  | .reverse => .ok (r.reverse, some r.reverse)
  | .get => .ok (r, some r)
  | .set v =>
    -- `value & self._bitmask`: bitarray refuses operands of different lengths
    if v.length = k.c.w then .ok (v, none) else .error .valueError
  | .sum le bits =>
    (cfgUpdate k le (initReg k.c) bits).map (fun r' => (digestState k.c r', some (digest k.c r')))
  | .verify le bits e =>
    (cfgUpdate k le (initReg k.c) bits).map
      (fun r' => (digestState k.c r', some [decide ((bitsToNat (digest k.c r') : Int) = e)]))

/-- a sequence of calls on one object whose register holds `r`: the values returned, in order, and the
register content at the end or the exception that ended the sequence -/
def cfgRun (k : RegKind) (r : Bits) : List CfgAct → List Bits × Except CrcErr Bits
  | [] => ([], .ok r)
  | a :: rest =>
    match cfgStep k r a with
    | .error e => ([], .error e)
    | .ok (r', out) =>
      let res := cfgRun k r' rest
      (out.toList ++ res.1, res.2)

/-- the calls of `Model/CrcStream.lean` among these -/
def RegAct.toCfg : RegAct → CfgAct
  | .init => .init
  | .update le bits => .update le bits
  | .digest => .digest

end Crc
end Dmr
