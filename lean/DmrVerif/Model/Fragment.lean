import DmrVerif.Model.Tracker

/-!
# Transmission generator (C07)

Hand-written executable model of `okdmr/dmrlib/transmission/transmission_generator.py`
(`generate_data_bursts`, `generate_csbk_preambles`, `generate_data_header_burst`,
`generate_full_data_transmission`) as it is after fix 6db02eb (CRC-32 handed to the last block only), and
of what the `Rate*Data` constructors / `as_bits` do with the arguments the generator passes.

The burst- and PDU-level bit codecs (BPTC, trellis, slot type, CSBK / data header layouts) are other
properties (C01, C02, C03, C10); a generated burst is described here by the same abstraction `AbsBurst`
the tracker reads from a parsed burst, i.e. `parse (serialise b) = b` per burst is the interface to C01.
The two CRCs are abstract functions (`Crc`), C05 is about them.
Core Lean only (compiled into `drv_c07`).
-/

namespace Dmr.Fragment
open Dmr Dmr.Tracker

/-- ETSI TS 102 361-1 Table 8.1 as written in `generate_data_bursts`: octets per block, per last block -/
def octets (r : Rate) (confirmed : Bool) : Nat × Nat :=
  match r, confirmed with
  | .r1, true => (22, 18)
  | .r1, false => (24, 20)
  | .r12, true => (10, 6)
  | .r12, false => (12, 8)
  | .r34, true => (16, 12)
  | .r34, false => (18, 14)

/-- `ceil(1 + (len - last) / per)` with Python's true division; integer form (exact for len < 2^50, see
the trusted base of C07: |(len-last)/per| < 2^47 is rounded with absolute error < 2^-6, the sum with 1
likewise, and a non-integer quotient is at least 1/24 away from every integer) -/
def numBlocks (per last len : Nat) : Nat :=
  if len ≤ last then 1 else 1 + (len - last + per - 1) / per

/-- `data_octets = (num_bursts - 1) * per + last` -/
def dataOctetsTotal (per last len : Nat) : Nat := (numBlocks per last len - 1) * per + last

/-- `pad_octet_count = data_octets - len(userdata)` -/
def padCount (per last len : Nat) : Nat := dataOctetsTotal per last len - len

/-- `userdata + b"\x00" * pad_octet_count` -/
def padded (per last : Nat) (payload : Bytes) : Bytes :=
  payload ++ List.replicate (padCount per last payload.length) 0

/-- `userdata[i * per : i * per + per]` -/
def slice (data : Bytes) (per i : Nat) : Bytes := (data.drop (i * per)).take per

/-- the two checksums, abstract.  `crc32 d` = the value of the block's `crc32` attribute for user data `d`
(`int.from_bytes(CRC32.calculate(d).to_bytes(4, "little"), "big")`), `crc9 r d dbsn c` =
`CRC9.calculate_from_parts(d, dbsn, mask of rate r, crc32 = c)` -/
structure Crc where
  crc32 : Bytes → Nat
  crc9 : Rate → Bytes → Nat → Nat → Nat

/-- a `Rate12Data` / `Rate34Data` / `Rate1Data` object as the generator constructs it -/
structure GenBlock where
  rate : Rate
  /-- `packet_type`: derived by the constructor from the number of data octets -/
  ptype : PType
  data : Bytes
  dbsn : Nat
  crc9 : Nat
  crc32 : Nat
  deriving DecidableEq, Repr

/-- `packet_type(packet_type = block_type, data = slice, crc32 = …)`: the constructor asserts that the
slice has the number of octets of the announced type, keeps `dbsn = 0` (never passed) and, because the
`crc9` argument is 0, stores the CRC-9 it calculates over (data, dbsn, crc32 argument).
(An empty slice would pass the assert and make an `Undefined`-typed block; the generator never cuts one —
`slice_length_inner` / `slice_length_last` — and the model answers `ValueError` there instead.) -/
def mkBlock (C : Crc) (r : Rate) (t : PType) (data : Bytes) (crc32 : Nat) : Except Err GenBlock :=
  if data.length != 0 && data.length != dataOctets r t then .error .assertion else
  -- `Rate*DataTypes(len(data))` raises ValueError for a length that is no member
  if data.length != dataOctets r t then .error .value else
  .ok { rate := r, ptype := t, data := data, dbsn := 0, crc9 := C.crc9 r data 0 crc32, crc32 := crc32 }

/-- `block.as_bits()` -/
def GenBlock.asBits (b : GenBlock) : Bits :=
  (if b.ptype.isConfirmed then natToBits 7 b.dbsn ++ (natToBits 9 b.crc9).reverse else [])
    ++ bytesToBits b.data
    ++ (if b.ptype.isLast then natToBits 32 b.crc32 else [])

/-- the loop of `generate_data_bursts` over the block indices -/
def mkBlocks (C : Crc) (r : Rate) (confirmed : Bool) (n per : Nat) (data : Bytes) (crc : Nat) :
    List Nat → Except Err (List GenBlock)
  | [] => .ok []
  | i :: rest =>
    -- `crc32 = userdata_crc32 if i == num_bursts - 1 else 0` (6db02eb)
    match mkBlock C r (resolve confirmed (i == n - 1)) (slice data per i) (if i == n - 1 then crc else 0) with
    | .error e => .error e
    | .ok b =>
      match mkBlocks C r confirmed n per data crc rest with
      | .error e => .error e
      | .ok bs => .ok (b :: bs)

/-- `generate_data_bursts`: the blocks in order and the pad octet count -/
def genBlocks (C : Crc) (r : Rate) (confirmed : Bool) (payload : Bytes) :
    Except Err (List GenBlock × Nat) :=
  let per := (octets r confirmed).1
  let last := (octets r confirmed).2
  let n := numBlocks per last payload.length
  let data := padded per last payload
  match mkBlocks C r confirmed n per data (C.crc32 data) (List.range n) with
  | .error e => .error e
  | .ok bs => .ok (bs, padCount per last payload.length)

/-- blocks-to-follow of `generate_csbk_preambles(num_of_preambles = k, num_of_following_data_blocks = n)`:
`for i in reversed(range(n, n + k))` -/
def preambleBtfs (k n : Nat) : List Nat := ((List.range k).map (· + n)).reverse

/-- the caller's `DataHeader`: what the tracker reads of it plus its pad octet count -/
structure GenHeader where
  hdr : DataHdr
  poc : Nat
  deriving DecidableEq, Repr

/-- what is opaque to this property about a preamble CSBK: its 96 information bits as octets -/
abbrev CsbkRaw := Nat → Bytes

/-- `generate_full_data_transmission(packet_type, userdata, data_header, csbk_count = k, colour_code = cc)`:
preambles, header burst (slot type colour code 5, hard-coded in `generate_data_header_burst`), data bursts -/
def generate (C : Crc) (raw : CsbkRaw) (r : Rate) (payload : Bytes) (gh : GenHeader) (k cc : Nat) :
    Except Err (List AbsBurst) :=
  match genBlocks C r gh.hdr.a payload with
  | .error e => .error e
  | .ok (blocks, pad) =>
    -- `assert data_header.pad_octet_count == pad_octet_count`
    if gh.poc != pad then .error .assertion else
    let pre := (preambleBtfs k (blocks.length + 1)).map fun btf => (⟨.csbk true btf (raw btf), some cc⟩ : AbsBurst)
    let hb : AbsBurst := ⟨.dataHeader gh.hdr, some 5⟩
    let db := blocks.map fun b => (⟨.rate r b.asBits, some cc⟩ : AbsBurst)
    .ok (pre ++ [hb] ++ db)

/-! ## the receiver's checks on a typed block -/

/-- `block.crc9_ok`: a received CRC-9 field of 0 is replaced by the calculated value -/
def crc9Ok (C : Crc) (r : Rate) (t : PType) (bits : Bits) : Bool :=
  let calculated := C.crc9 r (blockData r t bits) (blockDbsn t bits) (blockCrc32 r t bits)
  let rx := blockCrc9 t bits
  (if rx == 0 then calculated else rx) == calculated

def Block.crc9Ok (C : Crc) : Block → Bool
  | .rate r t bits => Fragment.crc9Ok C r t bits
  | _ => true

def Block.isRate : Block → Bool
  | .rate _ _ _ => true
  | _ => false

end Dmr.Fragment
