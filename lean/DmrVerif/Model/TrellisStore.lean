import DmrVerif.Model.Trellis

/-!
The twelve entry points of `Trellis34` seen by a caller who **keeps** what he passes in and what he
gets back (C10 hardening).  `Model/Trellis.lean` gives every function as a map from values to values;
that abstracts away *which Python object* carries a value.  Here every argument and every result is
an object in a `Store` (the objects the caller holds, oldest first, handle = index):

* `HOp.new o`     — the caller builds an argument object,
* `HOp.call f r`  — `Trellis34.f(held[r])`: the code as it exists allocates its result inside the call
  (`bitarray()`, `bitarray(144 * [0])`, `array("b", …)`, `array("B", …)`, `tobytes()`) and writes to
  nothing else, so the step appends one new object and leaves every other object — the argument
  included — as it is; a raised exception is kept as `Obj.raised` so that handles stay aligned,
* `HOp.edit r m`  — the caller edits object `r` in place (`x[i] ^= 1`, `x[i] = v`, `extend`,
  `del x[lo:hi]`, `x.clear()`, `x[:] = …`, `x.reverse()`).

The value of a call depends on the *content* of the argument object at the time of the call and on
nothing else: no history, no identity.  The correspondence run executes the same histories on the
real code, keeps every object and reads all of them back (`hs.read`).

An argument object is described by what the code reads from it: a bitarray by its logical bits and
its endianness (`ba2int` on a slice honours it), any other 0/1 sequence (`list`, `tuple`, `bytes` /
`bytearray` of 0/1 octets — accepted by `decode` and `bits_to_dibits`, which only subscript) by its
items (`little = false`), an `array` / `list` / `tuple` of numbers by its items.

Core Lean only (compiled into the native driver).
-/

namespace Dmr.Trellis

/-- a Python object held by the caller -/
inductive Obj where
  /-- bitarray (or another 0/1 sequence) with the endianness `ba2int` would see -/
  | bits (little : Bool) (v : Bits)
  /-- signed numbers: dibits (`array("b")`, any wider signed typecode, `list`, `tuple`) -/
  | ints (v : List Int)
  /-- unsigned numbers: constellation points / tribits (`array("B")`, …) -/
  | nats (v : List Nat)
  /-- `bytes` -/
  | octets (v : Bytes)
  /-- the call raised: no object was handed out -/
  | raised (e : Err)
  /-- a (function, argument kind) combination the model does not cover; the harness never produces one -/
  | void
  deriving DecidableEq

/-- the two entry points (`decode` once per value of `as_bytes`) and the ten stage functions -/
inductive Fn where
  | encode | decode | decodeBytes
  | bitsToDibits | dibitsToBits | deinterleave | interleave | dibitsToPoints | pointsToDibits
  | pointsToTribits | tribitsToPoints | tribitsToBits | bitsToTribits
  deriving DecidableEq

def Obj.ofR {α : Type} (f : α → Obj) : R α → Obj
  | .ok v => f v
  | .error e => .raised e

/-- every bitarray the code returns is created with bitarray's default / an explicit `endian="big"` -/
def Obj.big (v : Bits) : Obj := .bits false v

/-- the value a call hands out, as a function of the *content* of its argument alone -/
def Fn.apply : Fn → Obj → Obj
  | .encode, .bits le b => Obj.ofR Obj.big (Trellis.encodeEndian le b)
  | .encode, .octets bs => Obj.ofR Obj.big (Trellis.encodeBytes bs)
  | .decode, .bits _ s => Obj.ofR Obj.big (Trellis.decode s)
  | .decodeBytes, .bits _ s => Obj.ofR Obj.octets (Trellis.decodeAsBytes s)
  | .bitsToDibits, .bits _ s => Obj.ofR Obj.ints (Trellis.bitsToDibits s)
  | .dibitsToBits, .ints d => Obj.ofR Obj.big (Trellis.dibitsToBits d)
  | .deinterleave, .ints d => Obj.ofR Obj.ints (Trellis.deinterleave d)
  | .interleave, .ints d => Obj.ofR Obj.ints (Trellis.interleave d)
  | .dibitsToPoints, .ints d => Obj.ofR Obj.nats (Trellis.dibitsToPoints d)
  | .pointsToDibits, .nats p => Obj.ofR Obj.ints (Trellis.pointsToDibits p)
  | .pointsToTribits, .nats p => Obj.ofR Obj.nats (Trellis.pointsToTribits p)
  | .tribitsToPoints, .nats t => Obj.ofR Obj.nats (Trellis.tribitsToPoints t)
  | .tribitsToBits, .nats t => Obj.ofR Obj.big (Trellis.tribitsToBits t)
  | .bitsToTribits, .bits le b => .nats (Trellis.bitsToTribits le b)
  | _, _ => .void

/-- `encode` of an object that is neither `bytes` nor a bitarray but has `len()` and slices
(`bytearray`, `memoryview`, `list`, `tuple`, `str`) with `n = len(obj)`: the length assertion comes
first, then `ba2int` refuses the first slice (`TypeError: bitarray expected`) -/
def encodeForeign (n : Nat) : String :=
  if n < 144 then Err.assertion.toString else "ERR TypeError"

/-! ### in-place edits by the caller -/

/-- `del x[lo:hi]` -/
def delSlice {α : Type} (lo hi : Nat) (l : List α) : List α := l.take lo ++ l.drop (max lo hi)

inductive Mut where
  /-- `x[i] ^= 1` on a bit sequence -/
  | flip (i : Nat)
  /-- `x[i] = v` on a number sequence -/
  | put (i : Nat) (v : Int)
  /-- `x.extend(o)` with `o` of the same kind -/
  | extend (o : Obj)
  /-- `del x[lo:hi]` -/
  | del (lo hi : Nat)
  /-- `x.clear()` / `del x[:]` -/
  | clear
  /-- `x[:] = o` with `o` of the same kind (the object keeps its endianness) -/
  | assign (o : Obj)
  /-- `x.reverse()` -/
  | reverse

/-- the content after the edit; `none` for an edit that does not apply to this kind of object
(immutable `bytes`, an out-of-range subscript, a foreign right-hand side) -/
def Mut.apply : Mut → Obj → Option Obj
  | .flip i, .bits le v => if i < v.length then some (.bits le (flipAt i v)) else none
  | .put i x, .ints v => if i < v.length then some (.ints (v.set i x)) else none
  | .put i x, .nats v => if i < v.length ∧ 0 ≤ x then some (.nats (v.set i x.toNat)) else none
  | .extend (.bits _ w), .bits le v => some (.bits le (v ++ w))
  | .extend (.ints w), .ints v => some (.ints (v ++ w))
  | .extend (.nats w), .nats v => some (.nats (v ++ w))
  | .del lo hi, .bits le v => some (.bits le (delSlice lo hi v))
  | .del lo hi, .ints v => some (.ints (delSlice lo hi v))
  | .del lo hi, .nats v => some (.nats (delSlice lo hi v))
  | .clear, .bits le _ => some (.bits le [])
  | .clear, .ints _ => some (.ints [])
  | .clear, .nats _ => some (.nats [])
  | .assign (.bits _ w), .bits le _ => some (.bits le w)
  | .assign (.ints w), .ints _ => some (.ints w)
  | .assign (.nats w), .nats _ => some (.nats w)
  | .reverse, .bits le v => some (.bits le v.reverse)
  | .reverse, .ints v => some (.ints v.reverse)
  | .reverse, .nats v => some (.nats v.reverse)
  | _, _ => none

/-! ### the objects the caller holds -/

structure Store where
  cells : List Obj

namespace Store

def empty : Store := ⟨[]⟩
def size (h : Store) : Nat := h.cells.length
/-- current content of object `r` -/
def read (h : Store) (r : Nat) : Option Obj := h.cells[r]?
/-- a new object; its handle is the old `size` -/
def push (h : Store) (v : Obj) : Store := ⟨h.cells ++ [v]⟩
/-- object `r` gets a new content, in place -/
def write (h : Store) (r : Nat) (v : Obj) : Store := ⟨h.cells.set r v⟩

end Store

/-- one step of a caller's history -/
inductive HOp where
  | new (o : Obj)
  | call (f : Fn) (r : Nat)
  | edit (r : Nat) (m : Mut)

namespace HOp

/-- the only object a step may change -/
def target : HOp → Option Nat
  | edit r _ => some r
  | _ => none

def run (h : Store) : HOp → Store
  | new o => h.push o
  | call f r =>
    match h.read r with
    | some o => h.push (f.apply o)
    | none => h
  | edit r m =>
    match h.read r with
    | some o =>
      match m.apply o with
      | some o' => h.write r o'
      | none => h
    | none => h

end HOp

/-- a whole history -/
def runOps (h : Store) (ops : List HOp) : Store := ops.foldl HOp.run h

end Dmr.Trellis
