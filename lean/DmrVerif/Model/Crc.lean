import DmrVerif.Model.Bits

/-!
Model of `okdmr/dmrlib/etsi/crc/crc.py` (the bit-oriented CRC engine) and of the four front ends
`crc8.py`, `crc9.py`, `crc16.py`, `crc32.py`, parameterised by the configuration and the mask value.
The configurations and masks themselves are generated (`Gen/Crc.lean`); `Model/CrcFront.lean`
instantiates the front ends with them.

Conventions.  A register / check sum is a `Bits` of length `w`, index 0 = most significant bit (the
library's registers are big-endian bitarrays).  A message container is a `Bits` (index order) plus the
flag `le` = "the bitarray was created with endian='little'": it only matters where the code converts a
slice to an integer (`ba2int(bits)` of a full chunk in the table register).

Not modelled: `reverse_input_bytes` (`bitarray.bytereverse` in place on the caller's buffer).  All
five ETSI configurations have it switched off (`Props/C05.lean: configs_etsi`); the driver refuses a
configuration that has it on.
-/

namespace Dmr

/-- `BitCrcConfiguration` after `__post_init__` (so `fw` is the *effective* feed width) -/
structure CrcConfig where
  poly : Nat
  w : Nat
  fw : Nat
  init : Nat
  xorout : Nat
  revIn : Bool
  revOut : Bool
deriving DecidableEq, Repr

/-- the exceptions the CRC code can raise -/
inductive CrcErr where
  | indexError      -- lookup table index out of range
  | valueError      -- negative shift count / zero range step
  | overflowError   -- int2ba / int.to_bytes: value does not fit
  | assertionError  -- the front ends' range asserts
deriving DecidableEq, Repr

def CrcErr.toString : CrcErr → String
  | .indexError => "ERR IndexError"
  | .valueError => "ERR ValueError"
  | .overflowError => "ERR OverflowError"
  | .assertionError => "ERR AssertionError"

/-- `BitCrcConfiguration.calc_feed_width_bits`: 8 for whole-octet widths, else the largest divisor
among 15, 14, …, 2, else 1 -/
def calcFeedWidth (w : Nat) : Nat :=
  if w % 8 = 0 then 8
  else
    match [15, 14, 13, 12, 11, 10, 9, 8, 7, 6, 5, 4, 3, 2].find? (fun c => w % c == 0) with
    | some c => c
    | none => 1

namespace Crc

/-- bitarray `<<`: length is kept, vacated positions are zero -/
def shl (n : Nat) (r : Bits) : Bits := (r ++ zeros n).drop n

/-- `self._polynomial = int2ba(polynomial, length=width_bits)` -/
def polyBits (c : CrcConfig) : Bits := natToBits c.w c.poly

/-- one iteration of the loop in `BitCrcRegister._process_bits`:
`op = register ^ topbit if bit else register; register <<= 1; if op >= topbit: register ^= polynomial`
(`op >= topbit` compares equally long bitarrays lexicographically against `100…0`, i.e. tests `op[0]`) -/
def stepBit (p : Bits) (r : Bits) (b : Bool) : Bits :=
  if (r.headD false != b) then xorBits (shl 1 r) p else shl 1 r

/-- `BitCrcRegister._process_bits` -/
def procBits (p : Bits) (r : Bits) (bits : Bits) : Bits := bits.foldl (stepBit p) r

/-- the configuration `bits_create_lookup_table` builds internally: only width and polynomial are
passed on, everything else is the dataclass default (feed width derived, init 0, xor-out 0) -/
def defaultConfig (w poly : Nat) : CrcConfig :=
  { poly := poly, w := w, fw := calcFeedWidth w, init := 0, xorout := 0, revIn := false, revOut := false }

/-- `self.register = int2ba(init_value, length=width_bits)` -/
def initReg (c : CrcConfig) : Bits := natToBits c.w c.init

/-- `digest` -/
def digest (c : CrcConfig) (r : Bits) : Bits :=
  xorBits (if c.revOut then r.reverse else r) (natToBits c.w c.xorout)

/-- number of iterations of `for start_bit in range(0, len(bits), feed_width_bits)` -/
def nChunks (fw n : Nat) : Nat := (n + fw - 1) / fw

/-- `bits[start_bit : start_bit + feed_width_bits]` with `start_bit = i * fw` -/
def slice (bits : Bits) (i fw : Nat) : Bits := (bits.drop (i * fw)).take fw

/-- `BitCrcRegisterBase.update` with the bit-by-bit register -/
def updateBitwise (c : CrcConfig) (r : Bits) (bits : Bits) : Bits :=
  (List.range (nChunks c.fw bits.length)).foldl
    (fun r i => procBits (polyBits c) r (slice bits i c.fw)) r

/-- `BitCrcCalculator(configuration, table_based=False).calculate_checksum` -/
def calcBitwise (c : CrcConfig) (bits : Bits) : Bits :=
  digest c (updateBitwise c (initReg c) bits)

/-- one entry of the lookup table: init, update with `int2ba(index, length=feed_width)`, digest — on
the bit-by-bit register of the *default* configuration -/
def tableEntry (w poly : Nat) (idx : Nat) : Bits :=
  calcBitwise (defaultConfig w poly) (natToBits (calcFeedWidth w) idx)

/-- `bits_create_lookup_table(width_bits, polynomial)` -/
def lookupTable (w poly : Nat) : List Bits :=
  (List.range (2 ^ calcFeedWidth w)).map (tableEntry w poly)

/-- `ba2int` of a message slice: honours the container's endianness -/
def sliceToNat (le : Bool) (chunk : Bits) : Nat :=
  if le then bitsToNat chunk.reverse else bitsToNat chunk

/-- `TableBasedBitCrcRegister._process_bits` -/
def procTable (c : CrcConfig) (tbl : List Bits) (le : Bool) (r : Bits) (chunk : Bits) :
    Except CrcErr Bits :=
  if chunk.length = c.fw then
    if c.w < c.fw then .error .valueError          -- `>>` with a negative count
    else
      let idx := Nat.xor (sliceToNat le chunk) (bitsToNat r >>> (c.w - c.fw))
      match tbl[idx]? with
      | none => .error .indexError
      | some e => .ok (xorBits e (shl c.fw r))
  else .ok (procBits (polyBits c) r chunk)

/-- `BitCrcRegisterBase.update` with the table register -/
def updateTable (c : CrcConfig) (tbl : List Bits) (le : Bool) (r : Bits) (bits : Bits) :
    Except CrcErr Bits :=
  (List.range (nChunks c.fw bits.length)).foldlM
    (fun r i => procTable c tbl le r (slice bits i c.fw)) r

/-- `BitCrcCalculator(configuration, table_based=True).calculate_checksum` with an explicit table
(the driver builds the table once per configuration) -/
def calcTableWith (c : CrcConfig) (tbl : List Bits) (le : Bool) (bits : Bits) : Except CrcErr Bits :=
  (updateTable c tbl le (initReg c) bits).map (digest c)

def calcTable (c : CrcConfig) (le : Bool) (bits : Bits) : Except CrcErr Bits :=
  calcTableWith c (lookupTable c.w c.poly) le bits

/-- `verify_checksum(data, expected_checksum)` (bit-by-bit calculator) -/
def verifyBitwise (c : CrcConfig) (bits : Bits) (expected : Int) : Bool :=
  (bitsToNat (calcBitwise c bits) : Int) == expected

/-- `verify_checksum(data, expected_checksum)` (table calculator) -/
def verifyTable (c : CrcConfig) (le : Bool) (bits : Bits) (expected : Int) : Except CrcErr Bool :=
  (calcTable c le bits).map (fun (r : Bits) => (bitsToNat r : Int) == expected)

/-! ### front ends (parameterised by the calculator singleton `CALC` and the mask value) -/

/-- `CALC.calculate_checksum` of a front-end class: endianness flag of the container, bits -/
abbrev Calc := Bool → Bits → Except CrcErr Bits

/-- a `BitCrcCalculator(configuration, table_based)` with its (pre-built) lookup table -/
def calculator (c : CrcConfig) (tableBased : Bool) (tbl : List Bits) : Calc :=
  fun le bits => if tableBased then calcTableWith c tbl le bits else .ok (calcBitwise c bits)

/-- bitarray `~` -/
def inv (bs : Bits) : Bits := bs.map not

/-- `bytes_to_bits(payload, "little")`: index 0 of every octet is its least significant bit -/
def bytesToBitsLE (bs : Bytes) : Bits := bs.flatMap (fun b => (natToBits 8 b).reverse)

/-- `byteswap_bytes`: neighbouring octets exchanged, an odd last octet stays -/
def byteswap : Bytes → Bytes
  | a :: b :: rest => b :: a :: byteswap rest
  | l => l

/-- `CRC8.calculate(data)`; `le` is the endianness of the bitarray that is passed in -/
def crc8With (cal : Calc) (le : Bool) (data : Bits) : Except CrcErr Nat :=
  (cal le data).map bitsToNat

/-- `CRC8.check(data, crc8)` -/
def crc8CheckWith (cal : Calc) (le : Bool) (data : Bits) (crc : Int) :
    Except CrcErr Bool :=
  if crc < 0 ∨ 255 < crc then .error .assertionError
  else (crc8With cal le data).map (fun (v : Nat) => (v : Int) == crc)

/-- `CRC16.calculate(data, mask)` = `ba2int(~checksum(bytes_to_bits(data))) ^ mask.value` -/
def crc16With (cal : Calc) (data : Bytes) (mask : Nat) : Except CrcErr Nat :=
  (cal false (bytesToBits data)).map (fun r => Nat.xor (bitsToNat (inv r)) mask)

/-- `CRC16.check(data, crc16, mask)` -/
def crc16CheckWith (cal : Calc) (data : Bytes) (crc : Int) (mask : Nat) :
    Except CrcErr Bool :=
  if crc < 0 ∨ 65535 < crc then .error .assertionError
  else (crc16With cal data mask).map (fun (v : Nat) => (v : Int) == crc)

/-- the `crc32` argument of `CRC9.calculate_from_parts` -/
inductive Crc32Arg where
  | none
  | int (v : Int)
  | bytes (b : Bytes)
deriving DecidableEq, Repr

/-- the bit string `calculate_from_parts` assembles: data, then the CRC-32 unless it is `None` or
the integer 0 (a `bytes` value never equals 0, so four zero octets *are* appended), then the 7-bit
data block serial number -/
def crc9Source (data : Bytes) (serial : Int) (crc32 : Crc32Arg) : Except CrcErr Bits := do
  let src := bytesToBits data
  let src ← match crc32 with
    | .none => pure src
    | .int v =>
      if v = 0 then pure src
      else if v < 0 ∨ 4294967295 < v then throw CrcErr.overflowError   -- int.to_bytes(4, "big")
      else pure (src ++ natToBits 32 v.toNat)
    | .bytes b =>
      if b.length ≠ 4 then throw CrcErr.assertionError
      else pure (src ++ bytesToBits b)
  if serial < 0 ∨ 127 < serial then throw CrcErr.overflowError          -- int2ba(serial_number, length=7)
  else pure (src ++ natToBits 7 serial.toNat)

/-- `CRC9.calculate(data, mask)` -/
def crc9BitsWith (cal : Calc) (le : Bool) (src : Bits) (mask : Nat) :
    Except CrcErr Nat :=
  (cal le src).map (fun r => Nat.xor (bitsToNat (inv r)) mask)

/-- `CRC9.calculate_from_parts(data, serial_number, mask, crc32)` -/
def crc9With (cal : Calc) (data : Bytes) (serial : Int) (mask : Nat)
    (crc32 : Crc32Arg) : Except CrcErr Nat := do
  let src ← crc9Source data serial crc32
  crc9BitsWith cal false src mask

/-- `CRC9.check(data, serial_number, crc9, mask, crc32)` -/
def crc9CheckWith (cal : Calc) (data : Bytes) (serial : Int) (crc : Int)
    (mask : Nat) (crc32 : Crc32Arg) : Except CrcErr Bool :=
  if 511 < crc then .error .assertionError
  else (crc9With cal data serial mask crc32).map (fun (v : Nat) => (v : Int) == crc)

/-- `CRC32.calculate(data)` = `ba2int(checksum(bytes_to_bits(byteswap_bytes(data), "little")))` -/
def crc32With (cal : Calc) (data : Bytes) : Except CrcErr Nat :=
  (cal true (bytesToBitsLE (byteswap data))).map bitsToNat

/-- `CRC32.check(data, crc32)` -/
def crc32CheckWith (cal : Calc) (data : Bytes) (crc : Int) : Except CrcErr Bool :=
  if crc < 0 ∨ 4294967295 < crc then .error .assertionError
  else (crc32With cal data).map (fun (v : Nat) => (v : Int) == crc)

end Crc
end Dmr
