import DmrVerif.Model.PduCsbk

/-!
Model of `okdmr/dmrlib/etsi/layer2/pdu/full_link_control.py` (`FullLinkControl.as_bits`, `from_bits`):
seven FLCOs with a layout (group / unit-to-unit voice channel user, GPS info, talker alias header and
blocks 1–3), in the 96-bit (24-bit Reed–Solomon check) and 77-bit (5-bit checksum) forms.  The check
field is an opaque bitarray attribute that `from_bits` reads and `as_bits` writes back.

GPS Info: the object holds floats `n · 360/2^25` and `n · 180/2^24`; the model holds the signed raw
integers `n` (the float step is exact, see the trusted base of the harness).
-/

namespace Dmr
open Dmr.Gen

inductive FlcPayload where
  /-- UU_V_Ch_Usr -/
  | unitToUnit (serviceOptions : ServiceOptions) (targetAddress sourceAddress : Nat)
  /-- Grp_V_Ch_Usr -/
  | group (serviceOptions : ServiceOptions) (groupAddress sourceAddress : Nat)
  /-- GPS Info: position error, raw signed longitude (25 bit) and latitude (24 bit) -/
  | gpsInfo (positionError : Nat) (longitudeRaw latitudeRaw : Int)
  /-- Talker Alias header: data format, length, 49th data bit, 6 octets -/
  | talkerAliasHeader (dataFormat dataLength : Nat) (dataMsb : Bool) (data : Bytes)
  /-- Talker Alias block 1 / 2 / 3 (`flco` = 5 / 6 / 7): 7 octets -/
  | talkerAliasBlock (flco : Nat) (data : Bytes)
deriving DecidableEq, Repr, Inhabited

structure FullLc where
  protectFlag : Bool
  fid : Nat
  /-- 24 (Reed–Solomon) or 5 (checksum) bits, kept verbatim -/
  crc : Bits
  payload : FlcPayload
deriving DecidableEq, Repr, Inhabited

namespace FullLc

def flcoGroup : Nat := 0
def flcoUnitToUnit : Nat := 3
def flcoTalkerAliasHeader : Nat := 4
def flcoTalkerAliasBlock1 : Nat := 5
def flcoTalkerAliasBlock2 : Nat := 6
def flcoTalkerAliasBlock3 : Nat := 7
def flcoGpsInfo : Nat := 8

/-- `self.full_link_control_opcode.value` -/
def flco : FlcPayload → Nat
  | .unitToUnit .. => flcoUnitToUnit
  | .group .. => flcoGroup
  | .gpsInfo .. => flcoGpsInfo
  | .talkerAliasHeader .. => flcoTalkerAliasHeader
  | .talkerAliasBlock c _ => c

/-- FLCO specific part of `as_bits()` (bits 16 … 71) -/
def payloadBits : FlcPayload → Bits
  | .unitToUnit so tgt src => so.enc ++ (natToBits 24 tgt ++ natToBits 24 src)
  | .group so grp src => so.enc ++ (natToBits 24 grp ++ natToBits 24 src)
  | .gpsInfo pe lon lat =>
    zeros 4 ++ (natToBits 3 pe ++ (natToBits 25 (fromSigned 25 lon) ++ natToBits 24 (fromSigned 24 lat)))
  | .talkerAliasHeader fmt len msb data =>
    natToBits 2 fmt ++ (natToBits 5 len ++ ([msb] ++ bytesToBits data))
  | .talkerAliasBlock _ data => bytesToBits data

/-- `as_bits` -/
def enc (p : FullLc) : Bits :=
  [p.protectFlag, false] ++ (natToBits 6 (flco p.payload) ++ (natToBits 8 p.fid ++ (payloadBits p.payload ++ p.crc)))

/-- `from_bits` -/
def dec (bs : Bits) : Except Err FullLc :=
  if bs.length ≠ 96 ∧ bs.length ≠ 77 then .error .assertionError else
  match eFLCOs.dec (getField bs 2 6) with
  | .error e => .error e
  | .ok op =>
  let pf := getBit bs 0
  match eFeatureSetIDs.dec (getField bs 8 8) with
  | .error e => .error e
  | .ok fid =>
  let crc := if bs.length ≥ 96 then slice bs 72 24 else slice bs 72 5
  let ret := fun (pl : FlcPayload) => (Except.ok ⟨pf, fid, crc, pl⟩ : Except Err FullLc)
  if op = flcoUnitToUnit then
    match ServiceOptions.dec (slice bs 16 8) with
    | .error e => .error e
    | .ok so => ret (.unitToUnit so (getField bs 24 24) (getField bs 48 24))
  else if op = flcoGroup then
    match ServiceOptions.dec (slice bs 16 8) with
    | .error e => .error e
    | .ok so => ret (.group so (getField bs 24 24) (getField bs 48 24))
  else if op = flcoGpsInfo then
    match ePositionError.dec (getField bs 20 3) with
    | .error e => .error e
    | .ok pe => ret (.gpsInfo pe (toSigned 25 (getField bs 23 25)) (toSigned 24 (getField bs 48 24)))
  else if op = flcoTalkerAliasHeader then
    match eTalkerAliasDataFormat.dec (getField bs 16 2) with
    | .error e => .error e
    | .ok fmt => ret (.talkerAliasHeader fmt (getField bs 18 5) (getBit bs 23) (bitsToBytes (slice bs 24 48)))
  else if op = flcoTalkerAliasBlock1 ∨ op = flcoTalkerAliasBlock2 ∨ op = flcoTalkerAliasBlock3 then
    ret (.talkerAliasBlock op (bitsToBytes (slice bs 16 56)))
  else .error .keyError

def FlcPayload.WF : FlcPayload → Prop
  | .unitToUnit so tgt src => so.WF ∧ tgt < 2 ^ 24 ∧ src < 2 ^ 24
  | .group so grp src => so.WF ∧ grp < 2 ^ 24 ∧ src < 2 ^ 24
  | .gpsInfo pe lon lat => ePositionError.defined pe = true ∧ signedInRange 25 lon ∧ signedInRange 24 lat
  | .talkerAliasHeader fmt len _ data =>
    eTalkerAliasDataFormat.defined fmt = true ∧ len < 2 ^ 5 ∧ data.length = 6 ∧ isBytes data = true
  | .talkerAliasBlock c data =>
    (c = flcoTalkerAliasBlock1 ∨ c = flcoTalkerAliasBlock2 ∨ c = flcoTalkerAliasBlock3) ∧
    data.length = 7 ∧ isBytes data = true

instance (pl : FlcPayload) : Decidable (FlcPayload.WF pl) := by
  cases pl <;> (unfold FlcPayload.WF; exact inferInstance)

/-- in-range field values; the check field has 24 or 5 bits -/
def WF (p : FullLc) : Prop :=
  eFeatureSetIDs.defined p.fid = true ∧ (p.crc.length = 24 ∨ p.crc.length = 5) ∧ FlcPayload.WF p.payload

instance (p : FullLc) : Decidable p.WF := by unfold WF; exact inferInstance

end FullLc
end Dmr
