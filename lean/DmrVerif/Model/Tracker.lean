import DmrVerif.Model.Bits

/-!
# Transmission tracking (C08; receiver of C07)

Hand-written executable model of `okdmr/dmrlib/transmission/{transmission,timeslot,terminal}.py` and of the
observer fan-out in `transmission_observer_interface.py`, line by line, as the code is after the three
`fix:` commits e6dc4ce / 6fc831f / 48aece2 (see KNOWN_FINDINGS.txt).

Input alphabet = the abstraction of a parsed `Burst` that the tracker reads (`AbsBurst`): the slot-type
data type (or none for vocoder bursts), whether the centre is a voice SYNC (`is_voice_superframe_start`),
the colour code if the burst carries one (EMB or slot type), and per data type the fields the tracker
looks at: the data header's `get_blocks_to_follow()` / A bit / SAP, the CSBK's opcode-is-preamble flag and
blocks-to-follow, the information bits of a rate-x block (re-parsed by the tracker with the type it
resolves from its own counters).  Everything else of a PDU is carried opaquely (`raw`) so that events can
be compared with the real code.

Stream ids: `secrets.token_bytes(4)` is an entropy oracle, modelled as a counter (`oracle`) — every call
returns the next value.  The Python exceptions the tracker could raise are explicit (`Err`).
Core Lean only (this file is compiled into the drivers `drv_c08` and `drv_c07`).
-/

namespace Dmr.Tracker
open Dmr

/-- exception classes of the real code that the model can answer with -/
inductive Err
  | assertion      -- AssertionError (PDU length asserts, VoiceBursts._missing_)
  | value          -- ValueError
  deriving DecidableEq, Repr

/-- `TransmissionTypes` -/
inductive TxType | idle | voice | data
  deriving DecidableEq, Repr

/-- `VoiceBursts` (Unknown = 1, A..F = 100..105) -/
inductive VB | unknown | a | b | c | d | e | f
  deriving DecidableEq, Repr

inductive Rate | r12 | r34 | r1
  deriving DecidableEq, Repr

/-- `Rate12DataTypes` / `Rate34DataTypes` / `Rate1DataTypes` without `Undefined`
(`resolve` is only ever called with two `bool`s) -/
inductive PType | unconfirmed | confirmed | unconfirmedLast | confirmedLast
  deriving DecidableEq, Repr

/-- what the tracker reads of a `DataHeader` (+ its 96 information bits as 12 octets, opaque) -/
structure DataHdr where
  /-- `get_blocks_to_follow()`: `None` for UDT, appended blocks for short data defined, else BTF -/
  btf : Option Nat
  /-- `is_response_requested` (the A bit) -/
  a : Bool
  /-- `sap_identifier.value` (3 = UDP/IP header compression: the diagnostic print) -/
  sap : Nat
  raw : Bytes
  deriving DecidableEq, Repr

/-- the part of a parsed burst that depends on its data type -/
inductive Payload
  /-- `DataTypes.VoiceLCHeader`, `FullLinkControl` bits -/
  | voiceHeader (raw : Bytes)
  /-- `DataTypes.TerminatorWithLC` -/
  | terminator (raw : Bytes)
  | dataHeader (h : DataHdr)
  /-- `DataTypes.CSBK`: is the opcode `PreambleCSBK`, its `blocks_to_follow` -/
  | csbk (preamble : Bool) (btf : Nat) (raw : Bytes)
  /-- `Rate12Data` / `Rate34Data` / `Rate1Data`: the 96 / 144 / 192 information bits -/
  | rate (r : Rate) (bits : Bits)
  /-- slot type with a data type `process_packet` has no branch for (PI header, MBC, idle, USBD) -/
  | other
  /-- no slot type (data type `Reserved`): vocoder burst; `sync` = `is_voice_superframe_start` -/
  | voice (sync : Bool)
  deriving DecidableEq, Repr

structure AbsBurst where
  payload : Payload
  /-- colour code of EMB / slot type; `none` when the burst has neither (SYNC-centred vocoder burst) -/
  cc : Option Nat
  deriving DecidableEq, Repr

/-- `Transmission.header` is a `FullLinkControl` or a `DataHeader` -/
inductive Hdr
  | flc (raw : Bytes)
  | data (h : DataHdr)
  deriving DecidableEq, Repr

/-- an element of `Transmission.blocks` -/
inductive Block
  | hdr (h : DataHdr)
  | csbk (raw : Bytes)
  /-- the result of `RateXData.from_bits_typed(bits, data_type = t)` -/
  | rate (r : Rate) (t : PType) (bits : Bits)
  deriving DecidableEq, Repr

/-- observer callbacks -/
inductive Event
  | started (t : TxType)
  | dataEnded (h : Hdr) (blocks : List Block)
  | voiceEnded (h : Hdr) (blocks : List Block)
  deriving DecidableEq, Repr

def Event.isEnded : Event → Bool
  | .started _ => false
  | _ => true

/-- what a step does that the property talks about, in program order: callbacks delivered, blocks
appended to `self.blocks`, `self.header = …` assignments (the last two are ghost outputs: they let
`ended_payload` be stated without referring to the tracker's own state) -/
inductive Act
  | ev (e : Event)
  | append (b : Block)
  | setHeader (h : Hdr)
  deriving DecidableEq, Repr

def Act.event? : Act → Option Event
  | .ev e => some e
  | _ => none

def events (acts : List Act) : List Event := acts.filterMap Act.event?

/-! ## typed view of a rate-x block (`from_bits_typed`) -/

def Rate.infoBits : Rate → Nat
  | .r12 => 96 | .r34 => 144 | .r1 => 192

def PType.isLast : PType → Bool
  | .unconfirmedLast | .confirmedLast => true
  | _ => false

def PType.isConfirmed : PType → Bool
  | .confirmed | .confirmedLast => true
  | _ => false

/-- `RateXDataTypes.resolve(confirmed, last)` -/
def resolve (confirmed last : Bool) : PType :=
  match confirmed, last with
  | true, true => .confirmedLast
  | true, false => .confirmed
  | false, true => .unconfirmedLast
  | false, false => .unconfirmed

/-- first data bit: after DBSN (7) and CRC-9 (9) in confirmed blocks -/
def PType.dataStart (t : PType) : Nat := if t.isConfirmed then 16 else 0
/-- data ends before the 32-bit CRC in last blocks -/
def dataEnd (r : Rate) (t : PType) : Nat := if t.isLast then r.infoBits - 32 else r.infoBits

/-- the slice of the information bits that becomes `block.data` -/
def dataBits (r : Rate) (t : PType) (bits : Bits) : Bits := (bits.take (dataEnd r t)).drop t.dataStart
/-- `block.data` -/
def blockData (r : Rate) (t : PType) (bits : Bits) : Bytes := bitsToBytes (dataBits r t bits)
/-- `block.dbsn` (0 when not confirmed: constructor default) -/
def blockDbsn (t : PType) (bits : Bits) : Nat := if t.isConfirmed then bitsToNat (bits.take 7) else 0
/-- the received CRC-9 field `ba2int(crc9[::-1])` (0 when not confirmed) -/
def blockCrc9 (t : PType) (bits : Bits) : Nat :=
  if t.isConfirmed then bitsToNat ((bits.take 16).drop 7).reverse else 0
/-- `block.crc32` = `int.from_bytes(bits[-32:], "big")` for last blocks, else 0 -/
def blockCrc32 (r : Rate) (t : PType) (bits : Bits) : Nat :=
  if t.isLast then bitsToNat (bits.drop (r.infoBits - 32)) else 0

/-- octets of `block.data`: the enum value of the resolved type -/
def dataOctets (r : Rate) (t : PType) : Nat := (dataEnd r t - t.dataStart) / 8

/-- `from_bits_typed`: asserts the length of the information bits -/
def parseTyped (r : Rate) (t : PType) (bits : Bits) : Except Err Block :=
  if bits.length != r.infoBits then .error .assertion else .ok (.rate r t bits)

/-! ## the diagnostic print of `end_data_transmission` (guarded since e6dc4ce) -/

/-- `UDPIPv4CompressedHeader.from_bits(bytes_to_bits(user_data))`: `ok` or the assertion it raises.
SPID = bits 25..31, DPID = bits 33..39; value 0 = "in extended header". -/
def udpDiag (userData : Bytes) : Except Err Unit :=
  let bits := bytesToBits userData
  if bits.length < 40 then .error .assertion else
  let spid := bitsToNat ((bits.take 32).drop 25)
  let dpid := bitsToNat ((bits.take 40).drop 33)
  if spid == 0 && dpid == 0 then
    (if bits.length < 72 then .error .assertion else .ok ())
  else if spid == 0 || dpid == 0 then
    (if bits.length < 56 then .error .assertion else .ok ())
  else .ok ()

/-- user data of the rate-x blocks, as concatenated by `end_data_transmission` -/
def userData (blocks : List Block) : Bytes :=
  blocks.flatMap fun
    | .rate r t bits => blockData r t bits
    | _ => []

/-- the whole diagnostic of `end_data_transmission` as it was before e6dc4ce: raises out of
`process_burst` exactly when this is `error` -/
def diagnostic (h : Hdr) (blocks : List Block) : Except Err Unit :=
  match h with
  | .data dh =>
    if dh.sap == 3 && (userData blocks).length ≥ 5 then udpDiag (userData blocks) else .ok ()
  | .flc _ => .ok ()

/-! ## `Transmission` -/

structure Tx where
  type : TxType := .idle
  expected : Nat := 0
  received : Nat := 0
  lastVoice : VB := .unknown
  confirmed : Bool := false
  /-- never assigned `True` anywhere in the code; kept because the guards read it -/
  finished : Bool := false
  blocks : List Block := []
  header : Option Hdr := none
  streamNo : Nat
  deriving DecidableEq, Repr

/-- a `Transmission` while one burst is processed: its fields, the entropy oracle and what it did -/
structure M where
  tx : Tx
  oracle : Nat
  acts : List Act := []
  deriving Repr

def M.emit (m : M) (a : Act) : M := { m with acts := m.acts ++ [a] }

/-- the assignments of `new_transmission` (lines 57–64), drawing a new stream id -/
def resetTx (m : M) (t : TxType) : M :=
  { m with
    tx := { m.tx with type := t, expected := 0, received := 0, confirmed := false, finished := false,
                      blocks := [], header := none, streamNo := m.oracle }
    oracle := m.oracle + 1 }

/-- `new_transmission(TransmissionTypes.Idle)`: no call of `end_data_transmission`, no notification -/
def newIdle (m : M) : M := resetTx m .idle

/-- `end_data_transmission` -/
def endData (m : M) : M :=
  if m.tx.finished || m.tx.type != .data then m else
  match m.tx.header with
  | none => m                                   -- `not self.header`
  | some h =>
    let m := m.emit (.ev (.dataEnded h m.tx.blocks))
    -- `log_info(repr(header))`; then `try: print(repr(UDPIPv4CompressedHeader.from_bits(..))) except
    -- Exception: log_warning(..)`: the outcome of `diagnostic h m.tx.blocks` is discarded
    newIdle m

/-- `new_transmission(newtype)` -/
def newTx (m : M) (t : TxType) : M :=
  let m := if t != .idle && m.tx.type == .data then endData m else m
  let m := resetTx m t
  if t != .idle then m.emit (.ev (.started t)) else m

/-- `ensure_transmission` -/
def ensureTx (m : M) (t : TxType) : M := if m.tx.type != t then newTx m t else m

/-- `end_voice_transmission` -/
def endVoice (m : M) : M :=
  if m.tx.finished || m.tx.type == .idle then m else
  let m := match m.tx.header with
    | some (.flc raw) => m.emit (.ev (.voiceEnded (.flc raw) m.tx.blocks))
    | _ => m                                    -- "end voice transmission unknown header type"
  newTx m .idle

/-- `end_transmissions` -/
def endTransmissions (m : M) : M :=
  match m.tx.type with
  | .data => endData m
  | .voice => endVoice m
  | .idle => m

/-- `is_last_block(called_before_processing)` -/
def isLastBlock (tx : Tx) (before : Bool) : Bool :=
  tx.expected != 0 && tx.expected == tx.received + (if before then 1 else 0)

/-- `process_voice_header` -/
def processVoiceHeader (m : M) (raw : Bytes) : M :=
  let m := ensureTx m .voice
  let m := m.emit (.setHeader (.flc raw))
  { m with tx := { m.tx with header := some (.flc raw), expected := m.tx.expected + 2,
                             received := m.tx.received + 1 } }

/-- `process_data_header` -/
def processDataHeader (m : M) (h : DataHdr) : M :=
  let m := ensureTx m .data
  let expected :=
    match h.btf with
    | some n => if n != 0 && m.tx.expected == 0 then n + 1 else m.tx.expected
    | none => m.tx.expected
  let m := (m.emit (.setHeader (.data h))).emit (.append (.hdr h))
  { m with tx := { m.tx with expected := expected, header := some (.data h),
                             received := m.tx.received + 1, blocks := m.tx.blocks ++ [.hdr h],
                             confirmed := h.a } }

/-- `process_csbk` -/
def processCsbk (m : M) (preamble : Bool) (btf : Nat) (raw : Bytes) : M :=
  let m := ensureTx m .data
  let expected := if preamble && m.tx.expected == 0 then btf + 1 else m.tx.expected
  let m := m.emit (.append (.csbk raw))
  { m with tx := { m.tx with expected := expected, received := m.tx.received + 1,
                             blocks := m.tx.blocks ++ [.csbk raw] } }

/-- `process_data` -/
def processData (m : M) (blk : Block) (last : Bool) : M :=
  let m := m.emit (.append blk)
  let m := { m with tx := { m.tx with received := m.tx.received + 1, blocks := m.tx.blocks ++ [blk] } }
  if last then endData m else m

/-- `VoiceBursts(v.value + 1)`: `_missing_` asserts for 2 and 106 -/
def VB.succ : VB → Except Err VB
  | .a => .ok .b | .b => .ok .c | .c => .ok .d | .d => .ok .e | .e => .ok .f
  | .f => .error .assertion
  | .unknown => .error .assertion

def Payload.isVoice : Payload → Bool
  | .voice _ => true
  | _ => false

def Payload.isSync : Payload → Bool
  | .voice true => true
  | _ => false

/-- `fix_voice_burst_type`: new `last_voice_burst` and the label of the burst (`burst.voice_burst`) -/
def fixVoice (tx : Tx) (p : Payload) : Except Err (Tx × VB) :=
  -- the constructor's label: A for a voice SYNC burst, else Unknown
  let lbl0 := if p.isSync then VB.a else VB.unknown
  if tx.type != .voice then .ok (tx, lbl0) else
  -- `burst.data_type == DataTypes.Reserved` ⇔ no slot type ⇔ vocoder burst
  let reserved := p.isVoice
  let lbl : Except Err VB :=
    if p.isSync || (tx.lastVoice == .f && reserved) then .ok .a
    else if reserved && (tx.lastVoice == .a || tx.lastVoice == .b || tx.lastVoice == .c
                          || tx.lastVoice == .d || tx.lastVoice == .e) then tx.lastVoice.succ
    else .ok lbl0
  match lbl with
  | .error e => .error e
  | .ok l => .ok ({ tx with lastVoice := l }, l)

/-- `process_packet` -/
def processPacket (m : M) (p : Payload) : Except Err (M × VB) :=
  match fixVoice m.tx p with
  | .error e => .error e
  | .ok (tx, lbl) =>
    let m := { m with tx := tx }
    let r : Except Err M :=
      match p with
      | .voiceHeader raw => .ok (processVoiceHeader m raw)
      | .dataHeader h => .ok (processDataHeader m h)
      | .csbk pre btf raw => .ok (processCsbk m pre btf raw)
      | .terminator _ =>
        .ok (endVoice { m with tx := { m.tx with received := m.tx.received + 1 } })
      -- `burst.data_type in [VoiceBursts.VoiceBurstA, …]` compares a `DataTypes` member with
      -- `VoiceBursts` members and is never true: vocoder bursts change no counter
      | .voice _ => .ok m
      | .other => .ok m
      | .rate r bits =>
        let t := resolve m.tx.confirmed (isLastBlock m.tx true)
        match parseTyped r t bits with
        | .error e => .error e
        | .ok blk => .ok (processData m blk t.isLast)
    match r with
    | .error e => .error e
    | .ok m =>
      let m := if isLastBlock m.tx false then endTransmissions m else m
      .ok (m, lbl)

/-! ## `Timeslot` -/

structure Slot where
  tx : Tx
  rxSeq : Nat := 0
  /-- `reset_rx_sequence`: set by the `*_transmission_ended` callbacks of the time slot -/
  reset : Bool := false
  cc : Nat := 0
  deriving DecidableEq, Repr

/-- what `process_burst` returns (fields of the returned burst) plus what happened -/
structure Out where
  seq : Nat
  label : VB
  stream : Nat
  acts : List Act
  deriving DecidableEq, Repr

def Out.deliveredEnd (o : Out) : Bool := (events o.acts).any Event.isEnded

/-- `Timeslot.process_burst` -/
def Slot.process (s : Slot) (oracle : Nat) (b : AbsBurst) : Except Err (Slot × Nat × Out) :=
  -- `if dmrdata.has_emb or dmrdata.has_slot_type: self.colour_code = dmrdata.colour_code`
  let cc := match b.cc with | some c => c | none => s.cc
  match processPacket { tx := s.tx, oracle := oracle } b.payload with
  | .error e => .error e
  | .ok (m, lbl) =>
    -- the time slot is the transmission's observer: an ended callback sets `reset_rx_sequence`
    let reset := s.reset || (events m.acts).any Event.isEnded
    let seq := (s.rxSeq + 1) % 256            -- `get_rx_sequence()`: `(rx + 1) & 255`
    let out : Out := { seq := seq, label := lbl, stream := m.tx.streamNo, acts := m.acts }
    let s' : Slot :=
      if reset then { tx := m.tx, rxSeq := 0, reset := false, cc := cc }
      else { tx := m.tx, rxSeq := seq, reset := false, cc := cc }
    .ok (s', m.oracle, out)

/-! ## observers (`WithObservers`) -/

/-- a user observer: does it raise from every callback, and what it has recorded -/
structure Obs where
  raises : Bool
  log : List Event := []
  deriving DecidableEq, Repr

/-- one callback: the observer records the event and then possibly raises -/
def Obs.call (o : Obs) (e : Event) : Obs × Bool := ({ o with log := o.log ++ [e] }, o.raises)

/-- `for observer in self.observers: try: observer.cb(..) except: logging…exception(..)` -/
def fanout : List Obs → Event → List Obs
  | [], _ => []
  | o :: rest, e =>
    let (o', _raised) := o.call e             -- the bare `except:` swallows whatever was raised
    o' :: fanout rest e

/-- the same loop without the `try` (what the property forbids): stops at the first raising observer -/
def fanoutUnguarded : List Obs → Event → List Obs × Bool
  | [], _ => ([], false)
  | o :: rest, e =>
    let (o', raised) := o.call e
    if raised then (o' :: rest, true) else
    let (rest', r) := fanoutUnguarded rest e
    (o' :: rest', r)

/-! ## `Terminal` -/

structure Terminal where
  s1 : Slot
  s2 : Slot
  oracle : Nat
  obs : List Obs
  deriving DecidableEq, Repr

/-- `Terminal(dmrid, observers)`: two time slots, each with a new `Transmission` (one token each) -/
def Terminal.init (raises : List Bool) : Terminal :=
  { s1 := { tx := { streamNo := 0 } }, s2 := { tx := { streamNo := 1 } }, oracle := 2,
    obs := raises.map fun r => { raises := r } }

/-- `false` = time slot 1, `true` = time slot 2 -/
def Terminal.slot (t : Terminal) (two : Bool) : Slot := if two then t.s2 else t.s1

def Terminal.setSlot (t : Terminal) (two : Bool) (s : Slot) : Terminal :=
  if two then { t with s2 := s } else { t with s1 := s }

/-- Transmission → Timeslot → Terminal → user observers, every level with its own `try/except` -/
def deliver (obs : List Obs) (acts : List Act) : List Obs := (events acts).foldl fanout obs

/-- `Terminal.process_incoming_burst(burst, timeslot)` -/
def Terminal.step (t : Terminal) (inp : Bool × AbsBurst) : Except Err (Terminal × Out) :=
  match (t.slot inp.1).process t.oracle inp.2 with
  | .error e => .error e
  | .ok (s', oracle', out) =>
    .ok ({ (t.setSlot inp.1 s') with oracle := oracle', obs := deliver t.obs out.acts }, out)

/-- `timeslot.transmission.end_transmissions()` called from outside `process_burst`
(`TransmissionWatcher.end_all_transmissions`): the time slot's ended callback sets `reset_rx_sequence`,
and nothing clears it until the next burst -/
def Slot.flush (s : Slot) (oracle : Nat) : Slot × Nat × List Act :=
  let m := endTransmissions { tx := s.tx, oracle := oracle }
  ({ s with tx := m.tx, reset := s.reset || (events m.acts).any Event.isEnded }, m.oracle, m.acts)

/-- `end_all_transmissions` for one terminal: slot 1, then slot 2 (dict order) -/
def Terminal.flush (t : Terminal) : Terminal × List Act :=
  let (s1, o1, a1) := t.s1.flush t.oracle
  let (s2, o2, a2) := t.s2.flush o1
  ({ s1 := s1, s2 := s2, oracle := o2, obs := deliver t.obs (a1 ++ a2) }, a1 ++ a2)

/-- one record of the trace of a run: which slot, what came out -/
structure Rec where
  two : Bool
  burst : AbsBurst
  out : Out
  deriving DecidableEq, Repr

/-- feed a history; the first failing burst aborts the run with its exception -/
def run : Terminal → List (Bool × AbsBurst) → Except Err (Terminal × List Rec)
  | t, [] => .ok (t, [])
  | t, inp :: rest =>
    match t.step inp with
    | .error e => .error e
    | .ok (t', out) =>
      match run t' rest with
      | .error e => .error e
      | .ok (t'', recs) => .ok (t'', { two := inp.1, burst := inp.2, out := out } :: recs)

/-- the alphabet: information bits of a rate-x burst have the length its data type implies (a parsed
burst always satisfies this) -/
def AbsBurst.wf (b : AbsBurst) : Bool :=
  match b.payload with
  | .rate r bits => bits.length == r.infoBits
  | _ => true

/-! ## the diagnostic of `end_data_transmission` under ambient conditions (dead standard output)

`print(repr(udp_ip))` writes to `sys.stdout`; when every write to it raises (reader of the pipe gone, disk
full, descriptor closed) the `print` raises inside the same `try` as the decode, so the `except Exception`
logs a warning and the reset to idle still happens.  Added for the hardening of C08 (nothing above changed). -/

/-- what the diagnostic did -/
inductive Diag
  /-- SAP ≠ UDP/IP header compression or fewer than 5 octets of user data: nothing decoded, nothing written -/
  | skipped
  /-- decoded and written to `sys.stdout` -/
  | printed
  /-- decoded, the `print` raised: caught by the `except Exception` of the decode, warning logged -/
  | printFailed
  /-- `UDPIPv4CompressedHeader.from_bits` raised: warning logged, `sys.stdout` not touched -/
  | undecodable
  deriving DecidableEq, Repr

/-- `stdoutDead`: every write to `sys.stdout` raises -/
def diagOutcomeData (stdoutDead : Bool) (sap : Nat) (data : Bytes) : Diag :=
  if sap == 3 && data.length ≥ 5 then
    match udpDiag data with
    | .error _ => .undecodable
    | .ok () => if stdoutDead then .printFailed else .printed
  else .skipped

def diagOutcome (stdoutDead : Bool) (h : Hdr) (blocks : List Block) : Diag :=
  match h with
  | .data dh => diagOutcomeData stdoutDead dh.sap (userData blocks)
  | .flc _ => .skipped

/-- does an exception leave `end_data_transmission` between the `ended` notification and the reset to idle?
`guardPrint = true` is the code as it is (the `print` inside the `try`); `false` is the "minimal try body"
form with the `print` behind the `try`, which "processing never fails" forbids -/
def Diag.escapes (guardPrint : Bool) : Diag → Bool
  | .printFailed => !guardPrint
  | _ => false

/-- `end_data_transmission` with the diagnostic spelled out; the exception of a dead stream is an
`OSError` / `ValueError` (`Err.value`) -/
def endDataAmb (guardPrint stdoutDead : Bool) (m : M) : Except Err M :=
  if m.tx.finished || m.tx.type != .data then .ok m else
  match m.tx.header with
  | none => .ok m
  | some h =>
    let m' := m.emit (.ev (.dataEnded h m.tx.blocks))
    if (diagOutcome stdoutDead h m.tx.blocks).escapes guardPrint then .error .value
    else .ok (newIdle m')

end Dmr.Tracker
