import DmrVerif.Model.Bits

/-!
Model of `okdmr/dmrlib/etsi/fec/hamming_common.py`, `golay_20_8_7.py`, `quadratic_residue_16_7_6.py`
and `fec_utils.get_syndrome_for_word`.  The matrices themselves are generated (`Gen/Codes.lean`).
-/

namespace Dmr

/-- column `j` of a matrix given as a list of rows -/
def col (M : List Bits) (j : Nat) : Bits := M.map (fun r => getBit r j)

structure Code where
  n : Nat
  k : Nat
  d : Nat
  /-- `GENERATOR_MATRIX`, `k` rows of `n` bits -/
  G : List Bits
  /-- `PARITY_CHECK_MATRIX` as computed by `derive_parity_check_matrix_from_generator` -/
  H : List Bits
  /-- `CORRECT_SYNDROME` -/
  S : Bits

namespace Code

/-- `generate`: `numpy.dot(G.T, bits) mod 2` -/
def gen (C : Code) (m : Bits) : Bits := (List.range C.n).map (fun j => dot (col C.G j) m)

/-- `get_syndrome_for_word`: `(word @ H.T) % 2` -/
def syndrome (C : Code) (w : Bits) : Bits := C.H.map (fun r => dot w r)

/-- `check` -/
def check (C : Code) (w : Bits) : Bool := C.syndrome w == C.S

/-- the columns of `H`, i.e. `PARITY_CHECK_MATRIX.T.tolist()` -/
def hCols (C : Code) : List Bits := (List.range C.n).map (col C.H)

/-- `HammingCommon.check_and_correct` (the returned buffer is the possibly modified input) -/
def checkAndCorrect (C : Code) (w : Bits) : Bool × Bits :=
  if C.check w then (true, w)
  else
    match C.hCols.idxOf? (C.syndrome w) with
    | some i => (true, flipAt i w)
    | none => (false, w)

/-- `HammingCommon.correct_numpy_array` -/
def correct (C : Code) (w : Bits) : Bits :=
  let r := C.checkAndCorrect w
  if r.1 then r.2 else w

/-- decidable well-formedness of the extracted tables: dimensions, `G = [I | P]`, `H = [Pᵀ | I]`
and an all-zero reference syndrome -/
def WF (C : Code) : Bool :=
  C.k ≤ C.n
  && C.G.length == C.k
  && C.G.all (fun r => r.length == C.n)
  && (List.range C.k).all (fun j => col C.G j == unit C.k j)
  && C.H == (List.range (C.n - C.k)).map (fun j => col C.G (C.k + j) ++ unit (C.n - C.k) j)
  && C.S == zeros (C.n - C.k)

end Code

/-- all bit strings of length `n`, in counting order -/
def allBits : Nat → List Bits
  | 0 => [[]]
  | n + 1 => (allBits n).flatMap (fun t => [false :: t, true :: t])

def hammingDist (a b : Bits) : Nat := weight (xorBits a b)

end Dmr
