import DmrVerif.Model.Bptc

/-!
Histories of calls of `BPTC19696` (C02 hardening).

`Model/Bptc.lean` gives every entry point as a function of its arguments.  That is a claim about the
Python class: nothing a call leaves behind (a scratch table, a table of remembered results, a buffer
that is handed out again) influences a later call, the objects handed out belong to the caller, the
arguments are left as they were.  This file makes the claim explicit so that the correspondence run can
exercise it: a `Store` holds the objects handed out so far, a `Step` is one thing the caller does, and
`step` says what the caller observes.

* `make_encoding_table()` hands out a new all-zero 13×15 table (`makeEncodingTable`);
* `fill_encoding_table(table, bits)` writes into the table it is given (`fillOn`: the table is an
  argument, not assumed to be all-zero) and returns it; the model keeps the content of the returned
  table in the new handle;
* `encode`, `deinterleave_data_bits`, `repair_if_necessary`, `deinterleave_all_bits` hand out new objects
  and read their argument only — a literal (`Arg.lit`; the bit order of the bitarray container is
  irrelevant, the entry points index the bits) or an object kept from an earlier call (`Arg.ref`);
* `flip` / `setAll` are the caller overwriting a kept object, `read` looks at it;
* `put` is the caller overwriting a kept object IN PLACE with a whole new content (`buf[:] = …`, or
  `buf.clear(); buf.extend(…)`): the object stays the same Python object, every later call that is given it
  sees the new content and nothing of the old one — whatever the two contents have in common (the same
  info bits, the same parity bits, a common prefix, the same number of ones …);
* `new` is a bitarray the caller made itself (a frame buffer it will re-use).
-/

namespace Dmr.Bptc
open Dmr Dmr.Gen Dmr.Gen.Bptc19696

/-- `make_encoding_table()` -/
def makeEncodingTable : Bits := zeros (13 * 15)

/-- `fill_encoding_table(table, bits)` after its length assertion, on the table `t` it is given -/
def fillOn (t : Bits) (mapping : List (Nat × Nat)) (bitsDeinterleaved : Bits) : Bits :=
  let bitsInterleaved := scatter (mapping.map (fun p => (p.2, p.1))) bitsDeinterleaved (zeros 196)
  scatter fillPairs bitsInterleaved t

def fillEncodingTableOn (t bitsDeinterleaved : Bits) : Except Err Bits :=
  if bitsDeinterleaved.length = 96 ∨ bitsDeinterleaved.length = 196 then
    .ok (fillOn t (fillMapping bitsDeinterleaved.length) bitsDeinterleaved)
  else .error .assertion

/-- an object the class handed out: a bitarray or a 13×15 table (row-major) -/
inductive Obj where
  | bits (b : Bits)
  | table (t : Bits)
deriving DecidableEq, Repr

def Obj.content : Obj → Bits
  | .bits b => b
  | .table t => t

/-- the same kind of object with another content -/
def Obj.withContent : Obj → Bits → Obj
  | .bits _, c => .bits c
  | .table _, c => .table c

/-- what the caller can overwrite the object with as a whole: a bitarray takes any bits (its length
follows), a 13×15 table takes 195 cells -/
def Obj.accepts : Obj → Bits → Bool
  | .bits _, _ => true
  | .table _, c => c.length == 13 * 15

/-- handle `k` is slot `k`; `none` = nothing was handed out (the call raised) -/
structure Store where
  slots : List (Option Obj)
deriving Repr

namespace Store
def empty : Store := ⟨[]⟩
def size (s : Store) : Nat := s.slots.length
def get (s : Store) (k : Nat) : Option Obj := (s.slots[k]?).join
def push (s : Store) (o : Option Obj) : Store := ⟨s.slots ++ [o]⟩
def write (s : Store) (k : Nat) (o : Obj) : Store := ⟨s.slots.set k (some o)⟩
end Store

inductive Arg where
  | lit (b : Bits)
  | ref (k : Nat)
deriving Repr

/-- the bits a call reads from its argument (`none`: empty handle, or a table where bits are expected) -/
def Arg.bits (s : Store) : Arg → Option Bits
  | .lit b => some b
  | .ref k => match s.get k with
    | some (.bits b) => some b
    | _ => none

inductive Step where
  | encode (a : Arg)
  | data (repair : Bool) (a : Arg)
  | repair (a : Arg)
  | deint (a : Arg)
  | make
  | fill (t : Nat) (a : Arg)
  | flip (k i : Nat)
  | setAll (k : Nat) (v : Bool)
  | read (k : Nat)
  /-- the caller overwrites the kept object `k` in place with the bits of `a` -/
  | put (k : Nat) (a : Arg)
  /-- the caller makes a bitarray of its own and keeps it -/
  | new (b : Bits)
  /-- nothing happens; `push = true` uses up a handle -/
  | nop (push : Bool)
deriving Repr

/-- what the caller sees -/
inductive Out where
  | val (b : Bits)
  | err
  | done
  | void
deriving DecidableEq, Repr

/-- result of a call that hands out a bitarray -/
def Store.ret (s : Store) : Except Err Bits → Store × Out
  | .ok b => (s.push (some (.bits b)), .val b)
  | .error _ => (s.push none, .err)

/-- the handle a step overwrites, if any (`fill` writes into its table) -/
def Step.target : Step → Option Nat
  | .fill t _ => some t
  | .flip k _ => some k
  | .setAll k _ => some k
  | .put k _ => some k
  | _ => none

def step (s : Store) : Step → Store × Out
  | .encode a => match a.bits s with
    | some b => s.ret (encode b)
    | none => (s.push none, .void)
  | .data r a => match a.bits s with
    | some b => s.ret (deinterleaveDataBits b r)
    | none => (s.push none, .void)
  | .repair a => match a.bits s with
    | some b => s.ret (repairIfNecessary b)
    | none => (s.push none, .void)
  | .deint a => match a.bits s with
    | some b => s.ret (deinterleaveAllBits b)
    | none => (s.push none, .void)
  | .make => (s.push (some (.table makeEncodingTable)), .val makeEncodingTable)
  | .fill t a => match s.get t, a.bits s with
    | some (.table tb), some b => match fillEncodingTableOn tb b with
      | .ok r => ((s.write t (.table r)).push (some (.table r)), .val r)
      | .error _ => (s.push none, .err)
    | _, _ => (s.push none, .void)
  | .flip k i => match s.get k with
    | some o => (s.write k (o.withContent (flipAt i o.content)), .done)
    | none => (s, .void)
  | .setAll k v => match s.get k with
    | some o => (s.write k (o.withContent (List.replicate o.content.length v)), .done)
    | none => (s, .void)
  | .read k => match s.get k with
    | some o => (s, .val o.content)
    | none => (s, .void)
  | .put k a => match s.get k, a.bits s with
    | some o, some b => if o.accepts b then (s.write k (o.withContent b), .done) else (s, .void)
    | _, _ => (s, .void)
  | .new b => (s.push (some (.bits b)), .done)
  | .nop p => (if p then s.push none else s, .void)

/-- the store after a whole history -/
def runSteps (s : Store) (hs : List Step) : Store := hs.foldl (fun s st => (step s st).1) s

/-! ### the payload block of the table (round 4: messages generated by ROW / COLUMN structure)

The harness builds messages row by row (and column by column) in the 9×11 payload block and aims the errors at cells
of the 13×15 table; these two functions are the model's side of that layout (driver ops `bptc.rows`, `bptc.table`). -/

/-- rows 0..8 × columns 0..10 of a flat 13×15 table -/
def payloadBlock (t : Bits) : List Bits :=
  (List.range 9).map (fun r => (List.range 11).map (fun c => getBit t (15 * r + c)))

/-- the payload rows `fill_encoding_table` lays a 96-bit message out in (row 0 starts with the three reserved cells) -/
def payloadRows (m : Bits) : Except Err (List Bits) :=
  if m.length = 96 then .ok (payloadBlock (fillCore deinterleaveInfoBitsOnlyMap m)) else .error .assertion

/-- all 13 rows of the table `repair_if_necessary` builds from a received word, before any correction -/
def receivedTable (w : Bits) : Except Err (List Bits) :=
  if w.length = 196 then
    let t := fillCore fullDeinterleavingMap (deinterleaveAllCore w)
    .ok ((List.range 13).map (fun r => (List.range 15).map (fun c => getBit t (15 * r + c))))
  else .error .assertion


end Dmr.Bptc
