import DmrVerif.Model.Mbxml
import DmrVerif.Gen.Lrrp

/-!
# LRRP / MBXML documents (C15) — executable model of `MBXML.from_bytes`, `read_document`, `write_part`,
`as_bytes`, `build_constants_table` and of `MBXMLDocument.get_token` / `get_attribute`

The Python walks one `bytes` object with an index.  Every read is relative to the current index and the
only absolute test is `idx != len(data)` / `idx == data_len`, so the model walks the list of octets that
are still to be read (`rest`).  A slice that runs past the end (`data[idx : idx + n]` with fewer than `n`
octets left) does not raise in Python, but leaves `idx > len(data)`; the next thing that happens is always
`read_uintvar(data, idx)` (start of the next token / next document, or the float reader of the same
token), which raises `IndexError` — there is no other statement in between that can raise.  The model
therefore raises `IndexError` at the short slice itself (`takeL`).

All tables (document ids, element / attribute token tables per document, constant table, the lists the
lookup API walks) come from `Gen/Lrrp.lean`, regenerated from `/repo` on every run.

Floats: a Python float is an exact dyadic `± num / 2^exp` (`Dy`).  A float *read* from octets is
`int + dec / 128^k`, i.e. `(int · 128^k + dec) / 2^(7k)`: exact whenever that is a double (always for
one-septet fractions with a 32-bit integer part).  When it is not, Python rounds and the model does not:
the driver marks such documents `INEXACT` and the harness does not compare them.
-/

namespace Dmr.Lrrp
open Dmr Dmr.Mbxml Dmr.Gen.Lrrp

/-- a Python float: `± num / 2^exp` -/
structure Dy where
  neg : Bool
  num : Nat
  exp : Nat
  deriving DecidableEq, Repr, Inhabited

/-- `MBXMLToken.value` of an element token -/
inductive Val where
  | none
  | bytes (b : Bytes)
  | nat (n : Nat)
  | float (d : Dy)
  | circle (lat lon : Bytes) (radius : Dy)
  | point2 (lat lon : Bytes)
  | point3 (lat lon : Bytes) (alt : Dy)
  deriving DecidableEq, Repr, Inhabited

/-- an attribute instance (a copy of the attribute definition `id` carrying a value) -/
structure Attr where
  id : Nat
  value : Nat
  deriving DecidableEq, Repr, Inhabited

/-- an entry of `MBXMLToken.attributes`: an attribute id or an attribute instance -/
inductive AttrRef where
  | id (n : Nat)
  | inst (a : Attr)
  deriving DecidableEq, Repr, Inhabited

/-- an element token of a document (`doc.parts[i]`): the fields `write_part` reads -/
structure Part where
  tokenId : Nat
  ty : TokType
  length : Option Nat
  attrs : List AttrRef
  value : Val
  deriving DecidableEq, Repr, Inhabited

/-- `MBXMLDocument`: id, `constants_table`, `is_constant_table_default`, `is_constant_table_inherited`, parts -/
structure Doc where
  id : Nat
  cdt : Bytes
  cdtDefault : Bool
  cdtInherited : Bool
  parts : List Part
  deriving DecidableEq, Repr, Inhabited

/-! ## readers on the octets still to be read -/

/-- `read_uintvar` at the read position: value and what is left -/
def readUL (rest : Bytes) : R (Nat × Bytes) :=
  match readUGo rest 0 with
  | .ok (v, n) => .ok (v, rest.drop n)
  | .error e => .error e

/-- `data[idx : idx + n]` (see the header for the short slice) -/
def takeL (n : Nat) (rest : Bytes) : R (Bytes × Bytes) :=
  if rest.length < n then .error .index else .ok (rest.take n, rest.drop n)

/-- `read_opaque`: length-prefixed octets -/
def readOpaqueL (rest : Bytes) : R (Bytes × Bytes) :=
  match readUL rest with
  | .error e => .error e
  | .ok (n, rest) => takeL n rest

/-- `integer + decimal / 128 ** k` (`copysign`ed): `int → float` overflows from 2^1024 − 2^970 on -/
def floatOf (r : FloatRes) : R Dy :=
  if r.int ≥ 2 ^ 1024 - 2 ^ 970 then .error .overflow
  else .ok ⟨r.neg, r.int * 128 ^ r.k + r.dec, 7 * r.k⟩

def readUFL (rest : Bytes) : R (Dy × Bytes) :=
  match readUF rest 0 with
  | .error e => .error e
  | .ok r => match floatOf r with
    | .error e => .error e
    | .ok d => .ok (d, rest.drop r.next)

def readSFL (rest : Bytes) : R (Dy × Bytes) :=
  match readSF rest 0 with
  | .error e => .error e
  | .ok r => match floatOf r with
    | .error e => .error e
    | .ok d => .ok (d, rest.drop r.next)

/-! ## configuration of a document type -/

structure Config where
  etbl : List ElemTok
  atbl : List AttrTok
  consts : List String
  deriving Repr

def lookupElem (tbl : List ElemTok) (id : Nat) : Option ElemTok := tbl.find? (fun t => t.id == id)
def lookupAttr (tbl : List AttrTok) (id : Nat) : Option AttrTok := tbl.find? (fun t => t.id == id)

/-- `MBXMLDocumentIdentifier.resolve` -/
def resolveDoc (docId : Nat) : Option DocId := docIds.find? (fun d => d.id == docId)

/-- `get_implementation(doctype).get_configuration(doctype)` and the two subscripts in `read_document`:
an unknown id is `None.name` (AttributeError), the base class returns `None` (TypeError on subscript),
ARRP returns `{}` (KeyError) -/
def configOf (docId : Nat) : R (DocId × Config) :=
  match resolveDoc docId with
  | none => .error .attribute
  | some d =>
    match d.impl with
    | .other => .error .type
    | .arrp => .error .key
    | .lrrp =>
      match elementTable docId, attributeTable docId, constantTable docId with
      | some e, some a, some (c, _) => .ok (d, ⟨e, a, c⟩)
      | _, _, _ => .error .key

/-- `str.encode("ascii")` of an ASCII string -/
def asciiBytes (s : String) : Bytes := s.toList.map Char.toNat

/-- `MBXML.build_constants_table`: `write_part(STR8_I constant)[1:]` for every constant, concatenated -/
def buildConstants (consts : List String) : Bytes :=
  consts.flatMap (fun s => writeURaw s.length ++ asciiBytes s)

/-! ## read_document -/

/-- the attribute loop of an attribute-prefixed opaque token: a uintvar per attribute id -/
def readAttrs (atbl : List AttrTok) : List Nat → Bytes → R (List AttrRef × Bytes)
  | [], rest => .ok ([], rest)
  | a :: as, rest =>
    match lookupAttr atbl a with
    | none => .error .key
    | some _ =>
      match readUL rest with
      | .error e => .error e
      | .ok (v, rest) =>
        match readAttrs atbl as rest with
        | .error e => .error e
        | .ok (l, rest) => .ok (AttrRef.inst ⟨a, v⟩ :: l, rest)

/-- the value of a token of definition `tc`, read at `rest` (the `if / elif` chain of `read_document`) -/
def readValue (atbl : List AttrTok) (tc : ElemTok) (rest : Bytes) : R (List AttrRef × Val × Bytes) :=
  let ids := tc.attrs.map AttrRef.id
  match tc.ty with
  | .OPAQUE_I =>
    match tc.length with
    | some (n + 1) =>
      match takeL (n + 1) rest with
      | .error e => .error e
      | .ok (v, rest) => .ok (ids, .bytes v, rest)
    | some 0 => .ok (ids, .bytes [], rest)
    | none =>
      if tc.attrs.isEmpty then
        match readOpaqueL rest with
        | .error e => .error e
        | .ok (v, rest) => .ok (ids, .bytes v, rest)
      else
        match readAttrs atbl tc.attrs rest with
        | .error e => .error e
        | .ok (as, rest) =>
          match readOpaqueL rest with
          | .error e => .error e
          | .ok (v, rest) => .ok (as, .bytes v, rest)
  | .INFO_TIME =>
    match takeL 5 rest with
    | .error e => .error e
    | .ok (v, rest) => .ok (ids, .bytes v, rest)
  | .UINT8 =>
    match rest with
    | [] => .error .index
    | b :: rest => .ok (ids, .nat b, rest)
  | .NO_VALUE => .ok (ids, .none, rest)
  | .UFLOATVAR =>
    match readUFL rest with
    | .error e => .error e
    | .ok (d, rest) => .ok (ids, .float d, rest)
  | .SFLOATVAR =>
    match readSFL rest with
    | .error e => .error e
    | .ok (d, rest) => .ok (ids, .float d, rest)
  | .UINTVAR =>
    match readUL rest with
    | .error e => .error e
    | .ok (v, rest) => .ok (ids, .nat v, rest)
  | .CIRCLE_2D =>
    match takeL 4 rest with
    | .error e => .error e
    | .ok (lat, rest) =>
      match takeL 4 rest with
      | .error e => .error e
      | .ok (lon, rest) =>
        match readUFL rest with
        | .error e => .error e
        | .ok (d, rest) => .ok (ids, .circle lat lon d, rest)
  | .POINT_2D =>
    match takeL 4 rest with
    | .error e => .error e
    | .ok (lat, rest) =>
      match takeL 4 rest with
      | .error e => .error e
      | .ok (lon, rest) => .ok (ids, .point2 lat lon, rest)
  | .POINT_3D =>
    match takeL 4 rest with
    | .error e => .error e
    | .ok (lat, rest) =>
      match takeL 4 rest with
      | .error e => .error e
      | .ok (lon, rest) =>
        match readSFL rest with
        | .error e => .error e
        | .ok (d, rest) => .ok (ids, .point3 lat lon d, rest)
  | _ => .error .value

/-- one iteration of the token loop: token id, definition (`KeyError` if absent), value -/
def readToken (etbl : List ElemTok) (atbl : List AttrTok) (rest : Bytes) : R (Part × Bytes) :=
  match readUL rest with
  | .error e => .error e
  | .ok (tid, rest) =>
    match lookupElem etbl tid with
    | none => .error .key
    | some tc =>
      match readValue atbl tc rest with
      | .error e => .error e
      | .ok (as, v, rest) => .ok (⟨tid, tc.ty, tc.length, as, v⟩, rest)

/-- `while idx != len(data)`: fuel is only there to make the recursion structural -/
def readTokens (etbl : List ElemTok) (atbl : List AttrTok) : Nat → Bytes → R (List Part)
  | _, [] => .ok []
  | 0, _ :: _ => .error .fuel
  | f + 1, b :: t =>
    match readToken etbl atbl (b :: t) with
    | .error e => .error e
    | .ok (p, rest) =>
      match readTokens etbl atbl f rest with
      | .error e => .error e
      | .ok ps => .ok (p :: ps)

/-- the constant table part of `read_document`: (table, is default, is inherited, what is left) -/
def readCdt (d : DocId) (cfg : Config) (body : Bytes) (prev : Option Doc) : R (Bytes × Bool × Bool × Bytes) :=
  if !d.ncdt then
    match readUL body with
    | .error e => .error e
    | .ok (n, rest) =>
      if n = 1 then
        match prev with
        | some p => .ok (p.cdt, p.cdtDefault, true, rest)
        | none => .ok ([], true, true, rest)
      else
        match takeL n rest with
        | .error e => .error e
        | .ok (t, rest) => .ok (t, false, false, rest)
  else .ok (buildConstants cfg.consts, true, false, body)

/-- `MBXML.read_document(doctype, data[: idx + doc_len], idx, previous_doc)` on the document's octets -/
def readDocument (docId : Nat) (body : Bytes) (prev : Option Doc) : R Doc :=
  match configOf docId with
  | .error e => .error e
  | .ok (d, cfg) =>
    match readCdt d cfg body prev with
    | .error e => .error e
    | .ok (cdt, dflt, inh, rest) =>
      match readTokens cfg.etbl cfg.atbl rest.length rest with
      | .error e => .error e
      | .ok parts => .ok ⟨docId, cdt, dflt, inh, parts⟩

/-- the `while True` loop of `MBXML.from_bytes` -/
def parseDocs : Nat → Bytes → Option Doc → R (List Doc)
  | 0, _, _ => .error .fuel
  | f + 1, rest, prev =>
    match readUL rest with
    | .error e => .error e
    | .ok (docId, r1) =>
      match readUL r1 with
      | .error e => .error e
      | .ok (docLen, r2) =>
        match readDocument docId (r2.take docLen) prev with
        | .error e => .error e
        | .ok doc =>
          -- idx += doc_len_bytes; beyond the end the next read_uintvar raises
          if r2.length < docLen then .error .index
          else if (r2.drop docLen).isEmpty then .ok [doc]
          else
            match parseDocs f (r2.drop docLen) (some doc) with
            | .error e => .error e
            | .ok ds => .ok (doc :: ds)

/-- `MBXML.from_bytes(data)` -/
def parse (x : Bytes) : R (List Doc) := parseDocs (x.length + 1) x none

/-! ## write_part / as_bytes -/

/-- `bytes([part.token_id])` -/
def idByte (id : Nat) : R Bytes := if id ≥ 256 then .error .value else .ok [id]

/-- the uintvars of the attribute instances of a part, in list order -/
def writeAttrs : List AttrRef → R Bytes
  | [] => .ok []
  | .id _ :: t => writeAttrs t
  | .inst a :: t =>
    match writeU a.value with
    | .error e => .error e
    | .ok b =>
      match writeAttrs t with
      | .error e => .error e
      | .ok bs => .ok (b ++ bs)

/-- `MBXML.write_part(part)` for values of the shape the token type expects (anything else: TypeError) -/
def writePart (p : Part) : R Bytes :=
  match idByte p.tokenId with
  | .error e => .error e
  | .ok idb =>
    match p.ty, p.value with
    | .OPAQUE_I, .bytes v =>
      match p.length with
      | some (_ + 1) => .ok (idb ++ v)
      | len =>
        match writeAttrs p.attrs with
        | .error e => .error e
        | .ok as =>
          if len = some 0 then .ok (idb ++ as)
          else match writeU v.length with
            | .error e => .error e
            | .ok l => .ok (idb ++ as ++ l ++ v)
    | .UINTVAR, .nat n =>
      match writeU n with
      | .error e => .error e
      | .ok b => .ok (idb ++ b)
    | .INFO_TIME, .bytes v => .ok (idb ++ v)
    | .POINT_2D, .point2 lat lon => .ok (idb ++ lat ++ lon)
    | .POINT_3D, .point3 lat lon alt =>
      match writeSF alt.neg alt.num alt.exp 1 with
      | .error e => .error e
      | .ok b => .ok (idb ++ lat ++ lon ++ b)
    | .NO_VALUE, _ => .ok idb
    | .UINT8, .nat n => if n ≥ 256 then .error .overflow else .ok (idb ++ [n])
    | .UFLOATVAR, .float d =>
      if d.neg && d.num != 0 then .error .assertion       -- negative values are outside write_ufloatvar's domain
      else match writeUF d.num d.exp 1 with
        | .error e => .error e
        | .ok b => .ok (idb ++ b)
    | .SFLOATVAR, .float d =>
      match writeSF d.neg d.num d.exp 1 with
      | .error e => .error e
      | .ok b => .ok (idb ++ b)
    | .CIRCLE_2D, .circle lat lon r =>
      if r.neg && r.num != 0 then .error .assertion
      else match writeUF r.num r.exp 1 with
        | .error e => .error e
        | .ok b => .ok (idb ++ lat ++ lon ++ b)
    | .OPAQUE_I, _ | .UINTVAR, _ | .INFO_TIME, _ | .POINT_2D, _ | .POINT_3D, _ | .UINT8, _
    | .UFLOATVAR, _ | .SFLOATVAR, _ | .CIRCLE_2D, _ => .error .type
    | _, _ => .error .value                                  -- write_part not implemented for this type

/-- the parts of a document, written in order (the first failing part raises) -/
def writeParts : List Part → R Bytes
  | [] => .ok []
  | p :: ps =>
    match writePart p with
    | .error e => .error e
    | .ok b =>
      match writeParts ps with
      | .error e => .error e
      | .ok bs => .ok (b ++ bs)

/-- the constant table part of `as_bytes` -/
def writeCdt (d : Doc) : R Bytes :=
  if d.cdtInherited then writeU 1
  else if !d.cdtDefault then
    match writeU d.cdt.length with
    | .error e => .error e
    | .ok l => .ok (l ++ d.cdt)
  else .ok []

/-- `MBXML.as_bytes(doc)` -/
def asBytes (d : Doc) : R Bytes :=
  match writeU d.id with
  | .error e => .error e
  | .ok idb =>
    match writeCdt d with
    | .error e => .error e
    | .ok cdtb =>
      match writeParts d.parts with
      | .error e => .error e
      | .ok ps =>
        match writeU (cdtb ++ ps).length with
        | .error e => .error e
        | .ok lb => .ok (idb ++ lb ++ (cdtb ++ ps))

/-! ## the token lookup API: `MBXMLDocument.get_attribute` / `get_token` (as inherited by `LRRP`) -/

/-- `name: Union[str, int]` -/
inductive Key where
  | name (s : String)
  | id (n : Nat)
  deriving DecidableEq, Repr, Inhabited

def Key.matchesId (k : Key) (id : Nat) (name : String) : Bool :=
  match k with
  | .name s => name == s
  | .id n => id == n

def knownTokens (isRequest : Bool) : List (List ElemTok) :=
  if isRequest then knownTokensRequest else knownTokensAnswer

def knownAttributes (isRequest : Bool) : List (List AttrTok) :=
  if isRequest then knownAttributesRequest else knownAttributesAnswer

/-- `get_attribute(name, value)`: the first definition with that name / id whose preset value is `None`
or equals `value`; returns its id and "value is not None and differs from the preset" -/
def getAttribute (isRequest : Bool) (k : Key) (value : Option Nat) : R (Nat × Bool) :=
  match ((knownAttributes isRequest).flatten.find?
      (fun a => k.matchesId a.id a.name && !(a.value.isSome && a.value != value))) with
  | some a => .ok (a.id, value.isSome && value != a.value)
  | none => .error .notFound

/-- the loop over the requested attributes for one candidate definition:
`none` = not a valid candidate, `some l` = the attribute instances to set -/
def candidateAttrs (tc : ElemTok) : List (Key × Option Nat) → R (Option (List Attr))
  | [] => .ok (some [])
  | (k, v) :: rest =>
    match getAttribute true k v with
    | .error e => .error e
    | .ok (aid, changed) =>
      if !tc.attrs.contains aid then .ok none
      else
        match candidateAttrs tc rest with
        | .error e => .error e
        | .ok none => .ok none
        | .ok (some l) => .ok (some (if changed then ⟨aid, v.getD 0⟩ :: l else l))

/-- `t.attributes.remove(id); t.attributes.append(instance)` for every instance (`remove` of an id that
is no longer there is ValueError) -/
def setAttrs : List AttrRef → List Attr → R (List AttrRef)
  | l, [] => .ok l
  | l, a :: as =>
    if l.contains (.id a.id) then setAttrs (l.erase (.id a.id) ++ [.inst a]) as
    else .error .value

def getTokenGo (k : Key) (value : Val) (attrs : List (Key × Option Nat)) : List ElemTok → R Part
  | [] => .error .notFound
  | tc :: rest =>
    if k.matchesId tc.id tc.name then
      match candidateAttrs tc attrs with
      | .error e => .error e
      | .ok none => getTokenGo k value attrs rest
      | .ok (some insts) =>
        match setAttrs (tc.attrs.map AttrRef.id) insts with
        | .error e => .error e
        | .ok as => .ok ⟨tc.id, tc.ty, tc.length, as, value⟩
    else getTokenGo k value attrs rest

/-- `LRRP.get_token(name, value, attributes, is_request)` -/
def getToken (isRequest : Bool) (k : Key) (value : Val) (attrs : List (Key × Option Nat)) : R Part :=
  getTokenGo k value attrs (knownTokens isRequest).flatten

/-- a sequence of `get_token` calls (the first one that raises ends the assembly) -/
def getTokens (isRequest : Bool) : List (Key × Val × List (Key × Option Nat)) → R (List Part)
  | [] => .ok []
  | (k, v, a) :: rest =>
    match getToken isRequest k v a with
    | .error e => .error e
    | .ok p =>
      match getTokens isRequest rest with
      | .error e => .error e
      | .ok ps => .ok (p :: ps)

/-- a document assembled by hand: `LRRP(document_id=…)` with `parts` appended -/
def newDoc (docId : Nat) (parts : List Part) : Doc := ⟨docId, [], true, false, parts⟩

/-! ## canonical documents (decidable predicates used by the theorems)

A part / document is *canonical* when it is what the parser produces from canonical octets: the token is
in the document's table, its fields are the definition's, the value has the shape and range of the
token's type (one-septet fraction: `exp = 7`; no negative zero), every wire attribute is present in
table order with an in-range value. -/

/-- a float with a one-septet fraction: `± (i + f/128)` stored as `⟨neg, i·128 + f, 7⟩` -/
def dyOk (signed : Bool) (d : Dy) : Bool :=
  d.exp == 7 && decide (d.num / 128 ≤ (if signed then SINTVAR_MAX else UINTVAR_MAX))
    && (signed || !d.neg) && !(d.neg && d.num == 0)

/-- the attribute instances of an attribute-prefixed token: one per attribute id, in order -/
def attrsOk (atbl : List AttrTok) : List Nat → List AttrRef → Bool
  | [], [] => true
  | i :: ids, .inst a :: as =>
    a.id == i && decide (a.value ≤ UINTVAR_MAX) && (lookupAttr atbl i).isSome && attrsOk atbl ids as
  | _, _ => false

def valueOk (atbl : List AttrTok) (tc : ElemTok) (p : Part) : Bool :=
  let ids := tc.attrs.map AttrRef.id
  match tc.ty, p.value with
  | .OPAQUE_I, .bytes b =>
    match tc.length with
    | some (n + 1) => b.length == n + 1 && p.attrs == ids
    | some 0 => b == [] && p.attrs == ids
    | none =>
      decide (b.length ≤ UINTVAR_MAX)
        && (if tc.attrs.isEmpty then p.attrs == ids else attrsOk atbl tc.attrs p.attrs)
  | .INFO_TIME, .bytes b => b.length == 5 && p.attrs == ids
  | .UINT8, .nat n => decide (n < 256) && p.attrs == ids
  | .NO_VALUE, .none => p.attrs == ids
  | .UFLOATVAR, .float d => dyOk false d && p.attrs == ids
  | .SFLOATVAR, .float d => dyOk true d && p.attrs == ids
  | .UINTVAR, .nat n => decide (n ≤ UINTVAR_MAX) && p.attrs == ids
  | .CIRCLE_2D, .circle la lo r => la.length == 4 && lo.length == 4 && dyOk false r && p.attrs == ids
  | .POINT_2D, .point2 la lo => la.length == 4 && lo.length == 4 && p.attrs == ids
  | .POINT_3D, .point3 la lo a => la.length == 4 && lo.length == 4 && dyOk true a && p.attrs == ids
  | _, _ => false

/-- canonical part of a document with element table `etbl` and attribute table `atbl` -/
def partOk (etbl : List ElemTok) (atbl : List AttrTok) (p : Part) : Bool :=
  match lookupElem etbl p.tokenId with
  | none => false
  | some tc =>
    decide (p.tokenId < 128) && p.ty == tc.ty && p.length == tc.length && valueOk atbl tc p

/-- the octets of the document body (`constant table part ++ parts`) -/
def bodyOf (d : Doc) : R Bytes :=
  match writeCdt d with
  | .error e => .error e
  | .ok c =>
    match writeParts d.parts with
    | .error e => .error e
    | .ok ps => .ok (c ++ ps)

/-- canonical document, given the document before it in the buffer: an LRRP id; an NCDT id uses the
default table; any other id either inherits (`CDT_LEN = 1`, table and flag of the predecessor) or
carries an inline table whose length is not 1; canonical parts; the body fits a uintvar length -/
def docOk (prev : Option Doc) (d : Doc) : Bool :=
  match configOf d.id with
  | .error _ => false
  | .ok (di, cfg) =>
    decide (d.id ≤ UINTVAR_MAX) && d.parts.all (partOk cfg.etbl cfg.atbl)
      && (if di.ncdt then d.cdtDefault && !d.cdtInherited
          else if d.cdtInherited then
            (match prev with
             | some p => d.cdt == p.cdt && d.cdtDefault == p.cdtDefault
             | none => d.cdt == [] && d.cdtDefault)
          else !d.cdtDefault && d.cdt.length != 1 && decide (d.cdt.length ≤ UINTVAR_MAX))
      && (match bodyOf d with
          | .ok b => decide (b.length ≤ UINTVAR_MAX)
          | .error _ => false)

/-- what the parser makes of a document: for an NCDT id the constant table is the default one
(`as_bytes` writes nothing for it, whatever the document object holds) -/
def normDoc (d : Doc) : Doc :=
  match configOf d.id with
  | .ok (di, cfg) => if di.ncdt then { d with cdt := buildConstants cfg.consts } else d
  | .error _ => d

/-- canonical documents of one buffer (each one judged against its parsed predecessor) -/
def docsOk : Option Doc → List Doc → Bool
  | _, [] => true
  | prev, d :: ds => docOk prev d && docsOk (some (normDoc d)) ds

/-- `as_bytes` of every document, concatenated -/
def asBytesAll : List Doc → R Bytes
  | [] => .ok []
  | d :: ds =>
    match asBytes d with
    | .error e => .error e
    | .ok b =>
      match asBytesAll ds with
      | .error e => .error e
      | .ok bs => .ok (b ++ bs)

end Dmr.Lrrp
