import DmrVerif.Model.PyBits

/-!
# Prelude extension of the Python→Lean source translator for byte-oriented object codecs (`tools/py2lean_obj.py`)

Core Lean only (compiled into the native drivers).  Same SOUNDNESS RULE as `Model/Py.lean` / `Model/PyBits.lean`: whenever a
translated function returns anything other than `.error (.unsupported _)` / `.error .fuel`, that is exactly what CPython
returns / raises for the same arguments of the static types the function was translated for.

Carriers added here

| Python                          | Lean                                                                                      |
|---------------------------------|-------------------------------------------------------------------------------------------|
| `str`                           | `PyObj.Str`: the string REPRESENTED BY ITS UTF-8 ENCODING (`utf8 : List Nat`).  Domain: the strings `str.encode("utf-8")` accepts (no lone surrogates); on it the encoding is a bijection onto the well-formed UTF-8 octet strings, so `==` on the carrier is `==` on the strings and the empty string is the empty carrier.  An argument of type `str` is assumed to be such a value (hypothesis of the theorems, like `isBytes` for `bytes`) |
| member of an `enum.Enum` outside the element packages (Motorola / Hytera) | `Int`, its `.value`; `E(v)` through the value graph of `Gen/Ars.lean`, `Gen/Tms.lean`, `Gen/Ipsc.lean` (regenerated on every run by calling the live class, `_missing_` hooks included) |
| `x.encode("utf-8")`, `b.decode("utf-8")` | fields of the unit's `Ext` (call boundary; the theorems instantiate them with the model's codec) |
-/

namespace Dmr.PyObj
open Dmr Dmr.Py

/-- a Python `str`, represented by its UTF-8 encoding -/
structure Str where
  utf8 : List Nat
  deriving DecidableEq, Repr, Inhabited

/-- `not s` / `bool(s)`: the empty string is the one with the empty encoding -/
def Str.isEmpty (s : Str) : Bool := s.utf8.isEmpty

/-- `len(s)`: the number of code points = the number of octets of the (well-formed) encoding that are not continuation
octets `10xxxxxx` -/
def strLen (s : Str) : Int := Int.ofNat (s.utf8.filter (fun b => !(decide (0x80 ≤ b) && decide (b < 0xC0)))).length

/-- `E(v)` for an enumeration given by the list of its member values `vals` (declaration order) and the graph of the call
`graph[v] = some i` (member number `i` is returned, possibly by `_missing_`) / `none` (`ValueError`), extracted over
`0 ≤ v < graph.length`.  Outside the extracted range — and for a graph entry that names no member — the call is
`unsupported`, never guessed. -/
def enumCall (name : String) (vals : List Nat) (graph : List (Option Nat)) (v : Int) : PyM Int :=
  if v < 0 then throw (.unsupported ("enum call outside the extracted graph: " ++ name))
  else match graph[v.toNat]? with
    | some (some i) =>
      match vals[i]? with
      | some m => pure ((m : Nat) : Int)
      | none => throw (.unsupported ("enum graph names no member: " ++ name))
    | some none => throw .value
    | none => throw (.unsupported ("enum call outside the extracted graph: " ++ name))

/-- `E(v)` for an enumeration whose members are identified with their values, given by the graph of the call
`graph[v] = some m` (the member with value `m` is returned) / `none` (`ValueError`), extracted over `0 ≤ v < graph.length` -/
def enumCallV (name : String) (graph : List (Option Nat)) (v : Int) : PyM Int :=
  if v < 0 then throw (.unsupported ("enum call outside the extracted graph: " ++ name))
  else match graph[v.toNat]? with
    | some (some m) => pure ((m : Nat) : Int)
    | some none => throw .value
    | none => throw (.unsupported ("enum call outside the extracted graph: " ++ name))

/-- `E((c, v))` for an enumeration whose member values are pairs `(bool, int)`: a member is represented by its NUMBER in the
declared order; the graph of the call is extracted for `c ∈ {0, 1}` (`False == 0`, `True == 1` as dictionary keys) and
`0 ≤ v < 16` as entry `16·c + v`: `some i` = member number `i`, `none` = `ValueError`.  Everything else is `unsupported`. -/
def enumCallPair (name : String) (graph : List (Option Nat)) (c v : Int) : PyM Int :=
  if c < 0 ∨ 1 < c ∨ v < 0 ∨ 15 < v then throw (.unsupported ("enum call outside the extracted graph: " ++ name))
  else match graph[(16 * c + v).toNat]? with
    | some (some i) => pure ((i : Nat) : Int)
    | some none => throw .value
    | none => throw (.unsupported ("enum call outside the extracted graph: " ++ name))

/-- `member.value` of such an enumeration: the pair of member number `i` (`vals` = the member values in the declared order) -/
def pairVal (vals : List (Bool × Nat)) (i : Int) : PyM (Bool × Int) :=
  if i < 0 then throw (.unsupported "member number outside the value table")
  else match vals[i.toNat]? with
    | some (b, n) => pure (b, ((n : Nat) : Int))
    | none => throw (.unsupported "member number outside the value table")

/-- truth value of an `Optional[T]`: `None` is false, otherwise the truth value of the `T` -/
def truthyOpt {α : Type} (f : α → Bool) : Option α → Bool
  | none => false
  | some v => f v

/-- truth value of an `Optional[T]` whose `T` has a translated `__len__` -/
def truthyOptM {α : Type} (f : α → PyM Bool) : Option α → PyM Bool
  | none => pure false
  | some v => f v

/-- `bool(o)` of an object whose class defines `__len__` and no `__bool__`: CPython calls `__len__`; a negative result is
`ValueError`, one above `sys.maxsize` (2^63 − 1) `OverflowError`, else `len != 0` -/
def truthyLen (n : Int) : PyM Bool :=
  if n < 0 then throw .value else if n ≥ 2 ^ 63 then throw .overflow else pure (n != 0)

/-- `recv.method(...)` of a method that assigns attributes of its object and ends with `return self`, called on a FRESH
object (result of a constructor): the value of the call is the updated object -/
def fst {α : Type} (m : PyM (α × Unit)) : PyM α := do
  let p ← m
  pure p.1

/-- `hasattr(x, "__len__")` / `isinstance(x, T)` of an `Optional[T]` value whose `T` qualifies: false exactly on `None` -/
def isSome {α : Type} (o : Option α) : Bool := o.isSome

@[simp] theorem truthyOpt_none {α : Type} (f : α → Bool) : truthyOpt f none = false := rfl
@[simp] theorem truthyOpt_some {α : Type} (f : α → Bool) (v : α) : truthyOpt f (some v) = f v := rfl
@[simp] theorem truthyOptM_none {α : Type} (f : α → PyM Bool) : truthyOptM f none = .ok false := rfl
@[simp] theorem truthyOptM_some {α : Type} (f : α → PyM Bool) (v : α) : truthyOptM f (some v) = f v := rfl
@[simp] theorem fst_ok {α : Type} (a : α) : fst (.ok (a, ())) = .ok a := rfl
@[simp] theorem fst_error {α : Type} (e : PyErr) : fst (.error e : PyM (α × Unit)) = .error e := rfl
@[simp] theorem truthyLen_one : truthyLen 1 = .ok true := by decide

theorem enumCall_ofNat (name : String) (vals : List Nat) (graph : List (Option Nat)) (v : Nat) :
    enumCall name vals graph (v : Int) = match graph[v]? with
      | some (some i) =>
        (match vals[i]? with
         | some m => .ok ((m : Nat) : Int)
         | none => .error (.unsupported ("enum graph names no member: " ++ name)))
      | some none => .error .value
      | none => .error (.unsupported ("enum call outside the extracted graph: " ++ name)) := by
  unfold enumCall
  have h : ¬ ((v : Int) < 0) := by omega
  simp only [h, if_false, Int.toNat_natCast]
  rfl

end Dmr.PyObj
