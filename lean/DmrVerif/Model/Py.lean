/-!
# Semantic prelude of the Python→Lean source translator (`tools/py2lean.py`)

Core Lean only (this file is compiled into the native drivers).  Every definition here is the meaning the
translator gives to ONE Python construct; the soundness rule of the translator is

  whenever a translated function returns anything other than `.error (.unsupported _)` / `.error .fuel`,
  that is exactly what CPython (3.x, asserts enabled) returns / raises for the same arguments of the annotated types.

Python values of the subset and their Lean carriers

| Python                      | Lean                                   |
|-----------------------------|----------------------------------------|
| `int` (unbounded)           | `Int`                                  |
| `bool`                      | `Bool` (`Py.ofBool` where it is used as a number) |
| `bytes`                     | `List Nat`, every element `< 256` (invariant of every value the prelude builds; hypothesis for arguments) |
| `list` / `tuple` of `int`   | `List Int`                             |
| class-level table of naturals | `List Nat`                           |
| fixed-size tuple            | product                                |
| exception                   | `PyErr`, `PyM α = Except PyErr α`      |

The soundness argument of every definition is in its doc comment (and collected in `TRANSL_NOTES.md`); the
differential run `t.*` (driver `Driver/Transl.lean`, `run_transl` of the harness modules) executes them against CPython
on every check.
-/

namespace Dmr.Py

/-- the exceptions translated code can raise.  `fuel` and `unsupported` are not Python exceptions: they mean "the run
left the translated domain" and are proved unreachable in the equality theorems. -/
inductive PyErr
  | assertion | index | value | type | zeroDivision | overflow
  | other (cls : String)
  | fuel
  | unsupported (what : String)
  deriving DecidableEq, Repr

abbrev PyM := Except PyErr

instance {ε α : Type} [DecidableEq ε] [DecidableEq α] : DecidableEq (Except ε α)
  | .ok a, .ok b => if h : a = b then isTrue (by rw [h]) else isFalse (by intro e; cases e; exact h rfl)
  | .error a, .error b => if h : a = b then isTrue (by rw [h]) else isFalse (by intro e; cases e; exact h rfl)
  | .ok _, .error _ => isFalse (by intro e; cases e)
  | .error _, .ok _ => isFalse (by intro e; cases e)

/-- class name of the Python exception (line protocol of the drivers) -/
def PyErr.name : PyErr → String
  | .assertion => "ERR AssertionError"
  | .index => "ERR IndexError"
  | .value => "ERR ValueError"
  | .type => "ERR TypeError"
  | .zeroDivision => "ERR ZeroDivisionError"
  | .overflow => "ERR OverflowError"
  | .other c => "ERR " ++ c
  | .fuel => "FUEL"
  | .unsupported w => "UNSUPPORTED " ++ w

/-- `assert c` (asserts enabled; the message is not observable) -/
def assert (c : Bool) : PyM Unit := if c then pure () else throw .assertion

/-- `int(b)` of a `bool` / a `bool` used in arithmetic -/
def ofBool (b : Bool) : Int := if b then 1 else 0

/-! ### integers -/

/-- `a & b` on unbounded two's-complement integers.  `Int.negSucc m` is `-(m+1) = ~m`, so the four cases are
`m & n`, `m & ~n` (= `m` without the bits of `n` = `m xor (m & n)`), `~m & n`, `~m & ~n = ~(m | n)`. -/
def band : Int → Int → Int
  | .ofNat m, .ofNat n => .ofNat (m &&& n)
  | .ofNat m, .negSucc n => .ofNat (m ^^^ (m &&& n))
  | .negSucc m, .ofNat n => .ofNat (n ^^^ (n &&& m))
  | .negSucc m, .negSucc n => .negSucc (m ||| n)

/-- `a | b`: `m | n`, `m | ~n = ~(n & ~m)`, `~m | n = ~(m & ~n)`, `~m | ~n = ~(m & n)` -/
def bor : Int → Int → Int
  | .ofNat m, .ofNat n => .ofNat (m ||| n)
  | .ofNat m, .negSucc n => .negSucc (n ^^^ (n &&& m))
  | .negSucc m, .ofNat n => .negSucc (m ^^^ (m &&& n))
  | .negSucc m, .negSucc n => .negSucc (m &&& n)

/-- `a ^ b`: `m ^ n`, `m ^ ~n = ~(m ^ n)`, `~m ^ n = ~(m ^ n)`, `~m ^ ~n = m ^ n` -/
def bxor : Int → Int → Int
  | .ofNat m, .ofNat n => .ofNat (m ^^^ n)
  | .ofNat m, .negSucc n => .negSucc (m ^^^ n)
  | .negSucc m, .ofNat n => .negSucc (m ^^^ n)
  | .negSucc m, .negSucc n => .ofNat (m ^^^ n)

/-- `~a = -a - 1` -/
def binvert (a : Int) : Int := -a - 1

/-- `a << n`: `ValueError` for a negative count, else `a · 2^n` (exact for either sign) -/
def shl (a n : Int) : PyM Int := if n < 0 then throw .value else pure (a * 2 ^ n.toNat)

/-- `a >> n`: `ValueError` for a negative count, else `floor(a / 2^n)` (`Int./` is floor for a positive divisor) -/
def shr (a n : Int) : PyM Int := if n < 0 then throw .value else pure (a / 2 ^ n.toNat)

/-- `a << n` for a literal count `n ≥ 0` -/
def shlN (a : Int) (n : Nat) : Int := a * 2 ^ n

/-- `a >> n` for a literal count `n ≥ 0` (floor) -/
def shrN (a : Int) (n : Nat) : Int := a / 2 ^ n

/-- `a // b` (floor) -/
def floordiv (a b : Int) : PyM Int := if b = 0 then throw .zeroDivision else pure (Int.fdiv a b)

/-- `a % b` (sign of the divisor) -/
def mod (a b : Int) : PyM Int := if b = 0 then throw .zeroDivision else pure (Int.fmod a b)

/-- `a // n` for a literal divisor `n ≠ 0` (no `ZeroDivisionError` possible) -/
def floordivL (a n : Int) : Int := Int.fdiv a n

/-- `a % n` for a literal divisor `n ≠ 0` -/
def modL (a n : Int) : Int := Int.fmod a n

/-- `abs(a)` -/
def abs (a : Int) : Int := Int.ofNat a.natAbs

/-- `a ** n` for `n ≥ 0` (a negative exponent gives a float: outside the subset) -/
def pow (a n : Int) : PyM Int := if n < 0 then throw (.unsupported "negative exponent") else pure (a ^ n.toNat)

/-! ### sequences -/

/-- `len(l)` -/
def len {α : Type} (l : List α) : Int := Int.ofNat l.length

/-- index normalisation of `l[i]`: `0 ≤ i < n` as is, `-n ≤ i < 0` counts from the end, everything else `IndexError` -/
def normIndex (n : Nat) (i : Int) : PyM Nat :=
  if 0 ≤ i then (if i < n then pure i.toNat else throw .index)
  else if 0 ≤ i + n then pure (i + n).toNat else throw .index

/-- `l[i]` -/
def getItem {α : Type} (l : List α) (i : Int) : PyM α := do
  let k ← normIndex l.length i
  match l[k]? with
  | some x => pure x
  | none => throw .index

/-- `b[i]` of a `bytes` / a table of naturals: an `int` -/
def getB (l : List Nat) (i : Int) : PyM Int := do
  let x ← getItem l i
  pure (Int.ofNat x)

/-- `l[i]` of a list of ints -/
def getI (l : List Int) (i : Int) : PyM Int := getItem l i

/-- `l[i] = v` on a local list (state threading: the new list is returned) -/
def setI (l : List Int) (i : Int) (v : Int) : PyM (List Int) := do
  let k ← normIndex l.length i
  pure (l.set k v)

/-- `l.pop()` as a statement (the value is dropped): `IndexError` on an empty list -/
def popLast (l : List Int) : PyM (List Int) := if l.isEmpty then throw .index else pure l.dropLast

/-- a slice bound: negative counts from the end (not below 0), positive is cut at `n` -/
def clampIdx (n : Nat) (i : Int) : Nat := if i < 0 then (i + n).toNat else min i.toNat n

/-- `l[i:j]` (step 1; `none` = bound left out); never raises -/
def slice {α : Type} (l : List α) (i j : Option Int) : List α :=
  let n := l.length
  let lo := match i with | none => 0 | some i => clampIdx n i
  let hi := match j with | none => n | some j => clampIdx n j
  (l.drop lo).take (hi - lo)

/-- `l[::-1]` -/
def rev {α : Type} (l : List α) : List α := l.reverse

/-- the ints a `for x in b` / `zip(b, …)` over a `bytes` yields -/
def iterB (l : List Nat) : List Int := l.map Int.ofNat

/-- one element of `bytes(iterable)`: `ValueError` outside `0..255` -/
def byteVal (v : Int) : PyM Nat := if 0 ≤ v ∧ v < 256 then pure v.toNat else throw .value

/-- `bytes(f(x) for x in l)`: CPython pulls one item at a time and range-checks it before the next item is computed,
so an exception of `f` and the `ValueError` occur in element order -/
def bytesGen {α : Type} : List α → (α → PyM Int) → PyM (List Nat)
  | [], _ => pure []
  | x :: xs, f => do
    let v ← f x
    let b ← byteVal v
    let r ← bytesGen xs f
    pure (b :: r)

/-- `bytes(l)` of a list / tuple of ints -/
def toBytes (l : List Int) : PyM (List Nat) := bytesGen l pure

/-- `[f(x) for x in l]` -/
def listGen {α : Type} : List α → (α → PyM Int) → PyM (List Int)
  | [], _ => pure []
  | x :: xs, f => do
    let v ← f x
    let r ← listGen xs f
    pure (v :: r)

/-- `sum(f(x) for x in l)` -/
def sumGen {α : Type} (l : List α) (f : α → PyM Int) : PyM Int := do
  let vs ← listGen l f
  pure (vs.foldl (· + ·) 0)

/-- `all(f(x) for x in l)`: stops at the first false item -/
def allGen {α : Type} : List α → (α → PyM Bool) → PyM Bool
  | [], _ => pure true
  | x :: xs, f => do
    let v ← f x
    if v then allGen xs f else pure false

/-- `any(f(x) for x in l)`: stops at the first true item -/
def anyGen {α : Type} : List α → (α → PyM Bool) → PyM Bool
  | [], _ => pure false
  | x :: xs, f => do
    let v ← f x
    if v then pure true else anyGen xs f

/-- `range(n)` -/
def range1 (n : Int) : List Int := (List.range n.toNat).map Int.ofNat

/-- `range(a, b)` -/
def range2 (a b : Int) : List Int := (List.range (b - a).toNat).map (fun k => a + Int.ofNat k)

/-- `range(a, b, s)`: `ValueError` for `s = 0`; `⌈(b-a)/s⌉` items for `s > 0`, `⌈(a-b)/(-s)⌉` for `s < 0` -/
def range3 (a b s : Int) : PyM (List Int) :=
  if s = 0 then throw .value
  else if 0 < s then pure ((List.range ((b - a + s - 1) / s).toNat).map (fun k => a + s * Int.ofNat k))
  else pure ((List.range ((a - b + (-s) - 1) / (-s)).toNat).map (fun k => a + s * Int.ofNat k))

/-- `range(a, b, s)` for a literal step `s > 0`: `⌈(b-a)/s⌉` items -/
def range3p (a b : Int) (s : Nat) : List Int :=
  (List.range ((b - a + s - 1) / s).toNat).map (fun k => a + s * Int.ofNat k)

/-- `int.from_bytes(b, byteorder="big")` (unsigned) -/
def fromBytesBig (l : List Nat) : Int := Int.ofNat (l.foldl (fun a x => a * 256 + x) 0)

/-- `int.from_bytes(b, byteorder="little")` (unsigned) -/
def fromBytesLittle (l : List Nat) : Int := Int.ofNat (l.foldr (fun x a => a * 256 + x) 0)

/-- the `n` low octets of `v`, least significant first -/
def octetsLE : Nat → Nat → List Nat
  | 0, _ => []
  | n + 1, v => v % 256 :: octetsLE n (v / 256)

/-- `x.to_bytes(length, "little")` (unsigned): `ValueError` for a negative length, `OverflowError` for a negative
value or one that does not fit -/
def toBytesLittle (x length : Int) : PyM (List Nat) :=
  if length < 0 then throw .value
  else if x < 0 then throw .overflow
  else if x.toNat < 256 ^ length.toNat then pure (octetsLE length.toNat x.toNat) else throw .overflow

/-- `x.to_bytes(length, "big")` (unsigned) -/
def toBytesBig (x length : Int) : PyM (List Nat) := do
  let l ← toBytesLittle x length
  pure l.reverse

/-! ### loops

Mutation of local variables is state threading: the loop state is the tuple of variables the body assigns. -/

/-- what one pass of a loop body says: go on, `break`, or `return r` from the function -/
inductive Step (σ ρ : Type)
  | next (s : σ)
  | brk (s : σ)
  | ret (r : ρ)

/-- `for x in l: body` without `break` / `return` in the body (`continue` is an early `next`) -/
def forEach {α σ : Type} : List α → σ → (α → σ → PyM σ) → PyM σ
  | [], s, _ => pure s
  | x :: xs, s, f => do
    let s' ← f x s
    forEach xs s' f

/-- `for x in l: body` with `break` / `return`: `next s` = exhausted, `brk s` = left by `break`, `ret r` = returned -/
def forEachB {α σ ρ : Type} : List α → σ → (α → σ → PyM (Step σ ρ)) → PyM (Step σ ρ)
  | [], s, _ => pure (.next s)
  | x :: xs, s, f => do
    match ← f x s with
    | .next s' => forEachB xs s' f
    | .brk s' => pure (.brk s')
    | .ret r => pure (.ret r)

/-- `while …: body` (the test is the first statement of `body`, which answers `brk` when it fails): at most `fuel`
passes; running out is `PyErr.fuel` — "outside the translated domain", never a wrong value -/
def whileFuel {σ ρ : Type} : Nat → σ → (σ → PyM (Step σ ρ)) → PyM (Step σ ρ)
  | 0, _, _ => throw .fuel
  | n + 1, s, f => do
    match ← f s with
    | .next s' => whileFuel n s' f
    | .brk s' => pure (.brk s')
    | .ret r => pure (.ret r)

/-! ### simp lemmas: operations on values that come from naturals -/

@[simp] theorem band_ofNat (m n : Nat) : band (m : Int) (n : Int) = ((m &&& n : Nat) : Int) := rfl
@[simp] theorem bor_ofNat (m n : Nat) : bor (m : Int) (n : Int) = ((m ||| n : Nat) : Int) := rfl
@[simp] theorem bxor_ofNat (m n : Nat) : bxor (m : Int) (n : Int) = ((m ^^^ n : Nat) : Int) := rfl

@[simp] theorem len_eq {α : Type} (l : List α) : len l = (l.length : Int) := rfl

theorem normIndex_ofNat (n k : Nat) : normIndex n (k : Int) = if k < n then .ok k else .error .index := by
  unfold normIndex
  have h0 : (0 : Int) ≤ (k : Int) := Int.natCast_nonneg k
  simp only [h0, if_true, Int.toNat_natCast]
  by_cases h : k < n
  · have : (k : Int) < (n : Int) := Int.ofNat_lt.mpr h
    simp [h, this]; rfl
  · have : ¬ (k : Int) < (n : Int) := fun c => h (Int.ofNat_lt.mp c)
    simp [h, this]; rfl

@[simp] theorem getItem_ofNat {α : Type} (l : List α) (k : Nat) :
    getItem l (k : Int) = match l[k]? with | some x => .ok x | none => .error .index := by
  unfold getItem
  rw [normIndex_ofNat]
  by_cases h : k < l.length
  · rw [if_pos h]
    show (match l[k]? with | some x => pure x | none => throw PyErr.index : PyM α) = _
    cases l[k]? <;> rfl
  · rw [if_neg h, List.getElem?_eq_none (Nat.le_of_not_lt h)]; rfl

theorem getItem_lt {α : Type} (l : List α) (k : Nat) (h : k < l.length) : getItem l (k : Int) = .ok l[k] := by
  simp [h]

@[simp] theorem getB_ofNat (l : List Nat) (k : Nat) :
    getB l (k : Int) = match l[k]? with | some x => .ok (x : Int) | none => .error .index := by
  unfold getB
  rw [getItem_ofNat]
  cases l[k]? <;> rfl

theorem getB_lt (l : List Nat) (k : Nat) (h : k < l.length) : getB l (k : Int) = .ok (l[k] : Int) := by
  simp [h]

@[simp] theorem getI_ofNat (l : List Int) (k : Nat) :
    getI l (k : Int) = match l[k]? with | some x => .ok x | none => .error .index := by
  unfold getI; rw [getItem_ofNat]; cases l[k]? <;> rfl

@[simp] theorem setI_ofNat (l : List Int) (k : Nat) (v : Int) :
    setI l (k : Int) v = if k < l.length then .ok (l.set k v) else .error .index := by
  unfold setI
  rw [normIndex_ofNat]
  by_cases h : k < l.length <;> simp [h] <;> rfl

@[simp] theorem clampIdx_ofNat (n k : Nat) : clampIdx n (k : Int) = min k n := by
  unfold clampIdx
  have : ¬ (k : Int) < 0 := Int.not_lt.mpr (Int.natCast_nonneg k)
  simp [this]

@[simp] theorem slice_none_ofNat {α : Type} (l : List α) (k : Nat) : slice l none (some (k : Int)) = l.take k := by
  simp only [slice, clampIdx_ofNat, List.drop_zero, Nat.sub_zero]
  by_cases h : k ≤ l.length
  · rw [Nat.min_eq_left h]
  · have h' : l.length ≤ k := Nat.le_of_not_le h
    rw [Nat.min_eq_right h', List.take_of_length_le (Nat.le_refl _), List.take_of_length_le h']

@[simp] theorem slice_ofNat_none {α : Type} (l : List α) (k : Nat) : slice l (some (k : Int)) none = l.drop k := by
  simp only [slice, clampIdx_ofNat]
  by_cases h : k ≤ l.length
  · rw [Nat.min_eq_left h, List.take_of_length_le (by simp)]
  · have h' : l.length ≤ k := Nat.le_of_not_le h
    rw [Nat.min_eq_right h', List.drop_of_length_le (Nat.le_refl _), List.drop_of_length_le h']
    simp

@[simp] theorem slice_ofNat_ofNat {α : Type} (l : List α) (a b : Nat) :
    slice l (some (a : Int)) (some (b : Int)) = (l.drop (min a l.length)).take (min b l.length - min a l.length) := by
  simp only [slice, clampIdx_ofNat]

@[simp] theorem byteVal_ofNat (n : Nat) : byteVal (n : Int) = if n < 256 then .ok n else .error .value := by
  unfold byteVal
  by_cases h : n < 256
  · have hc : (0 : Int) ≤ (n : Int) ∧ (n : Int) < 256 := ⟨Int.natCast_nonneg n, by omega⟩
    rw [if_pos hc, if_pos h]; rfl
  · have hc : ¬ ((0 : Int) ≤ (n : Int) ∧ (n : Int) < 256) := fun c => h (by omega)
    rw [if_neg hc, if_neg h]; rfl

@[simp] theorem range1_ofNat (n : Nat) : range1 (n : Int) = (List.range n).map Int.ofNat := by
  simp [range1]

@[simp] theorem forEach_nil {α σ : Type} (s : σ) (f : α → σ → PyM σ) : forEach [] s f = .ok s := rfl

@[simp] theorem forEach_cons {α σ : Type} (x : α) (xs : List α) (s : σ) (f : α → σ → PyM σ) :
    forEach (x :: xs) s f = (f x s >>= fun s' => forEach xs s' f) := rfl

@[simp] theorem bytesGen_nil {α : Type} (f : α → PyM Int) : bytesGen [] f = .ok [] := rfl

/-- relational invariant of a `for` loop against a fold of the model: if one pass of the body takes related states
to related states along two equally long lists, the loop succeeds and ends in a state related to the fold -/
theorem forEach_sim {α β σ τ : Type} (R : σ → τ → Prop) (f : α → σ → PyM σ) (g : τ → β → τ) :
    ∀ (l : List α) (m : List β) (s : σ) (t : τ), l.length = m.length →
      (∀ (i : Nat) (h₁ : i < l.length) (h₂ : i < m.length) (s : σ) (t : τ), R s t →
        ∃ s', f l[i] s = .ok s' ∧ R s' (g t m[i])) →
      R s t → ∃ s', forEach l s f = .ok s' ∧ R s' (m.foldl g t) := by
  intro l
  induction l with
  | nil =>
    intro m s t hl _ h0
    have : m = [] := List.eq_nil_of_length_eq_zero hl.symm
    subst this
    exact ⟨s, rfl, h0⟩
  | cons x xs ih =>
    intro m s t hl step h0
    cases m with
    | nil => simp at hl
    | cons y ys =>
      obtain ⟨s1, e1, r1⟩ := step 0 (by simp) (by simp) s t h0
      simp only [List.getElem_cons_zero] at e1 r1
      have hl' : xs.length = ys.length := by simpa using hl
      obtain ⟨s2, e2, r2⟩ := ih ys s1 (g t y) hl'
        (fun i h₁ h₂ s t h => by
          have := step (i + 1) (by simp; omega) (by simp; omega) s t h
          simpa using this) r1
      refine ⟨s2, ?_, by simpa using r2⟩
      rw [forEach_cons, e1]
      exact e2

/-- `forEach_sim` in the shape a translated function has: the loop followed by the rest of the function -/
theorem forEach_sim_bind {α β σ τ γ : Type} (R : σ → τ → Prop) (g : τ → β → τ) (m : List β) (t : τ)
    {l : List α} {s : σ} {f : α → σ → PyM σ} {k : σ → PyM γ} {rhs : PyM γ}
    (hl : l.length = m.length) (h0 : R s t)
    (step : ∀ (i : Nat) (h₁ : i < l.length) (h₂ : i < m.length) (s : σ) (t : τ), R s t →
        ∃ s', f l[i] s = .ok s' ∧ R s' (g t m[i]))
    (rest : ∀ s', R s' (m.foldl g t) → k s' = rhs) :
    (forEach l s f >>= k) = rhs := by
  obtain ⟨s', e, r⟩ := forEach_sim R f g l m s t hl step h0
  rw [e]
  exact rest s' r

theorem assert_bind {α : Type} (c : Bool) (k : Unit → PyM α) :
    (assert c >>= k) = if c then k () else .error .assertion := by
  cases c <;> rfl

@[simp] theorem ok_bind {α β : Type} (v : α) (k : α → PyM β) : ((Except.ok v : PyM α) >>= k) = k v := rfl
@[simp] theorem error_bind {α β : Type} (e : PyErr) (k : α → PyM β) :
    ((Except.error e : PyM α) >>= k) = .error e := rfl
@[simp] theorem pure_eq_ok {α : Type} (v : α) : (pure v : PyM α) = .ok v := rfl

/-! numerals as indices (`l[2]`): the literal `2 : Int` is the cast of the natural `2` -/
@[simp] theorem getB_lit (l : List Nat) (n : Nat) :
    getB l (no_index (@OfNat.ofNat Int n _)) = match l[n]? with | some x => .ok (x : Int) | none => .error .index :=
  getB_ofNat l n
@[simp] theorem getI_lit (l : List Int) (n : Nat) :
    getI l (no_index (@OfNat.ofNat Int n _)) = match l[n]? with | some x => .ok x | none => .error .index :=
  getI_ofNat l n
@[simp] theorem setI_lit (l : List Int) (n : Nat) (v : Int) :
    setI l (no_index (@OfNat.ofNat Int n _)) v = if n < l.length then .ok (l.set n v) else .error .index :=
  setI_ofNat l n v
@[simp] theorem slice_none_lit {α : Type} (l : List α) (n : Nat) :
    slice l none (some (no_index (@OfNat.ofNat Int n _))) = l.take n := slice_none_ofNat l n
@[simp] theorem slice_lit_none {α : Type} (l : List α) (n : Nat) :
    slice l (some (no_index (@OfNat.ofNat Int n _))) none = l.drop n := slice_ofNat_none l n

/-! bit operations with a literal right operand -/
@[simp] theorem band_lit (m n : Nat) : band (m : Int) (no_index (@OfNat.ofNat Int n _)) = ((m &&& n : Nat) : Int) := rfl
@[simp] theorem bor_lit (m n : Nat) : bor (m : Int) (no_index (@OfNat.ofNat Int n _)) = ((m ||| n : Nat) : Int) := rfl
@[simp] theorem bxor_lit (m n : Nat) : bxor (m : Int) (no_index (@OfNat.ofNat Int n _)) = ((m ^^^ n : Nat) : Int) := rfl
@[simp] theorem shrN_ofNat (m k : Nat) : shrN (m : Int) k = ((m / 2 ^ k : Nat) : Int) := by
  unfold shrN; norm_cast
@[simp] theorem shlN_ofNat (m k : Nat) : shlN (m : Int) k = ((m * 2 ^ k : Nat) : Int) := by
  unfold shlN; norm_cast
@[simp] theorem modL_ofNat (m n : Nat) : modL (m : Int) (no_index (@OfNat.ofNat Int n _)) = ((m % n : Nat) : Int) := by
  unfold modL; exact (Int.ofNat_fmod m n).symm

/-- a `for` loop whose body cannot raise is a fold -/
theorem forEach_pure {α σ : Type} (f : α → σ → PyM σ) (g : σ → α → σ) (h : ∀ x s, f x s = .ok (g s x)) :
    ∀ (l : List α) (s : σ), forEach l s f = .ok (l.foldl g s) := by
  intro l
  induction l with
  | nil => intro s; rfl
  | cons x xs ih => intro s; rw [forEach_cons, h, ok_bind, ih]; rfl

@[simp] theorem toBytes_nil : toBytes [] = .ok [] := rfl
@[simp] theorem toBytes_cons_ofNat (n : Nat) (l : List Int) :
    toBytes ((n : Int) :: l) = if n < 256 then (toBytes l >>= fun r => .ok (n :: r)) else .error .value := by
  unfold toBytes
  show (pure (n : Int) >>= fun v => byteVal v >>= fun b => bytesGen l pure >>= fun r => pure (b :: r)) = _
  simp only [pure_eq_ok, ok_bind, byteVal_ofNat]
  by_cases h : n < 256 <;> simp [h]

end Dmr.Py
