import DmrVerif.Model.Py
import DmrVerif.Model.Bits
import DmrVerif.Model.Elem

/-!
# Prelude extension of the Python→Lean source translator for bit-field PDU code (`tools/py2lean_bits.py`)

Core Lean only (compiled into the native drivers).  Same SOUNDNESS RULE as `Model/Py.lean`: whenever a translated
function returns anything other than `.error (.unsupported _)` / `.error .fuel`, that is exactly what CPython returns /
raises for the same arguments of the annotated types.

Carriers added here

| Python                                   | Lean                                                                    |
|------------------------------------------|-------------------------------------------------------------------------|
| `bitarray` (BIG-ENDIAN container)        | `List Bool` in index order (static type `ba`)                           |
| `bitarray` made by `int2ba(.., endian="little")` | `List Bool` in index order, static type `bal`; after a join of both, `bax` (index order, endianness unknown: only `len`, slices, index reads and being the RIGHT operand of `+` are translated — everything that would look at the container's endianness is `Untranslatable`) |
| `bits[i]`                                | `Int` 0 / 1 (bitarray hands out an `int`)                               |
| member of an `enum.Enum` of ints         | `Int`, its `.value` (classes with unique int values, no `__eq__` override; checked by the translator) |
| `Optional[T]`                            | `Option T`                                                              |
| object of a translated class             | a generated `structure` whose fields are `Option T` (`none` = the attribute is not set yet) |

A `bitarray` PARAMETER is assumed big-endian (the only kind the library's `as_bits()` / `bytes_to_bits` produce); a function
that receives a little-endian container from outside is outside the translated domain.  All functions of `bitarray.util`
below were compared with bitarray 3.11.0 (`TRANSL2_NOTES.md`, and on every run by the `t.ps.prim.*` operations).
-/

namespace Dmr.PyBits
open Dmr Dmr.Py

/-- `ba2int(a)` (unsigned) of a big-endian bitarray: `ValueError` ("non-empty bitarray expected") on an empty one, else
index 0 is the most significant bit -/
def ba2int (l : List Bool) : PyM Int := if l.isEmpty then throw .value else pure ((bitsToNat l : Nat) : Int)

/-- `ba2int(a)` of a little-endian container kept in index order: index 0 is the least significant bit -/
def ba2intLE (l : List Bool) : PyM Int := ba2int l.reverse

/-- `int2ba(x, length=n)` (unsigned, big endian): `ValueError` ("length must be > 0") for `n ≤ 0` — checked first —,
`OverflowError` ("unsigned integer not in range(0, 2^n)") for `x < 0` or `x ≥ 2^n`, else the `n` low bits, most significant
first.  (`int2ba(x)` without a length is not translated.) -/
def int2ba (x n : Int) : PyM (List Bool) :=
  if n ≤ 0 then throw .value
  else if x < 0 then throw .overflow
  else if x.toNat < 2 ^ n.toNat then pure (natToBits n.toNat x.toNat) else throw .overflow

/-- `int2ba(x, length=n, endian="little")`: same checks; the container is little-endian, index 0 is the least significant
bit.  Kept in index order. -/
def int2baLE (x n : Int) : PyM (List Bool) := do
  let l ← int2ba x n
  pure l.reverse

/-- one item of `bitarray([...])`: an `int` 0 / 1 (a `bool` is translated directly); anything else is `ValueError`
("bit must be 0 or 1") -/
def bitOfInt (v : Int) : PyM Bool := if v = 0 then pure false else if v = 1 then pure true else throw .value

/-- `bitarray([v, …])` of ints (the list is built first, then the items are checked in order) -/
def baOfInts : List Int → PyM (List Bool)
  | [] => pure []
  | v :: vs => do
    let b ← bitOfInt v
    let r ← baOfInts vs
    pure (b :: r)

/-- `bits[i]`: an `int` 0 / 1; `IndexError` outside `-len ≤ i < len` -/
def getBit (l : List Bool) (i : Int) : PyM Int := do
  let b ← Py.getItem l i
  pure (Py.ofBool b)

/-- `l * n` of a list (`[0] * 24`): `n ≤ 0` gives the empty list -/
def listMul {α : Type} (l : List α) (n : Int) : List α := (List.replicate n.toNat l).flatten

/-- `a.tobytes()` of a big-endian bitarray: zero padded to whole octets -/
def tobytes (l : List Bool) : List Nat := bitsToBytes l

/-- `bytes_to_bits(b)` / `bitarray(endian="big").frombytes(b)`: most significant bit of every octet first -/
def frombytes (b : List Nat) : List Bool := bytesToBits b

/-- `E(v)` for an enumeration of the element packages: the COMPLETE graph of the call over `0 ≤ v < 2^w` is regenerated on
every run by calling the live class (`Gen/Elements.lean`); `.member m` = the member with value `m` is returned (possibly by
`_missing_`), `.valueError` / `.assertionError` = that exception leaves the call, `.nothing` = `_missing_` returned `None`
(CPython then raises `ValueError`).  Outside the graph's domain the call is `unsupported` (never guessed). -/
def enumCall (E : Elem) (v : Int) : PyM Int :=
  if v < 0 then throw (.unsupported ("enum call outside the extracted graph: " ++ E.name))
  else match E.graph[v.toNat]? with
    | some (.member m) => pure ((m : Nat) : Int)
    | some .valueError => throw .value
    | some .assertionError => throw .assertion
    | some .nothing => throw .value
    | some .otherError => throw (.unsupported ("enum call raises another exception: " ++ E.name))
    | none => throw (.unsupported ("enum call outside the extracted graph: " ++ E.name))

/-- reading an attribute of an object: `AttributeError` while it has not been assigned -/
def attr {α : Type} (o : Option α) : PyM α :=
  match o with
  | some v => pure v
  | none => throw (.other "AttributeError")

/-- using an `Optional[T]` value as a `T` (method call / attribute access on it): `AttributeError` on `None` -/
def unwrap {α : Type} (o : Option α) : PyM α :=
  match o with
  | some v => pure v
  | none => throw (.other "AttributeError")

/-- an `Optional[bitarray]` as the right operand of `bitarray + …`: `TypeError` on `None` -/
def unwrapT {α : Type} (o : Option α) : PyM α :=
  match o with
  | some v => pure v
  | none => throw .type

/-! ### what a constructed object looks like from outside (line protocol, theorem statements) -/

/-- observable value of one attribute -/
inductive PyVal where
  | int (v : Int)
  | bool (b : Bool)
  | bits (b : List Bool)
  | bytes (b : List Nat)
  | enum (cls : String) (v : Int)
  | none
  | unset
  | obj (cls : String) (fields : List (String × PyVal))

/-- attribute that may be unset -/
def PyVal.ofAttr {α : Type} (f : α → PyVal) : Option α → PyVal
  | some v => f v
  | .none => .unset

/-- `Optional[T]` value -/
def PyVal.ofOpt {α : Type} (f : α → PyVal) : Option α → PyVal
  | some v => f v
  | .none => .none

/-! ### simp lemmas -/

theorem ba2int_of_length_pos (l : List Bool) (h : 0 < l.length) : ba2int l = .ok ((bitsToNat l : Nat) : Int) := by
  unfold ba2int
  cases l with
  | nil => simp at h
  | cons a t => rfl

theorem ba2int_nil : ba2int [] = .error .value := rfl

theorem int2ba_ofNat (x n : Nat) (hn : 0 < n) :
    int2ba (x : Int) (n : Int) = if x < 2 ^ n then .ok (natToBits n x) else .error .overflow := by
  unfold int2ba
  have h1 : ¬ ((n : Int) ≤ 0) := by omega
  have h2 : ¬ ((x : Int) < 0) := by omega
  simp only [h1, h2, if_false, Int.toNat_natCast]
  by_cases h : x < 2 ^ n <;> simp [h] <;> rfl

/-- literal length: `int2ba(x, length=4)` -/
theorem int2ba_lit (x n : Nat) (hn : 0 < n) :
    int2ba (x : Int) (no_index (@OfNat.ofNat Int n _)) = if x < 2 ^ n then .ok (natToBits n x) else .error .overflow :=
  int2ba_ofNat x n hn

theorem getBit_ofNat (l : List Bool) (k : Nat) (h : k < l.length) :
    getBit l (k : Int) = .ok (Py.ofBool l[k]) := by
  unfold getBit
  rw [Py.getItem_lt l k h]; rfl

theorem getBit_lit (l : List Bool) (k : Nat) (h : k < l.length) :
    getBit l (no_index (@OfNat.ofNat Int k _)) = .ok (Py.ofBool l[k]) := getBit_ofNat l k h

@[simp] theorem attr_some {α : Type} (v : α) : attr (some v) = .ok v := rfl
@[simp] theorem attr_none {α : Type} : attr (none : Option α) = .error (.other "AttributeError") := rfl
@[simp] theorem unwrap_some {α : Type} (v : α) : unwrap (some v) = .ok v := rfl
@[simp] theorem unwrap_none {α : Type} : unwrap (none : Option α) = .error (.other "AttributeError") := rfl

@[simp] theorem unwrapT_some {α : Type} (v : α) : unwrapT (some v) = .ok v := rfl
@[simp] theorem unwrapT_none {α : Type} : unwrapT (none : Option α) = .error .type := rfl

@[simp] theorem bitOfInt_ofBool (b : Bool) : bitOfInt (Py.ofBool b) = .ok b := by cases b <;> rfl

@[simp] theorem baOfInts_nil : baOfInts [] = .ok [] := rfl
@[simp] theorem baOfInts_cons_ofBool (b : Bool) (vs : List Int) :
    baOfInts (Py.ofBool b :: vs) = (baOfInts vs >>= fun r => .ok (b :: r)) := by
  show (bitOfInt (Py.ofBool b) >>= fun b => baOfInts vs >>= fun r => pure (b :: r)) = _
  rw [bitOfInt_ofBool]; rfl
@[simp] theorem baOfInts_cons_zero (vs : List Int) : baOfInts (0 :: vs) = (baOfInts vs >>= fun r => .ok (false :: r)) := rfl
@[simp] theorem baOfInts_cons_one (vs : List Int) : baOfInts (1 :: vs) = (baOfInts vs >>= fun r => .ok (true :: r)) := rfl

/-- the enum call on a natural inside the graph's domain -/
theorem enumCall_ofNat (E : Elem) (v : Nat) :
    enumCall E (v : Int) = match E.graph[v]? with
      | some (.member m) => .ok ((m : Nat) : Int)
      | some .valueError => .error .value
      | some .assertionError => .error .assertion
      | some .nothing => .error .value
      | some .otherError => .error (.unsupported ("enum call raises another exception: " ++ E.name))
      | none => .error (.unsupported ("enum call outside the extracted graph: " ++ E.name)) := by
  unfold enumCall
  have h : ¬ ((v : Int) < 0) := by omega
  simp only [h, if_false, Int.toNat_natCast]
  rfl

end Dmr.PyBits
