import DmrVerif.Gen.TranslTms
import DmrVerif.Model.Tms
import DmrVerif.Model.TranslArsExt

/-!
The call boundary of `Gen/TranslTms.lean` (`bytes_to_bits` / `bits_to_bytes`: bitarray `frombytes` / `tobytes`, big endian)
instantiated with `bytesToBits` / `bitsToBytes` of `Model/Bits`, and the attributes of the Python objects of
`text_messaging_service.py` spelled out in terms of the records of `Model/Tms.lean`.  A `TMSPDUType` member is its number in the
order SERVICE_AVAILABILITY, TMS_ACKNOWLEDGEMENT, SIMPLE_TEXT_MESSAGE (= `Tms.PduType.idx`, the order of `Gen.Tms.pduTypeVal`;
`TMSPDUType_order` in the generated file checks it against the live class).  Used by `Props/C16t` and by the driver operations
`t.tms.*`.  Core Lean only.
-/

namespace Dmr.Transl.Tms
open Dmr Dmr.Py Dmr.PyBits

def modelExt : Ext where
  bytes_to_bits := fun b => .ok (bytesToBits b)
  bits_to_bytes := fun b => .ok (bitsToBytes b)

@[simp] theorem ext_b2b (b : List Nat) : modelExt.bytes_to_bits b = .ok (bytesToBits b) := rfl
@[simp] theorem ext_bits2b (b : List Bool) : modelExt.bits_to_bytes b = .ok (bitsToBytes b) := rfl

abbrev ofE {α β : Type} (f : α → β) : Except Dmr.Tms.Err α → PyM β := Dmr.Transl.Ars.ofE f
abbrev isBytes (l : List Nat) : Prop := Dmr.Transl.Ars.isBytes l

/-- the model's first header as the Python object -/
def fhObj (h : Dmr.Tms.FirstHeader) : FirstHeader :=
  { has_more_headers := some h.more, is_acknowledged := some h.ack, is_reserved := some h.reserved,
    pdu_type := some (h.ptype.idx : Nat), is_control_message := some h.ptype.val.1 }

def capObj (c : Nat) : AvailabilitySecondHeader := { capability := some (c : Nat) }

/-- the model's message as the Python object -/
def tmsObj (m : Dmr.Tms.Msg) : TextMessagingService :=
  { header := some (fhObj m.header), address := some m.address,
    availability_header := some (m.capability.map capObj),
    sequence_number := some (m.seq.map (fun n => ((n : Nat) : Int))),
    encoding := some (m.encoding.map (fun e => ((e.val : Nat) : Int))),
    message := some m.message }

end Dmr.Transl.Tms
