import DmrVerif.Model.Bits
import DmrVerif.Gen.Ipsc

/-!
# Model of the Hytera IPSC frame codecs (property C13)

`okdmr/dmrlib/hytera/hytera_ipsc.py` (`from_ipsc_bytes`, `from_kaitai`, `as_ipsc_bytes`, `is_wakeup`),
the field map of the generated Kaitai parser `ip_site_connect_protocol.py` (read from site-packages:
`u2be` for timeslot / slot type / frame type, `u2le & 15` for the colour code, `u4le >> 8` for the ids,
`u1` for the last reserved octet, the `5a 5a` validation of the second header),
`utils/bits_bytes.py` (`byteswap_bytes`, `half_byte_to_bytes`) and the dispatch of
`Burst.from_hytera_ipsc`.  The burst content is opaque: the model returns the class chosen, the burst
type requested from the `Burst` constructor and the 33 payload octets; what the constructor does with
them (C01) is outside this model, except its length assertion.

Enumeration members are indices into the value lists of `Gen/Ipsc.lean`; `Enum(v)` is `lookup` (member
with that value, else the uniform answer for non-members that the translator established on all 2^w
values).  `KaitaiStream.resolve_enum` followed by `get_kaitai_val` is the identity on the integer read
(a member's `.value` is the integer it was resolved from), so the Kaitai enums do not appear.
-/

namespace Dmr.Ipsc
open Dmr

inductive Err
  | value | overflow | assertion | eof | validation | type | index
  deriving DecidableEq, Repr

def Err.name : Err → String
  | .value => "ValueError"
  | .overflow => "OverflowError"
  | .assertion => "AssertionError"
  | .eof => "EndOfStreamError"
  | .validation => "ValidationNotEqualError"
  | .type => "TypeError"
  | .index => "IndexError"

/-- `int.from_bytes(bs, "little")` -/
def le : Bytes → Nat
  | [] => 0
  | b :: r => b + 256 * le r

/-- `int.from_bytes(bs, "big")` -/
def be (bs : Bytes) : Nat := bs.foldl (fun acc b => 256 * acc + b) 0

/-- `v.to_bytes(n, "little")` for a value known to fit -/
def toLe : Nat → Nat → Bytes
  | 0, _ => []
  | n + 1, v => v % 256 :: toLe n (v / 256)

/-- Python slice `data[i:j]` -/
def slice (data : Bytes) (i j : Nat) : Bytes := (data.take j).drop i

/-- `Enum(v)`: index of the member with value `v`, else the answer for non-members -/
def lookup (vals : List Nat) (dflt : Option Nat) (v : Nat) : Option Nat :=
  match vals.findIdx? (· == v) with
  | some i => some i
  | none => dflt

def valOf (vals : List Nat) (i : Nat) : Nat := vals.getD i 0

/-! ### `utils/bits_bytes.py` -/

/-- `data[0::2], data[1::2] = data[1::2], data[0::2]` on an even-length buffer -/
def swapPairs : Bytes → Bytes
  | a :: b :: r => b :: a :: swapPairs r
  | r => r

/-- `byteswap_bytes`: 16-bit words swapped; an odd last octet stays in place -/
def byteswap (d : Bytes) : Bytes :=
  if d.length % 2 = 0 then swapPairs d
  else swapPairs d.dropLast ++ d.drop (d.length - 1)

/-- `half_byte_to_bytes(h, n)`: `bytes([h | h << 4]) * n` -/
def halfByte (h n : Nat) : Except Err Bytes :=
  if (h ||| (h <<< 4)) ≥ 256 then .error .value else .ok (List.replicate n (h ||| (h <<< 4)))

/-! ### `HyteraIPSC` -/

structure Ipsc where
  callType : Nat
  frameType : Nat
  packetType : Nat
  slotType : Nat
  timeslot : Nat
  seq : Nat
  cc : Nat
  dst : Nat
  src : Nat
  payload : Bytes
  pad : Bytes
  firstHeader : Bytes
  secondHeader : Bytes
  reserved3 : Bytes
  reserved7a : Bytes
  reserved2a : Bytes
  reserved2b : Bytes
  reserved1 : Bytes
  deriving DecidableEq, Repr

open Gen.Ipsc in
/-- `HyteraIPSC.from_ipsc_bytes` (any buffer length: slices clamp, an empty slice is the integer 0) -/
def fromIpscBytes (d : Bytes) : Except Err Ipsc :=
  match lookup packetTypeVal packetTypeDefault (be (slice d 8 9)) with
  | none => .error .value
  | some pt =>
  match lookup timeslotVal timeslotDefault (le (slice d 16 18)) with
  | none => .error .value
  | some ts =>
  match lookup slotTypeVal slotTypeDefault (le (slice d 18 20)) with
  | none => .error .value
  | some st =>
  match lookup frameTypeVal frameTypeDefault (le (slice d 22 24)) with
  | none => .error .value
  | some ft =>
  match lookup callTypeVal callTypeDefault (le (slice d 62 63)) with
  | none => .error .value
  | some ct =>
    let p := byteswap (slice d 26 60)
    .ok { callType := ct, frameType := ft, packetType := pt, slotType := st, timeslot := ts,
          seq := be (slice d 4 5), cc := le (slice d 20 22) % 16,
          dst := le (slice d 63 67) / 256, src := le (slice d 67 71) / 256,
          payload := p.dropLast, pad := p.drop (p.length - 1),
          firstHeader := slice d 0 2, secondHeader := slice d 2 4, reserved3 := slice d 5 8,
          reserved7a := slice d 9 16, reserved2a := slice d 24 26, reserved2b := slice d 60 62,
          reserved1 := slice d 71 72 }

/-- the attributes of the Kaitai object `from_kaitai` reads -/
structure KFrame where
  sourcePort : Bytes
  fixedHeader : Bytes
  sequenceNumber : Nat
  reserved3 : Bytes
  packetType : Nat
  reserved7a : Bytes
  timeslotRaw : Nat
  slotType : Nat
  colorCodeRaw : Nat
  frameType : Nat
  reserved2a : Bytes
  ipscPayload : Bytes
  reserved2b : Bytes
  callType : Nat
  destinationRadioIdRaw : Nat
  sourceRadioIdRaw : Nat
  reserved1b : Nat
  deriving DecidableEq, Repr

/-- `IpSiteConnectProtocol.from_bytes` (`_read`): sequential reads, the `5a 5a` check right after the
first four octets, `EOFError` when the buffer ends early, trailing octets go to `extra_data` -/
def kaitaiParse (d : Bytes) : Except Err KFrame :=
  if d.length < 4 then .error .eof else
  if slice d 2 4 ≠ [0x5a, 0x5a] then .error .validation else
  if d.length < 72 then .error .eof else
  .ok { sourcePort := slice d 0 2, fixedHeader := slice d 2 4, sequenceNumber := be (slice d 4 5),
        reserved3 := slice d 5 8, packetType := be (slice d 8 9), reserved7a := slice d 9 16,
        timeslotRaw := be (slice d 16 18), slotType := be (slice d 18 20),
        colorCodeRaw := le (slice d 20 22), frameType := be (slice d 22 24),
        reserved2a := slice d 24 26, ipscPayload := slice d 26 60, reserved2b := slice d 60 62,
        callType := be (slice d 62 63), destinationRadioIdRaw := le (slice d 63 67),
        sourceRadioIdRaw := le (slice d 67 71), reserved1b := be (slice d 71 72) }

open Gen.Ipsc in
/-- `HyteraIPSC.from_kaitai` -/
def fromKaitai (k : KFrame) : Except Err Ipsc :=
  match lookup callTypeVal callTypeDefault k.callType with
  | none => .error .value
  | some ct =>
  match lookup frameTypeVal frameTypeDefault k.frameType with
  | none => .error .value
  | some ft =>
  match lookup packetTypeVal packetTypeDefault k.packetType with
  | none => .error .value
  | some pt =>
  match lookup slotTypeVal slotTypeDefault k.slotType with
  | none => .error .value
  | some st =>
  match lookup timeslotVal timeslotDefault k.timeslotRaw with
  | none => .error .value
  | some ts =>
    let p := byteswap k.ipscPayload
    .ok { callType := ct, frameType := ft, packetType := pt, slotType := st, timeslot := ts,
          seq := k.sequenceNumber, cc := k.colorCodeRaw % 16,
          dst := k.destinationRadioIdRaw / 256, src := k.sourceRadioIdRaw / 256,
          payload := p.dropLast, pad := p.drop (p.length - 1),
          firstHeader := k.sourcePort, secondHeader := k.fixedHeader, reserved3 := k.reserved3,
          reserved7a := k.reserved7a, reserved2a := k.reserved2a, reserved2b := k.reserved2b,
          reserved1 := [k.reserved1b] }

/-- the generic-parser path: `from_kaitai(IpSiteConnectProtocol.from_bytes(d))` -/
def kaitaiPath (d : Bytes) : Except Err Ipsc :=
  match kaitaiParse d with
  | .error e => .error e
  | .ok k => fromKaitai k

open Gen.Ipsc in
/-- `HyteraIPSC.as_ipsc_bytes` (payload given as bytes); errors in Python's left-to-right order -/
def asIpscBytes (x : Ipsc) : Except Err Bytes :=
  if x.seq ≥ 256 then .error .overflow else
  match halfByte x.cc 2 with
  | .error e => .error e
  | .ok cc =>
    if x.dst * 256 ≥ 4294967296 then .error .overflow else   -- 2^32
    if x.src * 256 ≥ 4294967296 then .error .overflow else
    .ok (slice x.firstHeader 0 2 ++ slice x.secondHeader 0 2 ++ [x.seq] ++ slice x.reserved3 0 3
      ++ toLe 1 (valOf packetTypeVal x.packetType) ++ slice x.reserved7a 0 7
      ++ toLe 2 (valOf timeslotVal x.timeslot) ++ toLe 2 (valOf slotTypeVal x.slotType)
      ++ cc ++ toLe 2 (valOf frameTypeVal x.frameType) ++ slice x.reserved2a 0 2
      ++ byteswap (x.payload ++ slice x.pad 0 1)
      ++ slice x.reserved2b 0 2 ++ toLe 1 (valOf callTypeVal x.callType)
      ++ toLe 4 (x.dst * 256) ++ toLe 4 (x.src * 256) ++ slice x.reserved1 0 1)

/-! ### `Burst.from_hytera_ipsc` -/

inductive BurstClass
  | sync | wakeup | burst
  deriving DecidableEq, Repr

/-- requested `BurstTypes` -/
inductive BurstType
  | undefined | vocoder | dataAndControl
  deriving DecidableEq, Repr

/-- what the property observes of the burst built from a frame -/
structure View where
  cls : BurstClass
  btype : BurstType
  payload : Bytes
  timeslot : Nat
  seq : Nat
  cc : Nat
  src : Nat
  dst : Nat
  deriving DecidableEq, Repr

open Gen.Ipsc in
/-- dispatch of `Burst.from_hytera_ipsc` on a decoded frame; `Burst.__init__` asserts 264 bits -/
def burstOf (x : Ipsc) : Except Err View :=
  let cls : BurstClass × BurstType :=
    if x.slotType == slotSyncIdx then (.sync, .undefined)
    else if (isWakeup.getD x.slotType []).getD x.callType false then (.wakeup, .undefined)
    else (.burst, if slotIsVocoder.getD x.slotType false then .vocoder else .dataAndControl)
  if x.payload.length ≠ 33 then .error .assertion else
  .ok { cls := cls.1, btype := cls.2, payload := x.payload,
        timeslot := if x.timeslot == timeslot1Idx then 1 else 2,
        seq := x.seq, cc := x.cc, src := x.src, dst := x.dst }

/-- `Burst.from_hytera_ipsc(bytes)` -/
def burstRaw (d : Bytes) : Except Err View :=
  match fromIpscBytes d with
  | .error e => .error e
  | .ok x => burstOf x

/-- `Burst.from_hytera_ipsc(IpSiteConnectProtocol.from_bytes(bytes))` -/
def burstKaitai (d : Bytes) : Except Err View :=
  match kaitaiPath d with
  | .error e => .error e
  | .ok x => burstOf x

/-! ### histories: the `HyteraIPSC` objects a caller keeps, re-stamps and serialises

Both decoders are *functions of the octets*: every call hands out a **new** object (a new handle of
the `Heap`), no object is shared between two results and nothing the caller later does to a result
(the attributes are plain, "exposed to be possibly changed by implementing party") reaches another
result or a later decode.  `Burst.from_hytera_ipsc` keeps the object it decoded as `burst.hytera_ipsc`;
when the `Burst` constructor refuses the payload nothing is handed out. -/

/-- the public attributes of a `HyteraIPSC` object -/
inductive Field
  | callType | frameType | packetType | slotType | timeslot | seq | cc | dst | src
  | payload | pad | firstHeader | secondHeader | reserved3 | reserved7a | reserved2a | reserved2b | reserved1
  deriving DecidableEq, Repr

/-- a value assigned by the caller: an integer (member index for the five enumeration attributes) or octets -/
inductive Val
  | nat (n : Nat)
  | bytes (b : Bytes)
  deriving DecidableEq, Repr

/-- `o.<attribute> = v` (an assignment of the other kind of value is outside the model: no change) -/
def Ipsc.set (x : Ipsc) : Field → Val → Ipsc
  | .callType, .nat n => { x with callType := n }
  | .frameType, .nat n => { x with frameType := n }
  | .packetType, .nat n => { x with packetType := n }
  | .slotType, .nat n => { x with slotType := n }
  | .timeslot, .nat n => { x with timeslot := n }
  | .seq, .nat n => { x with seq := n }
  | .cc, .nat n => { x with cc := n }
  | .dst, .nat n => { x with dst := n }
  | .src, .nat n => { x with src := n }
  | .payload, .bytes b => { x with payload := b }
  | .pad, .bytes b => { x with pad := b }
  | .firstHeader, .bytes b => { x with firstHeader := b }
  | .secondHeader, .bytes b => { x with secondHeader := b }
  | .reserved3, .bytes b => { x with reserved3 := b }
  | .reserved7a, .bytes b => { x with reserved7a := b }
  | .reserved2a, .bytes b => { x with reserved2a := b }
  | .reserved2b, .bytes b => { x with reserved2b := b }
  | .reserved1, .bytes b => { x with reserved1 := b }
  | _, _ => x

/-- the objects handed out so far; a handle is the position -/
structure Heap where
  cells : List Ipsc

namespace Heap

def empty : Heap := ⟨[]⟩
def size (h : Heap) : Nat := h.cells.length
/-- current content of object `r` -/
def read (h : Heap) (r : Nat) : Option Ipsc := h.cells[r]?
/-- a new object; its handle is the old `size` -/
def push (h : Heap) (x : Ipsc) : Heap := ⟨h.cells ++ [x]⟩
/-- the caller changes object `r` in place (nothing happens for a handle never handed out) -/
def write (h : Heap) (r : Nat) (x : Ipsc) : Heap := ⟨h.cells.set r x⟩

end Heap

/-- one step of a caller's history -/
inductive HOp
  /-- `HyteraIPSC.from_ipsc_bytes(d)` -/
  | decRaw (d : Bytes)
  /-- `HyteraIPSC.from_kaitai(IpSiteConnectProtocol.from_bytes(d))` -/
  | decKai (d : Bytes)
  /-- `Burst.from_hytera_ipsc(d).hytera_ipsc` -/
  | burstRaw (d : Bytes)
  /-- `Burst.from_hytera_ipsc(IpSiteConnectProtocol.from_bytes(d)).hytera_ipsc` -/
  | burstKai (d : Bytes)
  /-- the caller assigns an attribute of object `r` -/
  | set (r : Nat) (f : Field) (v : Val)
  /-- `as_ipsc_bytes()` of object `r`: octets are returned, no object is handed out or touched -/
  | ser (r : Nat)

namespace HOp

/-- the handle an operation writes to, if any -/
def target : HOp → Option Nat
  | set r _ _ => some r
  | _ => none

/-- a decoder hands out its result, or nothing when it raises -/
def handOut (h : Heap) : Except Err Ipsc → Heap
  | .ok x => h.push x
  | .error _ => h

/-- the object `Burst.from_hytera_ipsc` keeps: the decoded one, provided the burst is built -/
def kept (r : Except Err Ipsc) : Except Err Ipsc :=
  match r with
  | .error e => .error e
  | .ok x => match burstOf x with
    | .error e => .error e
    | .ok _ => .ok x

def run (h : Heap) : HOp → Heap
  | decRaw d => handOut h (fromIpscBytes d)
  | decKai d => handOut h (kaitaiPath d)
  | burstRaw d => handOut h (kept (fromIpscBytes d))
  | burstKai d => handOut h (kept (kaitaiPath d))
  | set r f v =>
    match h.read r with
    | some x => h.write r (x.set f v)
    | none => h
  | ser _ => h

end HOp

/-- a whole history -/
def runHistory (h : Heap) (ops : List HOp) : Heap := ops.foldl HOp.run h

/-- the four decoder entry points applied to the same octets -/
def decoders (d : Bytes) : List HOp := [.decRaw d, .decKai d, .burstRaw d, .burstKai d]

end Dmr.Ipsc
