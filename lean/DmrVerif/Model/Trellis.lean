import DmrVerif.Model.Bits
import DmrVerif.Gen.Trellis

/-!
Executable model of `okdmr/dmrlib/etsi/fec/trellis.py` (`Trellis34`), one definition per Python
function, in the order of the source.  The four tables and the two reverse dicts come from
`Gen/Trellis.lean` (regenerated from `/repo` on every run); everything here is the hand-written logic.

Conventions
* bits are `Bool`s in bitarray index order, dibits (`array("b")`, values 3, 1, -1, -3) are `Int`s,
  constellation points and tribits (`array("B")`) are `Nat`s;
* a Python dict is the association list of its items in dict order, `d[k]` is `lookupR d k`
  (`KeyError` if absent);
* every place where the Python raises is an explicit `Err`: `assert` → `.assertion`,
  an out-of-range subscript → `.index`, a missing dict key → `.key`.  Errors surface in the same
  order as in the sequential Python loops (the first failing element wins).
* not modelled: `OverflowError` of `array("b"/"B")` for table values outside the C char range
  (`Props/C10.lean` `tables_fit_arrays` shows the extracted tables are inside), and inputs of other
  Python types than bitarray / bytes.

Core Lean only (this file is compiled into the native driver).
-/

namespace Dmr.Trellis
open Dmr.Gen.Trellis

inductive Err where
  | assertion  -- AssertionError
  | index      -- IndexError
  | key        -- KeyError
  deriving DecidableEq, Repr

abbrev R := Except Err

def Err.toString : Err → String
  | .assertion => "ERR AssertionError"
  | .index => "ERR IndexError"
  | .key => "ERR KeyError"

/-- `d[k]` of a Python dict given as its item list -/
def lookupR {κ ν : Type} [BEq κ] (tbl : List (κ × ν)) (k : κ) : R ν :=
  match tbl.lookup k with
  | some v => .ok v
  | none => .error .key

/-- `xs[i]` of a Python sequence, non-negative `i` -/
def indexR {α : Type} (xs : List α) (i : Nat) : R α :=
  match xs[i]? with
  | some v => .ok v
  | none => .error .index

/-! ### bits ↔ dibits -/

/-- `bits_to_dibits`: `out[i/2] = TRELLIS34_DIBITS[(stream[i], stream[i+1])]` for `i = 0, 2, …`;
an odd length ends in `stream[i+1]` out of range -/
def bitsToDibits : Bits → R (List Int)
  | [] => .ok []
  | [_] => .error .index
  | a :: b :: r =>
    match lookupR dibits (a, b) with
    | .error e => .error e
    | .ok d =>
      match bitsToDibits r with
      | .error e => .error e
      | .ok ds => .ok (d :: ds)

/-- `dibits_to_bits`: both bits of `TRELLIS34_DIBITS_REVERSE[dibit]` appended per dibit -/
def dibitsToBits : List Int → R Bits
  | [] => .ok []
  | d :: ds =>
    match lookupR dibitsReverse d with
    | .error e => .error e
    | .ok (a, b) =>
      match dibitsToBits ds with
      | .error e => .error e
      | .ok r => .ok (a :: b :: r)

/-! ### (de)interleaving of the 98 dibits -/

/-- the loop of `deinterleave`: `out[M[i]] = original[i]` for `i` over the matrix; `n = len(out)` -/
def scatter (n : Nat) : List Nat → List Int → List Int → R (List Int)
  | [], _, out => .ok out
  | _ :: _, [], _ => .error .index
  | m :: ms, v :: vs, out => if m < n then scatter n ms vs (out.set m v) else .error .index

/-- `deinterleave`: `out = [0] * len(original)`, then the loop over the whole matrix -/
def deinterleave (original : List Int) : R (List Int) :=
  scatter original.length interleaveMatrix original (List.replicate original.length 0)

/-- the right-hand sides `deinterleaved[M[i]]` of the loop of `interleave` -/
def gatherR (d : List Int) : List Nat → R (List Int)
  | [] => .ok []
  | m :: ms =>
    match indexR d m with
    | .error e => .error e
    | .ok v =>
      match gatherR d ms with
      | .error e => .error e
      | .ok vs => .ok (v :: vs)

/-- `interleave`: `out = [0] * 98`, `out[i] = deinterleaved[M[i]]` for `i` over the matrix (a matrix
longer than 98 runs out of `out`) -/
def interleave (d : List Int) : R (List Int) :=
  match gatherR d interleaveMatrix with
  | .error e => .error e
  | .ok vs => if vs.length ≤ 98 then .ok (vs ++ List.replicate (98 - vs.length) 0) else .error .index

/-! ### dibits ↔ constellation points -/

/-- `dibits_to_points`: `TRELLIS34_CONSTELLATION_POINTS[(d[i], d[i+1])]` for `i = 0, 2, …` -/
def dibitsToPoints : List Int → R (List Nat)
  | [] => .ok []
  | [_] => .error .index
  | a :: b :: r =>
    match lookupR constellation (a, b) with
    | .error e => .error e
    | .ok p =>
      match dibitsToPoints r with
      | .error e => .error e
      | .ok ps => .ok (p :: ps)

/-- `points_to_dibits`: both dibits of `TRELLIS34_CONSTELLATION_POINTS_REVERSE[point]` per point -/
def pointsToDibits : List Nat → R (List Int)
  | [] => .ok []
  | p :: ps =>
    match lookupR constellationReverse p with
    | .error e => .error e
    | .ok (a, b) =>
      match pointsToDibits ps with
      | .error e => .error e
      | .ok r => .ok (a :: b :: r)

/-! ### tribits ↔ constellation points: the finite-state stage -/

/-- the eight table entries `T[state*8 + 0 .. state*8 + 7]` the decoder compares with -/
def rowFrom (start : Nat) : Nat → R (List Nat)
  | 0 => .ok []
  | k + 1 =>
    match indexR transition start with
    | .error e => .error e
    | .ok x =>
      match rowFrom (start + 1) k with
      | .error e => .error e
      | .ok xs => .ok (x :: xs)

def rowOf (state : Nat) : R (List Nat) := rowFrom (state * 8) 8

/-- the inner loop of `points_to_tribits`: **no `break`**, so the last matching column wins;
`none` = `matches` stayed `False` -/
def lastHitFrom (p : Nat) : List Nat → Nat → Option Nat → Option Nat
  | [], _, acc => acc
  | x :: xs, k, acc => lastHitFrom p xs (k + 1) (if p == x then some k else acc)

def lastHit (row : List Nat) (p : Nat) : Option Nat := lastHitFrom p row 0 none

/-- the outer loop of `points_to_tribits` for `n` more points with `last` the previous tribit -/
def walk : Nat → Nat → List Nat → R (List Nat)
  | 0, _, _ => .ok []
  | _ + 1, _, [] => .error .index
  | n + 1, last, p :: ps =>
    match rowOf last with
    | .error e => .error e
    | .ok row =>
      match lastHit row p with
      | none => .error .assertion
      | some t =>
        match walk n t ps with
        | .error e => .error e
        | .ok ts => .ok (t :: ts)

/-- `points_to_tribits`: always 49 iterations from state 0 (extra points are never read) -/
def pointsToTribits (points : List Nat) : R (List Nat) := walk 49 0 points

/-- the loop of `tribits_to_points`: `out[i] = T[state*8 + tribits[i]]; state = tribits[i]` -/
def emit : Nat → List Nat → R (List Nat)
  | _, [] => .ok []
  | state, t :: ts =>
    match indexR transition (state * 8 + t) with
    | .error e => .error e
    | .ok p =>
      match emit t ts with
      | .error e => .error e
      | .ok ps => .ok (p :: ps)

def tribitsToPoints (tribits : List Nat) : R (List Nat) := emit 0 tribits

/-! ### bits ↔ tribits -/

/-- `(t & 4) > 0, (t & 2) > 0, (t & 1) > 0` -/
def tribitBits (t : Nat) : Bits := [t / 4 % 2 == 1, t / 2 % 2 == 1, t % 2 == 1]

/-- `tribits_to_bits`: asserts 49 tribits, writes three bits for each of the first 48 — the 49th
(flush) tribit is dropped whatever its value -/
def tribitsToBits (tribits : List Nat) : R Bits :=
  if tribits.length = 49 then .ok ((tribits.take 48).flatMap tribitBits) else .error .assertion

/-- the slices `original[i : i+3]`, `i = 0, 3, …` (the last one may be short) -/
def triples : Bits → List Bits
  | a :: b :: c :: r => [a, b, c] :: triples r
  | [] => []
  | l => [l]

/-- `ba2int(slice, signed=False)`: the slice inherits the endianness of the caller's bitarray -/
def tribitOf (little : Bool) (c : Bits) : Nat := if little then bitsToNat c.reverse else bitsToNat c

/-- `bits_to_tribits`: one value per slice, then the flush tribit `0`.  `little` is the endianness of
the bitarray that was passed in (the library's own callers always pass big-endian ones) -/
def bitsToTribits (little : Bool) (original : Bits) : List Nat :=
  (triples original).map (tribitOf little) ++ [0]

/-! ### the two entry points -/

/-- `encode` for a bitarray argument of endianness `little` -/
def encodeEndian (little : Bool) (decoded : Bits) : R Bits :=
  if decoded.length < 144 then .error .assertion else
    match tribitsToPoints (bitsToTribits little (decoded.take 144)) with
    | .error e => .error e
    | .ok points =>
      match pointsToDibits points with
      | .error e => .error e
      | .ok ds =>
        match interleave ds with
        | .error e => .error e
        | .ok ids => dibitsToBits ids

/-- `encode(bitarray)`, big-endian (bitarray's default and the library's convention) -/
def encode (decoded : Bits) : R Bits := encodeEndian false decoded

/-- `encode(bytes)`: `bitarray(endian="big").frombytes(…)` first -/
def encodeBytes (decoded : Bytes) : R Bits := encode (bytesToBits decoded)

/-- the first three stages of `decode` after the length assertion -/
def streamPoints (encoded : Bits) : R (List Nat) :=
  match bitsToDibits encoded with
  | .error e => .error e
  | .ok ds =>
    match deinterleave ds with
    | .error e => .error e
    | .ok dd => dibitsToPoints dd

/-- `decode(encoded)` (`as_bytes=False`) -/
def decode (encoded : Bits) : R Bits :=
  if encoded.length ≠ 196 then .error .assertion else
    match streamPoints encoded with
    | .error e => .error e
    | .ok points =>
      match pointsToTribits points with
      | .error e => .error e
      | .ok ts => tribitsToBits ts

/-- `decode(encoded, as_bytes=True)`: `decoded.tobytes()` -/
def decodeAsBytes (encoded : Bits) : R Bytes :=
  match decode encoded with
  | .error e => .error e
  | .ok b => .ok (bitsToBytes b)

/-- the decoder's `last` after `i` accepted points starting from `state` (what `walk` threads) -/
def walkState : Nat → Nat → List Nat → R Nat
  | 0, state, _ => .ok state
  | _ + 1, _, [] => .error .index
  | i + 1, state, p :: ps =>
    match rowOf state with
    | .error e => .error e
    | .ok row =>
      match lastHit row p with
      | none => .error .assertion
      | some t => walkState i t ps

/-- the state the decoder is in when it looks at `points[i]` -/
def stateBefore (points : List Nat) (i : Nat) : R Nat := walkState i 0 points

end Dmr.Trellis
