import DmrVerif.Model.Codes
import DmrVerif.Model.CrcFront
import DmrVerif.Gen.Codes
import DmrVerif.Gen.Integrity

/-!
Model of the integrity-indicator logic of the PDUs that carry a check field (C04): the constructors'
check code exactly as written — including the in-band sentinel "check field 0 ⇒ regenerate and report
ok" — for

* `slot_type.py` (`fec_parity_ok`, Golay(20,8)) and `embedded_signalling.py` (`emb_parity_ok`, QR(16,7)),
* `short_link_control.py` (`crc_ok`, CRC-8 stored least significant bit first),
* `pi_header.py` and `data_header.py` (`crc_ok`, CRC-CCITT),
* `rate12_data.py`, `rate34_data.py`, `rate1_data.py` (`crc9_ok`, CRC-9 over data ‖ [CRC-32] ‖ DBSN),
* `hytera/pdu/hrnp.py` (`checksum_correct`, ones' complement sum over the received octets).

The field codecs of these PDUs are C03's subject; here only what feeds the indicator is modelled.
Two parts of the real pipeline are *inputs* of this model and are supplied by the harness from the
real code: for the data header whether the field decoder (`fields_from_bits`, C03) raised, for HRNP
whether the HDAP stage (`HDAP.from_bytes`, `len`, `as_bytes` of the payload, C12) raised.
Core Lean only.
-/

namespace Dmr
namespace Integrity
open Dmr.Gen Dmr.Gen.Integrity Dmr.Crc

/-- the exception classes that can leave these constructors / parsers -/
inductive IErr where
  | assertionError | valueError | keyError | overflowError | indexError | typeError
  /-- the HDAP stage of an HRNP packet raised (class decided by the HDAP code, C12) -/
  | hdap
deriving DecidableEq, Repr

def IErr.toString : IErr → String
  | .assertionError => "ERR AssertionError"
  | .valueError => "ERR ValueError"
  | .keyError => "ERR KeyError"
  | .overflowError => "ERR OverflowError"
  | .indexError => "ERR IndexError"
  | .typeError => "ERR TypeError"
  | .hdap => "ERR hdap"

def ofCrc {α : Type} : Except CrcErr α → Except IErr α
  | .ok v => .ok v
  | .error .indexError => .error .indexError
  | .error .valueError => .error .valueError
  | .error .overflowError => .error .overflowError
  | .error .assertionError => .error .assertionError

/-- `E(v)` through an extracted value graph -/
def enumOf (graph : List Int) (v : Nat) : Except IErr Nat :=
  match graph[v]? with
  | some x => if x ≥ 0 then .ok x.toNat else if x = -2 then .error .assertionError else .error .valueError
  | none => .error .valueError

/-- `bits[a:b]` -/
def sl (bs : Bits) (a b : Nat) : Bits := (bs.take b).drop a

/-! ## Slot type — Golay(20,8) -/

structure SlotObj where
  colourCode : Nat
  /-- `self.data_type.value` (a reserved value 13–15 is kept as `DataTypes.Reserved` = 12) -/
  dataType : Nat
  parity : Nat
  ok : Bool
deriving DecidableEq, Repr

/-- `SlotType.as_bits` -/
def SlotObj.enc (o : SlotObj) : Bits :=
  natToBits 4 o.colourCode ++ natToBits 4 o.dataType ++ natToBits 12 o.parity

/-- `SlotType.__init__(colour_code, data_type: int, parity)` -/
def slotInit (cc dt parity : Nat) : Except IErr SlotObj := do
  if cc > 15 then throw .assertionError
  if dt > 15 then throw .assertionError
  if parity > 4095 then throw .assertionError
  let dtv ← enumOf dataTypesGraph dt
  if parity < 1 then
    -- generate parity if not provided, then check the object's own serialisation
    let par := bitsToNat ((golay2087.gen (natToBits 4 cc ++ natToBits 4 dtv)).drop 8)
    let o : SlotObj := ⟨cc, dtv, par, false⟩
    pure { o with ok := golay2087.check o.enc }
  else
    -- check the word as it was given (raw data type value)
    pure ⟨cc, dtv, parity,
      golay2087.check (natToBits 4 cc ++ natToBits 4 dt ++ natToBits 12 parity)⟩

/-- `SlotType.from_bits` -/
def slotDec (bits : Bits) : Except IErr SlotObj :=
  if bits.length ≠ 20 then .error .assertionError
  else slotInit (bitsToNat (sl bits 0 4)) (bitsToNat (sl bits 4 8)) (bitsToNat (sl bits 8 20))

/-! ## EMB — QR(16,7) -/

structure EmbObj where
  colourCode : Nat
  pi : Nat
  lcss : Nat
  parity : Nat
  ok : Bool
deriving DecidableEq, Repr

/-- `EmbeddedSignalling.as_bits` -/
def EmbObj.enc (o : EmbObj) : Bits :=
  natToBits 4 o.colourCode ++ natToBits 1 o.pi ++ natToBits 2 o.lcss ++ natToBits 9 o.parity

/-- `EmbeddedSignalling.__init__(colour_code, pi, lcss: int, emb_parity: int)` -/
def embInit (cc pi lcss parity : Nat) : Except IErr EmbObj := do
  if cc > 15 then throw .assertionError
  if lcss > 3 then throw .assertionError
  if pi > 1 then throw .assertionError
  let piv ← enumOf preemptionPowerGraph pi
  let lv ← enumOf lcssGraph lcss
  let par :=
    if parity ≤ 0 then
      bitsToNat (sl (qr1676.gen (natToBits 4 cc ++ natToBits 1 piv ++ natToBits 2 lv)) 7 16)
    else parity
  -- `as_bits()` (called for the verdict) does `int2ba(parity, length=9)`: OverflowError from 2^9 on
  if par ≥ 512 then throw .overflowError
  let o : EmbObj := ⟨cc, piv, lv, par, false⟩
  pure { o with ok := qr1676.check o.enc }

/-- `EmbeddedSignalling.from_bits` -/
def embDec (bits : Bits) : Except IErr EmbObj :=
  if bits.length ≠ 16 then .error .assertionError
  else embInit (bitsToNat (sl bits 0 4)) (bitsToNat (sl bits 4 5)) (bitsToNat (sl bits 5 7))
    (bitsToNat (sl bits 7 16))

/-! ## Short LC — CRC-8, stored least significant bit first -/

inductive SlcPayload where
  | null
  | activity (ts1 ts2 : Nat) (addr1 addr2 : Bits)
deriving DecidableEq, Repr

structure SlcObj where
  payload : SlcPayload
  /-- `crc_8bit` in index order (= on-air order: least significant bit first) -/
  crc : Bits
  ok : Bool
deriving DecidableEq, Repr

/-- `as_bits()[:28]` -/
def slcBody : SlcPayload → Bits
  | .null => natToBits 4 slcoNull ++ zeros 24
  | .activity t1 t2 a1 a2 => natToBits 4 slcoActivity ++ natToBits 4 t1 ++ natToBits 4 t2 ++ a1 ++ a2

/-- `ShortLinkControl.as_bits` -/
def SlcObj.enc (o : SlcObj) : Bits := slcBody o.payload ++ o.crc

/-- end of `ShortLinkControl.__init__` with `crc_8bit` a bitarray -/
def slcInit (pl : SlcPayload) (crc : Bits) : Except IErr SlcObj := do
  let crc8 := crc.take 8
  if bitsToNat crc8 = 0 then
    let v ← ofCrc (Crc.crc8 false (slcBody pl))
    -- `int2ba(v, length=8, endian="little")`: index 0 is the least significant bit
    pure ⟨pl, (natToBits 8 v).reverse, true⟩
  else
    let o : SlcObj := ⟨pl, crc8, false⟩
    let ok ← ofCrc (crc8Check false (sl o.enc 0 28) (bitsToNat (sl o.enc 28 36).reverse))
    pure { o with ok := ok }

/-- the object `ShortLinkControl.from_bits` builds from the parsed fields -/
def slcFields (bits : Bits) : Except IErr SlcObj :=
  match enumOf slcosGraph (bitsToNat (sl bits 0 4)) with
  | .error e => .error e
  | .ok slco =>
    if slco = slcoNull then slcInit .null (sl bits 28 36)
    else if slco = slcoActivity then
      match enumOf activityIdGraph (bitsToNat (sl bits 4 8)) with
      | .error e => .error e
      | .ok t1 =>
        match enumOf activityIdGraph (bitsToNat (sl bits 8 12)) with
        | .error e => .error e
        | .ok t2 => slcInit (.activity t1 t2 (sl bits 12 20) (sl bits 20 28)) (sl bits 28 36)
    else .error .keyError

/-- `ShortLinkControl.from_bits`: the object is built from the parsed fields; when the received CRC
field is non-zero the verdict is then taken over the bits that were received -/
def slcDec (bits : Bits) : Except IErr SlcObj :=
  if bits.length < 36 then .error .assertionError
  else
    match slcFields bits with
    | .error e => .error e
    | .ok o =>
      if bitsToNat (sl bits 28 36) ≠ 0 then
        match ofCrc (crc8Check false (sl bits 0 28) (bitsToNat (sl bits 28 36).reverse)) with
        | .error e => .error e
        | .ok b => .ok { o with ok := b }
      else .ok o

/-! ## PI header — CRC-CCITT, no sentinel -/

structure PiObj where
  data : Bytes
  /-- `self.crc`: always the calculated value -/
  crc : Nat
  ok : Bool
deriving DecidableEq, Repr

/-- `PIHeader.as_bits` -/
def PiObj.enc (o : PiObj) : Bits := bytesToBits o.data ++ natToBits 16 o.crc

/-- `PIHeader.__init__(data, crc: int)` -/
def piInit (data : Bytes) (crc : Nat) : Except IErr PiObj := do
  let c ← ofCrc (Crc.crc16 data maskPiHeader)
  pure ⟨data, c, c == crc⟩

/-- `PIHeader.from_bits`: `PIHeader(data=bits_to_bytes(bits[:-16]), crc=ba2int(bits[-16:]))`
(`ba2int` of an empty bitarray raises `ValueError`) -/
def piDec (bits : Bits) : Except IErr PiObj :=
  if bits.length = 0 then .error .valueError
  else piInit (bitsToBytes (bits.take (bits.length - 16))) (bitsToNat (bits.drop (bits.length - 16)))

/-! ## Data header — CRC-CCITT -/

/-- `as_bits()` of a header the library built from fields with no CRC given: the constructor stores
`int2ba(CRC16.calculate(as_bits()[:-16].tobytes(), CrcMasks.DataHeader), length=16)`;
`body` = the 80 serialised field bits (the field codec is C03's subject) -/
def dhEnc (body : Bits) : Except IErr Bits := do
  let c ← ofCrc (Crc.crc16 (bitsToBytes body) maskDataHeader)
  if c ≥ 65536 then throw .overflowError     -- int2ba(…, length=16)
  pure (body ++ natToBits 16 c)

/-- `crc_ok` after `DataHeader.from_bits(bits)`; `fieldsFail` = `fields_from_bits` (the field decoder
and the constructor) raised.  With a zero (or short) CRC field the constructor regenerates the CRC and
reports ok; otherwise the verdict is taken over the bits that were received. -/
def dhDec (bits : Bits) (fieldsFail : Bool) : Except IErr Bool :=
  if fieldsFail then .error .valueError
  else if bits.length ≥ 96 ∧ bitsToNat (sl bits 80 96) > 0 then
    ofCrc (crc16Check (bitsToBytes (sl bits 0 80)) (bitsToNat (sl bits 80 96)) maskDataHeader)
  else .ok true

/-! ## Confirmed rate-1/2, 3/4, 1 data blocks — CRC-9 -/

/-- one of the three block families: total bits, `(Unconfirmed, Confirmed, UnconfirmedLastBlock,
ConfirmedLastBlock)` data octets, defined member values, CRC mask -/
structure RateCfg where
  total : Nat
  lens : List Nat
  members : List Nat
  mask : Nat

def rate12 : RateCfg := ⟨96, rate12Lens, rate12Members, maskRate12DataContinuation⟩
def rate34 : RateCfg := ⟨144, rate34Lens, rate34Members, maskRate34DataContinuation⟩
def rate1 : RateCfg := ⟨192, rate1Lens, rate1Members, maskRate1DataContinuation⟩

structure RateObj where
  data : Bytes
  dbsn : Nat
  crc9 : Nat
  crc32 : Nat
  ok : Bool
deriving DecidableEq, Repr

/-- `RateXXData.__init__(data: bitarray, packet_type, dbsn: bitarray, crc9: bitarray, crc32)` with
`typeLen` = `packet_type.value` -/
def rateInit (c : RateCfg) (typeLen : Nat) (dataBits dbsnBits crc9Bits : Bits) (crc32 : Nat) :
    Except IErr RateObj :=
  let data := bitsToBytes dataBits
  -- validate_packet_type
  if data.length ≠ 0 ∧ data.length ≠ typeLen then .error .assertionError
  -- RateXXDataTypes(len(self.data))
  else if !(c.members.contains data.length) then .error .valueError
  else
    let dbsn := bitsToNat dbsnBits
    let crc9 := bitsToNat crc9Bits.reverse
    match ofCrc (Crc.crc9 data dbsn c.mask (.int crc32)) with
    | .error e => .error e
    | .ok cval =>
      let crc9' := if crc9 ≤ 0 then cval else crc9
      .ok ⟨data, dbsn, crc9', crc32, crc9' == cval⟩

/-- `from_bits_typed(bits, Confirmed)` (`last = false`) / `from_bits_typed(bits, ConfirmedLastBlock)` -/
def rateDec (c : RateCfg) (last : Bool) (bits : Bits) : Except IErr RateObj :=
  if bits.length ≠ c.total then .error .assertionError
  else if last then
    rateInit c (c.lens.getD 3 0) (sl bits 16 (c.total - 32)) (sl bits 0 7) (sl bits 7 16)
      (bitsToNat (sl bits (c.total - 32) c.total))
  else
    rateInit c (c.lens.getD 1 0) (sl bits 16 c.total) (sl bits 0 7) (sl bits 7 16) 0

/-- `as_bits` of a confirmed (last) block -/
def RateObj.enc (o : RateObj) (last : Bool) : Bits :=
  natToBits 7 o.dbsn ++ (natToBits 9 o.crc9).reverse ++ bytesToBits o.data
    ++ (if last then natToBits 32 o.crc32 else [])

/-! ## HRNP — ones' complement sum over the received octets -/

/-- big-endian 16-bit words; an odd tail is padded with `0x00` -/
def words16 : Bytes → List Nat
  | [] => []
  | [a] => [a * 256]
  | a :: b :: rest => (a * 256 + b) :: words16 rest

/-- `while check >> 16: check = (check & 0xFFFF) + (check >> 16)` (fuel = the value itself: every
round strictly decreases a value ≥ 65536) -/
def foldGo : Nat → Nat → Nat
  | 0, c => c
  | f + 1, c => if c / 65536 = 0 then c else foldGo f (c % 65536 + c / 65536)

def fold16 (c : Nat) : Nat := foldGo c c

/-- `HRNP.calculate_checksum` as an integer: `~fold(sum) & 0xFFFF` -/
def hrnpChecksum (checked : Bytes) : Nat := 65535 - fold16 (words16 checked).sum

def be16 (bs : Bytes) : Nat := bs.foldl (fun acc b => acc * 256 + b) 0

/-- `checksum_correct` after `HRNP.from_bytes(d)` **before the length cross-check** (the code between
4e51d6f and the repair of the length octets; also the first part of the present function): the
checksum verdict over the received octets; `hdapFails` = the HDAP stage raised -/
def hrnpDecOld (d : Bytes) (hdapFails : Bool) : Except IErr Bool := do
  if d.length < 12 then throw .assertionError
  let plen := be16 ((d.take 10).drop 8)
  if d.length < plen then throw .assertionError
  if !(hrnpOpcodes.contains (d.getD 3 0)) then throw .valueError
  if hdapFails then throw .hdap
  pure (hrnpChecksum (d.take 10 ++ (d.take plen).drop 12) == be16 ((d.take 12).drop 10))

/-- `int.from_bytes(data[15:17], byteorder=hrnp.data.get_endianness())`: the payload-length field of the
carried HDAP message, little-endian for RCP (service 0x02, the only class that overrides
`get_endianness`), big-endian otherwise; a short buffer gives a short slice -/
def hrnpInnerLen (d : Bytes) : Nat :=
  if d.getD 12 0 % 128 = 2 then be16 ((d.take 17).drop 15).reverse else be16 ((d.take 17).drop 15)

/-- the cross-check added by the repair: a DATA packet is 12 header octets and one HDAP message of
7 + payload-length octets (`isinstance(hrnp.data, HDAP)` holds whenever this line is reached with
opcode DATA: `data = None` raised `TypeError` in the constructor, which is `hdapFails`) -/
def hrnpLenOk (d : Bytes) : Bool :=
  if d.getD 3 0 = hrnpData then decide (be16 ((d.take 10).drop 8) = 12 + 7 + hrnpInnerLen d) else true

/-- `checksum_correct` after `HRNP.from_bytes(d)` as it is now: the verdict on the received octets
(`hrnpDecOld`, every raising statement is in there) and the length cross-check -/
def hrnpDec (d : Bytes) (hdapFails : Bool) : Except IErr Bool :=
  match hrnpDecOld d hdapFails with
  | .error e => .error e
  | .ok b => .ok (b && hrnpLenOk d)

/-- `HRNP.as_bytes`: header octets, length, checksum over header ‖ payload, payload (`inner` is the
HDAP serialisation for a DATA packet, empty otherwise; `len(self)` = 12 + its length) -/
def hrnpEnc (header version block opcode source destination pn : Nat) (inner : Bytes) : Bytes :=
  let len := 12 + inner.length
  let head := [header, version, block, opcode, source, destination, pn / 256 % 256, pn % 256,
    len / 256 % 256, len % 256]
  let c := hrnpChecksum (head ++ inner)
  head ++ [c / 256 % 256, c % 256] ++ inner

end Integrity
end Dmr
