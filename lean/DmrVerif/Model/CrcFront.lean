import DmrVerif.Model.Crc
import DmrVerif.Gen.Crc

/-!
The four CRC front-end classes of the library, instantiated with what their `CALC` singletons hold
on this run (`Gen/Crc.lean`: configuration and register kind).  Each table is a closed constant, so
the compiled driver builds it once.
-/

namespace Dmr.Crc
open Dmr.Gen

def tbl8 : List Bits := lookupTable front8.1.w front8.1.poly
def tbl9 : List Bits := lookupTable front9.1.w front9.1.poly
def tbl16 : List Bits := lookupTable front16.1.w front16.1.poly
def tbl32 : List Bits := lookupTable front32.1.w front32.1.poly

/-- `CRC8.CALC`, `CRC9.CALC`, `CRC16.CALC`, `CRC32.CALC` -/
def calc8 : Calc := calculator front8.1 front8.2 tbl8
def calc9 : Calc := calculator front9.1 front9.2 tbl9
def calc16 : Calc := calculator front16.1 front16.2 tbl16
def calc32 : Calc := calculator front32.1 front32.2 tbl32

/-- `CRC8.calculate(data)` (`le`: endianness of the bitarray passed in) / `CRC8.check` -/
def crc8 (le : Bool) (data : Bits) : Except CrcErr Nat := crc8With calc8 le data
def crc8Check (le : Bool) (data : Bits) (crc : Int) : Except CrcErr Bool := crc8CheckWith calc8 le data crc

/-- `CRC16.calculate(data, mask)` / `CRC16.check` -/
def crc16 (data : Bytes) (mask : Nat) : Except CrcErr Nat := crc16With calc16 data mask
def crc16Check (data : Bytes) (crc : Int) (mask : Nat) : Except CrcErr Bool := crc16CheckWith calc16 data crc mask

/-- `CRC9.calculate(data, mask)` on a bit string -/
def crc9Bits (le : Bool) (src : Bits) (mask : Nat) : Except CrcErr Nat := crc9BitsWith calc9 le src mask
/-- `CRC9.calculate_from_parts` / `CRC9.check` -/
def crc9 (data : Bytes) (serial : Int) (mask : Nat) (crc32 : Crc32Arg) : Except CrcErr Nat :=
  crc9With calc9 data serial mask crc32
def crc9Check (data : Bytes) (serial : Int) (crc : Int) (mask : Nat) (crc32 : Crc32Arg) : Except CrcErr Bool :=
  crc9CheckWith calc9 data serial crc mask crc32

/-- `CRC32.calculate(data)` / `CRC32.check` -/
def crc32 (data : Bytes) : Except CrcErr Nat := crc32With calc32 data
def crc32Check (data : Bytes) (crc : Int) : Except CrcErr Bool := crc32CheckWith calc32 data crc

end Dmr.Crc
