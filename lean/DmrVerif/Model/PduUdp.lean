import DmrVerif.Model.Layout
import DmrVerif.Gen.Elements

/-!
Model of `okdmr/dmrlib/etsi/layer3/pdu/udp_ipv4_compressed_header.py`
(`UDPIPv4CompressedHeader.__init__`, `as_bits`, `from_bits`).

The header has 40 bits, 0 / 1 / 2 sixteen-bit extended headers (present iff the source / destination
port identifier is `InExtendedHeader` = 0) and arbitrary user data.  The object keeps the *original*
7-bit port identifiers (`udp_*_port_original`) which `as_bits` writes, and the folded enum members
(derived: `UDPPortIdentifier(original)`); the IP address identifiers are written from the folded
members.
-/

namespace Dmr
open Dmr.Gen

structure UdpHeader where
  ipv4Identification : Nat
  /-- value of the (folded) `IPAddressIdentifier` member -/
  sourceIpAddressId : Nat
  destinationIpAddressId : Nat
  /-- `udp_source_port_original` -/
  udpSourcePort : Nat
  /-- `udp_destination_port_original` -/
  udpDestinationPort : Nat
  extendedHeader1 : Option Nat
  extendedHeader2 : Option Nat
  userData : Bits
deriving DecidableEq, Repr, Inhabited

namespace UdpHeader

def optBits (o : Option Nat) : Bits :=
  match o with
  | some v => natToBits 16 v
  | none => []

/-- `as_bits` -/
def enc (p : UdpHeader) : Bits :=
  natToBits 16 p.ipv4Identification ++ (natToBits 4 p.sourceIpAddressId ++ (natToBits 4 p.destinationIpAddressId
    ++ ([false] ++ (natToBits 7 p.udpSourcePort ++ ([false] ++ (natToBits 7 p.udpDestinationPort
    ++ (optBits p.extendedHeader1 ++ (optBits p.extendedHeader2 ++ p.userData))))))))

/-- `from_bits` (then `__init__`, which converts the four integer identifiers) -/
def dec (bs : Bits) : Except Err UdpHeader :=
  if bs.length < 40 then .error .assertionError else
  match eUDPPortIdentifier.dec (getField bs 25 7) with
  | .error e => .error e
  | .ok spid =>
  match eUDPPortIdentifier.dec (getField bs 33 7) with
  | .error e => .error e
  | .ok dpid =>
  let fin := fun (e1 e2 : Option Nat) (dataStart : Nat) =>
    match eIPAddressIdentifier.dec (getField bs 16 4) with
    | .error e => (.error e : Except Err UdpHeader)
    | .ok sip =>
    match eIPAddressIdentifier.dec (getField bs 20 4) with
    | .error e => .error e
    | .ok dip =>
    .ok ⟨getField bs 0 16, sip, dip, getField bs 25 7, getField bs 33 7, e1, e2, bs.drop dataStart⟩
  if spid = 0 ∧ dpid = 0 then
    if bs.length < 72 then .error .assertionError else
    fin (some (getField bs 40 16)) (some (getField bs 56 16)) 72
  else if spid = 0 ∨ dpid = 0 then
    if bs.length < 56 then .error .assertionError else
    fin (some (getField bs 40 16)) none 56
  else fin none none 40

/-- the member value the constructor derives from an original port identifier (0 iff it is 0) -/
def portMember (v : Nat) : Nat :=
  match eUDPPortIdentifier.dec v with
  | .ok m => m
  | .error _ => 0

/-- in-range field values; the extended headers present are exactly the ones the port identifiers
announce -/
def WF (p : UdpHeader) : Prop :=
  p.ipv4Identification < 2 ^ 16 ∧ eIPAddressIdentifier.defined p.sourceIpAddressId = true ∧
  eIPAddressIdentifier.defined p.destinationIpAddressId = true ∧
  p.udpSourcePort < 2 ^ 7 ∧ p.udpDestinationPort < 2 ^ 7 ∧
  (if p.udpSourcePort = 0 ∧ p.udpDestinationPort = 0 then
     optIs p.extendedHeader1 (· < 2 ^ 16) ∧ optIs p.extendedHeader2 (· < 2 ^ 16)
   else if p.udpSourcePort = 0 ∨ p.udpDestinationPort = 0 then
     optIs p.extendedHeader1 (· < 2 ^ 16) ∧ p.extendedHeader2 = none
   else p.extendedHeader1 = none ∧ p.extendedHeader2 = none)

instance (p : UdpHeader) : Decidable p.WF := by unfold WF; exact inferInstance

end UdpHeader
end Dmr
