import DmrVerif.Model.Layout
import DmrVerif.Gen.Elements

/-!
Models of `okdmr/dmrlib/etsi/layer2/pdu/short_link_control.py` (two SLCOs with a layout: null
message, activity update) and `pi_header.py`.

Short LC: the 8-bit CRC is a bitarray attribute kept in index order; `g` stands for the 8 bits the
constructor stores when the field is zero (`int2ba(CRC8.calculate(as_bits()[:28]), 8, endian="little")`
in index order).  PI header: the constructor *always* recomputes the CRC-CCITT (`f`) over the data;
the received value only feeds `crc_ok` (C04, not modelled).
-/

namespace Dmr
open Dmr.Gen

/-! ## Short LC -/

inductive SlcPayload where
  /-- Nul_Msg -/
  | null
  /-- Act_Updt: activity ids of both slots, 8-bit hashed addresses -/
  | activity (ts1 ts2 : Nat) (addr1 addr2 : Bits)
deriving DecidableEq, Repr, Inhabited

structure ShortLc where
  /-- 8 bits in index order -/
  crc : Bits
  payload : SlcPayload
deriving DecidableEq, Repr, Inhabited

namespace ShortLc

def slcoNull : Nat := 0
def slcoActivity : Nat := 1

def slco : SlcPayload → Nat
  | .null => slcoNull
  | .activity .. => slcoActivity

/-- `as_bits()` without the CRC (28 bits) -/
def body : SlcPayload → Bits
  | .null => natToBits 4 slcoNull ++ zeros 24
  | .activity t1 t2 a1 a2 => natToBits 4 slcoActivity ++ (natToBits 4 t1 ++ (natToBits 4 t2 ++ (a1 ++ a2)))

/-- `as_bits` -/
def enc (p : ShortLc) : Bits := body p.payload ++ p.crc

/-- end of `__init__`: `if not ba2int(self.crc_8bit)` ⇒ compute over `as_bits()[:28]` -/
def init (g : Bits → Bits) (p : ShortLc) : ShortLc :=
  if allZero p.crc = true then { p with crc := g (slice (enc p) 0 28) } else p

/-- `from_bits` -/
def dec (g : Bits → Bits) (bs : Bits) : Except Err ShortLc :=
  if bs.length < 36 then .error .assertionError else
  match eSLCOs.dec (getField bs 0 4) with
  | .error e => .error e
  | .ok op =>
  if op = slcoNull then .ok (init g ⟨slice bs 28 8, .null⟩)
  else if op = slcoActivity then
    match eActivityID.dec (getField bs 4 4) with
    | .error e => .error e
    | .ok t1 =>
    match eActivityID.dec (getField bs 8 4) with
    | .error e => .error e
    | .ok t2 => .ok (init g ⟨slice bs 28 8, .activity t1 t2 (slice bs 12 8) (slice bs 20 8)⟩)
  else .error .keyError

def SlcPayload.WF : SlcPayload → Prop
  | .null => True
  | .activity t1 t2 a1 a2 =>
    eActivityID.defined t1 = true ∧ eActivityID.defined t2 = true ∧ a1.length = 8 ∧ a2.length = 8

instance (pl : SlcPayload) : Decidable (SlcPayload.WF pl) := by
  cases pl <;> (unfold SlcPayload.WF; exact inferInstance)

def WF (p : ShortLc) : Prop := p.crc.length = 8 ∧ SlcPayload.WF p.payload

instance (p : ShortLc) : Decidable p.WF := by unfold WF; exact inferInstance

end ShortLc

/-! ## PI header -/

structure PiHeader where
  data : Bytes
  crc : Nat
deriving DecidableEq, Repr, Inhabited

namespace PiHeader

/-- `__init__`: `self.crc = self.calculate_crc()` whatever was passed -/
def init (f : Bits → Nat) (data : Bytes) : PiHeader := ⟨data, f (bytesToBits data)⟩

/-- `as_bits` -/
def enc (p : PiHeader) : Bits := bytesToBits p.data ++ natToBits 16 p.crc

/-- `from_bits`: `PIHeader(data=bits_to_bytes(bits[:-16]), crc=ba2int(bits[-16:]))`
(`ba2int` of an empty bitarray raises `ValueError`) -/
def dec (f : Bits → Nat) (bs : Bits) : Except Err PiHeader :=
  if bs.length = 0 then .error .valueError else
  .ok (init f (bitsToBytes (bs.take (bs.length - 16))))

/-- the object invariant the constructor establishes, 10 data octets -/
def WF (f : Bits → Nat) (p : PiHeader) : Prop :=
  p.data.length = 10 ∧ isBytes p.data = true ∧ p.crc = f (bytesToBits p.data)

end PiHeader
end Dmr
