import DmrVerif.Model.Storage

/-!
# Container values in the storage model (C20, hardening round 4)

`Repeater.patch` / `Repeater.attr` accept *any* Python object as a value; besides the scalars and address
shapes of `Val` a caller can hand over a **container** — a `dict` (per-timeslot settings), a `list`, a
`set`, a `bytearray`.  The unchanged code never looks into a value and never changes one: it stores the
reference it was given and compares values with `==` only.  For such code a container is faithfully
modelled as an **immutable opaque value**: a kind tag and the canonical text of its content, equal to
another one iff kind and content agree (Python's `==` on two dicts / lists / sets / bytearrays of the
modelled element types), never equal to a scalar, a string or a tuple.

The model has *value* semantics, Python has *reference* semantics.  The two agree exactly as long as
nobody mutates a stored container in place; the harness prints every record (and the caller's own
objects) after every operation of its container stream, so a code change that merges / extends a stored
container in place (which silently rewrites every record and every caller variable sharing the object)
is a correspondence difference, and the deep-snapshot oracle reports it as a concrete failing history.

Encoding (no new constructor: `Val` is shared with the C17 / C18 models): `Val.str` over a first element
that is **no Unicode code point** (`≥ 0x110000`), so it can never collide with a Python `str`.
Truthiness of an opaque value is not modelled (no storage operation looks at it).

No imports beyond the model: compiled into the native drivers.
-/

namespace Dmr.Storage

/-- the first number that is not a Unicode code point (`0x110000`) -/
def opaqueBase : Nat := 1114112

/-- kinds of containers the harness sends: 1 `dict`, 2 `list`, 3 `set`, 4 `bytearray` -/
def Val.opaque (kind : Nat) (content : List Nat) : Val := .str ((opaqueBase + kind) :: content)

/-- kind and content of an opaque value -/
def Val.opaque? : Val → Option (Nat × List Nat)
  | .str (c :: t) => if opaqueBase ≤ c then some (c - opaqueBase, t) else Option.none
  | _ => Option.none

/-- a Python `str`: every element is a code point -/
def Val.isPyStr : Val → Bool
  | .str s => s.all (fun c => decide (c < opaqueBase))
  | _ => false

end Dmr.Storage
