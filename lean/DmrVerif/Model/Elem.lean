import DmrVerif.Model.Bits

/-!
Information elements (`okdmr/dmrlib/etsi/layer2/elements`, `layer3/elements`).

An element of bit width `w` is an `enum.Enum` whose constructor call `E(v)` either returns a member
(possibly a *different* one: the `_missing_` hook folds undefined values onto a reserved member),
raises, or — if `_missing_` returns `None` — yields nothing (Python then raises the generic
"not a valid" `ValueError`).  The translator (`tools/extract_elements.py`) calls the real class on all
`2^w` values, so `graph` **is** the function; nothing about elements is modelled by hand.
-/

namespace Dmr

/-- the error kinds the PDU / element decoders of the library can raise -/
inductive Err where
  | valueError        -- ValueError           ("… is undefined")
  | assertionError    -- AssertionError       (length / range asserts)
  | notImplemented    -- NotImplementedError  ("Not-implemented CSBKO / DPF …")
  | keyError          -- KeyError             ("Not-implemented FLCO / SLCO …")
  | indexError        -- IndexError           (bit index outside a too short bitarray)
  | other             -- anything else
deriving DecidableEq, Repr, Inhabited

def Err.toString : Err → String
  | .valueError => "ERR ValueError"
  | .assertionError => "ERR AssertionError"
  | .notImplemented => "ERR NotImplementedError"
  | .keyError => "ERR KeyError"
  | .indexError => "ERR IndexError"
  | .other => "ERR other"

/-- result of calling an element class on one integer -/
inductive ElemRes where
  | member (v : Nat)   -- the value of the member that is returned
  | valueError
  | assertionError
  | otherError
  | nothing            -- `_missing_` returned `None`
deriving DecidableEq, Repr, Inhabited

structure Elem where
  name : String
  /-- bit width -/
  w : Nat
  /-- `graph[v]` = outcome of `E(v)`, for `v = 0 … 2^w − 1` -/
  graph : List ElemRes
  /-- outcome of `E.from_bits(int2ba(v, w))` for the elements that have `from_bits` (else `[]`) -/
  fromBits : List ElemRes
  /-- the defined member values in declaration order -/
  members : List Nat
  /-- `member.as_bits()` for the elements that have `as_bits` (else `[]`), aligned with `members` -/
  asBits : List Bits

namespace Elem

def lookup (E : Elem) (v : Nat) : ElemRes := E.graph.getD v .nothing

/-- decoding step used by every PDU model: `E(v)` -/
def dec (E : Elem) (v : Nat) : Except Err Nat :=
  match E.lookup v with
  | .member m => .ok m
  | .valueError => .error .valueError
  | .assertionError => .error .assertionError
  | .otherError => .error .other
  | .nothing => .error .valueError

/-- `v` is a defined member -/
def defined (E : Elem) (v : Nat) : Bool := E.members.contains v

/-- the property of C03 about one element, as a decidable check of the extracted graph:
the graph has `2^w` entries; no value maps to nothing; a defined value maps to itself; whatever a
value maps to is a defined member that maps to itself and fits the width; `from_bits` agrees with the
constructor; `as_bits` of a member is its value on `w` bits -/
def total (E : Elem) : Bool :=
  E.graph.length == 2 ^ E.w
  && E.graph.all (fun r => r != .nothing)
  && E.members.all (fun m => decide (m < 2 ^ E.w) && E.lookup m == .member m)
  && E.graph.all (fun r => match r with
      | .member m => E.defined m && E.lookup m == .member m && decide (m < 2 ^ E.w)
      | _ => true)
  && (E.fromBits.isEmpty || E.fromBits == E.graph)
  && (E.asBits.isEmpty || E.asBits == E.members.map (natToBits E.w))

end Elem
end Dmr
