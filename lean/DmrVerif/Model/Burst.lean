import DmrVerif.Model.Layout
import DmrVerif.Model.Codes
import DmrVerif.Model.Bptc
import DmrVerif.Model.Trellis
import DmrVerif.Model.PduCsbk
import DmrVerif.Model.PduDataHeader
import DmrVerif.Model.PduFullLc
import DmrVerif.Model.PduShort
import DmrVerif.Model.PduRate
import DmrVerif.Gen.Codes
import DmrVerif.Gen.Elements
import DmrVerif.Gen.Burst

/-!
Model of `okdmr/dmrlib/etsi/layer2/burst.py` (`Burst.__init__`, `extract_data`, `as_bits`,
`interleave`, `deinterleave`), `pdu/slot_type.py`, `pdu/embedded_signalling.py` and of the way
`TransmissionGenerator` assembles a burst object from a payload (`build`).

Read-only imports: `Model/Bptc.lean` (C02), `Model/Trellis.lean` (C10), `Model/Codes.lean` (C06), the
PDU models of C03.  `fec_parity_ok` / `emb_parity_ok` are integrity indicators (C04), not modelled.
The CRC functions of the PDUs are parameters (`Crcs`).
-/

namespace Dmr
open Dmr.Gen Dmr.Gen.Burst

/-! ## slot type -/

structure SlotType where
  colourCode : Nat
  /-- value of the (folded) `DataTypes` member -/
  dataType : Nat
  fecParity : Nat
deriving DecidableEq, Repr, Inhabited

namespace SlotType

/-- `as_bits` -/
def enc (s : SlotType) : Bits := natToBits 4 s.colourCode ++ (natToBits 4 s.dataType ++ natToBits 12 s.fecParity)

/-- `__init__(colour_code, data_type, parity)` with an integer data type -/
def init (cc dt parity : Nat) : Except Err SlotType :=
  if ¬ cc ≤ 15 then .error .assertionError else
  if ¬ dt ≤ 15 then .error .assertionError else
  if ¬ parity ≤ 4095 then .error .assertionError else
  match eDataTypes.dec dt with
  | .error e => .error e
  | .ok m =>
  if parity < 1 then
    -- numpy_array_to_int(Golay2087.generate(self.as_bits()[:8])[8:])
    .ok ⟨cc, m, bitsToNat ((golay2087.gen (slice (enc ⟨cc, m, parity⟩) 0 8)).drop 8)⟩
  else .ok ⟨cc, m, parity⟩

/-- `from_bits` -/
def dec (bs : Bits) : Except Err SlotType :=
  if bs.length ≠ 20 then .error .assertionError else
  init (getField bs 0 4) (getField bs 4 4) (bitsToNat (bs.drop 8))

end SlotType

/-! ## embedded signalling -/

structure Emb where
  colourCode : Nat
  pi : Nat
  lcss : Nat
  parity : Nat
deriving DecidableEq, Repr, Inhabited

namespace Emb

/-- `as_bits` -/
def enc (e : Emb) : Bits :=
  natToBits 4 e.colourCode ++ (natToBits 1 e.pi ++ (natToBits 2 e.lcss ++ natToBits 9 e.parity))

/-- `__init__(colour_code, pi, lcss, emb_parity)` with integer arguments -/
def init (cc pi lcss parity : Nat) : Except Err Emb :=
  if ¬ cc ≤ 15 then .error .assertionError else
  if ¬ lcss ≤ 3 then .error .assertionError else
  if ¬ pi ≤ 1 then .error .assertionError else
  match ePreemptionPowerIndicator.dec pi with
  | .error e => .error e
  | .ok pim =>
  match eLCSS.dec lcss with
  | .error e => .error e
  | .ok lm =>
  if parity ≤ 0 then
    -- numpy_array_to_int(QuadraticResidue1676.generate(self.as_bits()[:7])[7:16])
    .ok ⟨cc, pim, lm, bitsToNat (slice (qr1676.gen (slice (enc ⟨cc, pim, lm, parity⟩) 0 7)) 7 9)⟩
  else .ok ⟨cc, pim, lm, parity⟩

/-- `from_bits` -/
def dec (bs : Bits) : Except Err Emb :=
  if bs.length ≠ 16 then .error .assertionError else
  init (getField bs 0 4) (b2n (getBit bs 4)) (getField bs 5 2) (getField bs 7 9)

end Emb

/-! ## the burst -/

/-- `SyncPatterns.resolve_bytes`: a pattern (identified by its 48-bit value) or `EmbeddedSignalling` -/
inductive Sync where
  | pattern (v : Nat)
  | embedded
deriving DecidableEq, Repr, Inhabited

def syncValues : List Nat := syncPatterns.map (·.2)

def Sync.resolve (v : Nat) : Sync := if syncValues.contains v then .pattern v else .embedded

inductive BurstType where
  | undefined | vocoder | dataAndControl
deriving DecidableEq, Repr, Inhabited

/-- the PDU carried by a data burst (`Burst.data`); the constructor fixes the slot data type -/
inductive Payload where
  | piHeader (p : PiHeader)
  | voiceLcHeader (p : FullLc)
  | terminatorWithLc (p : FullLc)
  | csbk (p : Csbk)
  | dataHeader (p : DataHeader)
  | rate12 (p : RateData)
  | rate34 (p : RateData)
  | rate1 (p : RateData)
deriving DecidableEq, Repr, Inhabited

namespace Payload

/-- the slot data type `TransmissionGenerator` writes for this payload -/
def dataType : Payload → Nat
  | .piHeader _ => dtPIHeader
  | .voiceLcHeader _ => dtVoiceLCHeader
  | .terminatorWithLc _ => dtTerminatorWithLC
  | .csbk _ => dtCSBK
  | .dataHeader _ => dtDataHeader
  | .rate12 _ => dtOfRate12
  | .rate34 _ => dtOfRate34
  | .rate1 _ => dtOfRate1

/-- `self.data.as_bits()` -/
def bits : Payload → Bits
  | .piHeader p => p.enc
  | .voiceLcHeader p => p.enc
  | .terminatorWithLc p => p.enc
  | .csbk p => p.enc
  | .dataHeader p => p.enc
  | .rate12 p => RateData.enc Dmr.rate12 p
  | .rate34 p => RateData.enc Dmr.rate34 p
  | .rate1 p => RateData.enc Dmr.rate1 p

end Payload

/-- the CRC functions of the PDU constructors (parameters of every statement, see C03 / C05) -/
structure Crcs where
  csbk : Bits → Nat
  dh : Bits → Nat
  pi : Bits → Nat
  r12 : Bytes → Nat → Nat → Nat
  r34 : Bytes → Nat → Nat → Nat
  r1 : Bytes → Nat → Nat → Nat

/-- the attributes of a `Burst` object that `as_bits` and the property's observables read -/
structure Burst where
  sync : Sync
  /-- `embedded_signalling_bits` = bits 116 … 147 -/
  embBits : Bits
  /-- `voice_bits` = bits 0 … 107 and 156 … 263 -/
  voiceBits : Bits
  isVoiceSuperframeStart : Bool
  isVocoder : Bool
  isDataOrControl : Bool
  hasEmb : Bool
  emb : Option Emb
  slotType : Option SlotType
  data : Option Payload
deriving DecidableEq, Repr, Inhabited

namespace Burst

def ofTrellis {α : Type} : Trellis.R α → Except Err α
  | .ok a => .ok a
  | .error .assertion => .error .assertionError
  | .error .index => .error .indexError
  | .error .key => .error .keyError

def ofBptc {α : Type} : Except Bptc.Err α → Except Err α
  | .ok a => .ok a
  | .error .assertion => .error .assertionError

/-- `Burst.deinterleave(bits, data_type)` -/
def deinterleave (info : Bits) (dt : Nat) : Except Err Bits :=
  if dt = dtRate34Data then ofTrellis (Trellis.decode info)
  else if dt = dtRate1Data then .ok (info.take 96 ++ info.drop 100)
  else if dt = dtReserved then .error .valueError
  else ofBptc (Bptc.deinterleaveDataBits info true)

/-- `Burst.interleave()` of a data burst: dispatch on the slot data type, bits from `data.as_bits()` -/
def interleave (dt : Nat) (payloadBits : Bits) : Except Err Bits :=
  if dt = dtRate34Data then ofTrellis (Trellis.encode payloadBits)
  else if dt = dtRate1Data then .ok (payloadBits.take 96 ++ ([false, false, false, false] ++ payloadBits.drop 96))
  else if dt = dtReserved then .error .valueError
  else ofBptc (Bptc.encode payloadBits)

/-- `extract_data()` -/
def extractData (c : Crcs) (dt : Nat) (deint : Bits) : Except Err (Option Payload) :=
  if dt = dtCSBK then (Csbk.dec c.csbk deint).map (fun p => some (.csbk p))
  else if dt = dtVoiceLCHeader then (FullLc.dec deint).map (fun p => some (.voiceLcHeader p))
  else if dt = dtPIHeader then (PiHeader.dec c.pi deint).map (fun p => some (.piHeader p))
  else if dt = dtTerminatorWithLC then (FullLc.dec deint).map (fun p => some (.terminatorWithLc p))
  else if dt = dtDataHeader then (DataHeader.dec c.dh deint).map (fun p => some (.dataHeader p))
  else if dt = dtRate34Data then (RateData.dec rate34 c.r34 .undefined deint).map (fun p => some (.rate34 p))
  else if dt = dtRate12Data then (RateData.dec rate12 c.r12 .undefined deint).map (fun p => some (.rate12 p))
  else if dt = dtRate1Data then (RateData.dec rate1 c.r1 .undefined deint).map (fun p => some (.rate1 p))
  else .ok none

/-- `Burst.__init__(full_bits, burst_type)` -/
def parse (c : Crcs) (bits : Bits) (burstType : BurstType) : Except Err Burst :=
  if bits.length ≠ 264 then .error .assertionError else
  let embBits := slice bits 116 32
  let sync := Sync.resolve (getField bits 108 48)
  let voiceBits := bits.take 108 ++ bits.drop 156
  let info := bits.take 98 ++ bits.drop 166
  let start := match sync with
    | .pattern v => voiceSyncs.contains v
    | .embedded => false
  let isDataSync := match sync with
    | .pattern v => dataSyncs.contains v
    | .embedded => false
  let burstType := if start then BurstType.vocoder else burstType
  let isVocoder := (start || burstType == .vocoder) && !isDataSync
  let isDataOrControl := burstType == .dataAndControl || isDataSync
  let hasEmb := sync == .embedded && !start
  match (if hasEmb then (Emb.dec (slice bits 108 8 ++ slice bits 148 8)).map some else .ok none) with
  | .error e => .error e
  | .ok emb =>
  if !isDataOrControl then
    .ok ⟨sync, embBits, voiceBits, start, isVocoder, false, hasEmb, emb, none, none⟩
  else
  match SlotType.dec (slice bits 98 10 ++ slice bits 156 10) with
  | .error e => .error e
  | .ok st =>
  match deinterleave info st.dataType with
  | .error e => .error e
  | .ok deint =>
  match extractData c st.dataType deint with
  | .error e => .error e
  | .ok data => .ok ⟨sync, embBits, voiceBits, start, isVocoder, true, hasEmb, emb, some st, data⟩

/-- `SyncPatterns.as_bits()` (`int2ba(-1, 48)` raises `OverflowError` for the pseudo member) -/
def syncBits : Sync → Except Err Bits
  | .pattern v => .ok (natToBits 48 v)
  | .embedded => .error .other

/-- `as_bits()` (attribute errors on missing optional attributes are `other`) -/
def serialise (b : Burst) : Except Err Bits :=
  if b.isDataOrControl then
    match b.slotType, b.data with
    | some st, some p =>
      match interleave st.dataType p.bits with
      | .error e => .error e
      | .ok dbi =>
      let slot := st.enc
      match (if b.hasEmb then (match b.emb with | some e => .ok e.enc | none => .error .other) else syncBits b.sync) with
      | .error e => .error e
      | .ok center => .ok (dbi.take 98 ++ (slot.take 10 ++ (center ++ (slot.drop 10 ++ dbi.drop 98))))
    | some st, none =>
      -- `self.data` is None (idle, MBC, …): Reserved raises ValueError first, otherwise AttributeError
      if st.dataType = dtReserved then .error .valueError else .error .other
    | none, _ => .error .other
  else
    match (if b.hasEmb then
        (match b.emb with
         | some e => .ok (e.enc.take 8 ++ (b.embBits ++ e.enc.drop 8))
         | none => .error .other)
      else syncBits b.sync) with
    | .error e => .error e
    | .ok center => .ok (b.voiceBits.take 108 ++ (center ++ b.voiceBits.drop 108))

/-- how `TransmissionGenerator` assembles a burst: `Burst(burst_type=DataAndControl)` (a parsed
all-zero burst), then `has_emb = False`, the sync pattern, `SlotType(colour_code, data_type)` and the
payload are assigned.  Only the assigned attributes and `is_data_or_control = True` are read by
`as_bits`; the remaining ones keep the values of the all-zero burst (irrelevant here, set to the
zero values). -/
def build (p : Payload) (cc : Nat) (sync : Nat) : Except Err Burst :=
  match SlotType.init cc p.dataType 0 with
  | .error e => .error e
  | .ok st => .ok ⟨.pattern sync, zeros 32, zeros 216, false, false, true, false, none, some st, some p⟩

/-- the 264 bits of a voice burst around a 48-bit centre -/
def voiceFrame (v center : Bits) : Bits := v.take 108 ++ (center ++ v.drop 108)

/-- the 48-bit centre of a voice burst with embedded signalling `e16` around 32 embedded bits -/
def embCenter (e16 e32 : Bits) : Bits := e16.take 8 ++ (e32 ++ e16.drop 8)

/-- payload content that is itself a valid object of another kind (hardening after seeded change C01-G):
the voice burst whose 216 vocoder bits are the two halves of the 264-bit burst `x` — everything but
its 48-bit centre, i.e. payload and slot type positions as they stand — around `center` -/
def transplant (x center : Bits) : Bits := voiceFrame (x.take 108 ++ x.drop 156) center

end Burst

/-! ## the other entry points that yield a burst object (`Burst.from_mmdvm`, `Burst.from_hytera_ipsc`)

Hardening after seeded change C01-F (serialisation made to depend on the non-ETSI `timeslot` attribute,
which only these entry points — or a caller — set to 2).  Every entry point is `Burst.__init__` on the
264 burst bits with an announced burst type it derives from the transport frame, followed by assignments
to the attributes "not standardized in ETSI Layer II Burst" (`Aux`).  `as_bits` reads none of them: in
the model the serialisation of a burst object is `Burst.serialise` of its ETSI part. -/

/-- an attribute of a Kaitai frame object: the generated parser stores an `Enum` member (a plain `Enum`
member never equals an `int`), a caller editing the object may store a plain int -/
inductive KVal where
  | member (v : Nat)
  | int (v : Nat)
deriving DecidableEq, Repr, Inhabited

/-- `attribute == <int literal>` -/
def KVal.eqInt : KVal → Nat → Bool
  | .int v, n => v == n
  | .member _, _ => false

/-- `attribute == <Enum member with value n>` -/
def KVal.eqMember : KVal → Nat → Bool
  | .member v, n => v == n
  | .int _, _ => false

/-- the attributes of a `Burst` object outside the ETSI burst (set by `__init__` to these defaults) -/
structure Aux where
  timeslot : Nat := 1
  sequenceNo : Nat := 0
  sourceRadioId : Nat := 0
  targetRadioId : Nat := 0
  streamNo : Nat := 0
  /-- `hytera_ipsc is not None` -/
  viaIpsc : Bool := false
deriving DecidableEq, Repr, Inhabited

/-- a `Burst` object: the attributes `as_bits` and the property read, and the rest -/
structure BurstObj where
  core : Burst
  aux : Aux
deriving DecidableEq, Repr, Inhabited

/-- `as_bits()` of the object -/
def BurstObj.serialise (o : BurstObj) : Except Err Bits := o.core.serialise

/-- what `Burst.from_mmdvm` reads of a `Mmdvm2020.TypeDmrData` object (`dmrBits` = `bytes_to_bits(dmr_data)`) -/
structure MmdvmFrame where
  frameType : KVal
  slotNo : KVal
  sequenceNo : Nat
  sourceId : Nat
  targetId : Nat
  streamId : Nat
  dmrBits : Bits
deriving Repr, Inhabited

namespace Burst

/-- `BurstTypes.DataAndControl if mmdvm.frame_type == 2 else BurstTypes.Vocoder`: for the object the
Kaitai parser returns the comparison of an `Enum` member with `2` is false, so every parsed frame is
announced as vocoder (a data SYNC in the burst still makes it a data burst) -/
def mmdvmAnnounced (f : MmdvmFrame) : BurstType :=
  if f.frameType.eqInt 2 then .dataAndControl else .vocoder

/-- the assignments after the constructor: `timeslot = 1 if slot_no == Timeslots.timeslot_1 else 2` … -/
def mmdvmAux (f : MmdvmFrame) : Aux :=
  { timeslot := if f.slotNo.eqMember mmdvmTimeslot1 then 1 else 2, sequenceNo := f.sequenceNo,
    sourceRadioId := f.sourceId, targetRadioId := f.targetId, streamNo := f.streamId }

/-- `Burst.from_mmdvm` -/
def fromMmdvm (c : Crcs) (f : MmdvmFrame) : Except Err BurstObj :=
  match parse c f.dmrBits (mmdvmAnnounced f) with
  | .error e => .error e
  | .ok q => .ok ⟨q, mmdvmAux f⟩

end Burst

/-- what `Burst.from_hytera_ipsc` reads of the IP site connect frame (`HyteraIPSC.from_ipsc_bytes` /
`from_kaitai`; `payloadBits` = the 33 burst octets after the pairwise octet swap) -/
structure IpscFrame where
  slotType : Nat
  callType : Nat
  timeslot : Nat
  sequenceNumber : Nat
  sourceRadioId : Nat
  destinationRadioId : Nat
  payloadBits : Bits
deriving Repr, Inhabited

/-- which object `from_hytera_ipsc` makes: the two Hytera pseudo bursts (`HyteraIPSCSync`,
`HyteraIPSCWakeup`: no ETSI burst, `as_bits` returns the bits given — not modelled further) or a `Burst`
with an announced type -/
inductive IpscKind where
  | sync
  | wakeup
  | plain (bt : BurstType)
deriving DecidableEq, Repr, Inhabited

namespace Burst

/-- the dispatch of `from_hytera_ipsc` (enum constructors raise `ValueError` for undefined values) -/
def ipscKind (f : IpscFrame) : Except Err IpscKind :=
  if !ipscSlotTypes.contains f.slotType then .error .valueError
  else if !ipscCallTypes.contains f.callType then .error .valueError
  else if (ipscTimeslots.lookup f.timeslot).isNone then .error .valueError
  else if f.slotType = ipscSlotSync then .ok .sync
  else if f.slotType = ipscSlotWakeup || ipscWakeupCalls.contains f.callType then .ok .wakeup
  else .ok (.plain (if ipscVocoderSlots.contains f.slotType then .vocoder else .dataAndControl))

def ipscAux (f : IpscFrame) : Aux :=
  { timeslot := (ipscTimeslots.lookup f.timeslot).getD 2, sequenceNo := f.sequenceNumber,
    sourceRadioId := f.sourceRadioId, targetRadioId := f.destinationRadioId, viaIpsc := true }

/-- `Burst.from_hytera_ipsc` for the frames that carry an ETSI burst (`none`: a pseudo burst) -/
def fromIpsc (c : Crcs) (f : IpscFrame) : Except Err (Option BurstObj) :=
  match ipscKind f with
  | .error e => .error e
  | .ok .sync => .ok none
  | .ok .wakeup => .ok none
  | .ok (.plain bt) =>
    match parse c f.payloadBits bt with
    | .error e => .error e
    | .ok q => .ok (some ⟨q, ipscAux f⟩)

end Burst
end Dmr
