import DmrVerif.Model.Bits
import DmrVerif.Gen.Tms

/-!
# Model of `okdmr/dmrlib/motorola/text_messaging_service.py` (property C16, TMS half)

Line-by-line model of `FirstHeader`, `AvailabilitySecondHeader`, `TextMessagingService`
(`encode_sn_and_encoding`, `decode_sn_and_encoding`, `from_bytes`, `as_bytes`) for the default
`endian="big"`.  Addresses and message texts are opaque byte strings (the UCS-2 codec of the Python
runtime is outside the model).  Every exception class the code can raise is an explicit `Err`.
Enumerations: the members are constructors, their numeric values and the `Enum(v)` lookups (with the
`_missing_` hooks) come from `Gen/Tms.lean`, regenerated from `/repo` on every run.
-/

namespace Dmr.Tms
open Dmr

/-- Python exception classes raised by the modelled code -/
inductive Err
  | assertion | value | index | type | overflow | attribute | unicode
  deriving DecidableEq, Repr

def Err.name : Err → String
  | .assertion => "AssertionError"
  | .value => "ValueError"
  | .index => "IndexError"
  | .type => "TypeError"
  | .overflow => "OverflowError"
  | .attribute => "AttributeError"
  | .unicode => "UnicodeDecodeError"

/-- `int.from_bytes(bs, "big")` -/
def be (bs : Bytes) : Nat := bs.foldl (fun acc b => 256 * acc + b) 0

/-- Python slice `data[i:j]` for `0 ≤ i`, `0 ≤ j` (clamped, empty when `j ≤ i`) -/
def slice (data : Bytes) (i j : Nat) : Bytes := (data.take j).drop i

/-! ### enumerations -/

inductive PduType
  | availability | ack | text
  deriving DecidableEq, Repr

def PduType.idx : PduType → Nat
  | .availability => 0 | .ack => 1 | .text => 2

def PduType.ofIdx : Nat → Option PduType
  | 0 => some .availability | 1 => some .ack | 2 => some .text | _ => none

/-- the member's value `(is_control_message, bits)` -/
def PduType.val (t : PduType) : Bool × Nat := Gen.Tms.pduTypeVal.getD t.idx (false, 0)

/-- `TMSPDUType((c, v))`; `none` = ValueError -/
def PduType.ofCode (c : Bool) (v : Nat) : Option PduType :=
  (Gen.Tms.pduTypeGraph.getD (16 * c.toNat + v) none).bind PduType.ofIdx

inductive Encoding
  | undefined | ucs2le
  deriving DecidableEq, Repr

def Encoding.idx : Encoding → Nat
  | .undefined => 0 | .ucs2le => 1

def Encoding.ofIdx : Nat → Option Encoding
  | 0 => some .undefined | 1 => some .ucs2le | _ => none

def Encoding.val (e : Encoding) : Nat := Gen.Tms.encodingVal.getD e.idx 0

/-- `TMSEncoding(v)` (with `_missing_`); `none` = ValueError -/
def Encoding.ofCode (v : Nat) : Option Encoding :=
  (Gen.Tms.encodingGraph.getD v none).bind Encoding.ofIdx

/-- `TMSDeviceCapability(v).value`; members are identified by their value -/
def capOfCode (v : Nat) : Option Nat := Gen.Tms.capabilityGraph.getD v none

/-! ### FirstHeader -/

/-- `is_control_message` is derived from the PDU type by the constructor, so it is not a field -/
structure FirstHeader where
  more : Bool
  ack : Bool
  reserved : Bool
  ptype : PduType
  deriving DecidableEq, Repr

def FirstHeader.ctl (h : FirstHeader) : Bool := h.ptype.val.1

/-- `FirstHeader.as_bytes` (one octet); `int2ba(v, length=4)` raises OverflowError for `v ≥ 16` -/
def headerByte (h : FirstHeader) : Except Err Nat :=
  if h.ptype.val.2 ≥ 16 then .error .overflow else
  .ok (128 * h.more.toNat + 64 * h.ack.toNat
        + 32 * (h.reserved || h.ptype == .text).toNat + 16 * h.ptype.val.1.toNat + h.ptype.val.2)

/-- `FirstHeader.from_bytes` on one octet -/
def headerOfByte (b : Nat) : Except Err FirstHeader :=
  match PduType.ofCode (b / 16 % 2 == 1) (b % 16) with
  | none => .error .value
  | some t => .ok ⟨b / 128 % 2 == 1, b / 64 % 2 == 1, b / 32 % 2 == 1, t⟩

/-! ### the message -/

structure Msg where
  header : FirstHeader
  address : Bytes
  /-- `availability_header.capability.value`, `none` = no availability header -/
  capability : Option Nat
  seq : Option Nat
  encoding : Option Encoding
  message : Option Bytes
  deriving DecidableEq, Repr

/-- `bool(self.encoding and self.encoding != TMSEncoding.UNDEFINED)` (enum members are truthy) -/
def hasEnc : Option Encoding → Bool
  | some .ucs2le => true
  | _ => false

/-- `encode_sn_and_encoding` -/
def encodeSn (seq : Option Nat) (enc : Option Encoding) : Except Err Bytes :=
  match seq with
  | none => .error .type                      -- `None > 0b11111`
  | some sn =>
    let two := decide (sn > 31) || hasEnc enc
    if sn ≥ 128 then .error .overflow else    -- int2ba(sn, length=7)
    let b1 := 128 * two.toNat + sn % 32
    if two then
      let e := if hasEnc enc then Encoding.ucs2le.val else 0
      if e ≥ 32 then .error .overflow else    -- int2ba(value, length=5)
      .ok [b1, 32 * (sn / 32) + e]
    else .ok [b1]

/-- `decode_sn_and_encoding(data, idx)` = (new idx, sequence number, encoding) -/
def decodeSn (data : Bytes) (idx : Nat) : Except Err (Nat × Nat × Option Encoding) :=
  match data[idx]? with
  | none => .error .index
  | some b0 =>
    if b0 / 128 % 2 == 1 then
      match data[idx + 1]? with
      | none => .error .index
      | some b1 =>
        match Encoding.ofCode (b1 % 32) with
        | none => .error .value
        | some e =>
          -- sn |= b1 & 0b0110_0000  (the low five bits come from b0, so `|` is `+`)
          .ok (idx + 2, b0 % 32 + 32 * (b1 / 32 % 4), if e == .undefined then none else some e)
    else .ok (idx + 1, b0 % 32, none)

/-- `TextMessagingService.from_bytes` -/
def fromBytes (data : Bytes) : Except Err Msg :=
  let msgLen := be (data.take 2)
  if data.length < msgLen then .error .assertion else
  match data[2]? with
  | none => .error .assertion                 -- FirstHeader.from_bytes(data[2:3]) on no data
  | some hb =>
    match headerOfByte hb with
    | .error e => .error e
    | .ok h =>
      let addrLen := be (slice data 3 4)
      let idx := addrLen + 4
      let address := slice data 4 idx
      match h.ptype with
      | .availability =>
        if h.more then
          match data[idx]? with
          | none => .error .index             -- data[idx:idx+1][0]
          | some b =>
            match capOfCode (b % 4) with
            | none => .error .value
            | some c => .ok ⟨h, address, some c, none, none, none⟩
        else .ok ⟨h, address, none, none, none, none⟩
      | .ack =>
        if h.more then
          match decodeSn data idx with
          | .error e => .error e
          | .ok (_, sn, enc) => .ok ⟨h, address, none, some sn, enc, none⟩
        else .ok ⟨h, address, none, none, none, none⟩
      | .text =>
        if h.more then
          match decodeSn data idx with
          | .error e => .error e
          | .ok (i, sn, enc) => .ok ⟨h, address, none, some sn, enc, some (slice data i (msgLen + 2))⟩
        else .ok ⟨h, address, none, none, none, some (slice data idx (msgLen + 2))⟩

/-- the part of `as_bytes` after the address field: (has_more_headers, bytes) -/
def body (p : Msg) : Except Err (Bool × Bytes) :=
  match p.header.ptype with
  | .availability =>
    match p.capability with
    | some c => if c ≥ 256 then .error .overflow else .ok (true, [c])
    | none => .ok (false, [])
  | .text =>
    match encodeSn p.seq p.encoding with
    | .error e => .error e
    | .ok sn =>
      match p.message with
      | none => .error .type                  -- bytes + None
      | some m => .ok (true, sn ++ m)
  | .ack =>
    if p.seq.isSome || p.encoding.isSome then
      match encodeSn p.seq p.encoding with
      | .error e => .error e
      | .ok sn => .ok (true, sn)
    else .ok (false, [])

/-- `TextMessagingService.as_bytes` -/
def asBytes (p : Msg) : Except Err Bytes :=
  if p.address.length > 255 then .error .value else      -- bytes([len(address)])
  match body p with
  | .error e => .error e
  | .ok (more, b) =>
    let d := p.address.length :: p.address ++ b
    if d.length + 1 ≥ 65536 then .error .overflow else   -- (len(data)+1).to_bytes(2)
    match headerByte { p.header with more := more } with
    | .error e => .error e
    | .ok hb => .ok ((d.length + 1) / 256 :: (d.length + 1) % 256 :: hb :: d)

end Dmr.Tms
