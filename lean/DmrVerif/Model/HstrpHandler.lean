import DmrVerif.Model.Bits
import DmrVerif.Model.Storage

/-!
# Model of `HSTRPDatagramProtocol.datagram_received` and `RRSDatagramProtocol.datagram_received` (C17)

The handler is modelled over **parsed** messages: the input of a step is what the real
`HSTRP.from_bytes` returned for the datagram, abstracted to the fields the handler looks at
(`none` = `from_bytes` returned `None` or raised — the handler's bare `except` turns both into
"not an HSTRP").  The byte-exact model of `from_bytes` itself belongs to C12.

Outputs are the `transport.sendto` calls, kept structured (`Out`) for the theorems and serialised
byte-exactly (`Out.bytes`) for the correspondence with the recording transport.

`step` is total.  The only places where the real code could raise on a parsed message are the
`int.to_bytes` calls of the answers; `raises` says when one of them overflows, `stepE` is the faithful
outcome (`Err` or the step), and `never_raises` (Props/C17) shows `raises = false` for every message
`from_bytes` can return and every reachable counter value.

Imports `Model/Storage.lean` only for the Python-dict helpers (`dictSet`/`dictGet`: the registry).
-/

namespace Dmr.HstrpHandler
open Dmr

/-- `HSTRPPacketType`: the six flags (the two reserved bits are dropped by `from_bytes`) -/
structure PktType where
  haveOptions : Bool
  isReject : Bool
  isClose : Bool
  isConnect : Bool
  isHeartbeat : Bool
  isAck : Bool
  deriving DecidableEq, Repr, Inhabited

/-- `HSTRPPacketType.as_bytes()`: `bitarray([0, 0, opt, reject, close, connect, heartbeat, ack]).tobytes()` -/
def PktType.byte (t : PktType) : Nat :=
  32 * t.haveOptions.toNat + 16 * t.isReject.toNat + 8 * t.isClose.toNat + 4 * t.isConnect.toNat
    + 2 * t.isHeartbeat.toNat + t.isAck.toNat

/-- `HSTRPPacketType.from_bytes(bytes([v]))` -/
def PktType.ofByte (v : Nat) : PktType :=
  { haveOptions := v / 32 % 2 == 1, isReject := v / 16 % 2 == 1, isClose := v / 8 % 2 == 1,
    isConnect := v / 4 % 2 == 1, isHeartbeat := v / 2 % 2 == 1, isAck := v % 2 == 1 }

/-- what the handler can see of `pdu.payload` -/
inductive Payload
  /-- `None` -/
  | none
  /-- an `HDAP` object that is not a `RadioRegistrationService` (LP, RCP, TMP) -/
  | other
  /-- `RadioRegistrationService`: `opcode.value`, `radio_ip.as_bytes()` -/
  | rrs (opcode : Nat) (radioIp : Bytes)
  deriving DecidableEq, Repr, Inhabited

/-- the fields of a parsed `HSTRP` the handler uses -/
structure Msg where
  version : Nat
  pktType : PktType
  sn : Nat
  /-- `pdu.options.as_bytes()` — what an acknowledgement re-serialises -/
  optBytes : Bytes
  payload : Payload
  deriving DecidableEq, Repr, Inhabited

/-- ranges guaranteed by `HSTRP.from_bytes` (one octet, two octets, octets, a 4-octet radio ip) -/
def Msg.WF (m : Msg) : Bool :=
  decide (m.version < 256) && decide (m.sn < 65536) && m.optBytes.all (· < 256) &&
  match m.payload with
  | .rrs op ip => decide (op < 256) && decide (ip.length = 4) && ip.all (· < 256)
  | _ => true

/-- `RRSTypes.RadioRegistrationRequest`, `RadioGoingOffline`, `RadioRegistrationAnswer` (checked against
the extracted enum in Props/C17) -/
def opRequest : Nat := 3
def opOffline : Nat := 1
def opAnswer : Nat := 128

/-- one `transport.sendto(data, addr)` -/
inductive Out
  /-- `hstrp_send_ack(addr, request)`: deep copy of the request with `is_ack=True`, `is_reject=False`,
  `payload=None` (the options stay) -/
  | ack (request : Msg)
  /-- `hstrp_send_heartbeat`: `HSTRP(HSTRPPacketType(is_heartbeat=True), sn=0)` -/
  | heartbeat
  /-- `rrs_confirm`: registration answer (Success, renew 300 s) with the handler's own S/N -/
  | rrsAnswer (sn : Nat) (radioIp : Bytes)
  deriving DecidableEq, Repr, Inhabited

def header : Bytes := [0x32, 0x42]

def be16 (n : Nat) : Bytes := [n / 256 % 256, n % 256]

/-- the packet type of the acknowledgement of `m` -/
def ackType (t : PktType) : PktType := { t with isAck := true, isReject := false }

/-- `HDAP.get_hdap_checksum` -/
def hdapChecksum (checked : Bytes) : Nat :=
  let csum := checked.foldl (fun c b => (c + b) % 256) 0
  (Nat.xor csum 0xFF + 0x33) % 256

/-- `RadioRegistrationService(opcode=Answer, radio_ip, result=Success, renew_time_seconds=300).as_bytes()` -/
def rrsAnswerBytes (ip : Bytes) : Bytes :=
  let payload := ip ++ [0] ++ [0, 0, 1, 44]
  let checked := [0, opAnswer] ++ be16 payload.length ++ payload
  [0x11] ++ checked ++ [hdapChecksum checked, 0x03]

/-- `HSTRP.as_bytes()` of the three answers -/
def Out.bytes : Out → Bytes
  | .ack m => header ++ [m.version, (ackType m.pktType).byte] ++ be16 m.sn ++ m.optBytes
  | .heartbeat => header ++ [0, 2, 0, 0]
  | .rrsAnswer sn ip => header ++ [0, 32] ++ be16 sn ++ rrsAnswerBytes ip

/-- what `HSTRP.from_bytes` returns for the bytes of an answer (the message a peer handler sees).
The registration answer has `have_options` set and no options, so `from_bytes` reads the HDAP service
octet `0x11` as option type 17 and raises: a peer running this library sees "not an HSTRP". -/
def Out.asMsg : Out → Option Msg
  | .ack m => some { m with pktType := ackType m.pktType, payload := .none }
  | .heartbeat => some { version := 0, pktType := PktType.ofByte 2, sn := 0, optBytes := [], payload := .none }
  | .rrsAnswer _ _ => Option.none

/-- handler state: `hstrp_connected`, `sn`, `registry` (radio ip ↦ online?) -/
structure St where
  connected : Bool
  sn : Nat
  /-- insertion-ordered dict `radio_ip.as_ip()` ↦ `RRSRadioState.Online` (`true`) / `Offline` (`false`);
  the key is kept as the four address octets -/
  registry : List (Bytes × Bool)
  deriving DecidableEq, Repr, Inhabited

def init : St := { connected := false, sn := 0, registry := [] }

/-- return value `(was_handled, pdu is not None)` -/
abbrev Ret := Bool × Bool

/-- `HSTRPDatagramProtocol.datagram_received`, lines 124–172 -/
def stepBase (s : St) : Option Msg → St × List Out × Ret
  | Option.none => (s, [], (false, false))
  | some m =>
    let t := m.pktType
    let hasPdu := m.payload != .none      -- `isinstance(pdu.payload, HDAP)`
    if t.isConnect then
      ({ s with connected := true }, (if !t.isAck then [.ack m] else []), (true, hasPdu))
    else if t.isHeartbeat then
      (s, (if s.connected then [.heartbeat] else []), (true, hasPdu))
    else if t.isClose then
      ({ s with connected := false }, (if !t.isAck then [.ack m] else []), (true, hasPdu))
    else if t.isAck then
      (s, [], (true, hasPdu))
    else if t.isReject then
      -- handled, but not "confirmed": the generic rule below acknowledges it
      (s, [.ack m], (true, hasPdu))
    else
      -- `if not was_confirmed and not pdu.pkt_type.is_ack: self.hstrp_send_ack(addr, pdu)`
      (s, [.ack m], (false, hasPdu))

/-- `hstrp_increment_sn` -/
def nextSn (sn : Nat) : Nat := (sn + 1) % 0xFFFF

/-- `RRSDatagramProtocol.datagram_received` -/
def step (s : St) (m : Option Msg) : St × List Out × Ret :=
  let b := stepBase s m
  let s1 := b.1
  let outs := b.2.1
  let handled := b.2.2.1
  match m with
  | some { payload := .rrs op ip, .. } =>
    if op = opRequest then
      let sn' := nextSn s1.sn
      ({ s1 with sn := sn', registry := Storage.dictSet s1.registry ip true },
        outs ++ [.rrsAnswer sn' ip], (true, true))
    else if op = opOffline then
      ({ s1 with registry := Storage.dictSet s1.registry ip false }, outs, (true, true))
    else (s1, outs, (handled, true))
  | _ => b

/-- an `int.to_bytes` of an answer would overflow (`OverflowError`) -/
def Out.raises : Out → Bool
  | .ack m => decide (m.version ≥ 256) || decide (m.sn ≥ 65536) || m.optBytes.any (· ≥ 256)
  | .heartbeat => false
  | .rrsAnswer sn ip => decide (sn ≥ 65536) || decide (ip.length ≠ 4) || ip.any (· ≥ 256)

def raises (s : St) (m : Option Msg) : Bool := (step s m).2.1.any Out.raises

/-- the faithful outcome: the exception, or the step -/
def stepE (s : St) (m : Option Msg) : Except Unit (St × List Out × Ret) :=
  if raises s m then .error () else .ok (step s m)

/-! ### histories -/

/-- run a history of parsed datagrams; collects the outputs of every delivery -/
def runFrom (s : St) : List (Option Msg) → St × List (List Out)
  | [] => (s, [])
  | m :: t =>
    let r := step s m
    let rest := runFrom r.1 t
    (rest.1, r.2.1 :: rest.2)

def run (h : List (Option Msg)) : St × List (List Out) := runFrom init h

/-- deliver every message of an inbox to a handler, collecting all its answers in order -/
def deliver (s : St) : List (Option Msg) → St × List Out
  | [] => (s, [])
  | m :: t =>
    let r := step s m
    let rest := deliver r.1 t
    (rest.1, r.2.1 ++ rest.2)

end Dmr.HstrpHandler
