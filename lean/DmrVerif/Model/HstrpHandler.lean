import DmrVerif.Model.Bits
import DmrVerif.Model.Storage

/-!
# Model of `HSTRPDatagramProtocol.datagram_received` and `RRSDatagramProtocol.datagram_received` (C17)

The handler is modelled over **parsed** messages: the input of a step is what the real
`HSTRP.from_bytes` returned for the datagram, abstracted to the fields the handler looks at
(`none` = `from_bytes` returned `None` or raised — the handler's bare `except` turns both into
"not an HSTRP").  The byte-exact model of `from_bytes` itself belongs to C12.

Outputs are the `transport.sendto` calls, kept structured (`Out`) for the theorems and serialised
byte-exactly (`Out.bytes`) for the correspondence with the recording transport.

`step` is total.  The only places where the **modelled** code could raise on a parsed message are the
`int.to_bytes` calls of the answers (the log statements are not modelled: the `repr(pdu)` logged for a REJECT
did raise for a payload that cannot be printed until `/repo` 160c61b; that is covered by the harness — oracle
kind `raises`, corpus entry `reject-with-unprintable-alias` — not by a theorem); `raises` says when one of them overflows, `stepE` is the faithful
outcome (`Err` or the step), and `never_raises` (Props/C17) shows `raises = false` for every message
`from_bytes` can return and every reachable counter value.

**Configuration.**  The constructor arguments `port` and `be_active_peer` are stored by `__init__`
(`Cfg` ↦ `init`) and kept in the state (`St.port`, `St.activePeer`): they are plain instance attributes a
caller can re-assign between datagrams (`Ev.setActive`, `Ev.setPort`).  In the code that exists
`datagram_received` never reads either of them (`port` appears in a log line of `hstrp_set_connected`
and as the destination port of `periodic_maintenance`; `be_active_peer` is only stored — every handler,
active or not, sends CONNECT from `periodic_maintenance` while it is not connected), so `stepBase` /
`step` carry them through unchanged; `config_irrelevant` (Props/C17) states this, and the state line of
the correspondence shows both after every delivery.  `St.transport` is the transport handed to
`connection_made` (`none` before it): `hstrp_send_ack` / `hstrp_send_heartbeat` send only
`if self.transport`, `rrs_confirm` and `periodic_maintenance` use it unguarded (`AttributeError` on `None`).

Besides datagrams a handler sees `connection_made`, `connection_lost`, attribute re-configuration and
iterations of `periodic_maintenance`: `Ev` / `applyEv` / `runEv`.

Imports `Model/Storage.lean` only for the Python-dict helpers (`dictSet`/`dictGet`: the registry).
-/

namespace Dmr.HstrpHandler
open Dmr

/-- `HSTRPPacketType`: the six flags (the two reserved bits are dropped by `from_bytes`) -/
structure PktType where
  haveOptions : Bool
  isReject : Bool
  isClose : Bool
  isConnect : Bool
  isHeartbeat : Bool
  isAck : Bool
  deriving DecidableEq, Repr, Inhabited

/-- `HSTRPPacketType.as_bytes()`: `bitarray([0, 0, opt, reject, close, connect, heartbeat, ack]).tobytes()` -/
def PktType.byte (t : PktType) : Nat :=
  32 * t.haveOptions.toNat + 16 * t.isReject.toNat + 8 * t.isClose.toNat + 4 * t.isConnect.toNat
    + 2 * t.isHeartbeat.toNat + t.isAck.toNat

/-- `HSTRPPacketType.from_bytes(bytes([v]))` -/
def PktType.ofByte (v : Nat) : PktType :=
  { haveOptions := v / 32 % 2 == 1, isReject := v / 16 % 2 == 1, isClose := v / 8 % 2 == 1,
    isConnect := v / 4 % 2 == 1, isHeartbeat := v / 2 % 2 == 1, isAck := v % 2 == 1 }

/-- what the handler can see of `pdu.payload` -/
inductive Payload
  /-- `None` -/
  | none
  /-- an `HDAP` object that is not a `RadioRegistrationService` (LP, RCP, TMP) -/
  | other
  /-- `RadioRegistrationService`: `opcode.value`, `radio_ip.as_bytes()` -/
  | rrs (opcode : Nat) (radioIp : Bytes)
  deriving DecidableEq, Repr, Inhabited

/-- the fields of a parsed `HSTRP` the handler uses -/
structure Msg where
  version : Nat
  pktType : PktType
  sn : Nat
  /-- `pdu.options.as_bytes()` — what an acknowledgement re-serialises -/
  optBytes : Bytes
  payload : Payload
  deriving DecidableEq, Repr, Inhabited

/-- ranges guaranteed by `HSTRP.from_bytes` (one octet, two octets, octets, a 4-octet radio ip) -/
def Msg.WF (m : Msg) : Bool :=
  decide (m.version < 256) && decide (m.sn < 65536) && m.optBytes.all (· < 256) &&
  match m.payload with
  | .rrs op ip => decide (op < 256) && decide (ip.length = 4) && ip.all (· < 256)
  | _ => true

/-- `RRSTypes.RadioRegistrationRequest`, `RadioGoingOffline`, `RadioRegistrationAnswer` (checked against
the extracted enum in Props/C17) -/
def opRequest : Nat := 3
def opOffline : Nat := 1
def opAnswer : Nat := 128

/-- one `transport.sendto(data, addr)` -/
inductive Out
  /-- `hstrp_send_ack(addr, request)`: deep copy of the request with `is_ack=True`, `is_reject=False`,
  `payload=None` (the options stay) -/
  | ack (request : Msg)
  /-- `hstrp_send_heartbeat`: `HSTRP(HSTRPPacketType(is_heartbeat=True), sn=0)` -/
  | heartbeat
  /-- `rrs_confirm`: registration answer (Success, renew 300 s) with the handler's own S/N -/
  | rrsAnswer (sn : Nat) (radioIp : Bytes)
  /-- `periodic_maintenance`: `HSTRP(pkt_type=HSTRPPacketType(is_connect=True), sn=0)` (sent to
  `("192.168.22.18", self.port)`, not to the sender of a datagram) -/
  | connect
  deriving DecidableEq, Repr, Inhabited

def header : Bytes := [0x32, 0x42]

def be16 (n : Nat) : Bytes := [n / 256 % 256, n % 256]

/-- the packet type of the acknowledgement of `m` -/
def ackType (t : PktType) : PktType := { t with isAck := true, isReject := false }

/-- `HDAP.get_hdap_checksum` -/
def hdapChecksum (checked : Bytes) : Nat :=
  let csum := checked.foldl (fun c b => (c + b) % 256) 0
  (Nat.xor csum 0xFF + 0x33) % 256

/-- `RadioRegistrationService(opcode=Answer, radio_ip, result=Success, renew_time_seconds=300).as_bytes()` -/
def rrsAnswerBytes (ip : Bytes) : Bytes :=
  let payload := ip ++ [0] ++ [0, 0, 1, 44]
  let checked := [0, opAnswer] ++ be16 payload.length ++ payload
  [0x11] ++ checked ++ [hdapChecksum checked, 0x03]

/-- `HSTRP.as_bytes()` of the three answers -/
def Out.bytes : Out → Bytes
  | .ack m => header ++ [m.version, (ackType m.pktType).byte] ++ be16 m.sn ++ m.optBytes
  | .heartbeat => header ++ [0, 2, 0, 0]
  | .rrsAnswer sn ip => header ++ [0, 32] ++ be16 sn ++ rrsAnswerBytes ip
  | .connect => header ++ [0, 4, 0, 0]

/-- what `HSTRP.from_bytes` returns for the bytes of an answer (the message a peer handler sees).
The registration answer has `have_options` set and no options, so `from_bytes` reads the HDAP service
octet `0x11` as option type 17 and raises: a peer running this library sees "not an HSTRP". -/
def Out.asMsg : Out → Option Msg
  | .ack m => some { m with pktType := ackType m.pktType, payload := .none }
  | .heartbeat => some { version := 0, pktType := PktType.ofByte 2, sn := 0, optBytes := [], payload := .none }
  | .rrsAnswer _ _ => Option.none
  | .connect => some { version := 0, pktType := PktType.ofByte 4, sn := 0, optBytes := [], payload := .none }

/-- constructor arguments of `HSTRPDatagramProtocol(port, be_active_peer=False)` /
`RRSDatagramProtocol(port, be_active_peer=False)` -/
structure Cfg where
  port : Nat
  activePeer : Bool := false
  deriving DecidableEq, Repr, Inhabited

/-- handler state: `hstrp_connected`, `sn`, `registry` (radio ip ↦ online?) -/
structure St where
  connected : Bool
  sn : Nat
  /-- insertion-ordered dict `radio_ip.as_ip()` ↦ `RRSRadioState.Online` (`true`) / `Offline` (`false`);
  the key is kept as the four address octets -/
  registry : List (Bytes × Bool)
  /-- `self.be_active_peer` (stored configuration; nothing reads it) -/
  activePeer : Bool := false
  /-- `self.port` (stored configuration; log text and destination port of `periodic_maintenance`) -/
  port : Nat := 0
  /-- `self.transport`: identity of the transport handed to `connection_made`, `none` before -/
  transport : Option Nat := Option.none
  deriving DecidableEq, Repr, Inhabited

/-- `__init__(port, be_active_peer)`: not connected, S/N 0, empty registry, no transport yet -/
def init (c : Cfg) : St :=
  { connected := false, sn := 0, registry := [], activePeer := c.activePeer, port := c.port,
    transport := Option.none }

/-- `if self.transport: self.transport.sendto(…)` — the guarded sends of `hstrp_send_ack` / `hstrp_send_heartbeat` -/
def St.send (s : St) (o : List Out) : List Out := if s.transport.isSome then o else []

/-- return value `(was_handled, pdu is not None)` -/
abbrev Ret := Bool × Bool

/-- `HSTRPDatagramProtocol.datagram_received`, lines 124–172 -/
def stepBase (s : St) : Option Msg → St × List Out × Ret
  | Option.none => (s, [], (false, false))
  | some m =>
    let t := m.pktType
    let hasPdu := m.payload != .none      -- `isinstance(pdu.payload, HDAP)`
    if t.isConnect then
      ({ s with connected := true }, s.send (if !t.isAck then [.ack m] else []), (true, hasPdu))
    else if t.isHeartbeat then
      (s, s.send (if s.connected then [.heartbeat] else []), (true, hasPdu))
    else if t.isClose then
      ({ s with connected := false }, s.send (if !t.isAck then [.ack m] else []), (true, hasPdu))
    else if t.isAck then
      (s, [], (true, hasPdu))
    else if t.isReject then
      -- handled, but not "confirmed": the generic rule below acknowledges it
      (s, s.send [.ack m], (true, hasPdu))
    else
      -- `if not was_confirmed and not pdu.pkt_type.is_ack: self.hstrp_send_ack(addr, pdu)`
      (s, s.send [.ack m], (false, hasPdu))

/-- `hstrp_increment_sn` -/
def nextSn (sn : Nat) : Nat := (sn + 1) % 0xFFFF

/-- `RRSDatagramProtocol.datagram_received`.  `rrs_confirm` calls `self.transport.sendto` unguarded:
without a transport the registration answer is not sent but raises (`raisesNoTransport`, `stepE`) — after
the registry update and the S/N increment, which this total function keeps. -/
def step (s : St) (m : Option Msg) : St × List Out × Ret :=
  let b := stepBase s m
  let s1 := b.1
  let outs := b.2.1
  let handled := b.2.2.1
  match m with
  | some { payload := .rrs op ip, .. } =>
    if op = opRequest then
      let sn' := nextSn s1.sn
      ({ s1 with sn := sn', registry := Storage.dictSet s1.registry ip true },
        outs ++ s1.send [.rrsAnswer sn' ip], (true, true))
    else if op = opOffline then
      ({ s1 with registry := Storage.dictSet s1.registry ip false }, outs, (true, true))
    else (s1, outs, (handled, true))
  | _ => b

/-- an `int.to_bytes` of an answer would overflow (`OverflowError`) -/
def Out.raises : Out → Bool
  | .ack m => decide (m.version ≥ 256) || decide (m.sn ≥ 65536) || m.optBytes.any (· ≥ 256)
  | .heartbeat => false
  | .rrsAnswer sn ip => decide (sn ≥ 65536) || decide (ip.length ≠ 4) || ip.any (· ≥ 256)
  | .connect => false

def raises (s : St) (m : Option Msg) : Bool := (step s m).2.1.any Out.raises

/-- carries an RRS registration request (what makes `rrs_confirm` run) -/
def isRequest : Option Msg → Bool
  | some { payload := .rrs op _, .. } => op = opRequest
  | _ => false

/-- `rrs_confirm` on a handler that never got a transport: `None.sendto` → `AttributeError` -/
def raisesNoTransport (s : St) (m : Option Msg) : Bool := s.transport.isNone && isRequest m

/-- what `datagram_received` can raise -/
inductive Exn
  /-- `OverflowError` of a `to_bytes` (state not modelled further: unreachable, see `never_raises`) -/
  | overflow
  /-- `AttributeError` of `rrs_confirm` without transport; the handler is left in state `after` -/
  | noTransport (after : St)
  deriving DecidableEq, Repr

/-- the faithful outcome of the RRS handler: the exception, or the step -/
def stepE (s : St) (m : Option Msg) : Except Exn (St × List Out × Ret) :=
  if raisesNoTransport s m then .error (.noTransport (step s m).1)
  else if raises s m then .error .overflow else .ok (step s m)

/-- the faithful outcome of the base handler -/
def stepBaseE (s : St) (m : Option Msg) : Except Exn (St × List Out × Ret) :=
  if (stepBase s m).2.1.any Out.raises then .error .overflow else .ok (stepBase s m)

/-- which of the two classes the handler object is -/
def stepK (rrs : Bool) (s : St) (m : Option Msg) : St × List Out × Ret :=
  if rrs then step s m else stepBase s m

def stepKE (rrs : Bool) (s : St) (m : Option Msg) : Except Exn (St × List Out × Ret) :=
  if rrs then stepE s m else stepBaseE s m

/-! ### the other things that happen to a handler -/

/-- `connection_made(transport)`: an old transport that is not closing is closed (returned), the new one
is stored.  `oldClosing` = what the old transport's `is_closing()` answers (environment input). -/
def connectionMade (s : St) (t : Nat) (oldClosing : Bool) : St × Option Nat :=
  ({ s with transport := some t },
    match s.transport with
    | some o => if oldClosing then Option.none else some o
    | Option.none => Option.none)

/-- `connection_lost(exc)`: only the connected flag is reset (transport, S/N, registry stay) -/
def connectionLost (s : St) : St := { s with connected := false }

/-- one iteration of the `periodic_maintenance` loop: CONNECT to `("192.168.22.18", self.port)` while not
connected — whatever `be_active_peer` is.  The `sendto` is unguarded (`tickRaises`). -/
def tick (s : St) : List Out := if s.connected then [] else s.send [.connect]

def tickRaises (s : St) : Bool := !s.connected && s.transport.isNone

/-- the host `periodic_maintenance` sends to (checked against the extracted value in Props/C17) -/
def tickHost : String := "192.168.22.18"

/-- a new handler after `connection_made(t)`: what datagrams are delivered to -/
def ready (c : Cfg) (t : Nat := 0) : St := (connectionMade (init c) t false).1

/-- everything that can happen to a handler object between and including datagrams -/
inductive Ev
  /-- `datagram_received(data, addr)` with what `HSTRP.from_bytes(data)` gives -/
  | rx (m : Option Msg)
  | made (t : Nat) (oldClosing : Bool)
  | lost
  /-- `handler.be_active_peer = b` -/
  | setActive (b : Bool)
  /-- `handler.port = p` -/
  | setPort (p : Nat)
  | tick
  deriving DecidableEq, Repr, Inhabited

/-- state and `sendto` calls of one event (total; the two unguarded sends raise instead when there is
no transport: `raisesNoTransport`, `tickRaises`) -/
def applyEv (rrs : Bool) (s : St) : Ev → St × List Out
  | .rx m => ((stepK rrs s m).1, (stepK rrs s m).2.1)
  | .made t c => ((connectionMade s t c).1, [])
  | .lost => (connectionLost s, [])
  | .setActive b => ({ s with activePeer := b }, [])
  | .setPort p => ({ s with port := p }, [])
  | .tick => (s, tick s)

def runEv (rrs : Bool) (s : St) : List Ev → St × List (List Out)
  | [] => (s, [])
  | e :: t =>
    let r := applyEv rrs s e
    let rest := runEv rrs r.1 t
    (rest.1, r.2 :: rest.2)

/-! ### histories -/

/-- run a history of parsed datagrams; collects the outputs of every delivery -/
def runFrom (s : St) : List (Option Msg) → St × List (List Out)
  | [] => (s, [])
  | m :: t =>
    let r := step s m
    let rest := runFrom r.1 t
    (rest.1, r.2.1 :: rest.2)

/-- a history delivered to a new handler of configuration `c` (after `connection_made`) -/
def run (c : Cfg) (h : List (Option Msg)) : St × List (List Out) := runFrom (ready c) h

/-- deliver every message of an inbox to a handler, collecting all its answers in order -/
def deliver (s : St) : List (Option Msg) → St × List Out
  | [] => (s, [])
  | m :: t =>
    let r := step s m
    let rest := deliver r.1 t
    (rest.1, r.2.1 ++ rest.2)

end Dmr.HstrpHandler
