import DmrVerif.Model.PduCsbk
import DmrVerif.Model.PduDataHeader
import DmrVerif.Model.PduFullLc
import DmrVerif.Model.PduShort

/-!
Models of `as_bits()` read off the **whole attribute record** of a PDU object (C03 hardening, round 3).

The constructors of `CSBK`, `DataHeader`, `FullLinkControl` and `ShortLinkControl` take the arguments of
all their opcodes / formats and store every one of them; `as_bits()` then picks, branch by branch, the
attributes its opcode / format carries.  The models of `Model/Pdu*.lean` hold only the carried fields
(`XPayload`).  Here the object is the full record `XArgs` (every constructor argument, whatever the
opcode), `XArgs.enc` mirrors `as_bits()` branch by branch **reading attributes**, and `XArgs.payload` is
the projection on the carried fields.  `Lemmas/PduArgs.lean` proves `XArgs.enc a = X.enc (project a)`:
an argument of another opcode / format cannot reach the wire.  The correspondence run feeds the driver
with all attributes of real objects built with non-default values in the arguments the format ignores.
-/

namespace Dmr
open Dmr.Gen

/-! ## DataHeader -/

/-- every argument of `DataHeader.__init__` = every attribute of the object (enum members as values,
`None` as 0: an attribute the format reads is never `None` for in-range field values) -/
structure DhArgs where
  dpf : Nat
  crc : Bits
  isGroup : Bool
  respReq : Bool
  padOctets : Nat
  sap : Nat
  dst : Nat
  src : Nat
  fmf : Nat
  btf : Nat
  rsf : Nat
  sendSeq : Nat
  fsn : Nat
  cls : Nat
  typ : Nat
  status : Nat
  appendedBlocks : Nat
  ddf : Nat
  sarq : Nat
  bitPadding : Bits
  emergency : Bool
  optionFlag : Nat
  padNibbles : Nat
  udtFormat : Nat
  udtOpcode : Nat
  sf : Nat
deriving DecidableEq, Repr, Inhabited

namespace DhArgs
open DataHeader

/-- `as_bits()` without the CRC, branch by branch as in `data_header.py`; `none` = `NotImplementedError` -/
def body (a : DhArgs) : Option Bits :=
  if a.dpf = dpfConfirmed then
    some ([a.isGroup, a.respReq, false, getBit (natToBits 5 a.padOctets) 0] ++ (natToBits 4 a.dpf ++ (natToBits 4 a.sap
      ++ ((natToBits 5 a.padOctets).drop 1 ++ (natToBits 24 a.dst ++ (natToBits 24 a.src ++ (natToBits 1 a.fmf
      ++ (natToBits 7 a.btf ++ (natToBits 1 a.rsf ++ (natToBits 3 a.sendSeq ++ natToBits 4 a.fsn))))))))))
  else if a.dpf = dpfUnconfirmed then
    some ([a.isGroup, a.respReq, false, getBit (natToBits 5 a.padOctets) 0] ++ (natToBits 4 a.dpf ++ (natToBits 4 a.sap
      ++ ((natToBits 5 a.padOctets).drop 1 ++ (natToBits 24 a.dst ++ (natToBits 24 a.src ++ (natToBits 1 a.fmf
      ++ (natToBits 7 a.btf ++ (zeros 4 ++ natToBits 4 a.fsn)))))))))
  else if a.dpf = dpfResponse then
    some ([false, a.respReq, false, false] ++ (natToBits 4 a.dpf ++ (natToBits 4 a.sap ++ (zeros 4
      ++ (natToBits 24 a.dst ++ (natToBits 24 a.src ++ (natToBits 1 a.fmf ++ (natToBits 7 a.btf
      ++ (natToBits 2 a.cls ++ (natToBits 3 a.typ ++ natToBits 3 a.status))))))))))
  else if a.dpf = dpfShortDataDefined then
    -- ab = int2ba(self.appended_blocks, length=6)
    some ([a.isGroup, a.respReq, getBit (natToBits 6 a.appendedBlocks) 0, getBit (natToBits 6 a.appendedBlocks) 1]
      ++ (natToBits 4 a.dpf ++ (natToBits 4 a.sap ++ ((natToBits 6 a.appendedBlocks).drop 2 ++ (natToBits 24 a.dst
      ++ (natToBits 24 a.src ++ (natToBits 6 a.ddf ++ (natToBits 1 a.sarq ++ (natToBits 1 a.fmf ++ a.bitPadding)))))))))
  else if a.dpf = dpfUdt then
    some ([a.isGroup, a.respReq, a.emergency] ++ (natToBits 1 a.optionFlag ++ (natToBits 4 a.dpf ++ (natToBits 4 a.sap
      ++ (natToBits 4 a.udtFormat ++ (natToBits 24 a.dst ++ (natToBits 24 a.src ++ (natToBits 5 a.padNibbles ++ ([false]
      ++ (natToBits 2 a.appendedBlocks ++ (natToBits 1 a.sf ++ ([false] ++ natToBits 6 a.udtOpcode))))))))))))
  else none

/-- `as_bits` -/
def enc (a : DhArgs) : Option Bits := (body a).map (· ++ a.crc)

/-- the attributes the data packet format carries -/
def payload (a : DhArgs) : Option DhPayload :=
  if a.dpf = dpfConfirmed then
    some (.confirmed a.isGroup a.respReq a.padOctets a.sap a.dst a.src a.fmf a.btf a.rsf a.sendSeq a.fsn)
  else if a.dpf = dpfUnconfirmed then
    some (.unconfirmed a.isGroup a.respReq a.padOctets a.sap a.dst a.src a.fmf a.btf a.fsn)
  else if a.dpf = dpfResponse then
    some (.response a.respReq a.sap a.dst a.src a.fmf a.btf a.cls a.typ a.status)
  else if a.dpf = dpfShortDataDefined then
    some (.shortDataDefined a.isGroup a.respReq a.appendedBlocks a.sap a.dst a.src a.ddf a.sarq a.fmf a.bitPadding)
  else if a.dpf = dpfUdt then
    some (.udt a.isGroup a.respReq a.emergency a.optionFlag a.sap a.udtFormat a.dst a.src a.padNibbles
      a.appendedBlocks a.sf a.udtOpcode)
  else none

end DhArgs

/-! ## CSBK -/

/-- every argument of `CSBK.__init__` = every attribute of the object -/
structure CsbkArgs where
  opcode : Nat
  lastBlock : Bool
  protectFlag : Bool
  fid : Nat
  crc : Nat
  bsAddress : Nat
  sourceAddress : Nat
  serviceOptions : ServiceOptions
  targetAddress : Nat
  answerResponse : Nat
  additionalInformationField : Nat
  sourceType : Nat
  serviceType : Nat
  reasonCode : Nat
  contentFollowsPreambles : Bool
  targetIsIndividual : Bool
  blocksToFollow : Nat
  syncAge : Nat
  generation : Nat
  leaderIdentifier : Nat
  newLeader : Nat
  leaderDynamicIdentifier : Nat
  channelTimingOpcode : Nat
  sourceIdentifier : Nat
  sourceDynamicIdentifier : Nat
  tsccasSupport : Bool
  siteTimeslotSynchronized : Bool
  documentVersionControl : Nat
  tsccIsOffsetTiming : Bool
  tsActiveConnection : Bool
  alohaMask : Nat
  serviceFunction : Nat
  nrandWait : Nat
  tsccRegRequired : Bool
  tsccBackoff : Nat
  systemIdentityCode : Nat
  rawData : Bytes
  announcementType : Nat
  broadcastParams : Bits
deriving DecidableEq, Repr, Inhabited

namespace CsbkArgs
open Csbk

/-- the opcode specific part of `as_bits()`, branch by branch as in `csbk.py` (an opcode without a
branch contributes nothing: the code then returns header + CRC only) -/
def payloadBits (a : CsbkArgs) : Bits :=
  if a.opcode = opBsDwnAct then
    natToBits 16 0 ++ (natToBits 24 a.bsAddress ++ natToBits 24 a.sourceAddress)
  else if a.opcode = opUuVReq then
    a.serviceOptions.enc ++ (natToBits 8 0 ++ (natToBits 24 a.targetAddress ++ natToBits 24 a.sourceAddress))
  else if a.opcode = opUuAnsRsp then
    a.serviceOptions.enc ++ (natToBits 8 a.answerResponse ++ (natToBits 24 a.targetAddress ++ natToBits 24 a.sourceAddress))
  else if a.opcode = opNackRsp then
    [a.additionalInformationField == 1, a.sourceType == 1] ++ (natToBits 6 a.serviceType ++ (natToBits 8 a.reasonCode
      ++ (natToBits 24 a.sourceAddress ++ natToBits 24 a.targetAddress)))
  else if a.opcode = opPreamble then
    [!a.contentFollowsPreambles, !a.targetIsIndividual] ++ (natToBits 6 0 ++ (natToBits 8 a.blocksToFollow
      ++ (natToBits 24 a.targetAddress ++ natToBits 24 a.sourceAddress)))
  else if a.opcode = opChannelTiming then
    natToBits 11 a.syncAge ++ (natToBits 5 a.generation ++ (natToBits 20 a.leaderIdentifier ++ (natToBits 1 a.newLeader
      ++ (natToBits 2 a.leaderDynamicIdentifier ++ ([getBit (natToBits 2 a.channelTimingOpcode) 0]
      ++ (natToBits 20 a.sourceIdentifier ++ ([false] ++ (natToBits 2 a.sourceDynamicIdentifier
      ++ [getBit (natToBits 2 a.channelTimingOpcode) 1]))))))))
  else if a.opcode = opHyteraIpscSync then bytesToBits a.rawData
  else if a.opcode = opAloha then
    [false, a.tsccasSupport, a.siteTimeslotSynchronized] ++ (natToBits 3 a.documentVersionControl
      ++ ([a.tsccIsOffsetTiming, a.tsActiveConnection] ++ (natToBits 5 a.alohaMask ++ (natToBits 2 a.serviceFunction
      ++ (natToBits 4 a.nrandWait ++ ([a.tsccRegRequired] ++ (natToBits 4 a.tsccBackoff
      ++ (natToBits 16 a.systemIdentityCode ++ natToBits 24 a.targetAddress))))))))
  else if a.opcode = opBroadcast then
    natToBits 5 a.announcementType ++ (slice a.broadcastParams 0 14 ++ ([a.tsccRegRequired] ++ (natToBits 4 a.tsccBackoff
      ++ (natToBits 16 a.systemIdentityCode ++ slice a.broadcastParams 14 24))))
  else []

/-- `as_bits` -/
def enc (a : CsbkArgs) : Bits :=
  ([a.lastBlock, a.protectFlag] ++ (natToBits 6 a.opcode ++ (natToBits 8 a.fid ++ payloadBits a))) ++ natToBits 16 a.crc

/-- the attributes the opcode carries -/
def payload (a : CsbkArgs) : Option CsbkPayload :=
  if a.opcode = opBsDwnAct then some (.bsDwnAct a.bsAddress a.sourceAddress)
  else if a.opcode = opUuVReq then some (.uuVReq a.serviceOptions a.targetAddress a.sourceAddress)
  else if a.opcode = opUuAnsRsp then some (.uuAnsRsp a.serviceOptions a.answerResponse a.targetAddress a.sourceAddress)
  else if a.opcode = opNackRsp then
    some (.nackRsp a.additionalInformationField a.sourceType a.serviceType a.reasonCode a.sourceAddress a.targetAddress)
  else if a.opcode = opPreamble then
    some (.preamble a.contentFollowsPreambles a.targetIsIndividual a.blocksToFollow a.targetAddress a.sourceAddress)
  else if a.opcode = opChannelTiming then
    some (.channelTiming a.syncAge a.generation a.leaderIdentifier a.newLeader a.leaderDynamicIdentifier
      a.channelTimingOpcode a.sourceIdentifier a.sourceDynamicIdentifier)
  else if a.opcode = opHyteraIpscSync then some (.hyteraIpscSync a.rawData)
  else if a.opcode = opAloha then
    some (.aloha a.tsccasSupport a.siteTimeslotSynchronized a.documentVersionControl a.tsccIsOffsetTiming
      a.tsActiveConnection a.alohaMask a.serviceFunction a.nrandWait a.tsccRegRequired a.tsccBackoff
      a.systemIdentityCode a.targetAddress)
  else if a.opcode = opBroadcast then
    some (.broadcast a.announcementType a.broadcastParams a.tsccRegRequired a.tsccBackoff a.systemIdentityCode)
  else none

/-- the object of `Model/PduCsbk.lean` the record stands for -/
def project (a : CsbkArgs) : Option Csbk := (payload a).map (fun pl => ⟨a.lastBlock, a.protectFlag, a.fid, a.crc, pl⟩)

end CsbkArgs

/-! ## Full LC -/

structure FlcArgs where
  protectFlag : Bool
  flco : Nat
  fid : Nat
  crc : Bits
  serviceOptions : ServiceOptions
  groupAddress : Nat
  sourceAddress : Nat
  targetAddress : Nat
  positionError : Nat
  longitudeRaw : Int
  latitudeRaw : Int
  dataFormat : Nat
  dataLength : Nat
  dataMsb : Bool
  data : Bytes
deriving DecidableEq, Repr, Inhabited

namespace FlcArgs
open FullLc

/-- FLCO specific part of `as_bits()`; `none` = `KeyError` -/
def payloadBits (a : FlcArgs) : Option Bits :=
  if a.flco = flcoUnitToUnit then
    some (a.serviceOptions.enc ++ (natToBits 24 a.targetAddress ++ natToBits 24 a.sourceAddress))
  else if a.flco = flcoGroup then
    some (a.serviceOptions.enc ++ (natToBits 24 a.groupAddress ++ natToBits 24 a.sourceAddress))
  else if a.flco = flcoGpsInfo then
    some (zeros 4 ++ (natToBits 3 a.positionError ++ (natToBits 25 (fromSigned 25 a.longitudeRaw)
      ++ natToBits 24 (fromSigned 24 a.latitudeRaw))))
  else if a.flco = flcoTalkerAliasHeader then
    some (natToBits 2 a.dataFormat ++ (natToBits 5 a.dataLength ++ ([a.dataMsb] ++ bytesToBits a.data)))
  else if a.flco = flcoTalkerAliasBlock1 ∨ a.flco = flcoTalkerAliasBlock2 ∨ a.flco = flcoTalkerAliasBlock3 then
    some (bytesToBits a.data)
  else none

/-- `as_bits` -/
def enc (a : FlcArgs) : Option Bits :=
  (payloadBits a).map fun pb => [a.protectFlag, false] ++ (natToBits 6 a.flco ++ (natToBits 8 a.fid ++ (pb ++ a.crc)))

def payload (a : FlcArgs) : Option FlcPayload :=
  if a.flco = flcoUnitToUnit then some (.unitToUnit a.serviceOptions a.targetAddress a.sourceAddress)
  else if a.flco = flcoGroup then some (.group a.serviceOptions a.groupAddress a.sourceAddress)
  else if a.flco = flcoGpsInfo then some (.gpsInfo a.positionError a.longitudeRaw a.latitudeRaw)
  else if a.flco = flcoTalkerAliasHeader then some (.talkerAliasHeader a.dataFormat a.dataLength a.dataMsb a.data)
  else if a.flco = flcoTalkerAliasBlock1 ∨ a.flco = flcoTalkerAliasBlock2 ∨ a.flco = flcoTalkerAliasBlock3 then
    some (.talkerAliasBlock a.flco a.data)
  else none

def project (a : FlcArgs) : Option FullLc := (payload a).map (fun pl => ⟨a.protectFlag, a.fid, a.crc, pl⟩)

end FlcArgs

/-! ## Short LC -/

structure SlcArgs where
  slco : Nat
  crc : Bits
  ts1 : Nat
  ts2 : Nat
  addr1 : Bits
  addr2 : Bits
deriving DecidableEq, Repr, Inhabited

namespace SlcArgs
open ShortLc

/-- `as_bits()`; `none` = `KeyError` -/
def enc (a : SlcArgs) : Option Bits :=
  if a.slco = slcoNull then some ((natToBits 4 a.slco ++ zeros 24) ++ a.crc)
  else if a.slco = slcoActivity then
    some ((natToBits 4 a.slco ++ (natToBits 4 a.ts1 ++ (natToBits 4 a.ts2 ++ (a.addr1 ++ a.addr2)))) ++ a.crc)
  else none

def payload (a : SlcArgs) : Option SlcPayload :=
  if a.slco = slcoNull then some .null
  else if a.slco = slcoActivity then some (.activity a.ts1 a.ts2 a.addr1 a.addr2)
  else none

def project (a : SlcArgs) : Option ShortLc := (payload a).map (fun pl => ⟨a.crc, pl⟩)

end SlcArgs

namespace DhArgs
def project (a : DhArgs) : Option DataHeader := (payload a).map (fun pl => ⟨a.crc, pl⟩)
end DhArgs

end Dmr
