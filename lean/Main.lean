import DmrVerif.Driver.Codes

/-!
Line-protocol driver over the executable model: one operation per input line
(`op arg …`), one canonical output line per input line.  Every imported module is Mathlib-free, so
this file is compiled to a native executable (`lake build driver`).
-/

open Dmr.Driver

def handlers : List (String → List String → Option String) :=
  [codesOp]

def dispatch (line : String) : String :=
  match (line.splitOn " ").filter (· ≠ "") with
  | [] => "ERR empty"
  | op :: args =>
    match handlers.findSome? (fun h => h op args) with
    | some out => out
    | none => "ERR bad-op " ++ op

partial def loop (hIn : IO.FS.Stream) (hOut : IO.FS.Stream) : IO Unit := do
  let line ← hIn.getLine
  if line.isEmpty then return ()
  let l := String.ofList (line.toList.filter (fun c => c != '\n' && c != '\r'))
  hOut.putStrLn (dispatch l)
  loop hIn hOut

def main : IO Unit := do
  let hIn ← IO.getStdin
  let hOut ← IO.getStdout
  loop hIn hOut
  hOut.flush
