"""Translator plugin for C18: Gen/Proto.lean.

Byte-string and integer constants of P2PDatagramProtocol and RDACDatagramProtocol, read from the live
classes: command / ping / ack prefixes, packet-type constants, the is-registered attribute key, the
default ports, every RDAC step request / response byte string and the storage attribute names.
Tables only; the dispatch logic is hand-modelled (Model/P2p.lean, Model/Rdac.lean).
"""


@register("Proto")  # noqa: F821
def gen_proto() -> str:
    import inspect

    from okdmr.dmrlib.protocols.hytera.p2p_datagram_protocol import P2PDatagramProtocol as P
    from okdmr.dmrlib.protocols.hytera.rdac_datagram_protocol import RDACDatagramProtocol as R

    out = [HEADER, "namespace Dmr.Gen.Proto\n"]  # noqa: F821

    def b(name, val):
        assert isinstance(val, (bytes, bytearray)), f"{name} is not a byte string"
        out.append(f"def {name} : List Nat := {lbytes(val)}")  # noqa: F821

    def n(name, val):
        assert isinstance(val, int) and not isinstance(val, bool) and val >= 0, f"{name} is not a natural number"
        out.append(f"def {name} : Nat := {val}")

    def s(name, val):
        assert isinstance(val, str), f"{name} is not a string"
        out.append(f"def {name} : String := {lstr(val)}")  # noqa: F821

    out.append("/-! ### P2PDatagramProtocol -/")
    b("p2pCommandPrefix", P.COMMAND_PREFIX)
    b("p2pPingPrefix", P.PING_PREFIX)
    b("p2pAckPrefix", P.ACK_PREFIX)
    n("p2pTypeRegistration", P.PACKET_TYPE_REQUEST_REGISTRATION)
    n("p2pTypeDmrStartup", P.PACKET_TYPE_REQUEST_DMR_STARTUP)
    n("p2pTypeRdacStartup", P.PACKET_TYPE_REQUEST_RDAC_STARTUP)
    out.append(f"def p2pKnownTypes : List Nat := {lnats(P.KNOWN_PACKET_TYPES)}")  # noqa: F821
    s("p2pIsRegisteredKey", P.STORAGE_ATTR_IS_REGISTERED)
    sig = inspect.signature(P.__init__)
    n("p2pDefaultP2pPort", sig.parameters["p2p_port"].default)
    n("p2pDefaultRdacPort", sig.parameters["rdac_port"].default)

    out.append("\n/-! ### RDACDatagramProtocol -/")
    names = sorted(k for k in vars(R) if k.startswith("STEP") and isinstance(getattr(R, k), (bytes, bytearray)))
    for k in names:
        parts = k.lower().split("_")  # step4_request_1 -> rdacStep4Request1
        b("rdac" + "".join(p.capitalize() for p in parts), getattr(R, k))
    out.append("/-- names of the byte-string constants found (a new or removed one changes this list) -/")
    out.append("def rdacConstNames : List String := [" + ", ".join(lstr(k) for k in names) + "]")  # noqa: F821
    for k in sorted(k for k in vars(R) if k.startswith("STORAGE_ATTR_")):
        parts = k.lower().split("_")
        s("rdac" + "".join(p.capitalize() for p in parts[2:]) + "Key", getattr(R, k))
    out.append("/-- the step methods the class defines (`getattr(self, 'step%d' % n)` must find one) -/")
    steps = sorted(int(k[4:]) for k in vars(R) if k.startswith("step") and k[4:].isdigit())
    out.append(f"def rdacStepMethods : List Nat := {lnats(steps)}")  # noqa: F821
    out.append("\nend Dmr.Gen.Proto\n")
    return "\n".join(out)
