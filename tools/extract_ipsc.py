"""
Translator plugin for C13: the value graphs of the five Hytera IPSC enumerations.

For a w-bit field (8 bits: packet type, call type; 16 bits: slot type, frame type, timeslot) the graph
`v -> member | ValueError` of `Enum(v)` is obtained by calling the enumeration on *all* 2^w values
(with the `_missing_` hooks active, warnings silenced).  It is written in compressed form: the members
(name order fixed here, so a renamed member is an extraction error), their values, and the single
answer given for every non-member value (`none` = ValueError, `some i` = the member `_missing_` falls
back to).  If the non-member values do not all get the same answer the compressed form would be wrong
and the extraction fails (the check then treats the proof as not covering the code).
Also dumped: the graph of `SlotType.is_vocoder` and of `HyteraIPSC.is_wakeup` over all members (finite
functions, so the graph is the function), and the default header / reserved constants.
"""
import warnings


def _compressed(enum_cls, order, width):
    idx = {m: i for i, m in enumerate(order)}
    assert len(order) == len(list(enum_cls)), f"{enum_cls.__name__}: member list changed"
    values = {m.value: i for m, i in idx.items()}
    default = "unset"
    with warnings.catch_warnings():
        warnings.simplefilter("ignore")
        for v in range(2**width):
            try:
                got = idx[enum_cls(v)]
            except ValueError:
                got = None
            if v in values:
                assert got == values[v], f"{enum_cls.__name__}({v}) is not the member with that value"
            else:
                if default == "unset":
                    default = got
                assert got == default, f"{enum_cls.__name__}: non-member values are not treated uniformly ({v})"
    return [int(m.value) for m in order], default


def _lopt(x):
    return "none" if x is None else f"some {int(x)}"


@register("Ipsc")
def gen_ipsc() -> str:
    from okdmr.dmrlib.hytera.ipsc_elements.call_type import CallType
    from okdmr.dmrlib.hytera.ipsc_elements.frame_type import FrameType
    from okdmr.dmrlib.hytera.ipsc_elements.packet_type import PacketType
    from okdmr.dmrlib.hytera.ipsc_elements.slot_type import SlotType
    from okdmr.dmrlib.hytera.ipsc_elements.timeslot import Timeslot
    from okdmr.dmrlib.hytera.hytera_ipsc import HyteraIPSC

    packet = [PacketType.TypeA, PacketType.TypeB, PacketType.TerminatorWithLC, PacketType.PIHeader]
    call = [CallType.PrivateCall, CallType.GroupCall, CallType.WakeupCall_2, CallType.WakeupCall_c]
    frame = [FrameType.Data, FrameType.VoiceSync, FrameType.DataSyncOrCSBK, FrameType.DataHeader, FrameType.Voice, FrameType.Sync]
    slot = [
        SlotType.PrivacyIndicator, SlotType.VoiceLCHeader, SlotType.TerminatorWithLC, SlotType.CSBK,
        SlotType.DataHeader, SlotType.Rate12Data, SlotType.Rate34Data, SlotType.VoiceFrameA,
        SlotType.VoiceFrameB, SlotType.VoiceFrameC, SlotType.VoiceFrameD, SlotType.VoiceFrameE,
        SlotType.VoiceFrameF, SlotType.Wakeup, SlotType.VoiceOrDataSync, SlotType.Undefined,
    ]
    ts = [Timeslot.Timeslot_1, Timeslot.Timeslot_2]
    out = [HEADER, "namespace Dmr.Gen.Ipsc\n"]

    def emit(name, doc, enum_cls, order, width):
        vals, default = _compressed(enum_cls, order, width)
        out.append(f"/-- `{enum_cls.__name__}` member values; order {', '.join(m.name for m in order)} -/")
        out.append(f"def {name}Val : List Nat := {lnats(vals)}\n")
        out.append(f"/-- what `{enum_cls.__name__}(v)` answers for each of the 2^{width} - {len(order)} non-member values v "
                   f"(checked on all of them): `none` = ValueError, `some i` = member i ({doc}) -/")
        out.append(f"def {name}Default : Option Nat := {_lopt(default)}\n")

    emit("packetType", "`_missing_` warns and falls back", PacketType, packet, 8)
    emit("callType", "no `_missing_`", CallType, call, 8)
    emit("frameType", "`_missing_` warns and falls back", FrameType, frame, 16)
    emit("slotType", "no `_missing_`", SlotType, slot, 16)
    emit("timeslot", "no `_missing_`", Timeslot, ts, 16)

    out.append("/-- `SlotType.is_vocoder(m)` for every member, in member order -/")
    out.append(f"def slotIsVocoder : List Bool := {lbits([SlotType.is_vocoder(m) for m in slot])}\n")
    wake = []
    for s in slot:
        row = []
        for c in call:
            o = HyteraIPSC(call_type=c, frame_type=FrameType.Data, packet_type=PacketType.TypeA, slot_type=s,
                           timeslot=Timeslot.Timeslot_1, sequence_number=0, color_code=0, destination_radio_id=0,
                           source_radio_id=0, payload=bytes(33))
            row.append(bool(o.is_wakeup()))
        wake.append(row)
    out.append("/-- `HyteraIPSC.is_wakeup()` for every (slot type member, call type member) -/")
    out.append(f"def isWakeup : List (List Bool) := {lmatrix(wake)}\n")
    out.append("/-- index of `SlotType.VoiceOrDataSync` and of `Timeslot.Timeslot_1` (compared by identity in `Burst.from_hytera_ipsc`) -/")
    out.append(f"def slotSyncIdx : Nat := {slot.index(SlotType.VoiceOrDataSync)}")
    out.append(f"def timeslot1Idx : Nat := {ts.index(Timeslot.Timeslot_1)}\n")
    for nm in ("FIRST_HEADER", "SECOND_HEADER", "RESERVED_3", "RESERVED_7A", "RESERVED_2A", "RESERVED_2B", "RESERVED_1"):
        lean_nm = "default" + "".join(p.capitalize() for p in nm.lower().split("_"))
        out.append(f"def {lean_nm} : List Nat := {lbytes(getattr(HyteraIPSC, 'DEFAULT_' + nm))}")
    out.append("\nend Dmr.Gen.Ipsc\n")
    return "\n".join(out)
