"""
py2lean_rec — extension of tools/py2lean_arr.py (subclassed through a private module copy; py2lean.py / py2lean_arr.py /
py2lean_bits.py are not edited) for `okdmr/dmrlib/hytera/hytera_ipsc.py`: a plain RECORD class.

    record class   a class whose `__init__` only stores its parameters, class constants and literals into attributes
                   (`self.x = <param | Cls.CONST | literal>`, an `import` line is ignored).  It becomes a Lean `structure` with
                   one field per attribute in assignment order; `Cls(k=v, …)` is the structure literal with `__init__` inlined;
                   `obj.x = v` on a LOCAL object made in the function is the functional update `{ obj with x := v }` (no
                   aliasing: the object never gets a second name before it is returned); `self.x` / `obj.x` read the field.
                   A `Union[bytes, "Burst"]` attribute is monomorphised by the unit (`field_types`).
    enum classes   `E(v)` for the enums declared in the unit (`enums={"PacketType": (valsTable, defaultTable)}`, tables of
                   `Gen/Ipsc.lean`): `PyRec.enumCall vals dflt v` — the member as its INDEX in definition order, `ValueError` when
                   `v` is no member and `_missing_` gives none; `m.value` is `PyRec.enumValue vals m`.  The member values of the
                   live class are pinned in the generated file (`example : vals = [...] := rfl`).
    instance methods of the record class (`self` is the record).
    functions translated in ANOTHER unit (`uses=[(unit, module, qualname)]`): referenced, not re-translated.
"""
import ast
import enum
import importlib
import importlib.util
import inspect
import os
import textwrap

_HERE = os.path.dirname(os.path.abspath(__file__))


def _load():
    spec = importlib.util.spec_from_file_location("py2lean_arr_for_rec", os.path.join(_HERE, "py2lean_arr.py"))
    mod = importlib.util.module_from_spec(spec)
    spec.loader.exec_module(mod)
    return mod


A = _load()
P = A.P
Ex = A.Ex
Untranslatable = A.Untranslatable
_arr_lean_type = P.lean_type


def lean_type(t) -> str:
    if isinstance(t, tuple) and t[0] == "enum":
        return "Int"
    if isinstance(t, tuple) and t[0] == "rec":
        return t[1]
    return _arr_lean_type(t)


P.lean_type = lean_type
A.lean_type = lean_type


class Fn(A.Fn):
    def __init__(self, unit, module, qualname, spec=None):
        self._unit = unit
        super().__init__(unit, module, qualname, spec)

    def ann(self, node):
        if isinstance(node, ast.Name) and node.id in self._unit.enums:
            return ("enum", node.id)
        if isinstance(node, ast.Constant) and isinstance(node.value, str) and node.value == self._unit.rec_name:
            return ("rec", self._unit.rec_name)
        if isinstance(node, ast.Name) and node.id == self._unit.rec_name:
            return ("rec", self._unit.rec_name)
        return super().ann(node)

    def _signature(self):
        # an instance method of the record class: `self` becomes an ordinary parameter of the record type
        a = self.node.args
        static = inspect.getattr_static(self.owner, self.name) if self.clsname else None
        if self.clsname == self._unit.rec_name and self.kind == "function" and a.args and a.args[0].arg == "self":
            a.args[0].annotation = ast.Name(id=self._unit.rec_name, ctx=ast.Load())
            self.kind = "method"
        super()._signature()


class Translator(A.Translator):
    def e_Attribute(self, n, env):
        # obj.field / obj.enumfield.value
        if isinstance(n.value, ast.Name) and n.value.id in env and isinstance(env[n.value.id], tuple) \
                and env[n.value.id][0] == "rec":
            fields = self.u.fields
            if n.attr in fields:
                return Ex(f"{A.mangle(n.value.id)}.{P.mangle(n.attr)}", fields[n.attr])
            self.f.bad(n, f"attribute `{n.attr}` is not set by {self.u.rec_name}.__init__")
        if n.attr == "value":
            x = self.expr(n.value, env)
            if isinstance(x.typ, tuple) and x.typ[0] == "enum":
                vals, _d = self.u.enums[x.typ[1]]
                return Ex(f"(PyRec.enumValue {vals} {x.val()})", "int")
        return super().e_Attribute(n, env)

    def static_test(self, n, env):
        if (isinstance(n, ast.Call) and isinstance(n.func, ast.Name) and n.func.id == "isinstance" and len(n.args) == 2
                and isinstance(n.args[0], ast.Attribute) and isinstance(n.args[1], ast.Name)):
            x = self.expr(n.args[0], env)
            known = {"bytes": "bytes", "int": "int"}
            if not self.has_effects(x) and n.args[1].id in known and x.typ in known.values():
                return known[n.args[1].id] == x.typ
        return super().static_test(n, env)

    def e_Call(self, n, env):
        fn = n.func
        if isinstance(fn, ast.Name) and fn.id not in env:
            g = self.f.fn.__globals__.get(fn.id)
            if fn.id in self.u.enums and isinstance(g, type) and issubclass(g, enum.Enum) and g is self.u.enum_classes[fn.id]:
                if len(n.args) != 1 or n.keywords:
                    self.f.bad(n, "Enum call form")
                v = self.int_of(self.expr(n.args[0], env), n)
                vals, dflt = self.u.enums[fn.id]
                return Ex(f"PyRec.enumCall {vals} {dflt} {v}", ("enum", fn.id), True)
            if fn.id == self.u.rec_name and g is self.u.rec_class:
                return self.construct(n, env)
        return super().e_Call(n, env)

    def construct(self, n, env):
        """`Cls(k=v, …)`: the arguments in source order (Python evaluates them left to right), then `__init__` inlined"""
        u = self.u
        if any(isinstance(a, ast.Starred) for a in n.args) or any(k.arg is None for k in n.keywords):
            self.f.bad(n, "constructor call form")
        got = {}
        order = []
        for i, a in enumerate(n.args):
            got[u.init_params[i]] = a
            order.append(u.init_params[i])
        for k in n.keywords:
            if k.arg in got or k.arg not in u.init_params:
                self.f.bad(n, f"constructor keyword `{k.arg}`")
            got[k.arg] = k.value
            order.append(k.arg)
        if set(got) != set(u.init_params):
            self.f.bad(n, "constructor arguments do not cover __init__'s parameters")
        vals = {}
        pre = []
        for name in order:
            x = self.expr(got[name], env)
            want = u.param_types[name]
            if x.typ != want:
                self.f.bad(n, f"constructor argument `{name}`: {x.typ} for {want}")
            vals[name] = x.val()
        items = []
        for field, (kind, what) in u.init_fields.items():
            if kind == "param":
                items.append(f"{P.mangle(field)} := {vals[what]}")
            else:
                items.append(f"{P.mangle(field)} := {what}")
        e = Ex("({ " + ", ".join(items) + f" }} : {u.rec_name})", ("rec", u.rec_name))
        return e

    def declare(self, name, e, env, ind, node, declared_type=None):
        if isinstance(e.typ, tuple) and e.typ[0] == "rec" and name in env and env[name] != e.typ and ind == 1 \
                and not self.ctx_stack:
            env = dict(env)
            env[name] = e.typ
            self.retyped.add(name)
            A._RENAME[name] = A._base_mangle(name) + "_obj"
            self.objects.add(name)
            pad = "  " * ind
            arrow = "←" if e.monadic else ":="
            return [f"{pad}let mut {A.mangle(name)} : {lean_type(e.typ)} {arrow} {e.text}"], env
        if isinstance(e.typ, tuple) and e.typ[0] == "rec" and name not in env:
            self.objects.add(name)
        return super().declare(name, e, env, ind, node, declared_type)

    def s_Assign(self, s, env, ctx, ind):
        if len(s.targets) == 1 and isinstance(s.targets[0], ast.Attribute) and isinstance(s.targets[0].value, ast.Name):
            t = s.targets[0]
            nm = t.value.id
            if nm in env and isinstance(env[nm], tuple) and env[nm][0] == "rec" and nm in self.objects:
                if t.attr not in self.u.fields:
                    self.f.bad(s, f"attribute `{t.attr}` is not set by __init__")
                v = self.expr(s.value, env)
                if v.typ != self.u.fields[t.attr]:
                    self.f.bad(s, f"attribute `{t.attr}`: {v.typ} for {self.u.fields[t.attr]}")
                pad = "  " * ind
                return [f"{pad}{A.mangle(nm)} := {{ {A.mangle(nm)} with {P.mangle(t.attr)} := {v.val()} }}"], env, True
            self.f.bad(s, "attribute store on something that is not an object made in this function")
        if len(s.targets) == 1 and isinstance(s.targets[0], ast.Name) and isinstance(s.value, ast.Name) \
                and s.value.id in getattr(self, "objects", ()):
            self.f.bad(s, "an object made in this function gets a second name")
        return super().s_Assign(s, env, ctx, ind)

    def stores(self, stmts):
        out = super().stores(stmts)
        for s in stmts:
            if isinstance(s, ast.Assign) and len(s.targets) == 1 and isinstance(s.targets[0], ast.Attribute) \
                    and isinstance(s.targets[0].value, ast.Name) and s.targets[0].value.id not in out:
                out.append(s.targets[0].value.id)
        return out

    def function(self):
        self.objects = set()
        return super().function()


class Unit(A.Unit):
    def __init__(self, name, functions, record, enums, field_types=None, uses=(), imports=()):
        self.name = name
        self.fuel = {}
        self.consts = {}
        self.done = []
        self.imports = list(imports)
        # enums: name -> (vals table, default table); classes located through the record's module
        mod = importlib.import_module(record[0])
        self.rec_class = getattr(mod, record[1])
        self.rec_name = record[1]
        self.enums = dict(enums)
        self.enum_classes = {k: mod.__dict__[k] for k in enums}
        for k, c in self.enum_classes.items():
            if not (isinstance(c, type) and issubclass(c, enum.Enum)):
                raise Untranslatable(f"{k} is not an Enum")
        self._read_init(field_types or {})
        self.used = []
        for unit, module, qualname in uses:
            f = A.Fn(self, module, qualname, None)
            f.lean_name = f"Transl.{unit}.{P.mangle(f.name)}"
            self.done.append(f)
            self.used.append(f)
        self.fns = [Fn(self, m, q, spec) for m, q, spec in functions]

    def _read_init(self, field_types):
        init = inspect.getattr_static(self.rec_class, "__init__")
        if not inspect.isfunction(init) or hasattr(init, "__wrapped__") or init.__qualname__ != f"{self.rec_name}.__init__":
            raise Untranslatable(f"{self.rec_name}.__init__ is not a plain function of the class")
        src = textwrap.dedent(inspect.getsource(init))
        node = ast.parse(src).body[0]
        path = (inspect.getsourcefile(init) or "?").replace(os.sep, "/")
        i = path.rfind("/okdmr/")
        self.init_where = f"{path[i + 1:] if i >= 0 else path}:{init.__code__.co_firstlineno}"
        a = node.args
        if a.vararg or a.kwarg or a.kwonlyargs or a.defaults or node.decorator_list:
            raise Untranslatable(f"{self.init_where}: __init__ signature")
        self.init_params = [x.arg for x in a.args[1:]]
        helper = A.Fn.__new__(A.Fn)  # only for annotation parsing
        self.param_types = {}
        for x in a.args[1:]:
            t = field_types.get(x.arg)
            if t is None:
                if isinstance(x.annotation, ast.Name) and x.annotation.id in self.enums:
                    t = ("enum", x.annotation.id)
                elif isinstance(x.annotation, ast.Name) and x.annotation.id in ("int", "bytes", "bool"):
                    t = x.annotation.id
                else:
                    raise Untranslatable(f"{self.init_where}: parameter `{x.arg}` needs a declared type")
            self.param_types[x.arg] = t
        self.fields = {}
        self.init_fields = {}
        for st in node.body:
            if isinstance(st, ast.Expr) and isinstance(st.value, ast.Constant) and isinstance(st.value.value, str):
                continue
            if isinstance(st, ast.ImportFrom):
                continue  # `from … import Burst` inside __init__: no value is used here
            tgt, val = None, None
            if isinstance(st, ast.Assign) and len(st.targets) == 1:
                tgt, val = st.targets[0], st.value
            elif isinstance(st, ast.AnnAssign) and st.value is not None:
                tgt, val = st.target, st.value
            if not (isinstance(tgt, ast.Attribute) and isinstance(tgt.value, ast.Name) and tgt.value.id == "self"):
                raise Untranslatable(f"{self.init_where}+{getattr(st, 'lineno', 0)}: __init__ statement that is not `self.x = …`")
            if tgt.attr in self.fields:
                raise Untranslatable(f"{self.init_where}: attribute `{tgt.attr}` assigned twice")
            if isinstance(val, ast.Name) and val.id in self.param_types:
                self.fields[tgt.attr] = self.param_types[val.id]
                self.init_fields[tgt.attr] = ("param", val.id)
            elif isinstance(val, ast.Constant) and type(val.value) is bytes:
                self.fields[tgt.attr] = "bytes"
                self.init_fields[tgt.attr] = ("const", "[" + ", ".join(str(b) for b in val.value) + "]")
            elif isinstance(val, ast.Attribute) and isinstance(val.value, ast.Name) and val.value.id == self.rec_name:
                live = self.rec_class.__dict__.get(val.attr)
                if type(live) is not bytes:
                    raise Untranslatable(f"{self.init_where}: class constant `{val.attr}`")
                # the literal in the class body must be what the live attribute holds
                csrc = ast.parse(textwrap.dedent(inspect.getsource(self.rec_class))).body[0]
                lit = None
                for cs in csrc.body:
                    t2 = cs.targets[0] if isinstance(cs, ast.Assign) and len(cs.targets) == 1 else getattr(cs, "target", None)
                    if isinstance(t2, ast.Name) and t2.id == val.attr and getattr(cs, "value", None) is not None:
                        lit = ast.literal_eval(cs.value)
                if lit != live:
                    raise Untranslatable(f"{self.init_where}: class constant `{val.attr}` differs from its source literal")
                self.fields[tgt.attr] = "bytes"
                self.init_fields[tgt.attr] = ("const", "[" + ", ".join(str(b) for b in live) + "]")
            else:
                raise Untranslatable(f"{self.init_where}: value of `self.{tgt.attr}`")

    def render(self, header=""):
        defs = []
        for f in self.fns:
            defs.append(Translator(self, f).function())
            self.done.append(f)
        out = [header.rstrip("\n"), "import DmrVerif.Model.PyRec"] + [f"import {m}" for m in self.imports] + [
            "",
            "/-!",
            "Translated by tools/py2lean_rec.py (extension of py2lean.py / py2lean_arr.py; plug-in tools/extract_transl.py) from the SOURCE",
            "of the functions below, on every run.  Semantics: `Model/Py.lean`, `Model/PyArr.lean`, `Model/PyRec.lean`.",
            "-/",
            "",
            f"namespace Dmr.Transl.{self.name}",
            "open Dmr Dmr.Py",
            "",
            f"/-- `{self.init_where}` `{self.rec_name}.__init__`: one field per attribute, in assignment order (enum members as their index) -/",
            f"structure {self.rec_name} where",
        ]
        for fld, t in self.fields.items():
            out.append(f"  {P.mangle(fld)} : {lean_type(t)}")
        out.append("  deriving DecidableEq, Repr")
        out.append("")
        for k, (vals, _d) in self.enums.items():
            live = [m.value for m in self.enum_classes[k]]
            if not all(type(v) is int and v >= 0 for v in live):
                raise Untranslatable(f"enum {k}: member values")
            out.append(f"/-- the member values of the live `{k}` in definition order are the table the calls go through -/")
            out.append(f"example : {vals} = [{', '.join(str(v) for v in live)}] := rfl")
            out.append("")
        for key in self.consts:
            name, typ, txt, where = self.consts[key]
            out.append(f"/-- {where} -/")
            out.append(f"def {name} : {lean_type(typ)} := {txt}")
            out.append("")
        out += defs
        out.append(f"end Dmr.Transl.{self.name}")
        return "\n".join(out) + "\n"
