"""
Translator plugin for property C10: the tables of okdmr/dmrlib/etsi/fec/trellis.py -> Gen/Trellis.lean.

Everything is read from the live class attributes of the imported module (never from the source
text), in the order Python iterates them (dict order), so that the reverse dicts are exactly what the
`dict((v, k) for …)` expressions evaluated to.  Only data is translated.  An entry of an unexpected
shape (a key that is not a pair, a bit that is not the int 0/1, a non-int table value) raises, which
the caller reports as "the proof no longer covers the code".
"""


def _int(x) -> int:
    # bool is accepted by the real code wherever an int is (True == 1), anything else is not a table value
    if isinstance(x, bool) or not isinstance(x, int):
        raise TypeError(f"table value {x!r} is not an int")
    return x


def _lint(x) -> str:
    x = _int(x)
    return f"({x})" if x < 0 else str(x)


def _lbit(x) -> str:
    x = _int(x)
    if x not in (0, 1):
        raise ValueError(f"bit {x!r} of a dibit key is not 0/1")
    return "true" if x else "false"


def _pair(t):
    if not isinstance(t, tuple) or len(t) != 2:
        raise TypeError(f"{t!r} is not a pair")
    return t


@register("Trellis")
def gen() -> str:
    from okdmr.dmrlib.etsi.fec.trellis import Trellis34 as T

    matrix = [_int(x) for x in T.TRELLIS34_INTERLEAVE_MATRIX]
    trans = [_int(x) for x in T.TRELLIS34_ENCODER_STATE_TRANSITION]
    if any(x < 0 for x in matrix + trans):
        raise ValueError("negative table entry (Python would index from the end)")
    out = [HEADER, "namespace Dmr.Gen.Trellis\n"]
    out.append("/-- `TRELLIS34_INTERLEAVE_MATRIX` -/")
    out.append(f"def interleaveMatrix : List Nat :=\n  {lnats(matrix, per_line=26)}\n")
    out.append("/-- `TRELLIS34_ENCODER_STATE_TRANSITION` (index `state * 8 + tribit`) -/")
    out.append(f"def transition : List Nat :=\n  {lnats(trans, per_line=8)}\n")

    def entries(items):
        return "[" + ",\n    ".join(items) + "]"

    d = []
    for k, v in T.TRELLIS34_DIBITS.items():
        a, b = _pair(k)
        d.append(f"(({_lbit(a)}, {_lbit(b)}), {_lint(v)})")
    out.append("/-- `TRELLIS34_DIBITS`: (bit, bit) ↦ dibit, in dict order -/")
    out.append(f"def dibits : List ((Bool × Bool) × Int) :=\n  {entries(d)}\n")
    d = []
    for k, v in T.TRELLIS34_DIBITS_REVERSE.items():
        a, b = _pair(v)
        d.append(f"({_lint(k)}, ({_lbit(a)}, {_lbit(b)}))")
    out.append("/-- `TRELLIS34_DIBITS_REVERSE` as the module built it: dibit ↦ (bit, bit), in dict order -/")
    out.append(f"def dibitsReverse : List (Int × (Bool × Bool)) :=\n  {entries(d)}\n")
    d = []
    for k, v in T.TRELLIS34_CONSTELLATION_POINTS.items():
        a, b = _pair(k)
        if _int(v) < 0:
            raise ValueError("negative constellation point")
        d.append(f"(({_lint(a)}, {_lint(b)}), {_int(v)})")
    out.append("/-- `TRELLIS34_CONSTELLATION_POINTS`: (dibit, dibit) ↦ point, in dict order -/")
    out.append(f"def constellation : List ((Int × Int) × Nat) :=\n  {entries(d)}\n")
    d = []
    for k, v in T.TRELLIS34_CONSTELLATION_POINTS_REVERSE.items():
        a, b = _pair(v)
        if _int(k) < 0:
            raise ValueError("negative constellation point")
        d.append(f"({_int(k)}, ({_lint(a)}, {_lint(b)}))")
    out.append("/-- `TRELLIS34_CONSTELLATION_POINTS_REVERSE` as the module built it: point ↦ (dibit, dibit) -/")
    out.append(f"def constellationReverse : List (Nat × (Int × Int)) :=\n  {entries(d)}\n")
    out.append("end Dmr.Gen.Trellis\n")
    return "\n".join(out)
