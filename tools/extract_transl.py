"""
Translator plug-ins for the SOURCE translation of control flow (tools/py2lean.py): one generated file per property family,
`Gen/Transl<Name>.lean`, namespace `Dmr.Transl.<Name>`.  Each entry lists the functions (callees before callers) whose
source is translated on every run, and the fuel bound of every `while` loop (a pure int expression of the locals at loop
entry; justification in TRANSL_NOTES.md — running out of fuel is `PyErr.fuel`, proved unreachable in Props/C*t.lean).
An `Untranslatable` surfaces as this plug-in's exception: extract.py prints `ERROR Transl<Name> …`, keeps the old file and
exits 3, which the checks treat as "the proof no longer covers the code".
`register`, `HEADER` are injected by tools/extract.py.
"""
import importlib.util
import os

_HERE = os.path.dirname(os.path.abspath(__file__))


def _py2lean():
    spec = importlib.util.spec_from_file_location("py2lean", os.path.join(_HERE, "py2lean.py"))
    mod = importlib.util.module_from_spec(spec)
    spec.loader.exec_module(mod)
    return mod


_RS = "okdmr.dmrlib.etsi.fec.reed_solomon_12_9_4"

UNITS = {
    "Rs": dict(
        functions=[
            (_RS, "ReedSolomon1294.log_multiply"),
            (_RS, "ReedSolomon1294.xor_bytes"),
            (_RS, "ReedSolomon1294.generate"),
            (_RS, "ReedSolomon1294.check"),
        ],
        fuel={},
    ),
}


def _make(name):
    def gen():
        u = UNITS[name]
        return _py2lean().translate_unit(name, u["functions"], u["fuel"], header=HEADER)  # noqa: F821

    gen.__name__ = "gen_transl_" + name.lower()
    return gen


for _name in UNITS:
    register("Transl" + _name)(_make(_name))  # noqa: F821
