"""
Translator plug-ins for the SOURCE translation of control flow (tools/py2lean.py): one generated file per property family,
`Gen/Transl<Name>.lean`, namespace `Dmr.Transl.<Name>`.  Each entry lists the functions (callees before callers) whose
source is translated on every run, and the fuel bound of every `while` loop (a pure int expression of the locals at loop
entry; justification in TRANSL_NOTES.md — running out of fuel is `PyErr.fuel`, proved unreachable in Props/C*t.lean).
An `Untranslatable` surfaces as this plug-in's exception: extract.py prints `ERROR Transl<Name> …`, keeps the old file and
exits 3, which the checks treat as "the proof no longer covers the code".
`register`, `HEADER` are injected by tools/extract.py.
"""
import importlib.util
import os

_HERE = os.path.dirname(os.path.abspath(__file__))


def _py2lean():
    spec = importlib.util.spec_from_file_location("py2lean", os.path.join(_HERE, "py2lean.py"))
    mod = importlib.util.module_from_spec(spec)
    spec.loader.exec_module(mod)
    return mod


_RS = "okdmr.dmrlib.etsi.fec.reed_solomon_12_9_4"
_HDAP = "okdmr.dmrlib.hytera.pdu.hdap"
_HRNP = "okdmr.dmrlib.hytera.pdu.hrnp"
_MBXML = "okdmr.dmrlib.motorola.mbxml"

UNITS = {
    "Rs": dict(
        functions=[
            (_RS, "ReedSolomon1294.log_multiply"),
            (_RS, "ReedSolomon1294.xor_bytes"),
            (_RS, "ReedSolomon1294.generate"),
            (_RS, "ReedSolomon1294.check"),
        ],
        fuel={},
    ),
    "Hytera": dict(
        functions=[
            (_HDAP, "HDAP.get_hdap_checksum"),
            (_HRNP, "HRNP.calculate_checksum"),
        ],
        # `while check >> 16: check = (check & 0xFFFF) + (check >> 16)`: a pass with check >= 65536 strictly decreases check,
        # so at most `check` passes are made before the test fails
        fuel={"HRNP.calculate_checksum": ["check + 1"]},
    ),
    "Mbxml": dict(
        functions=[
            (_MBXML, "MBXML.read_uintvar"),
            (_MBXML, "MBXML.read_sintvar"),
            (_MBXML, "MBXML.read_uint8"),
            (_MBXML, "MBXML.read_opaque"),
            (_MBXML, "MBXML.read_opaque_defined_size"),
            (_MBXML, "MBXML.write_uintvar"),
            (_MBXML, "MBXML.write_sintvar"),
            (_MBXML, "MBXML.write_fraction"),
        ],
        # `while True: this = data[idx]; ...; idx += 1; if this & 0x80 == 0: break`: every pass that does not raise reads
        # data[idx] with -len <= idx < len and increases idx by one, so at most 2*len passes succeed; pass 2*len+1 raises IndexError
        # write_fraction `while len(septets) > 1 and septets[-1] == 0: septets.pop()`: every pass removes one element, so after
        # len(septets) passes the list has at most one element and the test fails on the next pass
        fuel={"MBXML.read_uintvar": ["2 * len(data) + 1"], "MBXML.read_sintvar": ["2 * len(data) + 1"],
              "MBXML.write_fraction": ["len(septets) + 1"]},
    ),
}


def _make(name):
    def gen():
        u = UNITS[name]
        return _py2lean().translate_unit(name, u["functions"], u["fuel"], header=HEADER)  # noqa: F821

    gen.__name__ = "gen_transl_" + name.lower()
    return gen


for _name in UNITS:
    register("Transl" + _name)(_make(_name))  # noqa: F821


# ---- C10: trellis.py through tools/py2lean_arr.py (array / bitarray / dict tables; monomorphised entry points) --------------
def _py2lean_arr():
    spec = importlib.util.spec_from_file_location("py2lean_arr", os.path.join(_HERE, "py2lean_arr.py"))
    mod = importlib.util.module_from_spec(spec)
    spec.loader.exec_module(mod)
    return mod


_TR = "okdmr.dmrlib.etsi.fec.trellis"
TRELLIS = [
    (_TR, "Trellis34.bits_to_dibits", None),
    (_TR, "Trellis34.dibits_to_bits", None),
    (_TR, "Trellis34.deinterleave", None),
    (_TR, "Trellis34.interleave", None),
    (_TR, "Trellis34.dibits_to_points", None),
    (_TR, "Trellis34.points_to_dibits", None),
    (_TR, "Trellis34.points_to_tribits", None),
    (_TR, "Trellis34.tribits_to_points", None),
    (_TR, "Trellis34.tribits_to_bits", None),
    (_TR, "Trellis34.bits_to_tribits", None),
    # decode(encoded, as_bytes=False) -> bitarray   /   decode(encoded, as_bytes=True) -> bytes
    (_TR, "Trellis34.decode", dict(name="decode", consts={"as_bytes": False}, ret="ba")),
    (_TR, "Trellis34.decode", dict(name="decode_as_bytes", consts={"as_bytes": True}, ret="bytes")),
    # encode(bitarray) / encode(bytes)
    (_TR, "Trellis34.encode", dict(name="encode", params={"decoded": "ba"})),
    (_TR, "Trellis34.encode", dict(name="encode_bytes", params={"decoded": "bytes"})),
]


@register("TranslTrellis")  # noqa: F821
def gen_transl_trellis():
    return _py2lean_arr().translate_unit("Trellis", TRELLIS, {}, header=HEADER)  # noqa: F821


_BB = "okdmr.dmrlib.utils.bits_bytes"
BITSBYTES = [
    (_BB, "byteswap_bytearray", None),
    (_BB, "byteswap_bytes", None),
    (_BB, "half_byte_to_bytes", None),
]


@register("TranslBitsBytes")  # noqa: F821
def gen_transl_bitsbytes():
    return _py2lean_arr().translate_unit("BitsBytes", BITSBYTES, {}, header=HEADER)  # noqa: F821


# ---- C13: hytera_ipsc.py through tools/py2lean_rec.py (record class, IPSC enums through Gen/Ipsc, helpers of TranslBitsBytes) ---
def _py2lean_rec():
    spec = importlib.util.spec_from_file_location("py2lean_rec", os.path.join(_HERE, "py2lean_rec.py"))
    mod = importlib.util.module_from_spec(spec)
    spec.loader.exec_module(mod)
    return mod


_IPSC = "okdmr.dmrlib.hytera.hytera_ipsc"


@register("TranslIpsc")  # noqa: F821
def gen_transl_ipsc():
    m = _py2lean_rec()
    g = "Dmr.Gen.Ipsc."
    u = m.Unit(
        "Ipsc",
        [(_IPSC, "HyteraIPSC.from_ipsc_bytes", None), (_IPSC, "HyteraIPSC.as_ipsc_bytes", None)],
        record=(_IPSC, "HyteraIPSC"),
        enums={
            "CallType": (g + "callTypeVal", g + "callTypeDefault"),
            "FrameType": (g + "frameTypeVal", g + "frameTypeDefault"),
            "PacketType": (g + "packetTypeVal", g + "packetTypeDefault"),
            "SlotType": (g + "slotTypeVal", g + "slotTypeDefault"),
            "Timeslot": (g + "timeslotVal", g + "timeslotDefault"),
        },
        field_types={"payload": "bytes"},  # Union[bytes, "Burst"]: the bytes form
        uses=[("BitsBytes", _BB, "byteswap_bytearray"), ("BitsBytes", _BB, "byteswap_bytes"), ("BitsBytes", _BB, "half_byte_to_bytes")],
        imports=["DmrVerif.Gen.Ipsc", "DmrVerif.Gen.TranslBitsBytes"],
    )
    return u.render(HEADER)  # noqa: F821
