"""
py2lean — translator from a subset of Python (plain integer / bytes code) to Lean 4 definitions over the semantic
prelude `lean/DmrVerif/Model/Py.lean`.

Pure `ast`: no library code is executed.  The module is imported only to locate the LIVE function object, and what is
translated is `inspect.getsource(<live attribute>)`, so a function that was rebound or wrapped somewhere else is noticed.
Anything outside the subset raises `Untranslatable("file:line: construct")` — the translator never guesses.

The only thing this (trusted) translator has to guarantee is the SOUNDNESS RULE of the prelude: whenever a translated
function returns anything other than `unsupported _` / `fuel`, that is what CPython returns / raises for the same arguments
(arguments of the annotated types, asserts enabled).  Readability of the output is a goal: one Lean line per Python line
where possible, Python's names, `let mut` for re-assigned locals, explicit state tuples for loops.

Static types of the subset (every expression gets exactly one):
    int  -> Int        bool -> Bool       bytes -> List Nat (elements < 256)     nats -> List Nat (class-level table of naturals)
    ilist -> List Int  (list / tuple of ints)        ('tuple', ts) -> product      none -> Unit

Use:  translate_unit("Rs", [("okdmr.dmrlib.etsi.fec.reed_solomon_12_9_4", "ReedSolomon1294.log_multiply"), ...],
                     fuel={"MBXML.read_uintvar": ["2 * len(data) + 1"]})   ->  Lean source text
"""
import ast
import importlib
import inspect
import os
import re
import textwrap


class Untranslatable(Exception):
    pass


LEAN_RESERVED = {
    "this", "from", "end", "at", "fun", "do", "then", "else", "if", "match", "with", "open", "in", "section", "namespace",
    "let", "have", "show", "by", "def", "theorem", "instance", "class", "structure", "where", "return", "for", "while",
    "mut", "break", "continue", "try", "catch", "finally", "unless", "import", "export", "local", "private", "protected",
    "Type", "Prop", "Sort", "true", "false", "none", "some", "pure", "throw", "nat", "int", "max", "min", "id", "using",
    "calc", "termination_by", "decreasing_by", "deriving", "extends", "mutual", "variable", "universe", "example",
    "abbrev", "axiom", "inductive", "macro", "syntax", "notation", "infix", "infixl", "infixr", "prefix", "postfix",
    "set_option", "attribute", "omit", "include", "nomatch", "nofun", "suffices", "obtain", "exact", "rfl", "st", "r",
}

EXC = {
    "AssertionError": ".assertion", "IndexError": ".index", "ValueError": ".value", "TypeError": ".type",
    "ZeroDivisionError": ".zeroDivision", "OverflowError": ".overflow",
}


def mangle(name: str) -> str:
    return name + "_" if name in LEAN_RESERVED else name


def lean_type(t) -> str:
    if t == "int":
        return "Int"
    if t == "bool":
        return "Bool"
    if t in ("bytes", "nats"):
        return "List Nat"
    if t == "ilist":
        return "List Int"
    if t == "str":
        return "List Char"
    if t == "none":
        return "Unit"
    if isinstance(t, tuple) and t[0] == "tuple":
        return "(" + " × ".join(lean_type(x) for x in t[1]) + ")"
    raise AssertionError(t)


class Ex:
    """a translated expression: Lean text, static type, and whether the text is a PyM action (to be bound with ←)"""

    def __init__(self, text, typ, monadic=False):
        self.text, self.typ, self.monadic = text, typ, monadic

    def val(self) -> str:
        return f"(← {self.text})" if self.monadic else self.text


class Fn:
    """one function being translated"""

    def __init__(self, unit, module, qualname):
        self.unit, self.module, self.qualname = unit, module, qualname
        mod = importlib.import_module(module)
        parts = qualname.split(".")
        obj = mod
        owner = None
        for p in parts[:-1]:
            obj = getattr(obj, p)
        owner = obj
        self.owner = owner
        self.clsname = parts[-2] if len(parts) > 1 else None
        self.name = parts[-1]
        static = inspect.getattr_static(owner, self.name)
        self.kind = "function"
        fn = static
        if isinstance(static, staticmethod):
            self.kind, fn = "static", static.__func__
        elif isinstance(static, classmethod):
            self.kind, fn = "class", static.__func__
        if not inspect.isfunction(fn):
            raise Untranslatable(f"{module}:{qualname}: the live attribute is not a plain function ({type(fn).__name__})")
        if hasattr(fn, "__wrapped__"):
            raise Untranslatable(f"{module}:{qualname}: the live attribute is a wrapper (__wrapped__)")
        if fn.__qualname__ != qualname or fn.__module__ != module:
            raise Untranslatable(
                f"{module}:{qualname}: the live attribute is {fn.__module__}.{fn.__qualname__} (rebound elsewhere)")
        if fn.__closure__:
            raise Untranslatable(f"{module}:{qualname}: closure")
        self.fn = fn
        self.pymod = mod
        src = inspect.getsource(fn)
        path = inspect.getsourcefile(fn) or "?"
        i = path.replace(os.sep, "/").rfind("/okdmr/")
        self.file = path[i + 1:] if i >= 0 else os.path.basename(path)
        self.line0 = fn.__code__.co_firstlineno
        self.src = textwrap.dedent(src)
        tree = ast.parse(self.src)
        if len(tree.body) != 1 or not isinstance(tree.body[0], ast.FunctionDef):
            raise Untranslatable(f"{self.file}:{self.line0}: not a plain def")
        self.node = tree.body[0]
        # the def line inside the dedented source (decorators come first)
        self.lineoff = self.line0 - 1
        for d in self.node.decorator_list:
            if not (isinstance(d, ast.Name) and d.id in ("staticmethod", "classmethod")):
                self.bad(d, "decorator")
        self.lean_name = mangle(self.name)
        self.params = []  # (python name, type, default Ex | None)
        self.ret = None
        self.whiles = 0
        self._signature()

    # ---- helpers --------------------------------------------------------------------------------------------------
    def where(self, node) -> str:
        return f"{self.file}:{getattr(node, 'lineno', 1) + self.lineoff}"

    def bad(self, node, what):
        raise Untranslatable(f"{self.where(node)}: {what} ({self.qualname})")

    def seg(self, node) -> str:
        return ast.get_source_segment(self.src, node) or ""

    def ann(self, node):
        """static type of an annotation"""
        if node is None:
            return None
        if isinstance(node, ast.Constant) and node.value is None:
            return "none"
        if isinstance(node, ast.Name):
            if node.id in ("int", "bool", "bytes"):
                return node.id
            if node.id == "str":
                return "str"
        if isinstance(node, ast.Subscript) and isinstance(node.value, ast.Name):
            base = node.value.id
            sl = node.slice
            if base in ("List", "list") and isinstance(sl, ast.Name) and sl.id == "int":
                return "ilist"
            if base in ("Tuple", "tuple"):
                elts = sl.elts if isinstance(sl, ast.Tuple) else [sl]
                ts = [self.ann(e) for e in elts]
                if all(ts):
                    return ("tuple", tuple(ts))
        self.bad(node, f"annotation `{self.seg(node)}`")

    def _signature(self):
        a = self.node.args
        if a.vararg or a.kwarg or a.kwonlyargs or a.posonlyargs:
            self.bad(self.node, "parameter kinds other than positional")
        args = list(a.args)
        if self.kind == "class":
            if not args:
                self.bad(self.node, "classmethod without cls")
            self.clsparam = args[0].arg
            args = args[1:]
        else:
            self.clsparam = None
        if self.kind == "function" and self.clsname is not None:
            self.bad(self.node, "instance method (self)")
        defaults = [None] * (len(args) - len(a.defaults)) + list(a.defaults)
        for arg, d in zip(args, defaults):
            t = self.ann(arg.annotation)
            if t is None or t == "str":
                self.bad(arg, f"parameter `{arg.arg}` without a usable annotation")
            dx = None
            if d is not None:
                dx = self.const_default(d, t)
            self.params.append((arg.arg, t, dx))
        self.ret = self.ann(self.node.returns)
        if self.ret is None:
            self.bad(self.node, "missing return annotation")

    def const_default(self, d, t):
        if isinstance(d, ast.Constant):
            v = d.value
            if t == "int" and type(v) is int:
                return Ex(lit_int(v), "int")
            if t == "bool" and type(v) is bool:
                return Ex("true" if v else "false", "bool")
            if t == "bytes" and type(v) is bytes:
                return Ex("[" + ", ".join(str(b) for b in v) + "]", "bytes")
        self.bad(d, "default value")


def lit_int(v: int) -> str:
    return str(v) if v >= 0 else f"({v})"


class Ctx:
    """where a block lives: the function body or a loop body (decides what return / break / continue become)"""

    def __init__(self, kind, state=()):
        self.kind, self.state = kind, tuple(state)


def tup(names) -> str:
    names = list(names)
    if not names:
        return "()"
    if len(names) == 1:
        return names[0]
    return "(" + ", ".join(names) + ")"


class Translator:
    def __init__(self, unit, fn: Fn):
        self.u, self.f = unit, fn
        self.tmp = 0

    # ================================================================ expressions
    def expr(self, n, env) -> Ex:
        m = getattr(self, "e_" + type(n).__name__, None)
        if m is None:
            self.f.bad(n, f"expression {type(n).__name__}")
        return m(n, env)

    def int_of(self, e: Ex, n) -> str:
        """Lean text of e used as an int (bool is a subclass of int)"""
        if e.typ == "int":
            return e.val()
        if e.typ == "bool":
            return f"(Py.ofBool {e.val()})"
        self.f.bad(n, f"an int is needed here, got {e.typ}")

    def truthy(self, e: Ex, n) -> str:
        if e.typ == "bool":
            return e.val()
        if e.typ == "int":
            return f"({e.val()} != 0)"
        if e.typ in ("bytes", "ilist", "nats", "str"):
            return f"(!({e.val()}).isEmpty)"
        self.f.bad(n, f"truth value of {e.typ}")

    def e_Constant(self, n, env):
        v = n.value
        if type(v) is bool:
            return Ex("true" if v else "false", "bool")
        if type(v) is int:
            s = self.f.seg(n)
            if re.fullmatch(r"0[xX][0-9a-fA-F]+", s):
                return Ex("0x" + s[2:].upper(), "int")
            return Ex(lit_int(v), "int")
        if type(v) is bytes:
            return Ex("[" + ", ".join(str(b) for b in v) + "]", "bytes")
        if v is None:
            return Ex("()", "none")
        self.f.bad(n, f"constant {v!r}")

    def e_Name(self, n, env):
        if n.id in env:
            return Ex(mangle(n.id), env[n.id])
        self.f.bad(n, f"name `{n.id}` is not a local that is definitely assigned here")

    def e_Attribute(self, n, env):
        c = self.u.class_const(self.f, n)
        if c is not None:
            return c
        self.f.bad(n, f"attribute `{self.f.seg(n)}`")

    def e_UnaryOp(self, n, env):
        x = self.expr(n.operand, env)
        if isinstance(n.op, ast.Not):
            return Ex(f"(!{self.truthy(x, n)})", "bool", False)
        if isinstance(n.op, ast.USub):
            if isinstance(n.operand, ast.Constant) and type(n.operand.value) is int:
                return Ex(f"(-{x.text})", "int")
            return Ex(f"(-{self.int_of(x, n)})", "int")
        if isinstance(n.op, ast.Invert):
            if x.typ != "int":
                self.f.bad(n, "~ on a non-int")  # ~True is -2 but deprecated; keep it out
            return Ex(f"(Py.binvert {x.val()})", "int")
        if isinstance(n.op, ast.UAdd):
            return Ex(self.int_of(x, n), "int")
        self.f.bad(n, "unary operator")

    def e_BinOp(self, n, env):
        a = self.expr(n.left, env)
        b = self.expr(n.right, env)
        op = type(n.op).__name__
        seq = ("bytes", "ilist", "str")
        if op == "Add" and a.typ in seq and a.typ == b.typ:
            return Ex(f"({a.val()} ++ {b.val()})", a.typ)
        if a.typ in ("int", "bool") and b.typ in ("int", "bool"):
            x, y = self.int_of(a, n), self.int_of(b, n)
            if op in ("Add", "Sub", "Mult"):
                return Ex(f"({x} {'+-*'[('Add', 'Sub', 'Mult').index(op)]} {y})", "int")
            if op in ("BitAnd", "BitOr", "BitXor"):
                return Ex(f"(Py.{ {'BitAnd': 'band', 'BitOr': 'bor', 'BitXor': 'bxor'}[op]} {x} {y})", "int")
            lit = isinstance(n.right, ast.Constant) and type(n.right.value) is int and n.right.value >= 0
            if op in ("LShift", "RShift"):
                f = "shl" if op == "LShift" else "shr"
                if lit:
                    return Ex(f"(Py.{f}N {x} {n.right.value})", "int")
                return Ex(f"Py.{f} {x} {y}", "int", True)
            nz = isinstance(n.right, ast.Constant) and type(n.right.value) is int and n.right.value != 0
            if op == "FloorDiv":
                return Ex(f"(Py.floordivL {x} {y})", "int") if nz else Ex(f"Py.floordiv {x} {y}", "int", True)
            if op == "Mod":
                return Ex(f"(Py.modL {x} {y})", "int") if nz else Ex(f"Py.mod {x} {y}", "int", True)
            if op == "Pow":
                if lit:
                    return Ex(f"({x} ^ {n.right.value})", "int")
                return Ex(f"Py.pow {x} {y}", "int", True)
        self.f.bad(n, f"operator {op} on {a.typ}, {b.typ}")

    def branch(self, e: Ex) -> str:
        """an operand that must only be evaluated on one path: its own do block if it has effects"""
        return f"(do pure {e.val()})" if e.monadic or "(← " in e.text else f"(pure {e.text})"

    def has_effects(self, e: Ex) -> bool:
        return e.monadic or "(← " in e.text

    def e_BoolOp(self, n, env):
        vals = [self.expr(v, env) for v in n.values]
        if any(v.typ != "bool" for v in vals):
            # `a and b` returns one of the operands; only used as a truth value here
            vals = [Ex(self.truthy(v, n), "bool") for v in vals]
        is_and = isinstance(n.op, ast.And)
        if not any(self.has_effects(v) for v in vals[1:]):
            return Ex("(" + (" && " if is_and else " || ").join(v.val() for v in vals) + ")", "bool")
        # short circuit with effects in a later operand: explicit branches
        acc = vals[-1]
        for v in reversed(vals[:-1]):
            if is_and:
                acc = Ex(f"(if {v.val()} then {self.branch(acc)} else pure false)", "bool", True)
            else:
                acc = Ex(f"(if {v.val()} then pure true else {self.branch(acc)})", "bool", True)
        return acc

    def cmp1(self, op, a: Ex, b: Ex, n) -> str:
        num = ("int", "bool")
        o = type(op).__name__
        if a.typ in num and b.typ in num:
            if a.typ == "bool" and b.typ == "bool" and o in ("Eq", "NotEq"):
                x, y = a.val(), b.val()
            else:
                x, y = self.int_of(a, n), self.int_of(b, n)
            if o == "Eq":
                return f"({x} == {y})"
            if o == "NotEq":
                return f"({x} != {y})"
            sym = {"Lt": "<", "LtE": "≤", "Gt": ">", "GtE": "≥"}.get(o)
            if sym:
                return f"(decide ({x} {sym} {y}))"
        elif a.typ == b.typ and a.typ in ("bytes", "ilist", "str") or (
                isinstance(a.typ, tuple) and a.typ == b.typ):
            if o == "Eq":
                return f"({a.val()} == {b.val()})"
            if o == "NotEq":
                return f"({a.val()} != {b.val()})"
        self.f.bad(n, f"comparison {o} of {a.typ} with {b.typ}")

    def e_Compare(self, n, env):
        operands = [self.expr(x, env) for x in [n.left] + list(n.comparators)]
        if len(operands) > 2 and any(self.has_effects(x) for x in operands[2:]):
            self.f.bad(n, "chained comparison whose later operands can raise")
        parts = [self.cmp1(op, operands[i], operands[i + 1], n) for i, op in enumerate(n.ops)]
        return Ex(parts[0] if len(parts) == 1 else "(" + " && ".join(parts) + ")", "bool")

    def e_IfExp(self, n, env):
        c = self.truthy(self.expr(n.test, env), n)
        a = self.expr(n.body, env)
        b = self.expr(n.orelse, env)
        if a.typ != b.typ:
            if {a.typ, b.typ} == {"int", "bool"}:
                a, b = Ex(self.int_of(a, n), "int"), Ex(self.int_of(b, n), "int")
            else:
                self.f.bad(n, f"conditional expression of {a.typ} / {b.typ}")
        if self.has_effects(a) or self.has_effects(b):
            return Ex(f"(if {c} then {self.branch(a)} else {self.branch(b)})", a.typ, True)
        return Ex(f"(if {c} then {a.text} else {b.text})", a.typ)

    def e_Tuple(self, n, env):
        xs = [self.expr(e, env) for e in n.elts]
        return Ex("(" + ", ".join(x.val() for x in xs) + ")", ("tuple", tuple(x.typ for x in xs)))

    def e_List(self, n, env):
        xs = [self.expr(e, env) for e in n.elts]
        return Ex("[" + ", ".join(self.int_of(x, n) for x in xs) + "]", "ilist")

    def e_ListComp(self, n, env):
        lst, lam = self.comprehension(n, env, "int")
        return Ex(f"Py.listGen {lst} ({lam})", "ilist", True)

    def opt(self, n, env):
        if n is None:
            return "none"
        return f"(some {self.int_of(self.expr(n, env), n)})"

    def e_Subscript(self, n, env):
        v = self.expr(n.value, env)
        sl = n.slice
        if isinstance(sl, ast.Slice):
            if v.typ not in ("bytes", "ilist", "nats", "str"):
                self.f.bad(n, f"slice of {v.typ}")
            if sl.step is not None:
                if (sl.lower is None and sl.upper is None and isinstance(sl.step, ast.UnaryOp)
                        and isinstance(sl.step.op, ast.USub) and isinstance(sl.step.operand, ast.Constant)
                        and sl.step.operand.value == 1):
                    return Ex(f"(Py.rev {v.val()})", v.typ)
                self.f.bad(n, "slice step other than [::-1]")
            return Ex(f"(Py.slice {v.val()} {self.opt(sl.lower, env)} {self.opt(sl.upper, env)})", v.typ)
        if isinstance(v.typ, tuple):
            if isinstance(sl, ast.Constant) and type(sl.value) is int and 0 <= sl.value < len(v.typ[1]):
                k, m = sl.value, len(v.typ[1])
                proj = ".2" * k + (".1" if k < m - 1 else "")
                return Ex(f"{v.val()}{proj}", v.typ[1][k])
            self.f.bad(n, "tuple index that is not a literal")
        i = self.int_of(self.expr(sl, env), n)
        if v.typ in ("bytes", "nats"):
            return Ex(f"Py.getB {v.val()} {i}", "int", True)
        if v.typ == "ilist":
            return Ex(f"Py.getI {v.val()} {i}", "int", True)
        self.f.bad(n, f"index into {v.typ}")

    # ---- iterables --------------------------------------------------------------------------------------------------
    def iterable(self, n, env):
        """-> (Lean text of a List, element type); effects are lifted into the enclosing do line"""
        if isinstance(n, ast.Call) and isinstance(n.func, ast.Name) and n.func.id not in env:
            f = n.func.id
            if f == "range" and not n.keywords and 1 <= len(n.args) <= 3:
                a = [self.int_of(self.expr(x, env), n) for x in n.args]
                if len(a) == 1:
                    return f"(Py.range1 {a[0]})", "int"
                if len(a) == 2:
                    return f"(Py.range2 {a[0]} {a[1]})", "int"
                st = n.args[2]
                if isinstance(st, ast.Constant) and type(st.value) is int and st.value > 0:
                    return f"(Py.range3p {a[0]} {a[1]} {st.value})", "int"
                return f"(← Py.range3 {a[0]} {a[1]} {a[2]})", "int"
            if f == "zip" and not n.keywords and len(n.args) == 2:
                (a, ta), (b, tb) = self.iterable(n.args[0], env), self.iterable(n.args[1], env)
                return f"(List.zip {a} {b})", ("tuple", (ta, tb))
        e = self.expr(n, env)
        if e.typ in ("bytes", "nats"):
            return f"(Py.iterB {e.val()})", "int"
        if e.typ == "ilist":
            return e.val(), "int"
        self.f.bad(n, f"iteration over {e.typ}")

    def bind_target(self, t, elt, env):
        """-> (Lean binder text, new env) for a loop / comprehension target"""
        env = dict(env)
        if isinstance(t, ast.Name):
            env[t.id] = elt
            return mangle(t.id), env
        if isinstance(t, ast.Tuple) and isinstance(elt, tuple) and len(t.elts) == len(elt[1]) and all(
                isinstance(x, ast.Name) for x in t.elts):
            for x, ty in zip(t.elts, elt[1]):
                env[x.id] = ty
            return "(" + ", ".join(mangle(x.id) for x in t.elts) + ")", env
        self.f.bad(t, "loop target")

    def comprehension(self, n, env, want):
        """generator expression / list comprehension with one `for`, no `if` -> (list text, lambda text, element Ex)"""
        if len(n.generators) != 1:
            self.f.bad(n, "comprehension with several for clauses")
        g = n.generators[0]
        if g.ifs or g.is_async:
            self.f.bad(n, "comprehension with a condition")
        lst, elt = self.iterable(g.iter, env)
        binder, env2 = self.bind_target(g.target, elt, env)
        body = self.expr(n.elt, env2)
        if want == "int":
            b = self.int_of(body, n)
        elif want == "bool":
            b = self.truthy(body, n)
        else:
            raise AssertionError(want)
        return lst, f"fun {binder} => do pure {b}"

    # ---- calls ------------------------------------------------------------------------------------------------------
    def kwargs(self, n, names, env, start=0):
        """positional + keyword arguments of call n against parameter names -> dict name -> ast node"""
        got = {}
        for i, a in enumerate(n.args[start:]):
            if isinstance(a, ast.Starred) or i >= len(names):
                self.f.bad(n, "call arguments")
            got[names[i]] = a
        for k in n.keywords:
            if k.arg is None or k.arg not in names or k.arg in got:
                self.f.bad(n, f"keyword argument `{k.arg}`")
            got[k.arg] = k.value
        return got

    def byteorder(self, node, n):
        if node is None:
            return "Big"  # default of Python >= 3.11
        if isinstance(node, ast.Constant) and node.value in ("big", "little"):
            return node.value.capitalize()
        self.f.bad(n, "byteorder that is not a literal 'big' / 'little'")

    def e_Call(self, n, env):
        fn = n.func
        # ---- builtins by bare name
        if isinstance(fn, ast.Name) and fn.id not in env:
            name = fn.id
            if name == "len" and len(n.args) == 1 and not n.keywords:
                x = self.expr(n.args[0], env)
                if x.typ in ("bytes", "ilist", "nats", "str"):
                    return Ex(f"(Py.len {x.val()})", "int")
            if name == "bytes" and len(n.args) == 1 and not n.keywords:
                a = n.args[0]
                if isinstance(a, ast.GeneratorExp):
                    lst, lam = self.comprehension(a, env, "int")
                    return Ex(f"Py.bytesGen {lst} ({lam})", "bytes", True)
                x = self.expr(a, env)
                if x.typ == "ilist":
                    return Ex(f"Py.toBytes {x.val()}", "bytes", True)
                if x.typ == "bytes":
                    return x
            if name == "list" and len(n.args) == 1 and not n.keywords:
                x = self.expr(n.args[0], env)
                if x.typ in ("bytes", "nats"):
                    return Ex(f"(Py.iterB {x.val()})", "ilist")
            if name in ("sum", "all", "any") and len(n.args) == 1 and not n.keywords and isinstance(
                    n.args[0], ast.GeneratorExp):
                want = "int" if name == "sum" else "bool"
                lst, lam = self.comprehension(n.args[0], env, want)
                return Ex(f"Py.{name}Gen {lst} ({lam})", want, True)
            if name == "abs" and len(n.args) == 1 and not n.keywords:
                return Ex(f"(Py.abs {self.int_of(self.expr(n.args[0], env), n)})", "int")
            if name in ("min", "max") and len(n.args) == 2 and not n.keywords:
                a, b = (self.int_of(self.expr(x, env), n) for x in n.args)
                return Ex(f"({name} {a} {b})", "int")
            if name == "int" and len(n.args) == 1 and not n.keywords:
                x = self.expr(n.args[0], env)
                if x.typ in ("int", "bool"):
                    return Ex(self.int_of(x, n), "int")
            if name == "bin" and len(n.args) == 1 and not n.keywords:
                return Ex(f"(Py.bin {self.int_of(self.expr(n.args[0], env), n)})", "str")
            if name == "int" and len(n.args) == 2 and not n.keywords and isinstance(n.args[1], ast.Constant) \
                    and n.args[1].value == 2 and type(n.args[1].value) is int:
                x = self.expr(n.args[0], env)
                if x.typ == "str":
                    return Ex(f"Py.intOfStr2 {x.val()}", "int", True)
            if name == "bool" and len(n.args) == 1 and not n.keywords:
                return Ex(self.truthy(self.expr(n.args[0], env), n), "bool")
            self.f.bad(n, f"call of `{name}`")
        if isinstance(fn, ast.Attribute):
            # int.from_bytes(b, byteorder=..) / int.to_bytes(x, length=.., byteorder=..)
            if isinstance(fn.value, ast.Name) and fn.value.id == "int" and "int" not in env:
                if fn.attr == "from_bytes":
                    kw = self.kwargs(n, ["bytes", "byteorder", "signed"], env)
                    if "signed" in kw and not (isinstance(kw["signed"], ast.Constant) and kw["signed"].value is False):
                        self.f.bad(n, "int.from_bytes(signed=…)")
                    if "bytes" not in kw:
                        self.f.bad(n, "int.from_bytes without data")
                    b = self.expr(kw["bytes"], env)
                    if b.typ != "bytes":
                        self.f.bad(n, f"int.from_bytes of {b.typ}")
                    return Ex(f"(Py.fromBytes{self.byteorder(kw.get('byteorder'), n)} {b.val()})", "int")
                if fn.attr == "to_bytes":
                    kw = self.kwargs(n, ["self", "length", "byteorder", "signed"], env)
                    return self.to_bytes(n, kw.get("self"), kw, env)
            if fn.attr == "to_bytes":
                kw = self.kwargs(n, ["length", "byteorder", "signed"], env)
                return self.to_bytes(n, fn.value, kw, env)
            # math.ceil(a / b), b a positive int literal: the float quotient is computed first (Py.ceilDiv says when that is exact)
            if (isinstance(fn.value, ast.Name) and fn.value.id == "math" and fn.attr == "ceil" and "math" not in env
                    and len(n.args) == 1 and not n.keywords and isinstance(n.args[0], ast.BinOp)
                    and isinstance(n.args[0].op, ast.Div)
                    and self.f.fn.__globals__.get("math") is __import__("math")):
                a = self.expr(n.args[0].left, env)
                b = n.args[0].right
                if a.typ == "int" and isinstance(b, ast.Constant) and type(b.value) is int and b.value > 0:
                    return Ex(f"Py.ceilDiv {a.val()} {b.value}", "int", True)
            callee = self.u.resolve_call(self.f, fn)
            if callee is not None:
                names = [p[0] for p in callee.params]
                got = self.kwargs(n, names, env)
                args = []
                for pname, ptyp, pdef in callee.params:
                    if pname in got:
                        x = self.expr(got[pname], env)
                        if x.typ != ptyp:
                            if ptyp == "int" and x.typ == "bool":
                                x = Ex(self.int_of(x, n), "int")
                            else:
                                self.f.bad(n, f"argument `{pname}` of {callee.qualname}: {x.typ} for {ptyp}")
                        args.append(x.val())
                    elif pdef is not None:
                        args.append(pdef.text)
                    else:
                        self.f.bad(n, f"missing argument `{pname}` of {callee.qualname}")
                return Ex(" ".join([callee.lean_name] + args), callee.ret, True)
        self.f.bad(n, f"call of `{self.f.seg(fn)}`")

    def to_bytes(self, n, selfnode, kw, env):
        if "signed" in kw and not (isinstance(kw["signed"], ast.Constant) and kw["signed"].value is False):
            self.f.bad(n, "to_bytes(signed=…)")
        if selfnode is None:
            self.f.bad(n, "to_bytes without a value")
        x = self.expr(selfnode, env)
        if x.typ != "int":
            self.f.bad(n, f"to_bytes of {x.typ}")
        length = self.int_of(self.expr(kw["length"], env), n) if "length" in kw else "1"
        return Ex(f"Py.toBytes{self.byteorder(kw.get('byteorder'), n)} {x.val()} {length}", "bytes", True)

    # ================================================================ statements
    def stores(self, stmts):
        """names assigned anywhere in stmts (not inside comprehensions), in order of first occurrence"""
        out = []

        def tgt(t):
            if isinstance(t, ast.Name):
                if t.id not in out:
                    out.append(t.id)
            elif isinstance(t, (ast.Tuple, ast.List)):
                for x in t.elts:
                    tgt(x)
            elif isinstance(t, ast.Subscript):
                tgt(t.value)
            elif isinstance(t, ast.Starred):
                tgt(t.value)

        def walk(s):
            if isinstance(s, ast.Assign):
                for t in s.targets:
                    tgt(t)
            elif isinstance(s, (ast.AugAssign, ast.AnnAssign)):
                tgt(s.target)
            elif isinstance(s, ast.For):
                tgt(s.target)
                for b in s.body + s.orelse:
                    walk(b)
            elif isinstance(s, (ast.While, ast.If)):
                for b in s.body + s.orelse:
                    walk(b)
            elif isinstance(s, ast.Expr) and isinstance(s.value, ast.Call) and isinstance(s.value.func, ast.Attribute) \
                    and s.value.func.attr in ("pop", "append") and isinstance(s.value.func.value, ast.Name):
                tgt(s.value.func.value)

        for s in stmts:
            walk(s)
        return out

    def contains(self, stmts, kinds, into_loops=True):
        """does the block contain a statement of one of the kinds (not looking into nested defs)"""
        for s in stmts:
            if isinstance(s, kinds):
                return True
            if isinstance(s, ast.If) and (self.contains(s.body, kinds, into_loops) or self.contains(s.orelse, kinds, into_loops)):
                return True
            if isinstance(s, (ast.For, ast.While)) and into_loops and self.contains(s.body, kinds, into_loops):
                return True
        return False

    def block(self, stmts, env, ctx, ind):
        """-> (lines, env after the block, falls_through)"""
        lines = []
        env = dict(env)
        for s in stmts:
            m = getattr(self, "s_" + type(s).__name__, None)
            if m is None:
                self.f.bad(s, f"statement {type(s).__name__}")
            ls, env, falls = m(s, env, ctx, ind)
            lines += ls
            if not falls:
                return lines, env, False
        return lines, env, True

    def declare(self, name, e: Ex, env, ind, node, declared_type=None):
        """x = e: `let [mut]` for a new local, `:=` / `←` for a known one"""
        pad = "  " * ind
        lean = mangle(name)
        typ = e.typ
        if declared_type is not None and declared_type != typ:
            if declared_type == "int" and typ == "bool":
                e = Ex(self.int_of(e, node), "int")
                typ = "int"
            else:
                self.f.bad(node, f"`{name}` is annotated {declared_type} but the value is {typ}")
        if name in env:
            if env[name] != typ:
                if env[name] == "int" and typ == "bool":
                    e = Ex(self.int_of(e, node), "int")
                else:
                    self.f.bad(node, f"`{name}` changes its type from {env[name]} to {typ}")
            if e.monadic:
                return [f"{pad}{lean} ← {e.text}"], env
            return [f"{pad}{lean} := {e.text}"], env
        env = dict(env)
        env[name] = typ
        mut = "mut " if name in self.mutated else ""
        if e.monadic:
            return [f"{pad}let {mut}{lean} : {lean_type(typ)} ← {e.text}"], env
        return [f"{pad}let {mut}{lean} : {lean_type(typ)} := {e.text}"], env

    def check_alias(self, node, value):
        """a local list that is updated in place must not get a second name (state threading has no aliasing)"""
        if isinstance(value, ast.Name) and (value.id in self.inplace):
            self.f.bad(node, f"`{value.id}` is updated in place and would get a second name")
        if isinstance(value, (ast.Tuple, ast.List)):
            for x in value.elts:
                self.check_alias(node, x)

    def s_Assign(self, s, env, ctx, ind):
        if len(s.targets) != 1:
            self.f.bad(s, "chained assignment")
        t = s.targets[0]
        self.check_alias(s, s.value)
        pad = "  " * ind
        if isinstance(t, ast.Name):
            if isinstance(s.value, ast.Name) and s.value.id in env and env[s.value.id] == "ilist" and t.id in self.inplace:
                self.f.bad(s, f"`{t.id}` is updated in place and aliases `{s.value.id}`")
            ls, env = self.declare(t.id, self.expr(s.value, env), env, ind, s)
            return ls, env, True
        if isinstance(t, ast.Tuple) and all(isinstance(x, ast.Name) for x in t.elts):
            e = self.expr(s.value, env)
            if not (isinstance(e.typ, tuple) and len(e.typ[1]) == len(t.elts)):
                self.f.bad(s, f"unpacking of {e.typ}")
            names = [x.id for x in t.elts]
            if len(set(names)) != len(names):
                self.f.bad(s, "repeated name in unpacking")
            known = [nm in env for nm in names]
            arrow = "←" if e.monadic else ":="
            if all(known):
                for nm, ty in zip(names, e.typ[1]):
                    if env[nm] != ty:
                        self.f.bad(s, f"`{nm}` changes its type")
                return [f"{pad}({', '.join(mangle(x) for x in names)}) {arrow} {e.text}"], env, True
            if not any(known):
                env = dict(env)
                for nm, ty in zip(names, e.typ[1]):
                    env[nm] = ty
                if any(nm in self.mutated for nm in names):
                    # `let mut (a, b)` makes every component mutable
                    return [f"{pad}let mut ({', '.join(mangle(x) for x in names)}) {arrow} {e.text}"], env, True
                return [f"{pad}let ({', '.join(mangle(x) for x in names)}) {arrow} {e.text}"], env, True
            # mixed: through temporaries
            self.tmp += 1
            tmps = [f"{mangle(x)}_{self.tmp}" for x in names]
            ls = [f"{pad}let ({', '.join(tmps)}) {arrow} {e.text}"]
            for nm, tmpn, ty in zip(names, tmps, e.typ[1]):
                l2, env = self.declare(nm, Ex(tmpn, ty), env, ind, s)
                ls += l2
            return ls, env, True
        if isinstance(t, ast.Subscript) and isinstance(t.value, ast.Name) and not isinstance(t.slice, ast.Slice):
            nm = t.value.id
            if nm not in env or env[nm] != "ilist" or nm not in self.locals_only:
                self.f.bad(s, f"item assignment to `{nm}`, which is not a local list")
            v = self.int_of(self.expr(s.value, env), s)
            i = self.int_of(self.expr(t.slice, env), s)
            return [f"{pad}{mangle(nm)} ← Py.setI {mangle(nm)} {i} {v}"], env, True
        self.f.bad(s, "assignment target")

    def s_AnnAssign(self, s, env, ctx, ind):
        if s.value is None or not isinstance(s.target, ast.Name):
            self.f.bad(s, "annotated assignment")
        self.check_alias(s, s.value)
        ls, env = self.declare(s.target.id, self.expr(s.value, env), env, ind, s, self.f.ann(s.annotation))
        return ls, env, True

    def s_AugAssign(self, s, env, ctx, ind):
        if not isinstance(s.target, ast.Name):
            self.f.bad(s, "augmented assignment to a non-name")
        nm = s.target.id
        if nm not in env:
            self.f.bad(s, f"`{nm}` is not definitely assigned")
        if env[nm] == "ilist":
            self.f.bad(s, "in-place += on a list")
        fake = ast.BinOp(left=ast.Name(id=nm, ctx=ast.Load()), op=s.op, right=s.value)
        ast.copy_location(fake, s)
        ast.copy_location(fake.left, s)
        ls, env = self.declare(nm, self.expr(fake, env), env, ind, s)
        return ls, env, True

    def s_Expr(self, s, env, ctx, ind):
        v = s.value
        pad = "  " * ind
        if isinstance(v, ast.Constant) and isinstance(v.value, str):
            return [], env, True  # docstring
        if isinstance(v, ast.Call) and isinstance(v.func, ast.Attribute) and isinstance(v.func.value, ast.Name):
            nm = v.func.value.id
            if nm in env and env[nm] == "ilist" and nm in self.locals_only and not v.keywords:
                if v.func.attr == "pop" and not v.args:
                    return [f"{pad}{mangle(nm)} ← Py.popLast {mangle(nm)}"], env, True
                if v.func.attr == "append" and len(v.args) == 1:
                    x = self.int_of(self.expr(v.args[0], env), s)
                    return [f"{pad}{mangle(nm)} := {mangle(nm)} ++ [{x}]"], env, True
        self.f.bad(s, "expression statement")

    def s_Pass(self, s, env, ctx, ind):
        return [], env, True

    def s_Assert(self, s, env, ctx, ind):
        self.message_ok(s.msg)
        c = self.truthy(self.expr(s.test, env), s)
        return ["  " * ind + f"Py.assert {c}"], env, True

    def message_ok(self, m):
        """assert / raise messages are not observable; they must not be able to do anything but format locals"""
        if m is None:
            return
        for x in ast.walk(m):
            if isinstance(x, ast.Call) and not (isinstance(x.func, ast.Name) and x.func.id in ("len", "repr", "str", "hex")):
                self.f.bad(m, "call inside a message")
            if isinstance(x, (ast.Subscript, ast.BinOp, ast.Await, ast.Yield, ast.NamedExpr)):
                self.f.bad(m, "computation inside a message")

    def s_Raise(self, s, env, ctx, ind):
        e = s.exc
        if s.cause is not None or e is None:
            self.f.bad(s, "raise form")
        name = None
        if isinstance(e, ast.Name):
            name = e.id
        elif isinstance(e, ast.Call) and isinstance(e.func, ast.Name):
            name = e.func.id
            for a in e.args:
                self.message_ok(a)
        import builtins
        cls = getattr(builtins, name, None) if name else None
        if name is None or not (isinstance(cls, type) and issubclass(cls, BaseException)) or name in self.f.pymod.__dict__:
            self.f.bad(s, "raise of something that is not a builtin exception class")
        ctor = EXC.get(name, f'(.other "{name}")')
        return ["  " * ind + f"throw {ctor}"], env, False

    def s_Return(self, s, env, ctx, ind):
        pad = "  " * ind
        if s.value is None:
            e = Ex("()", "none")
        else:
            self.check_alias(s, None)
            e = self.expr(s.value, env)
        want = self.f.ret
        if e.typ != want:
            if want == "int" and e.typ == "bool":
                e = Ex(self.int_of(e, s), "int")
            else:
                self.f.bad(s, f"returns {e.typ}, annotated {want}")
        if ctx.kind == "func":
            if e.monadic:
                return [f"{pad}return (← {e.text})"], env, False
            return [f"{pad}return {e.text}"], env, False
        return [f"{pad}return (.ret {e.val()})"], env, False

    def s_Break(self, s, env, ctx, ind):
        if ctx.kind != "loop":
            self.f.bad(s, "break outside a loop")
        return ["  " * ind + f"return (.brk {tup(mangle(x) for x in ctx.state)})"], env, False

    def s_Continue(self, s, env, ctx, ind):
        if ctx.kind != "loop":
            self.f.bad(s, "continue outside a loop")
        return ["  " * ind + f"return (.next {tup(mangle(x) for x in ctx.state)})"], env, False

    def s_If(self, s, env, ctx, ind):
        pad = "  " * ind
        c = self.truthy(self.expr(s.test, env), s)
        a, enva, fa = self.block(s.body, env, ctx, ind + 1)
        lines = [f"{pad}if {c} then"] + (a or [f"{pad}  pure ()"])
        fb = True
        if s.orelse:
            b, envb, fb = self.block(s.orelse, env, ctx, ind + 1)
            if len(s.orelse) == 1 and isinstance(s.orelse[0], ast.If) and b and b[0].startswith(pad + "  if "):
                # elif: keep the chain flat
                b = [l[2:] for l in b]
                lines += [f"{pad}else " + b[0].lstrip()] + b[1:]
            else:
                lines += [f"{pad}else"] + (b or [f"{pad}  pure ()"])
        # variables first assigned inside a branch stay local to it (using one afterwards is reported as not definitely assigned)
        return lines, env, (fa or fb)

    def loop_common(self, s, env):
        if s.orelse:
            self.f.bad(s, "loop with else")
        # the loop state: the locals declared before the loop that the body assigns, in the order of their DECLARATION
        # (not of their assignment in the body: reordering independent lines of the body must not change the state tuple)
        assigned = set(self.stores(s.body))
        state = [x for x in env if x in assigned]
        return state

    def loop_body(self, s, env_body, state, ctx_kind_simple, ind):
        """lines of the lambda body; simple = no break / continue / return (body answers the state itself)"""
        pad = "  " * (ind + 1)
        lines = []
        for x in state:
            lines.append(f"{pad}let mut {mangle(x)} := {mangle(x)}")
        ctx = Ctx("loop", state)
        if ctx_kind_simple:
            ctx = Ctx("simple-loop", state)
        body, _env, falls = self.block(s.body, env_body, ctx, ind + 1)
        lines += body
        st = tup(mangle(x) for x in state)
        if falls:
            lines.append(f"{pad}pure {st}" if ctx_kind_simple else f"{pad}pure (.next {st})")
        return lines

    def after_loop(self, state, ind, call_lines):
        """the match after a loop with break / return"""
        pad = "  " * ind
        st = tup(mangle(x) for x in state)
        self.tmp += 1
        r = f"r_{self.tmp}"
        lines = [f"{pad}let {r} ← " + call_lines[0].lstrip()] + call_lines[1:]
        lines.append(f"{pad}match {r} with")
        ret = "return v" if True else ""
        arm = self.ret_of_inner()
        lines.append(f"{pad}| .ret {'_' if arm.startswith('throw') else 'v'} => {arm}")
        if state:
            lines.append(f"{pad}| .next s | .brk s => {st} := s")
        else:
            lines.append(f"{pad}| .next _ | .brk _ => pure ()")
        return lines

    def ret_of_inner(self):
        kind = self.ctx_stack[-1].kind
        if kind == "simple-loop":
            # the enclosing loop is translated without `return` support because no loop nested in it contains a `return`:
            # this arm cannot be taken (it only makes the match exhaustive)
            return 'throw (.unsupported "return from a loop that has none")'
        return "return v" if kind == "func" else "return (.ret v)"

    def s_For(self, s, env, ctx, ind):
        pad = "  " * ind
        state = self.loop_common(s, env)
        lst, elt = self.iterable(s.iter, env)
        binder, env_body = self.bind_target(s.target, elt, env)
        for x in (self.stores([ast.Assign(targets=[s.target], value=ast.Constant(value=0))])):
            if x in state:
                self.f.bad(s, f"loop variable `{x}` is also a local assigned before the loop")
        simple = not self.contains(s.body, (ast.Break, ast.Continue, ast.Return), into_loops=False) and \
            not self.contains(s.body, (ast.Return,), into_loops=True)
        st = tup(mangle(x) for x in state)
        self.ctx_stack.append(ctx)
        rty = lean_type(self.f.ret)
        if simple:
            head = f"{pad}{st} ← Py.forEach {lst} {st} fun {binder} {st} => do" if state else \
                f"{pad}Py.forEach {lst} () fun {binder} () => do"
            lines = [head] + self.loop_body(s, env_body, state, True, ind)
        else:
            call = [f"{pad}Py.forEachB (ρ := {rty}) {lst} {st} fun {binder} {st} => do"] + self.loop_body(
                s, env_body, state, False, ind)
            lines = self.after_loop(state, ind, call)
        self.ctx_stack.pop()
        return lines, env, True

    def s_While(self, s, env, ctx, ind):
        pad = "  " * ind
        state = self.loop_common(s, env)
        fuels = self.u.fuel.get(self.f.qualname.split(".", 1)[-1] if False else self.f.qualname, [])
        k = self.f.whiles
        self.f.whiles += 1
        if k >= len(fuels):
            self.f.bad(s, "while loop without a declared fuel bound")
        fnode = ast.parse(fuels[k], mode="eval").body
        saved = self.f.src
        fe = self.fuel_expr(fnode, env, s)
        st = tup(mangle(x) for x in state)
        rty = lean_type(self.f.ret)
        self.ctx_stack.append(ctx)
        const_true = isinstance(s.test, ast.Constant) and s.test.value is True
        body = []
        if not const_true:
            c = self.truthy(self.expr(s.test, env), s)
            body.append("  " * (ind + 1) + f"if !{c} then")
            body.append("  " * (ind + 2) + f"return (.brk {st})")
        inner = self.loop_body(s, env, state, False, ind)
        # the test goes after the `let mut` lines
        nlet = len(state)
        inner = inner[:nlet] + body + inner[nlet:]
        call = [f"{pad}Py.whileFuel (ρ := {rty}) ({fe}).toNat {st} fun {st} => do"] + inner
        lines = [f"{pad}-- fuel: {fuels[k]}"] + self.after_loop(state, ind, call)
        self.ctx_stack.pop()
        return lines, env, True

    def fuel_expr(self, fnode, env, s):
        # the fuel text is not part of the function's source: no source segments for its literals
        src, self.f.src = self.f.src, ""
        try:
            e = self.expr(fnode, env)
        finally:
            self.f.src = src
        if e.typ != "int" or self.has_effects(e):
            self.f.bad(s, "fuel bound must be a pure int expression of the locals")
        return e.text

    # ================================================================ function
    def function(self) -> str:
        f = self.f
        body = f.node.body
        # names assigned more than once (or inside a loop / branch) are `let mut`
        counts = {}

        def count(stmts, weight):
            # syntactic store sites per name
            for st in stmts:
                if isinstance(st, (ast.For, ast.While, ast.If)):
                    if isinstance(st, ast.For):
                        for x in self.stores([ast.Assign(targets=[st.target], value=ast.Constant(value=0))]):
                            counts[x] = counts.get(x, 0) + weight
                    count(st.body, weight)
                    count(st.orelse, weight)
                else:
                    for x in self.stores([st]):
                        counts[x] = counts.get(x, 0) + weight

        count(body, 1)
        pnames = [p[0] for p in f.params]
        self.mutated = {x for x, c in counts.items() if c > 1 or x in pnames}
        self.locals_only = {x for x in counts if x not in pnames}
        self.inplace = set()
        for nd in ast.walk(f.node):
            if isinstance(nd, ast.Subscript) and isinstance(nd.ctx, ast.Store) and isinstance(nd.value, ast.Name):
                self.inplace.add(nd.value.id)
            if isinstance(nd, ast.Call) and isinstance(nd.func, ast.Attribute) and nd.func.attr in ("pop", "append") \
                    and isinstance(nd.func.value, ast.Name):
                self.inplace.add(nd.func.value.id)
            if isinstance(nd, (ast.Lambda, ast.FunctionDef, ast.ClassDef, ast.Global, ast.Nonlocal, ast.Try, ast.With,
                               ast.Yield, ast.YieldFrom, ast.Await, ast.NamedExpr, ast.Delete, ast.Import,
                               ast.ImportFrom)) and nd is not f.node:
                f.bad(nd, type(nd).__name__)
        for x in self.inplace:
            if x in pnames:
                f.bad(f.node, f"parameter `{x}` is updated in place (visible to the caller)")
        env = {}
        sig = []
        for name, typ, dflt in f.params:
            env[name] = typ
            if dflt is not None:
                sig.append(f"({mangle(name)} : {lean_type(typ)} := {dflt.text})")
            else:
                sig.append(f"({mangle(name)} : {lean_type(typ)})")
        self.ctx_stack = []
        lines = []
        for name in pnames:
            if name in counts:
                lines.append(f"  let mut {mangle(name)} := {mangle(name)}")
        ctx = Ctx("func")
        blk, _env, falls = self.block(body, env, ctx, 1)
        lines += blk
        if falls:
            if f.ret != "none":
                f.bad(f.node, "control can reach the end of a function that is annotated to return a value")
            lines.append("  return ()")
        head = f"/-- `{f.file}:{f.line0}` `{f.qualname}` -/\n"
        rty = lean_type(f.ret)
        rty = f"({rty})" if " " in rty and not rty.startswith("(") else rty
        head += f"def {f.lean_name} " + " ".join(sig) + (" " if sig else "") + f": PyM {rty} := do"
        return head + "\n" + "\n".join(lines) + "\n"


class Unit:
    """one generated file: a list of functions (callees before callers) plus the class constants they read"""

    def __init__(self, name, functions, fuel=None):
        self.name = name
        self.fuel = fuel or {}
        self.fns = [Fn(self, m, q) for m, q in functions]
        self.consts = {}  # (class qualname, attr) -> (lean name, type, lean text, where)
        self.done = []

    def owner_of(self, f: Fn, node):
        """the class a `Cls.x` / `cls.x` expression inside f refers to, or None"""
        if not isinstance(node, ast.Attribute) or not isinstance(node.value, ast.Name):
            return None
        base = node.value.id
        if f.clsparam is not None and base == f.clsparam:
            return f.owner
        if base in f.fn.__code__.co_varnames:
            return None
        obj = f.fn.__globals__.get(base)
        if inspect.isclass(obj):
            return obj
        return None

    def resolve_call(self, f: Fn, func_node):
        owner = self.owner_of(f, func_node)
        if owner is None:
            return None
        for g in self.done:
            if g.owner is owner and g.name == func_node.attr:
                # the live attribute must still be the function that was translated
                static = inspect.getattr_static(owner, func_node.attr)
                live = static.__func__ if isinstance(static, (staticmethod, classmethod)) else static
                if live is not g.fn:
                    f.bad(func_node, "callee rebound")
                return g
        f.bad(func_node, f"call of `{f.seg(func_node)}`, which is not a translated function of this unit")

    def class_const(self, f: Fn, node):
        owner = self.owner_of(f, node)
        if owner is None:
            return None
        attr = node.attr
        key = (owner.__qualname__, attr)
        if key in self.consts:
            name, typ, _txt, _w = self.consts[key]
            return Ex(name, typ)
        # the defining assignment in the class body (the class that owns it, through the MRO)
        for klass in owner.__mro__:
            if attr in klass.__dict__:
                break
        else:
            f.bad(node, f"class constant `{attr}` not found")
        try:
            src = textwrap.dedent(inspect.getsource(klass))
            path = inspect.getsourcefile(klass)
            line0 = inspect.getsourcelines(klass)[1]
        except (OSError, TypeError):
            f.bad(node, f"no source for class constant `{attr}`")
        cnode = ast.parse(src).body[0]
        value = None
        vline = 0
        for st in cnode.body:
            tgt = None
            if isinstance(st, ast.Assign) and len(st.targets) == 1 and isinstance(st.targets[0], ast.Name):
                tgt = st.targets[0].id
            elif isinstance(st, ast.AnnAssign) and isinstance(st.target, ast.Name) and st.value is not None:
                tgt = st.target.id
            if tgt == attr:
                if value is not None:
                    f.bad(node, f"class constant `{attr}` assigned twice")
                value = st.value
                vline = st.lineno + line0 - 1
        if value is None:
            f.bad(node, f"class constant `{attr}` is not a plain assignment in the class body")
        try:
            lit = ast.literal_eval(value)
        except Exception:
            f.bad(node, f"class constant `{attr}` is not a literal")
        live = klass.__dict__[attr]
        if type(live) is not type(lit) or live != lit:
            f.bad(node, f"class constant `{attr}`: the live value differs from the literal in the source (rebound)")
        if type(lit) is int:
            typ, txt = "int", lit_int(lit)
        elif type(lit) is bool:
            typ, txt = "bool", "true" if lit else "false"
        elif type(lit) is bytes:
            typ, txt = "bytes", "[" + ", ".join(str(b) for b in lit) + "]"
        elif type(lit) in (tuple, list) and all(type(x) is int for x in lit):
            xs = [str(x) if x >= 0 else f"({x})" for x in lit]
            rows = [", ".join(xs[i:i + 16]) for i in range(0, len(xs), 16)]
            body = "[" + ",\n    ".join(rows) + "]"
            if all(x >= 0 for x in lit):
                typ, txt = "nats", body
            else:
                typ, txt = "ilist", body
            if type(lit) is list:
                # a class-level list can be mutated by anybody
                f.bad(node, f"class constant `{attr}` is a mutable list")
        else:
            f.bad(node, f"class constant `{attr}` of type {type(lit).__name__}")
        name = mangle(attr)
        if any(v[0] == name for v in self.consts.values()):
            name = f"{owner.__name__}_{attr}"
        p = (path or "?").replace(os.sep, "/")
        i = p.rfind("/okdmr/")
        rel = p[i + 1:] if i >= 0 else os.path.basename(p)
        self.consts[key] = (name, typ, txt, f"`{rel}:{vline}` `{klass.__qualname__}.{attr}`")
        return Ex(name, typ)

    def render(self, header="") -> str:
        defs = []
        for f in self.fns:
            defs.append(Translator(self, f).function())
            self.done.append(f)
        out = [header.rstrip("\n"),
               "import DmrVerif.Model.Py",
               "",
               "/-!",
               f"Translated by tools/py2lean.py (plug-in tools/extract_transl.py) from the SOURCE of the functions below, on every run.",
               "Semantics of every `Py.*` operation: `DmrVerif/Model/Py.lean`.  The equality with the hand-written model is proved",
               f"in `Props/*t.lean` (helper lemmas in `Lemmas/Transl{self.name}.lean`).",
               "-/",
               "",
               f"namespace Dmr.Transl.{self.name}",
               "open Dmr Dmr.Py",
               ""]
        for key in self.consts:
            name, typ, txt, where = self.consts[key]
            out.append(f"/-- {where} -/")
            out.append(f"def {name} : {lean_type(typ)} := {txt}")
            out.append("")
        for d in defs:
            out.append(d)
        out.append(f"end Dmr.Transl.{self.name}")
        return "\n".join(out) + "\n"


def translate_unit(name, functions, fuel=None, header="") -> str:
    return Unit(name, functions, fuel).render(header)


if __name__ == "__main__":
    import sys

    mod, *quals = sys.argv[1:]
    print(translate_unit("Scratch", [(mod, q) for q in quals]))
