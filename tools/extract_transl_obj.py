"""
Translator plug-ins for the SOURCE translation of the byte-oriented object codecs (tools/py2lean_obj.py on top of
tools/py2lean_bits.py / tools/py2lean.py): `Gen/TranslArs.lean` (Motorola ARS: `automatic_registration_service.py`), namespace
`Dmr.Transl.Ars`.  Each unit lists

  functions  (module, qualified name[, spec]) — callees before callers (constructors are emitted first).  spec keys:
             params   static type a `Union[...]` parameter is translated for (monomorphisation: the types `from_bytes` passes),
             consts   parameters translated for ONE value (`endian="big"`, the default and the only value the model covers):
                      the parameter disappears; a call that passes anything else is refused,
             variant  the parameter whose static type distinguishes several entries of ONE Python function
                      (`encode_len_val` for `data: str`, `data: None`, `data: bytes`; a call with an `Optional[str]` dispatches),
             ret / lean_name,
  classes    whose objects are constructed (their `__init__` is in `functions`),
  enums      Enum class → (member values, call graph) of the property's own generated table (`Gen/Ars.lean`),
  externals  what is called but NOT translated: fields of the unit's `Ext` structure, explicit parameters of every definition
             (trusted: the call boundary).  `bytes_to_bits` / `bits_to_bytes` (bitarray `frombytes` / `tobytes`);
             `str.encode("utf-8")` / `bytes.decode("utf-8")` are added by the translator where the source calls them.

An `Untranslatable` surfaces as this plug-in's exception: extract.py prints `ERROR Transl<Name> …`, keeps the old file and
exits 3, which the checks treat as "the proof no longer covers the code".  `register`, `HEADER` are injected by extract.py.
"""
import importlib.util
import os

_HERE = os.path.dirname(os.path.abspath(__file__))


def _obj():
    spec = importlib.util.spec_from_file_location("py2lean_obj", os.path.join(_HERE, "py2lean_obj.py"))
    mod = importlib.util.module_from_spec(spec)
    spec.loader.exec_module(mod)
    return mod


_ARS = "okdmr.dmrlib.motorola.automatic_registration_service"
_BIG = {"endian": "big"}
_FLAGS = {k: "int" for k in ("has_more_headers", "is_acknowledged", "is_priority", "is_control_message", "pdu_type")}

_BITS_EXT = {
    "bytes_to_bits": dict(qual="okdmr.dmrlib.utils.bits_bytes:bytes_to_bits", names=["payload", "endian"], consts=dict(_BIG),
                          const_defaults={"endian": True}, params=["bytes"], ret="ba"),
    "bits_to_bytes": dict(qual="okdmr.dmrlib.utils.bits_bytes:bits_to_bytes", params=["ba"], ret="bytes"),
}

UNITS = {
    "Ars": dict(
        functions=[
            # FirstHeader.from_bytes passes bits[i] (ints) for the flags and ba2int(...) for the type
            (_ARS, "FirstHeader.__init__", dict(params=_FLAGS)),
            (_ARS, "FirstHeader.__len__", dict(lean_name="FirstHeader.len")),
            (_ARS, "FirstHeader.from_bytes", dict(consts=_BIG, ret=("obj", "FirstHeader"))),
            (_ARS, "FirstHeader.as_bytes", dict(consts=_BIG)),
            # ResponseSecondHeader.from_bytes passes a member and an int
            (_ARS, "ResponseSecondHeader.__init__",
             dict(params={"failure_reason": ("opt", ("enum", "FailureReason")), "refresh_time": ("opt", "int")})),
            (_ARS, "ResponseSecondHeader.__len__", dict(lean_name="ResponseSecondHeader.len", ret="int")),
            (_ARS, "ResponseSecondHeader.context"),
            (_ARS, "ResponseSecondHeader.as_bytes", dict(consts=_BIG)),
            (_ARS, "ResponseSecondHeader.from_bytes", dict(consts=_BIG, ret=("obj", "ResponseSecondHeader"))),
            (_ARS, "RegistrationRequestHeader.__init__"),
            (_ARS, "RegistrationRequestHeader.__len__", dict(lean_name="RegistrationRequestHeader.len", ret="int")),
            (_ARS, "RegistrationRequestHeader.from_bytes", dict(consts=_BIG, ret=("obj", "RegistrationRequestHeader"))),
            (_ARS, "RegistrationRequestHeader.as_bytes", dict(consts=_BIG)),
            # the message: constructed by from_bytes with a FirstHeader object
            (_ARS, "AutomaticRegistrationService.__init__", dict(params={"first_header": ("obj", "FirstHeader")})),
            (_ARS, "AutomaticRegistrationService.encode_len_val",
             dict(params={"data": "str"}, consts=_BIG, variant="data", lean_name="AutomaticRegistrationService.encode_len_val_str")),
            (_ARS, "AutomaticRegistrationService.encode_len_val",
             dict(params={"data": "none"}, consts=_BIG, variant="data", lean_name="AutomaticRegistrationService.encode_len_val_none")),
            (_ARS, "AutomaticRegistrationService.encode_len_val",
             dict(params={"data": "bytes"}, consts=_BIG, variant="data", lean_name="AutomaticRegistrationService.encode_len_val_bytes")),
            (_ARS, "AutomaticRegistrationService.read_len_val"),
            (_ARS, "AutomaticRegistrationService.get_payload", dict(consts=_BIG)),
            (_ARS, "AutomaticRegistrationService.from_bytes", dict(consts=_BIG, ret=("obj", "AutomaticRegistrationService"))),
            (_ARS, "AutomaticRegistrationService.as_bytes", dict(consts=_BIG)),
            (_ARS, "AutomaticRegistrationService.__len__", dict(lean_name="AutomaticRegistrationService.len")),
        ],
        classes=[
            (_ARS, "FirstHeader"),
            (_ARS, "ResponseSecondHeader"),
            (_ARS, "RegistrationRequestHeader"),
            (_ARS, "AutomaticRegistrationService"),
        ],
        enums={
            "ARSPDUType": ("Dmr.Gen.Ars.pduTypeVal", "Dmr.Gen.Ars.pduTypeGraph"),
            "RegistrationEvent": ("Dmr.Gen.Ars.eventVal", "Dmr.Gen.Ars.eventGraph"),
            "Encoding": ("Dmr.Gen.Ars.encodingVal", "Dmr.Gen.Ars.encodingGraph"),
            "FailureReason": ("Dmr.Gen.Ars.failureVal", "Dmr.Gen.Ars.failureGraph"),
        },
        externals=_BITS_EXT,
        imports=["DmrVerif.Gen.Ars"],
    ),
}


_TMS = "okdmr.dmrlib.motorola.text_messaging_service"
_TFLAGS = {k: "int" for k in ("has_more_headers", "is_acknowledged", "is_reserved", "is_control_message", "pdu_type")}

UNITS["Tms"] = dict(
    functions=[
        # FirstHeader.from_bytes passes bits[i] (ints) for the flags and ba2int(...) for the type
        (_TMS, "FirstHeader.__init__", dict(params=_TFLAGS)),
        # as_bytes passes a bool
        (_TMS, "FirstHeader.set_has_more_headers"),
        (_TMS, "FirstHeader.from_bytes", dict(consts=_BIG, ret=("obj", "FirstHeader"))),
        (_TMS, "FirstHeader.as_bytes", dict(consts=_BIG)),
        (_TMS, "AvailabilitySecondHeader.__init__"),
        (_TMS, "AvailabilitySecondHeader.from_bytes", dict(consts=_BIG, ret=("obj", "AvailabilitySecondHeader"))),
        (_TMS, "AvailabilitySecondHeader.as_bytes", dict(consts=_BIG)),
        (_TMS, "TextMessagingService.__init__"),
        (_TMS, "TextMessagingService.decode_sn_and_encoding"),
        (_TMS, "TextMessagingService.encode_sn_and_encoding", dict(consts=_BIG)),
        (_TMS, "TextMessagingService.encode_address_field"),
        # Optional[...] is what the annotation says: falling off the end (a type that is none of the three) returns None
        (_TMS, "TextMessagingService.from_bytes", dict(consts=_BIG)),
        (_TMS, "TextMessagingService.as_bytes", dict(consts=_BIG)),
    ],
    classes=[
        (_TMS, "FirstHeader"),
        (_TMS, "AvailabilitySecondHeader"),
        (_TMS, "TextMessagingService"),
    ],
    enums={
        "TMSEncoding": ("Dmr.Gen.Tms.encodingVal", "Dmr.Gen.Tms.encodingGraph"),
        # members identified with their values; the graph gives the value
        "TMSDeviceCapability": ("V", "Dmr.Gen.Tms.capabilityGraph"),
    },
    tenums={
        # member = its number in this order (the order of Gen/Tms.pduTypeVal; checked by a generated `decide`)
        "TMSPDUType": dict(vals="Dmr.Gen.Tms.pduTypeVal", graph="Dmr.Gen.Tms.pduTypeGraph",
                           order=["SERVICE_AVAILABILITY", "TMS_ACKNOWLEDGEMENT", "SIMPLE_TEXT_MESSAGE"]),
    },
    externals=_BITS_EXT,
    imports=["DmrVerif.Gen.Tms"],
)


def _make(name):
    def gen():
        u = UNITS[name]
        return _obj().translate_unit(name, u["functions"], u["classes"], u["externals"], u["enums"], u["imports"],
                                     header=HEADER, tenums=u.get("tenums"))  # noqa: F821

    gen.__name__ = "gen_transl_" + name.lower()
    return gen


for _name in UNITS:
    register("Transl" + _name)(_make(_name))  # noqa: F821
