"""
Translator plugin for property C19.

Gen/HiddenState.lean   the inventory of hidden state found by the AST scan (tools/scan_state.py) as a sorted list of
                       (file, qualified name, kind, detail) strings -- compared in Props/C19.lean with the reviewed list
Gen/PurityInit.lean    the initial VALUE of the inventoried state, read from the imported package: configurations and cached
                       lookup tables of the four shared CRC calculators, the mutable default arguments, the LRRP token tables
"""
import importlib.util
import inspect
import os

_HERE = os.path.dirname(os.path.abspath(__file__))


def _scan():
    spec = importlib.util.spec_from_file_location("scan_state", os.path.join(_HERE, "scan_state.py"))
    mod = importlib.util.module_from_spec(spec)
    spec.loader.exec_module(mod)
    return mod.scan()


@register("HiddenState")  # noqa: F821  (injected by extract.py)
def gen_hidden_state() -> str:
    rows = _scan()
    out = [HEADER, "/-! inventory of hidden state in okdmr/dmrlib (AST scan, tools/scan_state.py): (file, qualified name, kind, detail) -/\n",  # noqa: F821
           "namespace Dmr.Gen\n", "def hiddenState : List (String × String × String × String) := ["]
    out.append(",\n".join("  (" + ", ".join(lstr(x) for x in r) + ")" for r in rows))  # noqa: F821
    out.append("]\n\nend Dmr.Gen\n")
    return "\n".join(out)


def _default(fn, name):
    return inspect.signature(fn).parameters[name].default


def _opt(v):
    return "none" if v is None else f"(some {int(v)})"


@register("PurityInit")  # noqa: F821
def gen_purity_init() -> str:
    from bitarray.util import ba2int

    from okdmr.dmrlib.etsi.crc.crc import TableBasedBitCrcRegister, bits_create_lookup_table
    from okdmr.dmrlib.etsi.crc.crc8 import CRC8
    from okdmr.dmrlib.etsi.crc.crc9 import CRC9
    from okdmr.dmrlib.etsi.crc.crc16 import CRC16
    from okdmr.dmrlib.etsi.crc.crc32 import CRC32
    from okdmr.dmrlib.etsi.layer2.burst import Burst
    from okdmr.dmrlib.etsi.layer2.pdu.csbk import CSBK
    from okdmr.dmrlib.etsi.layer2.pdu.data_header import DataHeader
    from okdmr.dmrlib.etsi.layer3.elements.service_options import ServiceOptions
    from okdmr.dmrlib.hytera.pdu.radio_control_protocol import RadioControlProtocol
    from okdmr.dmrlib.motorola.lrrp import LRRP
    from okdmr.dmrlib.motorola.text_messaging_service import TMSPDUType

    o = [HEADER, "/-! initial values of the hidden state of okdmr/dmrlib (C19), read from the imported package -/\n", "namespace Dmr.Gen.PurityInit\n"]  # noqa: F821
    # ---- the four shared calculators: (width, polynomial, init, final xor, reverse in, reverse out, feed width, table based)
    o.append("/-- CRC8.CALC, CRC9.CALC, CRC16.CALC, CRC32.CALC: (width, polynomial, init, final xor, reverse input, reverse output, feed width, table based) -/")
    rows = []
    tables = []
    for cls in (CRC8, CRC9, CRC16, CRC32):
        reg = cls.CALC._crc_register
        c = reg._config
        rows.append(f"  ({c.width_bits}, {c.polynomial}, {c.init_value}, {c.final_xor_value}, {lbool(c.reverse_input_bytes)}, {lbool(c.reverse_output_bytes)}, {c.feed_width_bits}, {lbool(isinstance(reg, TableBasedBitCrcRegister))})")  # noqa: F821
        tbl = bits_create_lookup_table(c.width_bits, c.polynomial)
        # the register's table must be the very object the cache hands out (shared by all table registers)
        shared = getattr(reg, "_lookup_table", None) is tbl
        tables.append((c.width_bits, c.polynomial, [ba2int(x) for x in tbl], shared))
    o.append("def sharedCalcs : List (Nat × Nat × Nat × Nat × Bool × Bool × Nat × Bool) := [\n" + ",\n".join(rows) + "]\n")
    o.append("/-- content of the `functools.lru_cache` of `bits_create_lookup_table` after import: ((width, polynomial), entries) -/")
    o.append("def tableCache : List ((Nat × Nat) × List Nat) := [\n" + ",\n".join(f"  (({w}, {p}), {lnats(t)})" for w, p, t, _ in tables) + "]\n")  # noqa: F821
    o.append("/-- every shared register uses the cached list object itself (aliasing) -/")
    o.append(f"def tablesAliased : Bool := {lbool(all(s for *_, s in tables))}\n")  # noqa: F821
    # ---- mutable default arguments
    o.append("/-- `Burst.__init__(full_bits=bitarray([0] * 264))` -/")
    o.append(f"def burstDefaultBits : List Bool := {lbits(_default(Burst.__init__, 'full_bits'))}\n")  # noqa: F821
    o.append("/-- `CSBK.__init__(broadcast_params=bitarray())` -/")
    o.append(f"def csbkDefaultParams : List Bool := {lbits(_default(CSBK.__init__, 'broadcast_params'))}\n")  # noqa: F821
    o.append("/-- `DataHeader.__init__(bit_padding=bitarray())` -/")
    o.append(f"def dataHeaderDefaultPadding : List Bool := {lbits(_default(DataHeader.__init__, 'bit_padding'))}\n")  # noqa: F821
    o.append("/-- `ServiceOptions.__init__(reserved=bitarray('00'))` -/")
    o.append(f"def serviceOptionsDefaultReserved : List Bool := {lbits(_default(ServiceOptions.__init__, 'reserved'))}\n")  # noqa: F821
    d = _default(RadioControlProtocol.__init__, "status_change_settings")
    o.append("/-- `RadioControlProtocol.__init__(status_change_settings=dict())`: (target value, setting value) in dict order -/")
    o.append("def rcpDefaultSettings : List (Nat × Nat) := [" + ", ".join(f"({k.value}, {v.value})" for k, v in d.items()) + "]\n")

    # ---- LRRP class-level token tables
    def tok(i, t):
        attrs = []
        for a in t.attributes:
            if not isinstance(a, int):
                raise ValueError(f"token definition {i:#x} holds an attribute instance (the shared table was modified)")
            attrs.append(a)
        return f"  ({i}, {lstr(t.name)}, {lnats(attrs)})"  # noqa: F821

    def tokset(name, doc, sets):
        o.append(f"/-- {doc}: (token id, name, attribute ids) in dictionary order -/")
        o.append(f"def {name} : List (List (Nat × String × List Nat)) := [\n" + ",\n".join("[\n" + ",\n".join(tok(i, t) for i, t in s.items()) + "]" for s in sets) + "]\n")

    tokset("lrrpRequestTokens", "`LRRP.get_known_tokens(is_request=True)`", LRRP.get_known_tokens(True))
    tokset("lrrpAnswerTokens", "`LRRP.get_known_tokens(is_request=False)`", LRRP.get_known_tokens(False))
    o.append("/-- `LRRP.get_known_attributes()`: (attribute id, name, preset value) in dictionary order -/")
    sets = LRRP.get_known_attributes()
    rows = []
    for s in sets:
        items = []
        for i, t in s.items():
            if t.value is not None and not isinstance(t.value, int):
                raise ValueError("attribute preset is not an int")
            items.append(f"  ({i}, {lstr(t.name)}, {_opt(t.value)})")  # noqa: F821
        rows.append("[\n" + ",\n".join(items) + "]")
    o.append("def lrrpAttributes : List (List (Nat × String × Option Nat)) := [\n" + ",\n".join(rows) + "]\n")
    # ---- TMS PDU types: (is control message, 4 bit type)
    o.append("/-- `TMSPDUType`: (name, is control message, type bits) -/")
    o.append("def tmsPduTypes : List (String × Bool × Nat) := [" + ", ".join(f"({lstr(m.name)}, {lbool(m.value[0])}, {m.value[1]})" for m in TMSPDUType) + "]\n")  # noqa: F821
    # ---- element Enums (etsi layer2 / layer3 element packages): what every member serialises to
    o.append("/-- `<member>.as_bits()` of every Enum with `as_bits` in the etsi layer2 / layer3 element packages, found by introspection:")
    o.append("(`<module>.<Class>`, per member in definition order (name of the exception it raises or \"\", bits)) -/")
    rows = []
    for key, members in element_bits():
        rows.append(f"  ({lstr(key)}, [" + ", ".join(f"({lstr(err)}, {lbits(bits)})" for err, bits in members) + "])")  # noqa: F821
    o.append("def elementBits : List (String × List (String × List Bool)) := [\n" + ",\n".join(rows) + "]\n")
    o.append("end Dmr.Gen.PurityInit\n")
    return "\n".join(o)


ELEMENT_PKGS = ("okdmr.dmrlib.etsi.layer2.elements", "okdmr.dmrlib.etsi.layer3.elements")


def element_bits():
    """[(`<module>.<Class>`, [(exception name or "", bits of member.as_bits())])], sorted by key; the same walk as
    harness/props/c19_worker.py `element_enums`"""
    import enum
    import importlib
    import pkgutil

    from bitarray import bitarray

    out = []
    for pkgname in ELEMENT_PKGS:
        pkg = importlib.import_module(pkgname)
        for mi in sorted(pkgutil.iter_modules(pkg.__path__), key=lambda m: m.name):
            mod = importlib.import_module(f"{pkgname}.{mi.name}")
            for cname, cls in sorted(vars(mod).items()):
                if not (isinstance(cls, type) and cls.__module__ == mod.__name__ and issubclass(cls, enum.Enum) and callable(getattr(cls, "as_bits", None))):
                    continue
                members = []
                for m in cls:
                    try:
                        b = m.as_bits()
                        if not isinstance(b, bitarray):
                            raise TypeError("as_bits did not return a bitarray")
                        members.append(("", bitarray(b)))
                    except Exception as e:  # noqa
                        members.append((type(e).__name__, bitarray()))
                out.append((f"{mi.name}.{cname}", members))
    return sorted(out, key=lambda x: x[0])
