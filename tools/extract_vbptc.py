"""
Translator plugin for C09: the three variable-length BPTC classes.

For every class the live class attributes are dumped exactly as the class body built them:
`INTERLEAVING_INDICES` as a list of `(key, (interleave index, row, column, flag3, flag4))` in dict
order, and every derived map (`FULL_*`, `*_INFO_BITS_ONLY_MAP`, checksum maps) as a list of
`(key, value)` pairs in dict order.  Nothing is recomputed here: if a dict comprehension in /repo
changes, the generated literal changes and every theorem that depends on it is re-checked.
(`register`, `HEADER`, `lnats` … are injected by tools/extract.py.)
"""


def _pairs(d) -> str:
    items = [f"({int(k)}, {int(v)})" for k, v in d.items()]
    lines = [", ".join(items[i : i + 8]) for i in range(0, len(items), 8)]
    return "[" + ",\n    ".join(lines) + "]"


def _entries(d) -> str:
    rows = []
    for k, v in d.items():
        assert len(v) == 5, f"INTERLEAVING_INDICES[{k}] has {len(v)} fields"
        il, row, col, f3, f4 = v
        # plain ints / bools only: anything else must fail loudly (it is data for the caller)
        rows.append(
            f"⟨{int(k)}, {int(il)}, {int(row)}, {int(col)}, {'true' if f3 else 'false'}, {'true' if f4 else 'false'}⟩"
        )
    lines = [", ".join(rows[i : i + 2]) for i in range(0, len(rows), 2)]
    return "[" + ",\n    ".join(lines) + "]"


@register("Vbptc")  # noqa: F821
def gen_vbptc() -> str:
    from okdmr.dmrlib.etsi.fec.vbptc_128_72 import VBPTC12873
    from okdmr.dmrlib.etsi.fec.vbptc_68_28 import VBPTC6828
    from okdmr.dmrlib.etsi.fec.vbptc_32_11 import VBPTC3211

    out = [
        HEADER,  # noqa: F821
        "import DmrVerif.Model.Bits\n\nnamespace Dmr.Gen\n",
        "/-- one item of `INTERLEAVING_INDICES`: `key: (il, row, col, f3, f4)` (rows are numbered from 1) -/\n"
        "structure VEntry where\n  key : Nat\n  il : Nat\n  row : Nat\n  col : Nat\n  f3 : Bool\n  f4 : Bool\n  deriving Repr, DecidableEq\n",
        "/-- the class attributes of one variable-length BPTC class; maps are `dict.items()` in dict order -/\n"
        "structure VTables where\n"
        "  ii : List VEntry\n"
        "  fullInterleaving : List (Nat × Nat)\n"
        "  fullDeinterleaving : List (Nat × Nat)\n"
        "  deinterleaveInfo : List (Nat × Nat)\n"
        "  deinterleaveChecksum : List (Nat × Nat)\n"
        "  interleaveInfo : List (Nat × Nat)\n",
    ]
    classes = [
        ("vbptc12873", VBPTC12873, "DEINTERLEAVE_5BIT_CHECKSUM"),
        ("vbptc6828", VBPTC6828, "DEINTERLEAVE_8BIT_CHECKSUM"),
        ("vbptc3211", VBPTC3211, None),
    ]
    for name, cls, csname in classes:
        cs = getattr(cls, csname) if csname else {}
        out.append(
            f"/-- `{cls.__name__}` (checksum map: `{csname}`) -/\n"
            f"def {name} : VTables where\n"
            f"  ii := {_entries(cls.INTERLEAVING_INDICES)}\n"
            f"  fullInterleaving := {_pairs(cls.FULL_INTERLEAVING_MAP)}\n"
            f"  fullDeinterleaving := {_pairs(cls.FULL_DEINTERLEAVING_MAP)}\n"
            f"  deinterleaveInfo := {_pairs(cls.DEINTERLEAVE_INFO_BITS_ONLY_MAP)}\n"
            f"  deinterleaveChecksum := {_pairs(cs)}\n"
            f"  interleaveInfo := {_pairs(cls.INTERLEAVE_INFO_BITS_ONLY_MAP)}\n"
        )
    # the CRC-8 configuration CRC8.calculate runs with (the register model is hand-written, the
    # parameters are read from the live calculator object)
    from okdmr.dmrlib.etsi.crc.crc8 import CRC8
    from okdmr.dmrlib.etsi.crc.crc import TableBasedBitCrcRegister

    reg = CRC8.CALC._crc_register
    cfg = reg._config
    out.append(
        "/-- configuration of `CRC8.CALC` (`Crc8.ETSI_DMR`), `feed` is the derived `feed_width_bits` -/\n"
        f"def crc8Width : Nat := {int(cfg.width_bits)}\n"
        f"def crc8Poly : Nat := {int(cfg.polynomial)}\n"
        f"def crc8Feed : Nat := {int(cfg.feed_width_bits)}\n"
        f"def crc8Init : Nat := {int(cfg.init_value)}\n"
        f"def crc8FinalXor : Nat := {int(cfg.final_xor_value)}\n"
        f"def crc8ReverseInput : Bool := {'true' if cfg.reverse_input_bytes else 'false'}\n"
        f"def crc8ReverseOutput : Bool := {'true' if cfg.reverse_output_bytes else 'false'}\n"
        f"def crc8TableBased : Bool := {'true' if isinstance(reg, TableBasedBitCrcRegister) else 'false'}\n"
    )
    out.append("end Dmr.Gen\n")
    return "\n".join(out)
