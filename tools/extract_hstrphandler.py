"""Translator plugin for C17: constants and finite value graphs the HSTRP/RRS handler model depends on.

Tables only: the HSTRP header, the complete graphs of HSTRPPacketType.as_bytes / from_bytes (64 flag
combinations / 256 octets), the RRS opcode / result / service-type values, and three golden byte
strings produced by the library's own serialisers (heartbeat, acknowledgement of a connect, the
registration answer of rrs_confirm) against which the model's `Out.bytes` is decided in Props/C17.  Configuration: the constructor
signature (parameter names, default of be_active_peer), the attributes of a new handler for both values of
be_active_peer, and what one iteration of periodic_maintenance sends (datagram, destination host) for an
active and a passive handler that is not connected / connected.
"""


@register("HstrpHandler")  # noqa: F821
def gen_hstrp_handler() -> str:
    import itertools

    from okdmr.dmrlib.hytera.pdu.hdap import HDAP, HyteraServiceType
    from okdmr.dmrlib.hytera.pdu.hstrp import HSTRP, HSTRPPacketType
    from okdmr.dmrlib.hytera.pdu.radio_ip import RadioIP
    from okdmr.dmrlib.hytera.pdu.radio_registration_service import (
        RadioRegistrationService,
        RRSRadioState,
        RRSResult,
        RRSTypes,
    )

    out = [HEADER, "namespace Dmr.Gen.HstrpHandler\n"]  # noqa: F821
    out.append(f"def header : List Nat := {lbytes(HSTRP.HEADER)}")  # noqa: F821
    # as_bytes graph: index = 32*opt + 16*reject + 8*close + 4*connect + 2*heartbeat + ack
    ser = []
    for bits in itertools.product([False, True], repeat=6):
        o, r, cl, co, h, a = bits
        b = HSTRPPacketType(have_options=o, is_reject=r, is_close=cl, is_connect=co, is_heartbeat=h, is_ack=a).as_bytes()
        assert len(b) == 1
        ser.append(b[0])
    out.append("/-- `HSTRPPacketType(flags).as_bytes()[0]` for the 64 flag combinations, index = flags read as a 6-bit number (opt reject close connect heartbeat ack) -/")
    out.append(f"def typeByteGraph : List Nat := {lnats(ser)}")  # noqa: F821
    par = []
    for v in range(256):
        t = HSTRPPacketType.from_bytes(bytes([v]))
        par.append(32 * t.have_options + 16 * t.is_reject + 8 * t.is_close + 4 * t.is_connect + 2 * t.is_heartbeat + 1 * t.is_ack)
    out.append("/-- flags (as the same 6-bit number) of `HSTRPPacketType.from_bytes(bytes([v]))` for v = 0..255 -/")
    out.append(f"def typeParseGraph : List Nat := {lnats(par)}")  # noqa: F821
    out.append(f"def opRequest : Nat := {RRSTypes.RadioRegistrationRequest.value}")
    out.append(f"def opOffline : Nat := {RRSTypes.RadioGoingOffline.value}")
    out.append(f"def opAnswer : Nat := {RRSTypes.RadioRegistrationAnswer.value}")
    out.append(f"def rrsOpcodes : List Nat := {lnats([m.value for m in RRSTypes])}")  # noqa: F821
    out.append(f"def resultSuccess : Nat := {RRSResult.Success.value}")
    out.append(f"def stateOnline : Nat := {RRSRadioState.Online.value}")
    out.append(f"def stateOffline : Nat := {RRSRadioState.Offline.value}")
    out.append(f"def serviceRrs : Nat := {HyteraServiceType.RRS.value}")
    out.append(f"def msgEnd : List Nat := {lbytes(HDAP.MSG_END)}")  # noqa: F821
    hb = HSTRP(pkt_type=HSTRPPacketType(is_heartbeat=True), sn=0).as_bytes()
    out.append("/-- `HSTRP(pkt_type=HSTRPPacketType(is_heartbeat=True), sn=0).as_bytes()` -/")
    out.append(f"def goldenHeartbeat : List Nat := {lbytes(hb)}")  # noqa: F821
    ans = HSTRP(
        pkt_type=HSTRPPacketType(have_options=True),
        payload=RadioRegistrationService(
            opcode=RRSTypes.RadioRegistrationAnswer,
            radio_ip=RadioIP.from_bytes(bytes([10, 0, 1, 200])),
            result=RRSResult.Success,
            renew_time_seconds=60 * 5,
        ),
        sn=0xFFFE,
    ).as_bytes()
    out.append("/-- the datagram `rrs_confirm` builds for radio 10.0.1.200 with S/N 0xFFFE -/")
    out.append(f"def goldenAnswer : List Nat := {lbytes(ans)}")  # noqa: F821
    req = HSTRP.from_bytes(bytes.fromhex("32420024012383040001869f040102"))
    req.pkt_type.is_ack = True
    req.pkt_type.is_reject = False
    req.payload = None
    out.append("/-- acknowledgement (as `hstrp_send_ack` edits it) of 32420024012383040001869f040102 (connect with two options, S/N 0x0123) -/")
    out.append(f"def goldenAck : List Nat := {lbytes(req.as_bytes())}")  # noqa: F821
    # ---- configuration: constructor, new handler, periodic_maintenance
    import asyncio
    import inspect
    import logging

    from okdmr.dmrlib.protocols.hytera.hstrp_datagram_protocol import HSTRPDatagramProtocol
    from okdmr.dmrlib.protocols.hytera.rrs_datagram_protocol import RRSDatagramProtocol

    class _Rec(asyncio.DatagramTransport):
        def __init__(self):
            super().__init__()
            self.sent = []

        def sendto(self, data, addr=None):
            self.sent.append((bytes(data), addr))

        def is_closing(self):
            return False

        def close(self):
            pass

    async def _one_tick(h):
        task = asyncio.ensure_future(h.periodic_maintenance())
        await asyncio.sleep(0)
        task.cancel()
        try:
            await task
        except asyncio.CancelledError:
            pass

    out.append("/-- constructor parameters (after self) of HSTRPDatagramProtocol, RRSDatagramProtocol; `=` marks one with a default -/")
    for cls, nm in ((HSTRPDatagramProtocol, "ctorParamsBase"), (RRSDatagramProtocol, "ctorParamsRrs")):
        sig = inspect.signature(cls.__init__)
        names = [n + ("" if q.default is inspect.Parameter.empty else "=") for n, q in list(sig.parameters.items())[1:]]
        out.append(f"def {nm} : List String := [" + ", ".join(lstr(n) for n in names) + "]")  # noqa: F821
    out.append("/-- default of the constructor parameter `be_active_peer` (both classes) -/")
    dflt = {cls.__name__: inspect.signature(cls.__init__).parameters["be_active_peer"].default for cls in (HSTRPDatagramProtocol, RRSDatagramProtocol)}
    assert all(isinstance(v, bool) for v in dflt.values()) and len(set(dflt.values())) == 1
    out.append(f"def defaultActivePeer : Bool := {lbool(dflt['RRSDatagramProtocol'])}")  # noqa: F821
    out.append("/-- instance attributes of a new handler (`vars(h)`), in creation order -/")
    out.append("def attrsBase : List String := [" + ", ".join(lstr(n) for n in vars(HSTRPDatagramProtocol(port=1))) + "]")  # noqa: F821
    out.append("def attrsRrs : List String := [" + ", ".join(lstr(n) for n in vars(RRSDatagramProtocol(port=1))) + "]")  # noqa: F821
    rows = []
    ticks = []
    logging.disable(logging.CRITICAL)
    loop = asyncio.new_event_loop()
    try:
        for cls in (HSTRPDatagramProtocol, RRSDatagramProtocol):
            for active in (False, True):
                h = cls(port=30123, be_active_peer=active)
                reg = getattr(h, "registry", {})
                rows.append((h.hstrp_connected is True, h.sn, len(reg), h.be_active_peer is True, h.port, h.transport is not None))
                for connected in (False, True):
                    t = _Rec()
                    h.connection_made(t)
                    h.hstrp_connected = connected
                    loop.run_until_complete(_one_tick(h))
                    assert all(a[1] == h.port for _, a in t.sent)
                    ticks.append((active, connected, [(d, a[0]) for d, a in t.sent]))
    finally:
        loop.close()
        logging.disable(logging.NOTSET)
    out.append("/-- attributes of a new handler built with port 30123, for (class, be_active_peer) in (base, F), (base, T), (rrs, F), (rrs, T):")
    out.append("(hstrp_connected, sn, len(registry) (0 for the base class), be_active_peer, port, transport is not None) -/")
    out.append("def newHandler : List (Bool × Nat × Nat × Bool × Nat × Bool) := [" + ", ".join(
        f"({lbool(c)}, {sn}, {n}, {lbool(a)}, {p}, {lbool(t)})" for c, sn, n, a, p, t in rows) + "]")  # noqa: F821
    out.append("/-- one iteration of periodic_maintenance, for class x be_active_peer x hstrp_connected (in that order, False first):")
    out.append("(be_active_peer, hstrp_connected, [(datagram, destination host)]); the destination port is always self.port -/")
    out.append("def maintenance : List (Bool × Bool × List (List Nat × String)) := [" + ", ".join(
        f"({lbool(a)}, {lbool(c)}, [" + ", ".join(f"({lbytes(d)}, {lstr(host)})" for d, host in sent) + "])" for a, c, sent in ticks) + "]")  # noqa: F821
    out.append("\nend Dmr.Gen.HstrpHandler\n")
    return "\n".join(out)
