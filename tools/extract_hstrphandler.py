"""Translator plugin for C17: constants and finite value graphs the HSTRP/RRS handler model depends on.

Tables only: the HSTRP header, the complete graphs of HSTRPPacketType.as_bytes / from_bytes (64 flag
combinations / 256 octets), the RRS opcode / result / service-type values, and three golden byte
strings produced by the library's own serialisers (heartbeat, acknowledgement of a connect, the
registration answer of rrs_confirm) against which the model's `Out.bytes` is decided in Props/C17.
"""


@register("HstrpHandler")  # noqa: F821
def gen_hstrp_handler() -> str:
    import itertools

    from okdmr.dmrlib.hytera.pdu.hdap import HDAP, HyteraServiceType
    from okdmr.dmrlib.hytera.pdu.hstrp import HSTRP, HSTRPPacketType
    from okdmr.dmrlib.hytera.pdu.radio_ip import RadioIP
    from okdmr.dmrlib.hytera.pdu.radio_registration_service import (
        RadioRegistrationService,
        RRSRadioState,
        RRSResult,
        RRSTypes,
    )

    out = [HEADER, "namespace Dmr.Gen.HstrpHandler\n"]  # noqa: F821
    out.append(f"def header : List Nat := {lbytes(HSTRP.HEADER)}")  # noqa: F821
    # as_bytes graph: index = 32*opt + 16*reject + 8*close + 4*connect + 2*heartbeat + ack
    ser = []
    for bits in itertools.product([False, True], repeat=6):
        o, r, cl, co, h, a = bits
        b = HSTRPPacketType(have_options=o, is_reject=r, is_close=cl, is_connect=co, is_heartbeat=h, is_ack=a).as_bytes()
        assert len(b) == 1
        ser.append(b[0])
    out.append("/-- `HSTRPPacketType(flags).as_bytes()[0]` for the 64 flag combinations, index = flags read as a 6-bit number (opt reject close connect heartbeat ack) -/")
    out.append(f"def typeByteGraph : List Nat := {lnats(ser)}")  # noqa: F821
    par = []
    for v in range(256):
        t = HSTRPPacketType.from_bytes(bytes([v]))
        par.append(32 * t.have_options + 16 * t.is_reject + 8 * t.is_close + 4 * t.is_connect + 2 * t.is_heartbeat + 1 * t.is_ack)
    out.append("/-- flags (as the same 6-bit number) of `HSTRPPacketType.from_bytes(bytes([v]))` for v = 0..255 -/")
    out.append(f"def typeParseGraph : List Nat := {lnats(par)}")  # noqa: F821
    out.append(f"def opRequest : Nat := {RRSTypes.RadioRegistrationRequest.value}")
    out.append(f"def opOffline : Nat := {RRSTypes.RadioGoingOffline.value}")
    out.append(f"def opAnswer : Nat := {RRSTypes.RadioRegistrationAnswer.value}")
    out.append(f"def rrsOpcodes : List Nat := {lnats([m.value for m in RRSTypes])}")  # noqa: F821
    out.append(f"def resultSuccess : Nat := {RRSResult.Success.value}")
    out.append(f"def stateOnline : Nat := {RRSRadioState.Online.value}")
    out.append(f"def stateOffline : Nat := {RRSRadioState.Offline.value}")
    out.append(f"def serviceRrs : Nat := {HyteraServiceType.RRS.value}")
    out.append(f"def msgEnd : List Nat := {lbytes(HDAP.MSG_END)}")  # noqa: F821
    hb = HSTRP(pkt_type=HSTRPPacketType(is_heartbeat=True), sn=0).as_bytes()
    out.append("/-- `HSTRP(pkt_type=HSTRPPacketType(is_heartbeat=True), sn=0).as_bytes()` -/")
    out.append(f"def goldenHeartbeat : List Nat := {lbytes(hb)}")  # noqa: F821
    ans = HSTRP(
        pkt_type=HSTRPPacketType(have_options=True),
        payload=RadioRegistrationService(
            opcode=RRSTypes.RadioRegistrationAnswer,
            radio_ip=RadioIP.from_bytes(bytes([10, 0, 1, 200])),
            result=RRSResult.Success,
            renew_time_seconds=60 * 5,
        ),
        sn=0xFFFE,
    ).as_bytes()
    out.append("/-- the datagram `rrs_confirm` builds for radio 10.0.1.200 with S/N 0xFFFE -/")
    out.append(f"def goldenAnswer : List Nat := {lbytes(ans)}")  # noqa: F821
    req = HSTRP.from_bytes(bytes.fromhex("32420024012383040001869f040102"))
    req.pkt_type.is_ack = True
    req.pkt_type.is_reject = False
    req.payload = None
    out.append("/-- acknowledgement (as `hstrp_send_ack` edits it) of 32420024012383040001869f040102 (connect with two options, S/N 0x0123) -/")
    out.append(f"def goldenAck : List Nat := {lbytes(req.as_bytes())}")  # noqa: F821
    out.append("\nend Dmr.Gen.HstrpHandler\n")
    return "\n".join(out)
