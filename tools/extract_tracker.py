"""
Translator plugin for properties C08 / C07: the tables the transmission tracker and the transmission
generator depend on -> Gen/Tracker.lean, Gen/Fragment.lean.

* Tracker: enum values (`VoiceBursts`, `TransmissionTypes`, the three `Rate*DataTypes`), the graph of the
  three `resolve(confirmed, last)` functions, the information-bit length each `from_bits_typed` accepts, the
  SAP value that triggers the diagnostic print, and the complete *bit layout* of every typed rate-x parse,
  obtained by calling `from_bits_typed` on the unit vectors (which field every input bit lands in, with
  which weight).  Nothing is read from the source text.
* Fragment: the two dict literals inside `TransmissionGenerator.generate_data_bursts` (octets per block /
  per last block, block types), located in the function's AST and evaluated in the module's own namespace.
  Only these literals are translated; the arithmetic around them is hand-modelled (Model/Fragment.lean).
"""


def _rates():
    from okdmr.dmrlib.etsi.layer2.pdu.rate12_data import Rate12Data, Rate12DataTypes
    from okdmr.dmrlib.etsi.layer2.pdu.rate34_data import Rate34Data, Rate34DataTypes
    from okdmr.dmrlib.etsi.layer2.pdu.rate1_data import Rate1Data, Rate1DataTypes

    return [(Rate12Data, Rate12DataTypes), (Rate34Data, Rate34DataTypes), (Rate1Data, Rate1DataTypes)]


_TYPE_NAMES = ["Unconfirmed", "Confirmed", "UnconfirmedLastBlock", "ConfirmedLastBlock"]


def _nat(x) -> int:
    if isinstance(x, bool) or not isinstance(x, int) or x < 0:
        raise TypeError(f"table value {x!r} is not a natural number")
    return x


def _log2(v: int) -> int:
    if v <= 0 or v & (v - 1):
        raise ValueError(f"{v} is not a power of two")
    return v.bit_length() - 1


def _layout(cls, types, tname, nbits):
    """field and weight of every information bit under from_bits_typed(.., data_type=types[tname])"""
    from bitarray import bitarray

    t = types[tname]
    out = []
    for i in range(nbits):
        bits = bitarray(nbits)
        bits.setall(0)
        bits[i] = 1
        blk = cls.from_bits_typed(bits, t)
        if blk.packet_type != t:
            raise ValueError(f"{cls.__name__} typed parse answers {blk.packet_type} for {t}")
        d = int.from_bytes(blk.data, "big") if blk.data else 0
        if d:
            # weight counted from the first data bit
            out.append((2, len(blk.data) * 8 - 1 - _log2(d)))
        elif blk.dbsn:
            out.append((0, _log2(blk.dbsn)))
        elif blk.crc32:
            out.append((3, _log2(blk.crc32)))
        else:
            # by elimination the received CRC-9 field (a zero field is replaced by the calculated value)
            out.append((1, _log2(blk.crc9)))
    return out


@register("Tracker")
def gen_tracker() -> str:
    from bitarray import bitarray
    from okdmr.dmrlib.etsi.layer2.elements.voice_bursts import VoiceBursts
    from okdmr.dmrlib.etsi.layer2.elements.sap_identifier import SAPIdentifier
    from okdmr.dmrlib.transmission.transmission_types import TransmissionTypes

    out = [HEADER, "\nnamespace Dmr.Gen.Tracker\n"]
    vb = [VoiceBursts[n].value for n in ["Unknown"] + [f"VoiceBurst{c}" for c in "ABCDEF"]]
    out.append("/-- `VoiceBursts`: Unknown, A … F -/")
    out.append(f"def voiceBurstValues : List Nat := {lnats([_nat(v) for v in vb])}\n")
    out.append(f"def voiceBurstCount : Nat := {len(list(VoiceBursts))}\n")
    tt = [TransmissionTypes[n].value for n in ["Idle", "VoiceTransmission", "DataTransmission"]]
    out.append("/-- `TransmissionTypes`: Idle, VoiceTransmission, DataTransmission -/")
    out.append(f"def txTypeValues : List Nat := {lnats([_nat(v) for v in tt])}\n")
    out.append(f"def sapUdpIpCompression : Nat := {_nat(SAPIdentifier.UDP_IP_compression.value)}\n")

    octets, resolved, infobits, layouts = [], [], [], []
    for cls, types in _rates():
        octets.append([_nat(types[n].value) for n in _TYPE_NAMES])
        resolved.append(
            [
                _nat(types.resolve(confirmed=c, last=l).value)
                for (c, l) in [(False, False), (True, False), (False, True), (True, True)]
            ]
        )
        ok = []
        for n in range(0, 400):
            try:
                cls.from_bits_typed(bitarray(n), types["Unconfirmed"])
                ok.append(n)
            except AssertionError:
                pass
        if len(ok) != 1:
            raise ValueError(f"{cls.__name__}.from_bits_typed accepts lengths {ok}")
        infobits.append(ok[0])
        layouts.append([_layout(cls, types, n, ok[0]) for n in _TYPE_NAMES])
    out.append(
        "/-- per rate (1/2, 3/4, 1): enum value of Unconfirmed, Confirmed, UnconfirmedLastBlock,\n"
        "ConfirmedLastBlock (the constructors derive the type from the number of data octets) -/"
    )
    out.append("def typeOctets : List (List Nat) := [" + ", ".join(lnats(r) for r in octets) + "]\n")
    out.append("/-- per rate: `resolve(confirmed, last).value` for (F,F), (T,F), (F,T), (T,T) -/")
    out.append("def resolveOctets : List (List Nat) := [" + ", ".join(lnats(r) for r in resolved) + "]\n")
    out.append("/-- per rate: the only number of information bits `from_bits_typed` accepts -/")
    out.append(f"def infoBits : List Nat := {lnats(infobits)}\n")
    out.append(
        "/-- per rate, per type (order as above), per information bit: (field, weight) where field 0 = DBSN,\n"
        "1 = received CRC-9, 2 = data, 3 = CRC-32; weight = log2 of the bit's contribution to the integer\n"
        "field, for data the bit index counted from the first data bit -/"
    )
    rows = []
    for per_rate in layouts:
        rows.append(
            "[" + ",\n    ".join("[" + ", ".join(f"({f}, {w})" for f, w in lay) + "]" for lay in per_rate) + "]"
        )
    out.append("def layouts : List (List (List (Nat × Nat))) := [\n   " + ",\n   ".join(rows) + "]\n")
    out.append("end Dmr.Gen.Tracker\n")
    return "\n".join(out)


@register("Fragment")
def gen_fragment() -> str:
    import ast
    import inspect
    import textwrap

    import okdmr.dmrlib.transmission.transmission_generator as tg

    rates = _rates()
    rate_id = {cls: i for i, (cls, _) in enumerate(rates)}
    src = textwrap.dedent(inspect.getsource(tg.TransmissionGenerator.generate_data_bursts))
    tree = ast.parse(src)
    dicts = [n for n in ast.walk(tree) if isinstance(n, ast.Dict)]
    dicts.sort(key=lambda n: (n.lineno, n.col_offset))
    if len(dicts) != 2:
        raise ValueError(f"expected the two table literals in generate_data_bursts, found {len(dicts)} dicts")
    vals = [eval(compile(ast.Expression(d), "<generate_data_bursts>", "eval"), vars(tg)) for d in dicts]
    octets, types = vals
    out = [HEADER, "\nnamespace Dmr.Gen.Fragment\n"]
    rows = []
    for (cls, conf), (per, last) in octets.items():
        if not isinstance(conf, bool):
            raise TypeError("confirmed key is not a bool")
        rows.append(f"({rate_id[cls]}, {lbool(conf)}, {_nat(per)}, {_nat(last)})")
    out.append(
        "/-- `generate_data_bursts`, Table 8.1 literal, dict order: (rate 0 = 1/2, 1 = 3/4, 2 = 1; confirmed;\n"
        "octets per block; octets per last block) -/"
    )
    out.append("def octets : List (Nat × Bool × Nat × Nat) := [\n    " + ",\n    ".join(rows) + "]\n")
    rows = []
    for (cls, conf), (st, lst) in types.items():
        rows.append(f"({rate_id[cls]}, {lbool(conf)}, {_nat(st.value)}, {_nat(lst.value)})")
    out.append("/-- block type (enum value) of a non-last / the last slice, same keys -/")
    out.append("def sliceTypes : List (Nat × Bool × Nat × Nat) := [\n    " + ",\n    ".join(rows) + "]\n")
    out.append("end Dmr.Gen.Fragment\n")
    return "\n".join(out)
