#!/bin/sh
# verify_prop.sh Cxx [seeds...]: quick check on the clean tree for the given seeds, then trials of every seeded change of the property
P=$1; shift
SEEDS=${*:-"0 1"}
cd "$(dirname "$0")/.."
for s in $SEEDS; do VERIF_SEED=$s /venv/bin/python harness/check.py $P 2>&1 | grep -v "^KNOWN-FINDING" | tail -1; done
NAMES=$(ls seeded | grep "^$P-")
python3 tools/run_seeded.py --jobs 4 $NAMES
