#!/usr/bin/env python3
"""Writes /verif/MANIFEST.json from the table below (kept in one place so it stays schema-valid)."""
import json, os
HERE = os.path.dirname(os.path.abspath(__file__))
PY = "/venv/bin/python"

TB = ("Lean 4.33 kernel; axioms audited per theorem on every run (subset of propext, Classical.choice, Quot.sound; "
      "no sorry/native_decide/bv_decide/own axioms); tools/extract.py regenerates the data tables from /repo on every run; "
      "hand-written executable model tied to the Python by the differential correspondence run of the same command")

CHECKS = {
 "C06": dict(
   text="Lean 4 theorems for all messages / received words of the seven block codes: systematic encoder, checker accepts exactly "
        "the encoder image (structural proof from G=[I|P], H=[P^T|I], both decided on the tables extracted from /repo on this run), "
        "minimum distance (linearity + kernel enumeration of the 2^k code words), single-error repair for the five Hamming codes, "
        "double-error detection for (16,11,4). Model tied to the code by exhaustive-message / sampled-or-exhaustive-word differential runs.",
   ref="§5 C06", technique="Lean 4 proof (structural + decide +kernel on extracted matrices) + differential correspondence",
   note=TB + "; numpy/bitarray trusted."),
}

NOT_YET = {}

# per-property snippets written by whoever built the property: harness/props/cxx.manifest.json
import glob
for fn in sorted(glob.glob(os.path.join(HERE, "..", "harness", "props", "c*.manifest.json"))):
    pid = os.path.basename(fn).split(".")[0].upper()
    try:
        d = json.load(open(fn))
    except Exception as e:  # a half-written snippet must not invalidate the manifest
        print("skipping", fn, e)
        continue
    if d.get("claim", False) and all(k in d for k in ("text", "technique", "note")):
        CHECKS[pid] = dict(text=d["text"], ref=d.get("ref", f"§5 {pid}"), technique=d["technique"], note=d["note"])
    elif "not_applicable_reason" in d:
        NOT_YET[pid] = d["not_applicable_reason"]
ALL = [f"C{i:02d}" for i in range(1, 21)]

def main():
    checks = []
    for pid in ALL:
        if pid not in CHECKS:
            continue
        c = CHECKS[pid]
        checks.append({
            "property_id": pid,
            "quick_cmd": f"{PY} harness/check.py {pid} --tier quick",
            "thorough_cmd": f"{PY} harness/check.py {pid} --tier thorough",
            "evidence_file": f"evidence/{pid}.json",
            "replay_cmd_template": f"{PY} harness/check.py {pid} --replay {{path}}",
            "engine": "lean4-dmrverif",
            "level_claimed": {"category": "proof", "text": c["text"], "design_ref": c["ref"]},
            "level_note": c["note"],
            "technique": c["technique"],
        })
    na = [{"property_id": p, "reason": NOT_YET.get(p, "not claimed yet: model and theorems for this property are still being built (see DESIGN.md §9); no check is registered until it is sound")}
          for p in ALL if p not in CHECKS]
    m = {
        "version": 1,
        "setup_cmd": "./setup.sh",
        "hooks": {
            "guard": "OK_DMRLIB_VERIF",
            "enable": "no source hooks are needed: the harness imports /repo's working tree in-process (editable install in /venv) and stubs entropy/time/network by monkey-patching inside the harness process",
            "baseline_off_cmd": "cd /repo && /venv/bin/python -m pytest -ra -q -p no:cacheprovider --timeout=900 --continue-on-collection-errors",
            "source_commits": [],
            "add_only": True,
        },
        "engines": [{
            "name": "lean4-dmrverif",
            "path": "lean/",
            "serves_properties": sorted(CHECKS),
            "kind_free_text": "Lean 4 Lake library (generated tables + hand-written executable model + lemmas + property theorems + axiom audit) with a compiled line-protocol driver; Python harness for translation, differential correspondence, oracle, known findings, evidence",
        }],
        "checks": checks,
        "notes": "Exit codes: 0 held, 1 violation (VIOLATION line), 2 infrastructure error. KNOWN_FINDINGS.txt lists recorded defects and fix commits.",
        "not_applicable": na,
    }
    with open(os.path.join(HERE, "..", "MANIFEST.json"), "w") as f:
        json.dump(m, f, indent=1)
    print(f"{len(checks)} checks, {len(na)} not claimed")

if __name__ == "__main__":
    main()
