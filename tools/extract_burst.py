"""
Translator plugin for property C01: the tables the burst model depends on.

* SyncPatterns: every member's 48-bit value (the `EmbeddedSignalling` pseudo member, value -1, stands
  for "no pattern matched" and is not a pattern);
* the classification of each pattern by `Burst.__init__` (voice superframe start / data sync),
  obtained by CONSTRUCTING a burst around the pattern and reading the flags the constructor sets;
* the `DataTypes` member values by name and `RateXData.get_data_type()`;
* structured resolution probes: how `Burst.__init__` classifies the 48 centre bits that lie at minimal
  Hamming distance from each pattern S — S itself, its 48 single-bit neighbours, for every valid EMB
  word E (all 128 (cc, PI, LCSS), built by `EmbeddedSignalling`) the centre E[0:8] ++ S[8:40] ++ E[8:16]
  (the voice-burst-with-EMB centre nearest to S), and for the EMB words nearest to S's outer bits the
  32 single-bit neighbours of S[8:40] in the embedded bits.  Obtained by CONSTRUCTING a burst around
  the centre and reading `sync_or_embedded_signalling`; `Props/C01.resolve_probes` states that the
  model's `Sync.resolve` decides every probe the same way, so a changed lookup (tolerant / masked /
  prefix compare) breaks that obligation and the broken entries name the failing voice bursts.
"""
from bitarray import bitarray
from bitarray.util import int2ba


@register("Burst")  # noqa: F821  (injected by extract.py)
def gen_burst() -> str:
    from okdmr.dmrlib.etsi.layer2.burst import Burst
    from okdmr.dmrlib.etsi.layer2.elements.burst_types import BurstTypes
    from okdmr.dmrlib.etsi.layer2.elements.data_types import DataTypes
    from okdmr.dmrlib.etsi.layer2.elements.sync_patterns import SyncPatterns
    from okdmr.dmrlib.etsi.layer2.pdu.rate12_data import Rate12Data
    from okdmr.dmrlib.etsi.layer2.pdu.rate34_data import Rate34Data
    from okdmr.dmrlib.etsi.layer2.pdu.rate1_data import Rate1Data

    out = [HEADER, "namespace Dmr.Gen.Burst\n"]  # noqa: F821
    pats = [(m.name, int(m.value)) for m in SyncPatterns if int(m.value) >= 0]
    out.append(
        "/-- `SyncPatterns`: (member name, 48-bit value), without the pseudo member `EmbeddedSignalling` -/\n"
        "def syncPatterns : List (String × Nat) := [\n    "
        + ",\n    ".join(f"({lstr(n)}, {v})" for n, v in pats)  # noqa: F821
        + "]\n"
    )
    pseudo = [(m.name, int(m.value)) for m in SyncPatterns if int(m.value) < 0]
    out.append(
        "/-- members with a negative value (what `_missing_` returns for every other 48-bit word) -/\n"
        "def syncPseudo : List String := [" + ", ".join(lstr(n) for n, _ in pseudo) + "]\n"  # noqa: F821
    )
    voice, data = [], []
    for n, v in pats:
        bits = bitarray([0] * 108) + int2ba(v, length=48) + bitarray([0] * 108)
        b = Burst(full_bits=bits, burst_type=BurstTypes.Undefined)
        if b.is_voice_superframe_start:
            voice.append(v)
        if b.is_data_or_control:
            data.append(v)
    out.append(
        "/-- patterns for which `Burst.__init__` sets `is_voice_superframe_start` -/\n"
        f"def voiceSyncs : List Nat := {lnats(voice, per_line=4)}\n"  # noqa: F821
    )
    out.append(
        "/-- patterns for which `Burst.__init__` sets `is_data_or_control` whatever burst type is passed -/\n"
        f"def dataSyncs : List Nat := {lnats(data, per_line=4)}\n"  # noqa: F821
    )
    to_pattern, to_embedded = resolve_probes(pats)
    # (one definition per chunk of 96: a single long literal exceeds Lean's recursion depth)
    pchunks = [to_pattern[i : i + 96] for i in range(0, max(1, len(to_pattern)), 96)]
    for k, ch in enumerate(pchunks):
        out.append(f"def resolvedToPattern{k} : List (Nat × Nat) := [\n    " + ",\n    ".join(f"({c}, {v})" for c, v in ch) + "]\n")
    out.append(
        "/-- structured probe centres `Burst.__init__` resolves to a SYNC pattern: (48-bit centre, pattern value) -/\n"
        "def resolvedToPattern : List (Nat × Nat) := List.flatten ["
        + ", ".join(f"resolvedToPattern{k}" for k in range(len(pchunks)))
        + "]\n"
    )
    echunks = [to_embedded[i : i + 96] for i in range(0, len(to_embedded), 96)]
    for k, ch in enumerate(echunks):
        out.append(f"def resolvedToEmbedded{k} : List Nat := {lnats(ch, per_line=6)}\n")  # noqa: F821
    out.append(
        "/-- structured probe centres `Burst.__init__` resolves to `EmbeddedSignalling` (no pattern) -/\n"
        "def resolvedToEmbedded : List Nat := List.flatten ["
        + ", ".join(f"resolvedToEmbedded{k}" for k in range(len(echunks)))
        + "]\n"
    )
    for m in DataTypes:
        out.append(f"def dt{m.name} : Nat := {int(m.value)}")
    out.append("")
    out.append(f"def dtOfRate12 : Nat := {int(Rate12Data.get_data_type().value)}")
    out.append(f"def dtOfRate34 : Nat := {int(Rate34Data.get_data_type().value)}")
    out.append(f"def dtOfRate1 : Nat := {int(Rate1Data.get_data_type().value)}")
    out.append("")
    out += entry_tables()
    out.append("\nend Dmr.Gen.Burst\n")
    return "\n".join(out)


def entry_tables():
    """what `Burst.from_mmdvm` / `Burst.from_hytera_ipsc` dispatch on (enum values; the vocoder / wakeup classification by calling
    `SlotType.is_vocoder` / `HyteraIPSC.is_wakeup`; the timeslot attribute by making a burst through `from_hytera_ipsc`)"""
    from okdmr.dmrlib.etsi.layer2.burst import Burst
    from okdmr.dmrlib.etsi.layer2.elements.sync_patterns import SyncPatterns
    from okdmr.dmrlib.hytera.hytera_ipsc import HyteraIPSC
    from okdmr.dmrlib.hytera.ipsc_elements.call_type import CallType
    from okdmr.dmrlib.hytera.ipsc_elements.frame_type import FrameType
    from okdmr.dmrlib.hytera.ipsc_elements.packet_type import PacketType
    from okdmr.dmrlib.hytera.ipsc_elements.slot_type import SlotType as IpscSlotType
    from okdmr.dmrlib.hytera.ipsc_elements.timeslot import Timeslot
    from okdmr.kaitai.homebrew.mmdvm2020 import Mmdvm2020

    def ipsc(ct=CallType.GroupCall, st=IpscSlotType.VoiceFrameA, ts=Timeslot.Timeslot_1):
        voice = bitarray([0] * 108) + int2ba(int(SyncPatterns.BsSourcedVoice.value), length=48) + bitarray([0] * 108)
        return HyteraIPSC(call_type=ct, frame_type=FrameType.Voice, packet_type=PacketType.TypeA, slot_type=st, timeslot=ts, sequence_number=0,
                          color_code=1, destination_radio_id=1, source_radio_id=2, payload=voice.tobytes())

    out = []
    out.append("/-- value of `Mmdvm2020.Timeslots.timeslot_1` -/")
    out.append(f"def mmdvmTimeslot1 : Nat := {int(Mmdvm2020.Timeslots.timeslot_1.value)}\n")
    out.append("/-- Hytera IPSC `SlotType` / `CallType` member values -/")
    out.append(f"def ipscSlotTypes : List Nat := {lnats([int(m.value) for m in IpscSlotType], per_line=8)}")  # noqa: F821
    out.append(f"def ipscCallTypes : List Nat := {lnats([int(m.value) for m in CallType], per_line=8)}")  # noqa: F821
    out.append("/-- slot types for which `SlotType.is_vocoder` holds -/")
    out.append(f"def ipscVocoderSlots : List Nat := {lnats([int(m.value) for m in IpscSlotType if IpscSlotType.is_vocoder(m)], per_line=8)}")  # noqa: F821
    out.append(f"def ipscSlotSync : Nat := {int(IpscSlotType.VoiceOrDataSync.value)}")
    out.append(f"def ipscSlotWakeup : Nat := {int(IpscSlotType.Wakeup.value)}")
    out.append("/-- call types for which `HyteraIPSC.is_wakeup` holds whatever the slot type -/")
    out.append(f"def ipscWakeupCalls : List Nat := {lnats([int(ct.value) for ct in CallType if ipsc(ct=ct, st=IpscSlotType.CSBK).is_wakeup()], per_line=8)}")  # noqa: F821
    ts = []
    for m in Timeslot:
        b = Burst.from_hytera_ipsc(ipsc(ts=m).as_ipsc_bytes())
        ts.append((int(m.value), int(b.timeslot)))
    out.append("/-- (IPSC timeslot value, the `timeslot` attribute `from_hytera_ipsc` gives the burst) -/")
    out.append("def ipscTimeslots : List (Nat × Nat) := [" + ", ".join(f"({a}, {b})" for a, b in ts) + "]")
    return out


def probe_centres(pats):
    """the structured 48-bit centres (see the module docstring), in a fixed order, without duplicates"""
    from bitarray.util import ba2int
    from okdmr.dmrlib.etsi.layer2.pdu.embedded_signalling import EmbeddedSignalling

    embs = [
        EmbeddedSignalling(colour_code=cc, preemption_and_power_control_indicator=pi, link_control_start_stop=lcss).as_bits()
        for cc in range(16) for pi in range(2) for lcss in range(4)
    ]
    out = []
    for _n, v in pats:
        s = int2ba(v, length=48)
        outer = s[:8] + s[40:]
        out.append(v)
        out += [v ^ (1 << i) for i in range(48)]
        out += [ba2int(e[:8] + s[8:40] + e[8:]) for e in embs]
        dmin = min((e ^ outer).count() for e in embs)
        for e in embs:
            if (e ^ outer).count() == dmin:
                for i in range(32):
                    x = s[8:40]
                    x.invert(i)
                    out.append(ba2int(e[:8] + x + e[8:]))
    return list(dict.fromkeys(out))


def resolve_probes(pats):
    from okdmr.dmrlib.etsi.layer2.burst import Burst
    from okdmr.dmrlib.etsi.layer2.elements.burst_types import BurstTypes
    from okdmr.dmrlib.etsi.layer2.elements.sync_patterns import SyncPatterns

    to_pattern, to_embedded = [], []
    for c in probe_centres(pats):
        try:
            bits = bitarray([0] * 108) + int2ba(c, length=48) + bitarray([0] * 108)
            r = Burst(full_bits=bits, burst_type=BurstTypes.Vocoder).sync_or_embedded_signalling
        except Exception:  # noqa  (the centre lookup itself, should the constructor refuse the burst)
            r = SyncPatterns.resolve_bytes(c.to_bytes(6, "big"))
        if int(r.value) >= 0:
            to_pattern.append((c, int(r.value)))
        else:
            to_embedded.append(c)
    return to_pattern, to_embedded
