"""
Translator plugin for property C01: the tables the burst model depends on.

* SyncPatterns: every member's 48-bit value (the `EmbeddedSignalling` pseudo member, value -1, stands
  for "no pattern matched" and is not a pattern);
* the classification of each pattern by `Burst.__init__` (voice superframe start / data sync),
  obtained by CONSTRUCTING a burst around the pattern and reading the flags the constructor sets;
* the `DataTypes` member values by name and `RateXData.get_data_type()`.
"""
from bitarray import bitarray
from bitarray.util import int2ba


@register("Burst")  # noqa: F821  (injected by extract.py)
def gen_burst() -> str:
    from okdmr.dmrlib.etsi.layer2.burst import Burst
    from okdmr.dmrlib.etsi.layer2.elements.burst_types import BurstTypes
    from okdmr.dmrlib.etsi.layer2.elements.data_types import DataTypes
    from okdmr.dmrlib.etsi.layer2.elements.sync_patterns import SyncPatterns
    from okdmr.dmrlib.etsi.layer2.pdu.rate12_data import Rate12Data
    from okdmr.dmrlib.etsi.layer2.pdu.rate34_data import Rate34Data
    from okdmr.dmrlib.etsi.layer2.pdu.rate1_data import Rate1Data

    out = [HEADER, "namespace Dmr.Gen.Burst\n"]  # noqa: F821
    pats = [(m.name, int(m.value)) for m in SyncPatterns if int(m.value) >= 0]
    out.append(
        "/-- `SyncPatterns`: (member name, 48-bit value), without the pseudo member `EmbeddedSignalling` -/\n"
        "def syncPatterns : List (String × Nat) := [\n    "
        + ",\n    ".join(f"({lstr(n)}, {v})" for n, v in pats)  # noqa: F821
        + "]\n"
    )
    pseudo = [(m.name, int(m.value)) for m in SyncPatterns if int(m.value) < 0]
    out.append(
        "/-- members with a negative value (what `_missing_` returns for every other 48-bit word) -/\n"
        "def syncPseudo : List String := [" + ", ".join(lstr(n) for n, _ in pseudo) + "]\n"  # noqa: F821
    )
    voice, data = [], []
    for n, v in pats:
        bits = bitarray([0] * 108) + int2ba(v, length=48) + bitarray([0] * 108)
        b = Burst(full_bits=bits, burst_type=BurstTypes.Undefined)
        if b.is_voice_superframe_start:
            voice.append(v)
        if b.is_data_or_control:
            data.append(v)
    out.append(
        "/-- patterns for which `Burst.__init__` sets `is_voice_superframe_start` -/\n"
        f"def voiceSyncs : List Nat := {lnats(voice, per_line=4)}\n"  # noqa: F821
    )
    out.append(
        "/-- patterns for which `Burst.__init__` sets `is_data_or_control` whatever burst type is passed -/\n"
        f"def dataSyncs : List Nat := {lnats(data, per_line=4)}\n"  # noqa: F821
    )
    for m in DataTypes:
        out.append(f"def dt{m.name} : Nat := {int(m.value)}")
    out.append("")
    out.append(f"def dtOfRate12 : Nat := {int(Rate12Data.get_data_type().value)}")
    out.append(f"def dtOfRate34 : Nat := {int(Rate34Data.get_data_type().value)}")
    out.append(f"def dtOfRate1 : Nat := {int(Rate1Data.get_data_type().value)}")
    out.append("\nend Dmr.Gen.Burst\n")
    return "\n".join(out)
