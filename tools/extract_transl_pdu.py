"""
Translator plug-ins for the SOURCE translation of the bit-field PDU code (tools/py2lean_bits.py on top of tools/py2lean.py):
`Gen/TranslPduSmall.lean` (slot type, EMB, short LC, service options and the element helpers they call), `Gen/TranslCsbk.lean`
(CSBK), namespace `Dmr.Transl.<Name>`.  Each unit lists

  functions  (module, qualified name[, spec]) — callees before callers; `spec["params"]` gives the static type a parameter
             annotated `Union[...]` is translated for (monomorphisation: the types `from_bits` passes),
  classes    whose objects are constructed (their `__init__` is in `functions`),
  externals  library functions that are called but NOT translated: they become fields of the unit's `Ext` structure, an
             explicit parameter of every definition (trusted: the call boundary — purity, argument / result conventions as
             declared here; numpy 0/1 vectors are declared as bit lists, whose slices clamp like numpy's).

An `Untranslatable` surfaces as this plug-in's exception: extract.py prints `ERROR Transl<Name> …`, keeps the old file and
exits 3, which the checks treat as "the proof no longer covers the code".  `register`, `HEADER` are injected by extract.py.
"""
import importlib.util
import os

_HERE = os.path.dirname(os.path.abspath(__file__))


def _bits():
    spec = importlib.util.spec_from_file_location("py2lean_bits", os.path.join(_HERE, "py2lean_bits.py"))
    mod = importlib.util.module_from_spec(spec)
    spec.loader.exec_module(mod)
    return mod


_L2E = "okdmr.dmrlib.etsi.layer2.elements."
_L3E = "okdmr.dmrlib.etsi.layer3.elements."
_PDU = "okdmr.dmrlib.etsi.layer2.pdu."
_FEC = "okdmr.dmrlib.etsi.fec."

_INTFLAGS = {k: "int" for k in ("is_emergency", "is_broadcast", "is_open_voice_call_mode", "is_privacy")}

UNITS = {
    "PduSmall": dict(
        functions=[
            (_L2E + "slcos", "SLCOs.as_bits"),
            (_L2E + "slcos", "SLCOs.from_bits"),
            (_L3E + "activity_id", "ActivityID.as_bits"),
            (_L3E + "activity_id", "ActivityID.from_bits"),
            # ServiceOptions.from_bits passes bits[i] (ints) for the four flags
            (_L3E + "service_options", "ServiceOptions.__init__", dict(params=_INTFLAGS)),
            (_L3E + "service_options", "ServiceOptions.from_bits"),
            (_L3E + "service_options", "ServiceOptions.as_bits"),
            (_PDU + "slot_type", "SlotType.as_bits"),
            # SlotType.from_bits passes data_type as an int
            (_PDU + "slot_type", "SlotType.__init__", dict(params={"data_type": "int"})),
            (_PDU + "slot_type", "SlotType.from_bits"),
            (_PDU + "embedded_signalling", "EmbeddedSignalling.as_bits"),
            # EmbeddedSignalling.from_bits passes LCSS and parity as ints
            (_PDU + "embedded_signalling", "EmbeddedSignalling.__init__",
             dict(params={"link_control_start_stop": "int", "emb_parity": "int"})),
            (_PDU + "embedded_signalling", "EmbeddedSignalling.from_bits"),
            (_PDU + "short_link_control", "ShortLinkControl.as_bits"),
            # ShortLinkControl.from_bits passes the CRC field as a bitarray
            (_PDU + "short_link_control", "ShortLinkControl.__init__", dict(params={"crc_8bit": "ba"})),
            (_PDU + "short_link_control", "ShortLinkControl.from_bits"),
        ],
        classes=[
            (_L3E + "service_options", "ServiceOptions"),
            (_PDU + "slot_type", "SlotType"),
            (_PDU + "embedded_signalling", "EmbeddedSignalling"),
            (_PDU + "short_link_control", "ShortLinkControl"),
        ],
        externals={
            "Golay2087.generate": dict(qual=_FEC + "golay_20_8_7:Golay2087.generate", params=["ba"], ret="ba"),
            "Golay2087.check": dict(qual=_FEC + "golay_20_8_7:Golay2087.check", params=["ba"], ret="bool"),
            "QuadraticResidue1676.generate": dict(
                qual=_FEC + "quadratic_residue_16_7_6:QuadraticResidue1676.generate", params=["ba"], ret="ba"),
            "QuadraticResidue1676.check": dict(
                qual=_FEC + "quadratic_residue_16_7_6:QuadraticResidue1676.check", params=["ba"], ret="bool"),
            "numpy_array_to_int": dict(qual="okdmr.dmrlib.utils.bits_bytes:numpy_array_to_int", params=["ba"], ret="int"),
            "CRC8.calculate": dict(qual="okdmr.dmrlib.etsi.crc.crc8:CRC8.calculate", params=["ba"], ret="int"),
            "CRC8.check": dict(qual="okdmr.dmrlib.etsi.crc.crc8:CRC8.check", params=["ba", "int"], ret="bool"),
        },
    ),
    "Csbk": dict(
        functions=[
            ("okdmr.dmrlib.utils.bits_bytes", "bits_to_bytes"),
            (_L2E + "csbk_opcodes", "CsbkOpcodes.as_bits"),
            (_L2E + "csbk_opcodes", "CsbkOpcodes.from_bits"),
            (_L2E + "feature_set_ids", "FeatureSetIDs.as_bits"),
            (_L3E + "answer_response", "AnswerResponse.as_bits"),
            (_L3E + "reason_code", "ReasonCode.as_bits"),
            (_L3E + "dynamic_identifier", "DynamicIdentifier.as_bits"),
            (_L3E + "dynamic_identifier", "DynamicIdentifier.from_bits"),
            (_L3E + "channel_timing_opcode", "ChannelTimingOpcode.as_bits"),
            (_L3E + "service_options", "ServiceOptions.__init__", dict(params=_INTFLAGS)),
            (_L3E + "service_options", "ServiceOptions.from_bits"),
            (_L3E + "service_options", "ServiceOptions.as_bits"),
            (_PDU + "csbk", "CSBK.as_bits"),
            (_PDU + "csbk", "CSBK.calculate_crc_ccit"),
            # the argument forms CSBK.from_bits uses: flags as bits[i] (int) / `not bits[i]` (bool), the two dynamic identifiers
            # as members (Channel Timing) or left at the int default, raw_data as the received bits (Hytera) or the bytes default
            (_PDU + "csbk", "CSBK.__init__", dict(params={
                "last_block": "int", "protect_flag": "int",
                "csbk_content_follows_preambles": "bool", "target_address_is_individual": "bool",
                "new_leader": "int",
                "leader_dynamic_identifier": ("union", "int", ("enum", "DynamicIdentifier")),
                "channel_timing_opcode": "int",
                "source_dynamic_identifier": ("union", "int", ("enum", "DynamicIdentifier")),
                "service_function": "int",
                "raw_data": ("union", "bytes", "ba"),
            })),
            (_PDU + "csbk", "CSBK.from_bits"),
        ],
        classes=[
            (_L3E + "service_options", "ServiceOptions"),
            (_PDU + "csbk", "CSBK"),
        ],
        externals={
            "CRC16.calculate": dict(qual="okdmr.dmrlib.etsi.crc.crc16:CRC16.calculate",
                                    params=["bytes", ("enum", "CrcMasks")], ret="int"),
            "bytes_to_bits": dict(qual="okdmr.dmrlib.utils.bits_bytes:bytes_to_bits", params=["bytes"], ret="ba"),
        },
    ),
}


def _make(name):
    def gen():
        u = UNITS[name]
        return _bits().translate_unit(name, u["functions"], u["classes"], u["externals"], header=HEADER)  # noqa: F821

    gen.__name__ = "gen_transl_" + name.lower()
    return gen


for _name in UNITS:
    register("Transl" + _name)(_make(_name))  # noqa: F821
