"""
py2lean_arr — extension of tools/py2lean.py (which it subclasses, without editing it) to the `array` / `bitarray` / dict-table
code of `okdmr/dmrlib/etsi/fec/trellis.py`.  Semantics of the added operations: `lean/DmrVerif/Model/PyArr.lean` (and, for
`ba2int`, bit reads, `tobytes`, `frombytes`, `Model/PyBits.lean` of the bit-field translator, imported, not edited).  Same
SOUNDNESS RULE as py2lean.py.

Added static types / forms
    'ba'                      -> List Bool   a big-endian `bitarray` (every bitarray PARAMETER is assumed to be one)
    'ilist' + a declared range              `array("b" | "B", …)` made in the function: item stores / appends check the C char range
                                            (`OverflowError`); an `array` PARAMETER is a list of ints of any typecode
    ('dict', K, V)            -> List (K × V) class-level dict table, items in dict order; `d[k]` is `PyArr.dictGet` (`KeyError`)
    `int(a / b)`, b a positive int literal  `PyArr.truncDiv` (exact for 0 <= a < 2**53, `unsupported` outside)
    `for x in <tuple of ints>`              iteration over the components
    class-level LIST literals               accepted here (the base translator refuses them: a list can be mutated at run time;
                                            what is translated is the literal in the source, checked against the live value at
                                            translation time)
    reverse dicts `dict((v, k) for k, v in X.items())` of a literal dict X: recomputed from the literal, compared with the live value
A function with `Union[...]` parameters / results or a mode flag is MONOMORPHISED: the unit entry gives `spec = dict(name=…,
params={p: type}, consts={p: value}, ret=type)`; `isinstance(p, T)` and tests of a constant parameter are then decided at
translation time and only the branch taken is translated.
"""
import ast
import importlib.util
import inspect
import os
import textwrap

_HERE = os.path.dirname(os.path.abspath(__file__))


def _load():
    spec = importlib.util.spec_from_file_location("py2lean_for_arr", os.path.join(_HERE, "py2lean.py"))
    mod = importlib.util.module_from_spec(spec)
    spec.loader.exec_module(mod)
    return mod


P = _load()  # private copy of the module object
Untranslatable = P.Untranslatable
Ex = P.Ex
_base_mangle = P.mangle
_base_lean_type = P.lean_type
P.LEAN_RESERVED.add("matches")
_RENAME = {}  # Python name -> Lean name of a variable re-bound with another type (per function being translated)


def mangle(name):
    return _RENAME.get(name) or _base_mangle(name)


P.mangle = mangle

ARR = {"b": (-128, 127), "B": (0, 255)}


def lean_type(t) -> str:
    if t == "ba":
        return "List Bool"
    if isinstance(t, tuple) and t[0] == "dict":
        return f"List ({lean_type(t[1])} × {lean_type(t[2])})"
    if isinstance(t, tuple) and t[0] == "tuple":
        return "(" + " × ".join(lean_type(x) for x in t[1]) + ")"
    return _base_lean_type(t)


P.lean_type = lean_type
P.EXC.update({"KeyError": '(.other "KeyError")'})


def lit(v):
    """Lean text and static type of a literal table value (int / tuple of ints)"""
    if type(v) is int:
        return P.lit_int(v), "int"
    if type(v) is tuple and all(type(x) is int for x in v) and len(v) >= 2:
        return "(" + ", ".join(P.lit_int(x) for x in v) + ")", ("tuple", tuple("int" for _ in v))
    raise ValueError(v)


class Fn(P.Fn):
    def __init__(self, unit, module, qualname, spec=None):
        self.spec = spec or {}
        self.consts = dict(self.spec.get("consts", {}))
        super().__init__(unit, module, qualname)
        if "name" in self.spec:
            self.lean_name = self.spec["name"]

    def ann(self, node):
        if node is None:
            return None
        if isinstance(node, ast.Name) and node.id == "array":
            return "ilist"
        if isinstance(node, ast.Name) and node.id == "bitarray":
            return "ba"
        if isinstance(node, ast.Name) and node.id == "bytearray":
            return "bytes"  # a bytearray is carried like bytes; it is only ever updated through `swap_pairs` below
        return super().ann(node)

    def _signature(self):
        a = self.node.args
        sp = self.spec
        # annotations of monomorphised parameters / results are replaced before the base class reads them
        for arg in a.args:
            if arg.arg in sp.get("params", {}):
                arg.annotation = ast.Name(id="__spec__" + arg.arg, ctx=ast.Load())
        if "ret" in sp:
            self.node.returns = ast.Name(id="__specret__", ctx=ast.Load())
        base_ann = self.ann

        def ann(node):
            if isinstance(node, ast.Name) and node.id.startswith("__spec__"):
                return sp["params"][node.id[len("__spec__"):]]
            if isinstance(node, ast.Name) and node.id == "__specret__":
                return sp["ret"]
            return base_ann(node)

        self.ann = ann
        try:
            # constant parameters: translated as if the call passed this value; they leave the signature
            keep, keepd = [], []
            args = list(a.args)
            defaults = [None] * (len(args) - len(a.defaults)) + list(a.defaults)
            for arg, d in zip(args, defaults):
                if arg.arg in self.consts:
                    continue
                keep.append(arg)
                keepd.append(d)
            a.args = keep
            a.defaults = [d for d in keepd if d is not None]
            if any(d is None for d in keepd[len(keepd) - len(a.defaults):]):
                self.bad(self.node, "defaults after removing constant parameters")
            super()._signature()
        finally:
            self.ann = base_ann


class Translator(P.Translator):
    SEQ = ("bytes", "ilist", "nats", "str", "ba")

    def __init__(self, unit, fn):
        super().__init__(unit, fn)
        self.arr = {}  # local name -> (lo, hi) of an array made in this function

    # ---- expressions --------------------------------------------------------------------------------------------------
    def e_Name(self, n, env):
        if n.id in self.f.consts and n.id not in env:
            v = self.f.consts[n.id]
            if type(v) is bool:
                return Ex("true" if v else "false", "bool")
            return Ex(P.lit_int(v), "int")
        return super().e_Name(n, env)

    def static_test(self, n, env):
        """True / False when the test is decided at translation time, else None"""
        if isinstance(n, ast.Name) and n.id in self.f.consts and n.id not in env:
            return bool(self.f.consts[n.id])
        if isinstance(n, ast.UnaryOp) and isinstance(n.op, ast.Not):
            r = self.static_test(n.operand, env)
            return None if r is None else not r
        if (isinstance(n, ast.Call) and isinstance(n.func, ast.Name) and n.func.id == "isinstance" and "isinstance" not in env
                and len(n.args) == 2 and isinstance(n.args[0], ast.Name) and isinstance(n.args[1], ast.Name)):
            name, cls = n.args[0].id, n.args[1].id
            if name in env and name in self.f.spec.get("params", {}) and name not in self.retyped:
                t = env[name]
                known = {"bytes": "bytes", "bitarray": "ba", "int": "int"}
                if cls in known and t in known.values():
                    return known[cls] == t
        return None

    def e_IfExp(self, n, env):
        r = self.static_test(n.test, env)
        if r is not None:
            return self.expr(n.body if r else n.orelse, env)
        return super().e_IfExp(n, env)

    def truthy(self, e, n):
        if e.typ == "ba":
            return f"(!({e.val()}).isEmpty)"
        return super().truthy(e, n)

    def e_Subscript(self, n, env):
        v = self.expr(n.value, env)
        sl = n.slice
        if isinstance(v.typ, tuple) and v.typ[0] == "dict":
            k = self.expr(sl, env)
            if k.typ != v.typ[1]:
                self.f.bad(n, f"dict key of type {k.typ}, table has {v.typ[1]}")
            return Ex(f"PyArr.dictGet {v.val()} {k.val()}", v.typ[2], True)
        if v.typ == "ba":
            if isinstance(sl, ast.Slice):
                if sl.step is not None:
                    self.f.bad(n, "bitarray slice with a step")
                return Ex(f"(Py.slice {v.val()} {self.opt(sl.lower, env)} {self.opt(sl.upper, env)})", "ba")
            i = self.int_of(self.expr(sl, env), n)
            return Ex(f"PyBits.getBit {v.val()} {i}", "int", True)
        return super().e_Subscript(n, env)

    def e_BinOp(self, n, env):
        if isinstance(n.op, ast.Mult):
            a, b = self.expr(n.left, env), self.expr(n.right, env)
            if a.typ == "bytes" and b.typ == "int":
                return Ex(f"(PyArr.bytesMul {a.val()} {b.val()})", "bytes")
        if isinstance(n.op, ast.Add):
            a, b = self.expr(n.left, env), self.expr(n.right, env)
            if a.typ == "ba" and b.typ == "ba":
                return Ex(f"({a.val()} ++ {b.val()})", "ba")
        return super().e_BinOp(n, env)

    def zeros(self, n, env):
        """`[0] * k` / `k * [0]` -> Lean text of k (Int) or None"""
        if isinstance(n, ast.BinOp) and isinstance(n.op, ast.Mult):
            for lst, k in ((n.left, n.right), (n.right, n.left)):
                if isinstance(lst, ast.List) and len(lst.elts) == 1 and isinstance(lst.elts[0], ast.Constant) \
                        and lst.elts[0].value == 0 and type(lst.elts[0].value) is int:
                    return self.int_of(self.expr(k, env), n)
        return None

    def glob_is(self, name, modname, attr=None):
        obj = self.f.fn.__globals__.get(name)
        try:
            mod = importlib.import_module(modname)
        except ImportError:
            return False
        return obj is (getattr(mod, attr) if attr else mod) and obj is not None

    def e_Call(self, n, env):
        fn = n.func
        if isinstance(fn, ast.Name) and fn.id not in env:
            name = fn.id
            if name == "__swap_pairs__":
                x = self.expr(n.args[0], env)
                return Ex(f"PyArr.swapPairs {x.val()}", "bytes", True)
            if name == "bytearray" and len(n.args) == 1 and not n.keywords and "bytearray" not in self.f.fn.__globals__:
                x = self.expr(n.args[0], env)
                if x.typ == "bytes":
                    return x  # a private copy: values have no identity here
            if name == "bytes" and not n.args and not n.keywords:
                return Ex("([] : List Nat)", "bytes")
            g = self.f.fn.__globals__.get(name)
            cands = [c for c in self.u.done if c.fn is g and c.clsname is None]
            if len(cands) == 1:
                callee = cands[0]
                names = [p[0] for p in callee.params]
                got = self.kwargs(n, names, env)
                args = []
                for pname, ptyp, pdef in callee.params:
                    if pname in got:
                        x = self.expr(got[pname], env)
                        if x.typ != ptyp:
                            self.f.bad(n, f"argument `{pname}` of {callee.qualname}: {x.typ} for {ptyp}")
                        args.append(x.val())
                    elif pdef is not None:
                        args.append(pdef.text)
                    else:
                        self.f.bad(n, f"missing argument `{pname}` of {callee.qualname}")
                return Ex(" ".join([callee.lean_name] + args), callee.ret, True)
            if name == "len" and len(n.args) == 1 and not n.keywords:
                x = self.expr(n.args[0], env)
                if x.typ == "ba":
                    return Ex(f"(Py.len {x.val()})", "int")
            if name == "int" and len(n.args) == 1 and not n.keywords and isinstance(n.args[0], ast.BinOp) \
                    and isinstance(n.args[0].op, ast.Div):
                a = self.expr(n.args[0].left, env)
                b = n.args[0].right
                if a.typ == "int" and isinstance(b, ast.Constant) and type(b.value) is int and b.value > 0:
                    return Ex(f"PyArr.truncDiv {a.val()} {b.value}", "int", True)
            if name == "array" and self.glob_is("array", "array", "array") and not n.keywords and 1 <= len(n.args) <= 2 \
                    and isinstance(n.args[0], ast.Constant) and n.args[0].value in ARR:
                if len(n.args) == 1:
                    e = Ex("([] : List Int)", "ilist")
                else:
                    z = self.zeros(n.args[1], env)
                    if z is None:
                        self.f.bad(n, "array initialiser other than [0] * n")
                    e = Ex(f"(PyArr.zeros {z})", "ilist")
                e.arr = ARR[n.args[0].value]
                return e
            if name == "bitarray" and self.glob_is("bitarray", "bitarray", "bitarray"):
                kws = {k.arg: k.value for k in n.keywords}
                if set(kws) - {"endian"} or ("endian" in kws and not (
                        isinstance(kws["endian"], ast.Constant) and kws["endian"].value == "big")):
                    self.f.bad(n, "bitarray(...) keyword")
                if not n.args:
                    return Ex("([] : List Bool)", "ba")
                if len(n.args) == 1:
                    z = self.zeros(n.args[0], env)
                    if z is not None:
                        return Ex(f"(PyArr.baZeros {z})", "ba")
                self.f.bad(n, "bitarray(...) form")
            if name == "ba2int" and self.glob_is("ba2int", "bitarray.util", "ba2int") and len(n.args) == 1:
                kws = {k.arg: k.value for k in n.keywords}
                if set(kws) - {"signed"} or ("signed" in kws and not (
                        isinstance(kws["signed"], ast.Constant) and kws["signed"].value is False)):
                    self.f.bad(n, "ba2int keyword")
                x = self.expr(n.args[0], env)
                if x.typ == "ba":
                    return Ex(f"PyBits.ba2int {x.val()}", "int", True)
        if isinstance(fn, ast.Attribute) and fn.attr == "tobytes" and not n.args and not n.keywords:
            x = self.expr(fn.value, env)
            if x.typ == "ba":
                return Ex(f"(PyBits.tobytes {x.val()})", "bytes")
        return super().e_Call(n, env)

    def iterable(self, n, env):
        if not (isinstance(n, ast.Call) and isinstance(n.func, ast.Name) and n.func.id in ("range", "zip")):
            e = self.expr(n, env)
            if isinstance(e.typ, tuple) and e.typ[0] == "tuple" and all(t == "int" for t in e.typ[1]):
                k = len(e.typ[1])
                self.tmp += 1
                # bound once (the expression may have effects), then its components in order
                proj = []
                for i in range(k):
                    proj.append("p" + ".2" * i + (".1" if i < k - 1 else ""))
                return f"((fun p => [{', '.join(proj)}]) {e.val()})", "int"
            if e.typ == "ba":
                self.f.bad(n, "iteration over a bitarray")
            # fall through with the already translated expression
            if e.typ in ("bytes", "nats"):
                return f"(Py.iterB {e.val()})", "int"
            if e.typ == "ilist":
                return e.val(), "int"
            self.f.bad(n, f"iteration over {e.typ}")
        return super().iterable(n, env)

    # ---- statements ---------------------------------------------------------------------------------------------------
    def declare(self, name, e, env, ind, node, declared_type=None):
        if getattr(e, "arr", None) is not None:
            self.arr[name] = e.arr
        if name in env and env[name] != e.typ and ind == 1 and not self.ctx_stack and e.typ in ("ba", "bytes"):
            # a parameter / local re-bound to a value of another type in the straight-line part of the function: a new binding
            env = dict(env)
            env[name] = e.typ
            self.retyped.add(name)
            pad = "  " * ind
            arrow = "←" if e.monadic else ":="
            # Lean does not let a `let mut` be shadowed: the re-bound variable gets a new Lean name from here on
            _RENAME[name] = _base_mangle(name) + "_" + {"ba": "bits", "bytes": "bytes"}[e.typ]
            return [f"{pad}let mut {mangle(name)} : {lean_type(e.typ)} {arrow} {e.text}"], env
        return super().declare(name, e, env, ind, node, declared_type)

    def s_Assign(self, s, env, ctx, ind):
        if len(s.targets) == 1:
            t = s.targets[0]
            if isinstance(t, ast.Subscript) and isinstance(t.value, ast.Name) and not isinstance(t.slice, ast.Slice):
                nm = t.value.id
                pad = "  " * ind
                if nm in env and nm in self.locals_only and nm in self.arr and env[nm] == "ilist":
                    lo, hi = self.arr[nm]
                    v = self.int_of(self.expr(s.value, env), s)  # right-hand side first, then the subscript of the target
                    i = self.int_of(self.expr(t.slice, env), s)
                    return [f"{pad}{mangle(nm)} ← PyArr.setArr {P.lit_int(lo)} {hi} {mangle(nm)} {v} {i}"], env, True
                if nm in env and nm in self.locals_only and env[nm] == "ba":
                    v = self.expr(s.value, env)
                    i = self.int_of(self.expr(t.slice, env), s)
                    if v.typ == "bool":
                        b = v.val()
                    elif v.typ == "int":
                        b = f"(← PyBits.bitOfInt {v.val()})"
                    else:
                        self.f.bad(s, f"bit store of {v.typ}")
                    return [f"{pad}{mangle(nm)} ← PyArr.baSet {mangle(nm)} {b} {i}"], env, True
                if nm in env and env[nm] == "ilist" and nm in self.locals_only:
                    self.f.bad(s, "item store into a list whose array typecode is unknown")
        return super().s_Assign(s, env, ctx, ind)

    def s_Expr(self, s, env, ctx, ind):
        v = s.value
        pad = "  " * ind
        if isinstance(v, ast.Call) and isinstance(v.func, ast.Attribute) and isinstance(v.func.value, ast.Name) \
                and not v.keywords and len(v.args) == 1:
            nm = v.func.value.id
            if nm in env and nm in self.locals_only:
                if v.func.attr == "append" and env[nm] == "ilist" and nm in self.arr:
                    lo, hi = self.arr[nm]
                    x = self.int_of(self.expr(v.args[0], env), s)
                    return [f"{pad}{mangle(nm)} ← PyArr.appendArr {P.lit_int(lo)} {hi} {mangle(nm)} {x}"], env, True
                if v.func.attr == "append" and env[nm] == "ba":
                    x = self.expr(v.args[0], env)
                    b = x.val() if x.typ == "bool" else f"(← PyBits.bitOfInt {self.int_of(x, s)})"
                    return [f"{pad}{mangle(nm)} := {mangle(nm)} ++ [{b}]"], env, True
                if v.func.attr == "frombytes" and env[nm] == "ba":
                    x = self.expr(v.args[0], env)
                    if x.typ != "bytes":
                        self.f.bad(s, f"frombytes of {x.typ}")
                    return [f"{pad}{mangle(nm)} := {mangle(nm)} ++ PyBits.frombytes {x.val()}"], env, True
        return super().s_Expr(s, env, ctx, ind)

    def s_Assert(self, s, env, ctx, ind):
        """like the base class, but a message that reads items (`{xs[i]}`) is EVALUATED on the failing path, as Python does:
        if formatting the message raises, that exception replaces the AssertionError"""
        m = s.msg
        parts = []
        if isinstance(m, ast.JoinedStr):
            parts = [v.value for v in m.values if isinstance(v, ast.FormattedValue)]
        if not any(isinstance(x, ast.Subscript) for p in parts for x in ast.walk(p)):
            return super().s_Assert(s, env, ctx, ind)
        for p in parts:
            for x in ast.walk(p):
                if isinstance(x, (ast.Call, ast.BinOp, ast.Await, ast.Yield, ast.NamedExpr)):
                    self.f.bad(m, "computation inside a message")
        pad = "  " * ind
        c = self.truthy(self.expr(s.test, env), s)
        lines = [f"{pad}if !{c} then"]
        for p in parts:
            e = self.expr(p, env)
            if e.monadic:
                lines.append(f"{pad}  let _ ← {e.text}")
            elif self.has_effects(e):
                lines.append(f"{pad}  let _ := {e.text}")
        lines.append(f"{pad}  throw .assertion")
        return lines, env, True

    def s_If(self, s, env, ctx, ind):
        r = self.static_test(s.test, env)
        if r is not None:
            return self.block(s.body if r else s.orelse, env, ctx, ind)
        return super().s_If(s, env, ctx, ind)

    def stores(self, stmts):
        out = super().stores(stmts)

        def walk(s):
            if isinstance(s, ast.Expr) and isinstance(s.value, ast.Call) and isinstance(s.value.func, ast.Attribute) \
                    and s.value.func.attr == "frombytes" and isinstance(s.value.func.value, ast.Name):
                if s.value.func.value.id not in out:
                    out.append(s.value.func.value.id)
            for b in getattr(s, "body", []) + getattr(s, "orelse", []):
                if isinstance(b, ast.stmt):
                    walk(b)

        for s in stmts:
            walk(s)
        return out

    def rewrite_swaps(self):
        """`x[0::2], x[1::2] = x[1::2], x[0::2]` on a buffer that this function made itself (`x = bytearray(...)` earlier, at the
        top level) becomes the re-binding `x = __swap_pairs__(x)` (`PyArr.swapPairs`: `ValueError` for an odd length, as the
        extended-slice assignment raises)"""
        body = self.f.node.body
        fresh = set()

        def strided(node, name, start):
            return (isinstance(node, ast.Subscript) and isinstance(node.value, ast.Name) and node.value.id == name
                    and isinstance(node.slice, ast.Slice) and node.slice.upper is None
                    and isinstance(node.slice.lower, ast.Constant) and node.slice.lower.value == start
                    and isinstance(node.slice.step, ast.Constant) and node.slice.step.value == 2)

        for k, st in enumerate(body):
            if isinstance(st, ast.Assign) and len(st.targets) == 1 and isinstance(st.targets[0], ast.Name) \
                    and isinstance(st.value, ast.Call) and isinstance(st.value.func, ast.Name) and st.value.func.id == "bytearray":
                fresh.add(st.targets[0].id)
            if isinstance(st, ast.Assign) and len(st.targets) == 1 and isinstance(st.targets[0], ast.Tuple) \
                    and isinstance(st.value, ast.Tuple) and len(st.targets[0].elts) == 2 and len(st.value.elts) == 2:
                t0, t1 = st.targets[0].elts
                v0, v1 = st.value.elts
                if isinstance(t0, ast.Subscript) and isinstance(t0.value, ast.Name):
                    nm = t0.value.id
                    if nm in fresh and strided(t0, nm, 0) and strided(t1, nm, 1) and strided(v0, nm, 1) and strided(v1, nm, 0):
                        new = ast.Assign(targets=[ast.Name(id=nm, ctx=ast.Store())],
                                         value=ast.Call(func=ast.Name(id="__swap_pairs__", ctx=ast.Load()),
                                                        args=[ast.Name(id=nm, ctx=ast.Load())], keywords=[]))
                        ast.copy_location(new, st)
                        ast.fix_missing_locations(new)
                        body[k] = new

    def function(self):
        self.retyped = set()
        _RENAME.clear()
        self.rewrite_swaps()
        # a bitarray / array local that is updated in place follows the same no-aliasing rule as a local list
        text = super().function()
        return text


class Unit(P.Unit):
    def __init__(self, name, functions, fuel=None):
        self.name = name
        self.fuel = fuel or {}
        self.fns = [Fn(self, m, q, spec) for m, q, spec in functions]
        self.consts = {}
        self.done = []

    def resolve_call(self, f, func_node):
        owner = self.owner_of(f, func_node)
        if owner is None:
            return None
        cands = [g for g in self.done if g.owner is owner and g.name == func_node.attr]
        if len(cands) > 1:
            # monomorphised variants: the one declared for this caller
            want = f.spec.get("calls", {}).get(func_node.attr)
            cands = [g for g in cands if g.lean_name == want]
        if len(cands) == 1:
            g = cands[0]
            static = inspect.getattr_static(owner, func_node.attr)
            live = static.__func__ if isinstance(static, (staticmethod, classmethod)) else static
            if live is not g.fn:
                f.bad(func_node, "callee rebound")
            return g
        f.bad(func_node, f"call of `{f.seg(func_node)}`, which is not a translated function of this unit")

    def class_const(self, f, node):
        owner = self.owner_of(f, node)
        if owner is None:
            return None
        attr = node.attr
        key = (owner.__qualname__, attr)
        if key in self.consts:
            name, typ, _txt, _w = self.consts[key]
            return Ex(name, typ)
        live = owner.__dict__.get(attr)
        if not isinstance(live, (dict, list)):
            return super().class_const(f, node)
        src = textwrap.dedent(inspect.getsource(owner))
        line0 = inspect.getsourcelines(owner)[1]
        cnode = ast.parse(src).body[0]
        values = {}
        lines = {}
        for st in cnode.body:
            tgt = None
            if isinstance(st, ast.Assign) and len(st.targets) == 1 and isinstance(st.targets[0], ast.Name):
                tgt = st.targets[0].id
            elif isinstance(st, ast.AnnAssign) and isinstance(st.target, ast.Name) and st.value is not None:
                tgt = st.target.id
            if tgt is not None:
                if tgt in values:
                    f.bad(node, f"class constant `{tgt}` assigned twice")
                values[tgt] = st.value
                lines[tgt] = st.lineno + line0 - 1
        if attr not in values:
            f.bad(node, f"class constant `{attr}` is not a plain assignment in the class body")

        def evaluate(v):
            try:
                return ast.literal_eval(v)
            except Exception:
                pass
            # dict((v, k) for k, v in NAME.items()) of a literal dict NAME of the same class
            if (isinstance(v, ast.Call) and isinstance(v.func, ast.Name) and v.func.id == "dict" and len(v.args) == 1
                    and not v.keywords and isinstance(v.args[0], ast.GeneratorExp)):
                g = v.args[0]
                if (len(g.generators) == 1 and not g.generators[0].ifs and isinstance(g.elt, ast.Tuple) and len(g.elt.elts) == 2
                        and isinstance(g.generators[0].target, ast.Tuple) and len(g.generators[0].target.elts) == 2):
                    k, val = (x.id for x in g.generators[0].target.elts)
                    e0, e1 = (x.id if isinstance(x, ast.Name) else None for x in g.elt.elts)
                    it = g.generators[0].iter
                    if (e0 == val and e1 == k and isinstance(it, ast.Call) and isinstance(it.func, ast.Attribute)
                            and it.func.attr == "items" and isinstance(it.func.value, ast.Name) and not it.args
                            and it.func.value.id in values):
                        inner = evaluate(values[it.func.value.id])
                        if isinstance(inner, dict):
                            return dict((b, a) for a, b in inner.items())
            f.bad(node, f"class constant `{attr}` is neither a literal nor the reversal of a literal dict")

        val = evaluate(values[attr])
        if type(val) is not type(live) or val != live or (isinstance(val, dict) and list(val.items()) != list(live.items())):
            f.bad(node, f"class constant `{attr}`: the live value differs from what the source says (rebound / mutated)")
        try:
            if isinstance(val, list):
                if not all(type(x) is int for x in val):
                    raise ValueError
                xs = [P.lit_int(x) for x in val]
                rows = [", ".join(xs[i:i + 16]) for i in range(0, len(xs), 16)]
                typ = "nats" if all(x >= 0 for x in val) else "ilist"
                txt = "[" + ",\n    ".join(rows) + "]"
            else:
                items = [(lit(k), lit(v)) for k, v in val.items()]
                kts, vts = {k[1] for k, _ in items}, {v[1] for _, v in items}
                if len(kts) != 1 or len(vts) != 1:
                    raise ValueError
                typ = ("dict", kts.pop(), vts.pop())
                txt = "[" + ",\n    ".join(f"({k[0]}, {v[0]})" for k, v in items) + "]"
        except ValueError:
            f.bad(node, f"class constant `{attr}` has items outside int / tuple of ints")
        path = (inspect.getsourcefile(owner) or "?").replace(os.sep, "/")
        i = path.rfind("/okdmr/")
        rel = path[i + 1:] if i >= 0 else os.path.basename(path)
        name = mangle(attr)
        self.consts[key] = (name, typ, txt, f"`{rel}:{lines[attr]}` `{owner.__qualname__}.{attr}`")
        return Ex(name, typ)

    def render(self, header=""):
        defs = []
        for f in self.fns:
            defs.append(Translator(self, f).function())
            self.done.append(f)
        out = [header.rstrip("\n"),
               "import DmrVerif.Model.PyArr",
               "",
               "/-!",
               "Translated by tools/py2lean_arr.py (extension of tools/py2lean.py; plug-in tools/extract_transl.py) from the SOURCE of the",
               "functions below, on every run.  Semantics: `Model/Py.lean`, `Model/PyArr.lean`, `Model/PyBits.lean`.",
               f"The equality with the hand-written model is proved in `Props/*t.lean` (lemmas in `Lemmas/Transl{self.name}*.lean`).",
               "-/",
               "",
               f"namespace Dmr.Transl.{self.name}",
               "open Dmr Dmr.Py",
               ""]
        for key in self.consts:
            name, typ, txt, where = self.consts[key]
            out.append(f"/-- {where} -/")
            out.append(f"def {name} : {lean_type(typ)} := {txt}")
            out.append("")
        out += defs
        out.append(f"end Dmr.Transl.{self.name}")
        return "\n".join(out) + "\n"


def translate_unit(name, functions, fuel=None, header="") -> str:
    return Unit(name, functions, fuel).render(header)
