"""
Translator plugin for C04 (integrity indicators): the value graphs of the small enums the checked
PDUs pass their fields through before the check is computed (`E(v).value` for every `v`, or the
exception), the data lengths of the rate-1/2, 3/4 and 1 block types, and the HRNP opcodes.
(`register`, `HEADER`, `lnats`, … are injected by tools/extract.py.)
"""


def _graph(enum_cls, width):
    """value -> member value (>= 0), or -1 ValueError, -2 AssertionError, -3 any other exception"""
    out = []
    for v in range(2**width):
        try:
            out.append(int(enum_cls(v).value))
        except ValueError:
            out.append(-1)
        except AssertionError:
            out.append(-2)
        except BaseException:  # noqa
            out.append(-3)
    return out


def _lints(xs):
    return "[" + ", ".join(str(int(x)) for x in xs) + "]"


@register("Integrity")  # noqa: F821
def gen_integrity() -> str:
    from okdmr.dmrlib.etsi.layer2.elements.data_types import DataTypes
    from okdmr.dmrlib.etsi.layer2.elements.lcss import LCSS
    from okdmr.dmrlib.etsi.layer2.elements.preemption_power_indicator import PreemptionPowerIndicator
    from okdmr.dmrlib.etsi.layer2.elements.slcos import SLCOs
    from okdmr.dmrlib.etsi.layer3.elements.activity_id import ActivityID
    from okdmr.dmrlib.etsi.layer2.pdu.rate12_data import Rate12DataTypes
    from okdmr.dmrlib.etsi.layer2.pdu.rate34_data import Rate34DataTypes
    from okdmr.dmrlib.etsi.layer2.pdu.rate1_data import Rate1DataTypes
    from okdmr.dmrlib.hytera.pdu.hrnp import HRNPOpcodes

    out = [HEADER, "namespace Dmr.Gen.Integrity\n"]  # noqa: F821
    out.append("/-- `E(v).value` for `v = 0 … 2^w − 1`; −1 ValueError, −2 AssertionError, −3 other exception -/")
    for name, cls, w in (
        ("dataTypes", DataTypes, 4),
        ("lcss", LCSS, 2),
        ("preemptionPower", PreemptionPowerIndicator, 1),
        ("slcos", SLCOs, 4),
        ("activityId", ActivityID, 4),
    ):
        out.append(f"def {name}Graph : List Int := {_lints(_graph(cls, w))}")
    out.append("")
    out.append("/-- `SLCOs.NullMessage.value`, `SLCOs.ActivityUpdate.value` -/")
    out.append(f"def slcoNull : Nat := {int(SLCOs.NullMessage.value)}")
    out.append(f"def slcoActivity : Nat := {int(SLCOs.ActivityUpdate.value)}")
    out.append("")
    out.append("/-- data octets of (Unconfirmed, Confirmed, UnconfirmedLastBlock, ConfirmedLastBlock) and every member value -/")
    for name, cls in (("rate12", Rate12DataTypes), ("rate34", Rate34DataTypes), ("rate1", Rate1DataTypes)):
        lens = [cls.Unconfirmed.value, cls.Confirmed.value, cls.UnconfirmedLastBlock.value, cls.ConfirmedLastBlock.value]
        out.append(f"def {name}Lens : List Nat := {_lints(lens)}")
        out.append(f"def {name}Members : List Nat := {_lints(sorted(int(m.value) for m in cls))}")
    out.append("")
    out.append("/-- every `HRNPOpcodes` value; `HRNPOpcodes.DATA.value` -/")
    out.append(f"def hrnpOpcodes : List Nat := {_lints(int(m.value) for m in HRNPOpcodes)}")
    out.append(f"def hrnpData : Nat := {int(HRNPOpcodes.DATA.value)}")
    out.append("\nend Dmr.Gen.Integrity\n")
    return "\n".join(out)
