"""Translator plugin: LRRP / MBXML document ids, element / attribute token tables, constant table.

Everything is read from the live classes: `MBXMLDocumentIdentifier` (all members, in definition order),
`MBXML.get_implementation(doc).get_configuration(doc)` for every member (so the element table of a
document is exactly the merged dict the parser indexes, in dict order), `get_known_tokens` /
`get_known_attributes` (the lists the token lookup API walks) and `MBXML.build_constants_table`.
"""


def _opt(v) -> str:
    return "none" if v is None else f"(some {int(v)})"


def _elem(tid, t) -> str:
    for a in t.attributes:
        if not isinstance(a, int):
            raise TypeError(f"token {tid:#x}: attribute list of a token definition holds a non-int {a!r}")
    if t.value is not None:
        raise TypeError(f"token {tid:#x}: element token definition carries a preset value")
    return (
        f"⟨{int(tid)}, {lstr(t.name)}, .{t.token_type.name}, {_opt(t.length)}, "  # noqa: F821
        f"[{', '.join(str(int(a)) for a in t.attributes)}]⟩"
    )


def _attr(aid, t) -> str:
    if t.value is not None and not isinstance(t.value, int):
        raise TypeError(f"attribute {aid:#x}: preset value {t.value!r} is not an int")
    return (
        f"⟨{int(aid)}, {lstr(t.name)}, .{t.token_type.name}, {_opt(t.value)}, {_opt(t.length)}, "  # noqa: F821
        f"{'true' if t.last_attribute else 'false'}⟩"
    )


@register("Lrrp")  # noqa: F821
def gen_lrrp() -> str:
    import logging

    from okdmr.dmrlib.motorola.lrrp import LRRP
    from okdmr.dmrlib.motorola.mbxml import MBXML, MBXMLDocumentIdentifier, MBXMLTokenType

    logging.disable(logging.CRITICAL)
    out = [HEADER, "import DmrVerif.Model.LrrpTypes\n\nnamespace Dmr.Gen.Lrrp\nopen Dmr.Lrrp\n"]  # noqa: F821

    # ---- document ids
    rows = []
    tables = {}  # distinct element tables -> name
    table_src = []
    per_doc = []
    attr_tables = {}
    attr_src = []
    per_doc_attr = []
    const_per_doc = []
    const_tables = {}
    const_src = []
    for m in MBXMLDocumentIdentifier:
        did, ncdt, _root = m.value
        impl_cls = MBXML.get_implementation(m)
        impl = "lrrp" if impl_cls is LRRP else ("arrp" if impl_cls.__name__ == "ARRP" else "other")
        rows.append(f"  ⟨{int(did)}, {'true' if ncdt else 'false'}, .{impl}⟩")
        if impl != "lrrp":
            # what the parser meets for these documents is recorded, not assumed
            cfg = impl_cls.get_configuration(m)
            if impl == "arrp" and cfg != {}:
                raise TypeError(f"ARRP.get_configuration({m.name}) is no longer empty: the model must be extended")
            if impl == "other" and cfg is not None:
                raise TypeError(f"MBXMLDocument.get_configuration({m.name}) is no longer None")
            continue
        cfg = impl_cls.get_configuration(m)
        if set(cfg.keys()) != {MBXMLTokenType.ELEMENT_TOKEN, MBXMLTokenType.ATTRIBUTE_TOKEN, MBXMLTokenType.CONSTANT_TOKEN}:
            raise TypeError(f"LRRP.get_configuration({m.name}) keys changed: {list(cfg.keys())}")
        el = "[" + ",\n    ".join(_elem(k, v) for k, v in cfg[MBXMLTokenType.ELEMENT_TOKEN].items()) + "]"
        if el not in tables:
            tables[el] = f"elements{len(tables)}"
            table_src.append(f"def {tables[el]} : List ElemTok := {el}\n")
        per_doc.append(f"  | {int(did)} => some {tables[el]}")
        at = "[" + ",\n    ".join(_attr(k, v) for k, v in cfg[MBXMLTokenType.ATTRIBUTE_TOKEN].items()) + "]"
        if at not in attr_tables:
            attr_tables[at] = f"attributes{len(attr_tables)}"
            attr_src.append(f"def {attr_tables[at]} : List AttrTok := {at}\n")
        per_doc_attr.append(f"  | {int(did)} => some {attr_tables[at]}")
        consts = cfg[MBXMLTokenType.CONSTANT_TOKEN]
        if list(consts.keys()) != list(range(len(consts))):
            raise TypeError("constant table keys are not 0..n-1")
        for i, c in consts.items():
            if c.token_type.name != "STR8_I" or not isinstance(c.value, str):
                raise TypeError(f"constant {i} is not an inline 8-bit string")
        cs = "[" + ", ".join(lstr(c.value) for c in consts.values()) + "]"  # noqa: F821
        built = MBXML.build_constants_table(m)
        key = cs + "|" + built.hex()
        if key not in const_tables:
            const_tables[key] = f"constants{len(const_tables)}"
            const_src.append(f"/-- values of the `STR8_I` constants, in index order -/\ndef {const_tables[key]} : List String := {cs}\n")
            const_src.append(
                f"/-- `MBXML.build_constants_table` for these documents, as the code computed it on this run -/\n"
                f"def {const_tables[key]}Built : List Nat := {lbytes(built)}\n"  # noqa: F821
            )
        const_per_doc.append(f"  | {int(did)} => some ({const_tables[key]}, {const_tables[key]}Built)")
    out.append("/-- every member of `MBXMLDocumentIdentifier` in definition order (`resolve` walks it) -/")
    out.append("def docIds : List DocId := [\n" + ",\n".join(rows) + "]\n")
    out += table_src
    out.append("/-- `get_configuration(doc)[ELEMENT_TOKEN]` (merged dict, dict order) per LRRP document id -/")
    out.append("def elementTable : Nat → Option (List ElemTok)\n" + "\n".join(per_doc) + "\n  | _ => none\n")
    out += attr_src
    out.append("/-- `get_configuration(doc)[ATTRIBUTE_TOKEN]` per LRRP document id -/")
    out.append("def attributeTable : Nat → Option (List AttrTok)\n" + "\n".join(per_doc_attr) + "\n  | _ => none\n")
    out += const_src
    out.append("/-- `get_configuration(doc)[CONSTANT_TOKEN]` (values, built table) per LRRP document id -/")
    out.append("def constantTable : Nat → Option (List String × List Nat)\n" + "\n".join(const_per_doc) + "\n  | _ => none\n")

    # ---- the lists the token lookup API walks
    for flag, nm in ((True, "knownTokensRequest"), (False, "knownTokensAnswer")):
        sets = LRRP.get_known_tokens(is_request=flag)
        out.append(f"/-- `LRRP.get_known_tokens(is_request={flag})`: the dicts in list order, each in dict order -/")
        out.append(
            f"def {nm} : List (List ElemTok) := [\n  "
            + ",\n  ".join("[" + ",\n    ".join(_elem(k, v) for k, v in s.items()) + "]" for s in sets)
            + "]\n"
        )
    for flag, nm in ((True, "knownAttributesRequest"), (False, "knownAttributesAnswer")):
        sets = LRRP.get_known_attributes(is_request=flag)
        out.append(f"/-- `LRRP.get_known_attributes(is_request={flag})` -/")
        out.append(
            f"def {nm} : List (List AttrTok) := [\n  "
            + ",\n  ".join("[" + ",\n    ".join(_attr(k, v) for k, v in s.items()) + "]" for s in sets)
            + "]\n"
        )
    out.append("end Dmr.Gen.Lrrp\n")
    return "\n".join(out)
