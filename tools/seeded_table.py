#!/usr/bin/env python3
"""Markdown table of the seeded changes and what the checks reported for them (from seeded/*/meta.json,
result.json); pasted into DESIGN.md §10 by the maintainer."""
import json, os
HERE = os.path.dirname(os.path.abspath(__file__))
S = os.path.join(HERE, "..", "seeded")
print("| seeded change | property | what was changed | needs | quick check | reported as |")
print("|---|---|---|---|---|---|")
for n in sorted(os.listdir(S)):
    d = os.path.join(S, n)
    try:
        m = json.load(open(os.path.join(d, "meta.json")))
    except Exception:
        continue
    r = {}
    if os.path.exists(os.path.join(d, "result.json")):
        r = json.load(open(os.path.join(d, "result.json")))
    det = "not run" if not r else ("**missed**" if not r.get("detected") else ("caught, failing input" if r.get("with_failing_input") else "caught, no-failing-input-found"))
    rep = ""
    if r.get("replay"):
        f = r["replay"].get("failure") or {}
        rep = (f.get("what") or r["replay"].get("type") or "")[:110]
    def cell(s): return str(s).replace("|", "\\|").replace("\n", " ")[:220]
    print(f"| {n} | {m.get('property')} | {cell(m.get('summary',''))} | {cell(m.get('needs',''))} | {det} ({r.get('tier','')}, {r.get('wall_s','')} s) | {cell(rep)} |")
