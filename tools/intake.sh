#!/bin/sh
# intake.sh Cxx X Y: confirm two seeded changes of a property, drop the scratch worktree, run the trials
P=$1; shift
cd "$(dirname "$0")/.."
for x in "$@"; do python3 tools/confirm_seed.py $P $x | tail -1; done
git -C /repo worktree remove --force /tmp/seed/$P 2>/dev/null
N=""; for x in "$@"; do [ -d seeded/$P-$x ] && N="$N $P-$x"; done
[ -n "$N" ] && python3 tools/run_seeded.py --jobs 2 $N
