"""
Translator plugin for property C11: Gen/Rs.lean.

Reads the live class attributes of `ReedSolomon1294` (512-entry exponent table, 256-entry logarithm
table, POLYNOMIAL) and the two 24-bit data-type masks of `CrcMasks` that ETSI TS 102 361-1 B.3.12
defines for the Reed-Solomon (12,9) parity of a full link control (voice LC header, terminator with
LC).  Tables only, no logic.  `rsExpPacked` / `rsLogPacked` are the same two tables once more as one
number each (entry `i` in bits `8i .. 8i+7`); the Lean side proves that they equal the lists
(`Lemmas/RsBase.lean: packed_ok`) and uses them only to make the 65,536-case kernel enumeration cheap.
`register`, `HEADER`, `lnats` are injected by tools/extract.py.
"""


def _pack(xs) -> int:
    v = 0
    for i, x in enumerate(xs):
        x = int(x)
        if not 0 <= x < 256:
            raise ValueError(f"table entry {i} = {x} is not an octet")
        v |= x << (8 * i)
    return v


@register("Rs")  # noqa: F821
def gen_rs() -> str:
    from okdmr.dmrlib.etsi.fec.reed_solomon_12_9_4 import ReedSolomon1294 as R
    from okdmr.dmrlib.etsi.layer2.elements.crc_masks import CrcMasks

    exp = [int(x) for x in R.EXPONENTIAL_TABLE]
    log = [int(x) for x in R.LOG_TABLE]
    pol = [int(x) for x in R.POLYNOMIAL]
    masks = [
        ("rsMaskVoiceLCHeader", CrcMasks.VoiceLCHeader),
        ("rsMaskTerminatorWithLC", CrcMasks.TerminatorWithLC),
    ]
    out = [HEADER, "namespace Dmr.Gen\n"]  # noqa: F821
    out.append("/-- `ReedSolomon1294.EXPONENTIAL_TABLE` -/")
    out.append(f"def rsExp : List Nat := {lnats(exp)}\n")  # noqa: F821
    out.append("/-- `ReedSolomon1294.LOG_TABLE` -/")
    out.append(f"def rsLog : List Nat := {lnats(log)}\n")  # noqa: F821
    out.append("/-- `ReedSolomon1294.POLYNOMIAL` -/")
    out.append(f"def rsPoly : List Nat := {lnats(pol)}\n")  # noqa: F821
    out.append("/-- `EXPONENTIAL_TABLE` as one number: entry `i` in bits `8i .. 8i+7` -/")
    out.append(f"def rsExpPacked : Nat := {_pack(exp)}\n")
    out.append("/-- `LOG_TABLE` as one number: entry `i` in bits `8i .. 8i+7` -/")
    out.append(f"def rsLogPacked : Nat := {_pack(log)}\n")
    for name, m in masks:
        b = list(int(m.value).to_bytes(3, byteorder="big"))
        out.append(f"/-- `CrcMasks.{m.name}.value.to_bytes(3, byteorder=\"big\")` -/")
        out.append(f"def {name} : List Nat := {lnats(b)}\n")  # noqa: F821
    out.append("end Dmr.Gen\n")
    return "\n".join(out)
