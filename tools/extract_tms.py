"""
Translator plugin for C16: the enumerations of Motorola TMS and ARS as value graphs.

For every enumeration the *members* are addressed by name in a fixed order (a renamed / removed member
is an extraction error, an added member changes `…Count` and breaks a `decide`), and the *lookup*
`Enum(v)` — including every `_missing_` hook — is dumped as the complete graph over the value range the
parsers can produce.  Nothing here is logic: the graphs are obtained by calling the enums.
"""


def _graph(enum_cls, order, values):
    """index (in `order`) of enum_cls(v) for every v, None where the lookup raises ValueError"""
    out = []
    for v in values:
        try:
            m = enum_cls(v)
        except ValueError:
            out.append(None)
            continue
        out.append(order.index(m))
    return out


def _lopt(xs, per_line=16):
    xs = ["none" if x is None else f"some {int(x)}" for x in xs]
    lines = [", ".join(xs[i : i + per_line]) for i in range(0, len(xs), per_line)]
    return "[" + ",\n    ".join(lines) + "]"


@register("Tms")
def gen_tms() -> str:
    from okdmr.dmrlib.motorola.text_messaging_service import (
        TMSPDUType,
        TMSEncoding,
        TMSDeviceCapability,
    )

    types = [
        TMSPDUType.SERVICE_AVAILABILITY,
        TMSPDUType.TMS_ACKNOWLEDGEMENT,
        TMSPDUType.SIMPLE_TEXT_MESSAGE,
    ]
    encs = [TMSEncoding.UNDEFINED, TMSEncoding.UCS2_LE]
    caps = list(TMSDeviceCapability)
    # FirstHeader.from_bytes calls TMSPDUType((bit, int)) with the bit taken from a bitarray (an int)
    tgraph = _graph(TMSPDUType, types, [(c, v) for c in (0, 1) for v in range(16)])
    egraph = _graph(TMSEncoding, encs, range(32))
    # AvailabilitySecondHeader.from_bytes: TMSDeviceCapability(data[0] & 0b11); members are identified by value
    cgraph = []
    for v in range(4):
        try:
            cgraph.append(int(TMSDeviceCapability(v).value))
        except ValueError:
            cgraph.append(None)
    tv = ", ".join(f"({lbool(bool(t.value[0]))}, {int(t.value[1])})" for t in types)
    out = [
        HEADER,
        "namespace Dmr.Gen.Tms\n",
        "/-- `TMSPDUType` member values `(is_control_message, bits)`; order SERVICE_AVAILABILITY,\nTMS_ACKNOWLEDGEMENT, SIMPLE_TEXT_MESSAGE -/",
        f"def pduTypeVal : List (Bool × Nat) := [{tv}]\n",
        "/-- number of members of `TMSPDUType` -/",
        f"def pduTypeCount : Nat := {len(list(TMSPDUType))}\n",
        "/-- `TMSPDUType((c, v))` for c in 0..1, v in 0..15 (entry `16*c+v`): index of the member, `none` = ValueError -/",
        f"def pduTypeGraph : List (Option Nat) := {_lopt(tgraph)}\n",
        "/-- `TMSEncoding` member values; order UNDEFINED, UCS2_LE -/",
        f"def encodingVal : List Nat := {lnats([e.value for e in encs])}\n",
        f"def encodingCount : Nat := {len(list(TMSEncoding))}\n",
        "/-- `TMSEncoding(v)` for v in 0..31 (with its `_missing_`): index of the member, `none` = ValueError -/",
        f"def encodingGraph : List (Option Nat) := {_lopt(egraph)}\n",
        "/-- values of all `TMSDeviceCapability` members -/",
        f"def capabilityVal : List Nat := {lnats([int(c.value) for c in caps])}\n",
        "/-- `TMSDeviceCapability(v).value` for v in 0..3, `none` = ValueError -/",
        f"def capabilityGraph : List (Option Nat) := {_lopt(cgraph)}\n",
        "end Dmr.Gen.Tms\n",
    ]
    return "\n".join(out)


@register("Ars")
def gen_ars() -> str:
    from okdmr.dmrlib.motorola.automatic_registration_service import (
        ARSPDUType,
        RegistrationEvent,
        FailureReason,
        Encoding,
        AutomaticRegistrationService,
    )

    types = [
        ARSPDUType.DEVICE_REGISTRATION_REQUEST,
        ARSPDUType.DEVICE_DEREGISTATION_NOTICE,
        ARSPDUType.USER_REGISTRATION_REQUEST,
        ARSPDUType.USER_DEREGISTRATION_REQUEST,
        ARSPDUType.USER_REGISTRATION_RESPONSE,
        ARSPDUType.STATUS_QUERY_REQUEST,
        ARSPDUType.ARS_DEVICE_OR_QUERY_RESPONSE,
    ]
    events = [RegistrationEvent.DONT_CARE, RegistrationEvent.INITIAL, RegistrationEvent.REFRESH]
    encs = [Encoding.UTF8]
    fails = [
        FailureReason.DEVICE_NOT_AUTHORIZED,
        FailureReason.USER_ID_NOT_VALID,
        FailureReason.USER_VALIDATION_TIMEOUT,
        FailureReason.TRANSMISSION_FAILURE,
    ]
    out = [
        HEADER,
        "namespace Dmr.Gen.Ars\n",
        "/-- `ARSPDUType` member values; order DEVICE_REGISTRATION_REQUEST, DEVICE_DEREGISTATION_NOTICE,\nUSER_REGISTRATION_REQUEST, USER_DEREGISTRATION_REQUEST, USER_REGISTRATION_RESPONSE, STATUS_QUERY_REQUEST,\nARS_DEVICE_OR_QUERY_RESPONSE -/",
        f"def pduTypeVal : List Nat := {lnats([t.value for t in types])}\n",
        f"def pduTypeCount : Nat := {len(list(ARSPDUType))}\n",
        "/-- `ARSPDUType(v)` for v in 0..15: index of the member, `none` = ValueError -/",
        f"def pduTypeGraph : List (Option Nat) := {_lopt(_graph(ARSPDUType, types, range(16)))}\n",
        "/-- `RegistrationEvent` member values; order DONT_CARE, INITIAL, REFRESH -/",
        f"def eventVal : List Nat := {lnats([e.value for e in events])}\n",
        f"def eventCount : Nat := {len(list(RegistrationEvent))}\n",
        "/-- `RegistrationEvent(v)` for v in 0..3 -/",
        f"def eventGraph : List (Option Nat) := {_lopt(_graph(RegistrationEvent, events, range(4)))}\n",
        "/-- `Encoding` member values; order UTF8 -/",
        f"def encodingVal : List Nat := {lnats([e.value for e in encs])}\n",
        f"def encodingCount : Nat := {len(list(Encoding))}\n",
        "/-- `Encoding(v)` for v in 0..31 -/",
        f"def encodingGraph : List (Option Nat) := {_lopt(_graph(Encoding, encs, range(32)))}\n",
        "/-- `FailureReason` member values; order DEVICE_NOT_AUTHORIZED, USER_ID_NOT_VALID,\nUSER_VALIDATION_TIMEOUT, TRANSMISSION_FAILURE -/",
        f"def failureVal : List Nat := {lnats([f.value for f in fails])}\n",
        f"def failureCount : Nat := {len(list(FailureReason))}\n",
        "/-- `FailureReason(v)` for v in 0..127 (with its `_missing_`) -/",
        f"def failureGraph : List (Option Nat) := {_lopt(_graph(FailureReason, fails, range(128)))}\n",
        "/-- `AutomaticRegistrationService.CSBK_ARS_MESSAGE_END` -/",
        f"def csbkEnd : List Nat := {lbytes(AutomaticRegistrationService.CSBK_ARS_MESSAGE_END)}\n",
        "end Dmr.Gen.Ars\n",
    ]
    return "\n".join(out)
