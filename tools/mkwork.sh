#!/bin/sh
# mkwork.sh <name>: private working copy of /verif for one builder / hardening agent:
# a git worktree /tmp/w/<name> on branch w-<name> plus a copy of the Lean build products, so that
# agents never see each other's half-edited files; the coordinator merges the branch afterwards.
set -e
N=$1
cd "$(dirname "$0")/.."
mkdir -p /tmp/w
git worktree add -q -b "w-$N" "/tmp/w/$N" HEAD
rsync -a lean/.lake "/tmp/w/$N/lean/"
mkdir -p "/tmp/w/$N/.run" "/tmp/w/$N/evidence" "/tmp/w/$N/replays"
echo "/tmp/w/$N"
