#!/venv/bin/python
"""Record the sha256 of every generated table as the committed baseline (run by the maintainer of
/verif after reviewing a table change, never by a check)."""
import hashlib, json, os, subprocess, sys
HERE = os.path.dirname(os.path.abspath(__file__))
out = subprocess.run(["/venv/bin/python", os.path.join(HERE, "extract.py")], capture_output=True, text=True).stdout
base = {}
for line in out.splitlines():
    p = line.split(" ")
    if p[0] != "ERROR" and len(p) == 3:
        base[p[0]] = p[1]
with open(os.path.join(HERE, "..", "harness", "gen_baseline.json"), "w") as f:
    json.dump(base, f, indent=1, sort_keys=True)
print(json.dumps(base, indent=1))
