"""
Translator plugin for property C12: Gen/Hytera.lean.

Reads the live enum classes and byte constants of okdmr.dmrlib.hytera.pdu.{hdap,hrnp,hstrp,
radio_registration_service,location_protocol,text_message_protocol,radio_control_protocol}.

Every enum is written as (a) the list of its member values in definition order and (b) one named
constant per member the hand-written model dispatches on.  Before anything is written the enum's
complete *value graph* is evaluated by calling the class on every value of its wire width
(7/8/16 bits) and compared with "v is a member -> v, otherwise ValueError" (plain enums) or
"otherwise the `_missing_` target" (RCPOpcode, StatusChangeNotificationTargets/Setting); a class whose
graph is anything else makes the translator fail (ERROR line: the proof no longer covers the code).
Tables only, no logic.  `register`, `HEADER`, `lnats` are injected by tools/extract.py.
"""


def _graph(cls, width_bits, missing=None):
    """members in definition order; checks the complete value graph over 0 .. 2^width - 1"""
    members = [int(m.value) for m in cls]
    mset = set(members)
    for v in range(2**width_bits):
        try:
            got = int(cls(v).value)
        except ValueError:
            got = None
        want = v if v in mset else missing
        if got != want:
            raise ValueError(
                f"{cls.__name__}({v}) = {got}, expected {want}: value graph is not member-or-{missing}"
            )
    for m in members:
        if not 0 <= m < 2**width_bits:
            raise ValueError(f"{cls.__name__} member {m} outside its {width_bits}-bit wire field")
    return members


def _lname(s: str) -> str:
    return s[0].lower() + s[1:]


@register("Hytera")  # noqa: F821
def gen_hytera() -> str:
    from okdmr.dmrlib.etsi.layer3.elements.talker_alias_data_format import TalkerAliasDataFormat
    from okdmr.dmrlib.hytera.pdu import hdap, hrnp, hstrp
    from okdmr.dmrlib.hytera.pdu import location_protocol as lp
    from okdmr.dmrlib.hytera.pdu import radio_control_protocol as rcp
    from okdmr.dmrlib.hytera.pdu import radio_registration_service as rrs
    from okdmr.dmrlib.hytera.pdu import text_message_protocol as tmp

    out = [HEADER, "namespace Dmr.Gen.Hytera\n"]  # noqa: F821

    def enum(prefix, cls, width, named=None, missing=None, doc=""):
        members = _graph(cls, width, missing)
        out.append(f"/-- member values of `{cls.__name__}` (complete {width}-bit value graph checked: "
                   f"non-members {'raise ValueError' if missing is None else 'map to ' + str(missing)}){doc} -/")
        out.append(f"def {prefix}Values : List Nat := {lnats(members)}")  # noqa: F821
        if missing is not None:
            out.append(f"def {prefix}Missing : Nat := {missing}")
        for m in cls:
            if named is None or m.name in named:
                out.append(f"def {prefix}{m.name.replace('_', '')} : Nat := {int(m.value)}")
        out.append("")

    enum("svc", hdap.HyteraServiceType, 7)
    out.append(f"def hdapMsgEnd : List Nat := {lnats(list(hdap.HDAP.MSG_END))}\n")  # noqa: F821

    enum("rrs", rrs.RRSTypes, 8)
    enum("rrsResult", rrs.RRSResult, 8)
    enum("rrsState", rrs.RRSRadioState, 8)

    enum("lp", lp.LocationProtocolSpecificService, 16, named={"StandardRequest", "StandardReport"})
    enum("lpResult", lp.LocationProtocolResultCodes, 16)

    enum("tmp", tmp.TMPService, 8)
    enum("tmpResult", tmp.TMPResultCodes, 8, named={"OK"})

    implemented = {
        "UnknownService", "CallRequest", "CallReply", "RepeaterBroadcastTransmitStatus",
        "BroadcastMessageConfigurationRequest", "BroadcastMessageConfigurationReply",
        "RadioIDAndRadioIPQueryRequest", "RadioIDAndRadioIPQueryReply",
        "BroadcastStatusConfigurationRequest", "BroadcastStatusConfigurationReply",
        "SendTalkerAliasRequest", "SendTalkerAliasReply",
        "ZoneAndChannelOperationRequest", "ZoneAndChannelOperationReply",
        "StatusChangeNotificationRequest", "StatusChangeNotificationReply", "RadioStatusReport",
    }
    enum("rcp", rcp.RCPOpcode, 16, named=implemented, missing=int(rcp.RCPOpcode.UnknownService.value))
    enum("rcpCallType", rcp.RCPCallType, 16, named={"PrivateCall"})
    enum("rcpResult", rcp.RCPResult, 8, named={"Success"})
    enum("rcpIdTarget", rcp.RadioIpIdTarget, 8, named={"RADIO_ID"})
    enum("rptMode", rcp.RepeaterMode, 16, named=set())
    enum("rptStatus", rcp.RepeaterStatus, 16, named=set())
    enum("rptService", rcp.RepeaterServiceType, 16, named=set())
    enum("scnTarget", rcp.StatusChangeNotificationTargets, 8, named={"RESERVED"},
         missing=int(rcp.StatusChangeNotificationTargets.RESERVED.value))
    enum("scnSetting", rcp.StatusChangeNotificationSetting, 8, named={"RESERVED"},
         missing=int(rcp.StatusChangeNotificationSetting.RESERVED.value))
    enum("talkerAliasFormat", TalkerAliasDataFormat, 8, named=set())

    enum("hrnp", hrnp.HRNPOpcodes, 8)
    out.append(f"def hrnpDefaultHeader : List Nat := {lnats(list(hrnp.HRNP.DEFAULT_HEADER))}")  # noqa: F821
    out.append(f"def hrnpDefaultVersion : List Nat := {lnats(list(hrnp.HRNP.DEFAULT_VERSION))}\n")  # noqa: F821

    enum("hstrpOption", hstrp.HSTRPOptionType, 7, named=set())
    out.append(f"def hstrpHeader : List Nat := {lnats(list(hstrp.HSTRP.HEADER))}\n")  # noqa: F821

    out.append("end Dmr.Gen.Hytera\n")
    return "\n".join(out)
