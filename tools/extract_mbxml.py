"""Translator plugin: constants of okdmr.dmrlib.motorola.mbxml.MBXML used by the C14/C15 models."""


@register("Mbxml")  # noqa: F821  (injected by tools/extract.py)
def gen_mbxml() -> str:
    from okdmr.dmrlib.motorola.mbxml import MBXML, GlobalToken

    out = [HEADER, "namespace Dmr.Gen.Mbxml\n"]  # noqa: F821
    out.append(f"def UINTVAR_MAX : Nat := {int(MBXML.UINTVAR_MAX)}")
    out.append(f"def SINTVAR_MAX : Nat := {int(MBXML.SINTVAR_MAX)}")
    out.append("")
    out.append("/-- `GlobalToken` members as (name, value) in definition order -/")
    out.append(
        "def globalTokens : List (String × Int) := ["
        + ", ".join(f"({lstr(m.name)}, {int(m.value)})" for m in GlobalToken)  # noqa: F821
        + "]"
    )
    out.append("\nend Dmr.Gen.Mbxml\n")
    return "\n".join(out)
