"""
Translator plugin for the CRC tables (C05, reused by C04): the five `BitCrcConfiguration` values as
they are after `__post_init__` (so including the *derived* `feed_width_bits`), the configuration and
register kind each front-end class actually holds in its `CALC` singleton, and every `CrcMasks` value.
(`register`, `HEADER`, `lnats`, … are injected by tools/extract.py.)
"""


def _cfg(c) -> str:
    return (
        "{ "
        f"poly := {int(c.polynomial)}, w := {int(c.width_bits)}, fw := {int(c.feed_width_bits)}, "
        f"init := {int(c.init_value)}, xorout := {int(c.final_xor_value)}, "
        f"revIn := {'true' if c.reverse_input_bytes else 'false'}, "
        f"revOut := {'true' if c.reverse_output_bytes else 'false'}"
        " }"
    )


@register("Crc")  # noqa: F821
def gen_crc() -> str:
    from okdmr.dmrlib.etsi.crc import crc as crcmod
    from okdmr.dmrlib.etsi.crc.crc8 import CRC8
    from okdmr.dmrlib.etsi.crc.crc9 import CRC9
    from okdmr.dmrlib.etsi.crc.crc16 import CRC16
    from okdmr.dmrlib.etsi.crc.crc32 import CRC32
    from okdmr.dmrlib.etsi.layer2.elements.crc_masks import CrcMasks

    out = [HEADER, "import DmrVerif.Model.Crc\n\nnamespace Dmr.Gen\n"]  # noqa: F821
    enums = [
        ("crc7", crcmod.Crc7),
        ("crc8", crcmod.Crc8),
        ("crc9", crcmod.Crc9),
        ("crc16", crcmod.Crc16),
        ("crc32", crcmod.Crc32),
    ]
    for name, en in enums:
        members = list(en)
        if len(members) != 1 or members[0].name != "ETSI_DMR":
            raise ValueError(f"{en.__name__}: expected exactly the member ETSI_DMR, got {[m.name for m in members]}")
        out.append(f"/-- `{en.__name__}.ETSI_DMR.value` -/\ndef {name} : CrcConfig :=\n  {_cfg(members[0].value)}\n")
    # what the front-end singletons really hold
    for name, cls in (("front8", CRC8), ("front9", CRC9), ("front16", CRC16), ("front32", CRC32)):
        reg = cls.CALC._crc_register
        table_based = isinstance(reg, crcmod.TableBasedBitCrcRegister)
        out.append(
            f"/-- configuration and register kind of `{cls.__name__}.CALC` -/\n"
            f"def {name} : CrcConfig × Bool :=\n  ({_cfg(reg._config)}, {'true' if table_based else 'false'})\n"
        )
    masks = [(m.name, int(m.value)) for m in CrcMasks]
    out.append(
        "/-- every `CrcMasks` member, in definition order -/\ndef crcMasks : List (String × Nat) :=\n  ["
        + ",\n   ".join(f"({lstr(n)}, {v})" for n, v in masks)  # noqa: F821
        + "]\n"
    )
    for n, v in masks:
        out.append(f"def mask{n} : Nat := {v}")
    out.append("\nend Dmr.Gen\n")
    return "\n".join(out)
