#!/bin/sh
# soak.sh "<seeds>" <tier> <jobs> [props...]: clean-tree runs over several seeds; appends one line per run to .run/soak.log
SEEDS=$1; TIER=$2; JOBS=$3; shift 3
PROPS=${*:-"C01 C02 C03 C04 C05 C06 C07 C08 C09 C10 C11 C12 C13 C14 C15 C16 C17 C18 C19 C20"}
cd "$(dirname "$0")/.."
for s in $SEEDS; do for p in $PROPS; do echo "$s $p"; done; done | xargs -P $JOBS -L 1 sh -c 'VERIF_SEED=$0 /venv/bin/python harness/check.py $1 --tier '$TIER' > .run/soak-$1-$0.log 2>&1; rc=$?; echo "seed=$0 $1 tier='$TIER' rc=$rc violations=$(grep -c "^VIOLATION" .run/soak-$1-$0.log) $(tail -1 .run/soak-$1-$0.log | grep -o "wall=[0-9.]*s")" >> .run/soak.log'
