#!/venv/bin/python
"""
Maintainer command (never called by a check): prints a candidate for lean/DmrVerif/Spec/ElementsRef.lean —
the pinned reference of the layer-2 / layer-3 information element enumerations, the TMS / ARS enumerations and the
VBPTC(32,11) arrangement — from the tree as it is.  The committed file is the yardstick of
`Props/C03e: elements_reference`, `C16: tms_ars_values_reference`, `C09: tables_32_reference`: it is reviewed by a
person against ETSI TS 102 361-1 (§9.3), -2 (§7.2), -4 (§7.2) member by member (the member names are printed as
comments for that purpose) and changes only by hand.      usage: mk_elements_ref.py > Spec/ElementsRef.lean
"""
import os, sys, types
HERE = os.path.dirname(os.path.abspath(__file__))
sys.path.insert(0, HERE)
ns = {"register": lambda name: (lambda f: f), "__name__": "extract_elements"}
exec(compile(open(os.path.join(HERE, "extract_elements.py")).read(), "extract_elements.py", "exec"), ns)

def main():
    done, skipped = ns["elements"]()
    out = ["import DmrVerif.Model.Elem", "",
           "/-!", "Pinned reference of the information-element enumerations (ETSI TS 102 361-1 §9.3, -2 §7.2, -4 §7.2).",
           "Hand-maintained: written once by `tools/mk_elements_ref.py` from the reviewed tree (/repo 160c61b), then reviewed",
           "member by member; it changes only by hand.  Per element: name, bit width, the defined member values in",
           "declaration order, and what an undefined value of that width does (`fold`): `.member r` = folded onto the",
           "reserved member `r`, `.valueError` = rejected, `.nothing` is never acceptable; `mixed` lists the exceptions", "-/", "",
           "namespace Dmr.Spec", "open Dmr", "",
           "structure ElemRef where", "  name : String", "  w : Nat", "  members : List Nat",
           "  /-- outcome of every undefined value except those listed in `mixed` -/", "  fold : ElemRes",
           "  /-- undefined values with another outcome than `fold` -/", "  mixed : List (Nat × ElemRes)", "deriving DecidableEq, Repr", ""]
    names = []
    for lean, cls, w in done:
        members = [int(m.value) for m in cls]
        und = [(v, ns["classify"](cls, v)) for v in range(2 ** w) if v not in members]
        kinds = {}
        for v, k in und:
            kinds[k] = kinds.get(k, 0) + 1
        fold = max(kinds, key=lambda k: (kinds[k], k)) if kinds else ".valueError"
        mixed = [(v, k) for v, k in und if k != fold]
        out.append(f"/-- `{cls.__module__.split('.')[-1]}.{cls.__name__}`: " + ", ".join(f"{m.name}={int(m.value)}" for m in cls) + " -/")
        nm = "r" + cls.__name__
        names.append(nm)
        out.append(f"def {nm} : ElemRef := ⟨\"{cls.__name__}\", {w}, [{', '.join(map(str, members))}], {fold if ' ' not in fold else '(' + fold + ')'}, "
                   f"[{', '.join(f'({v}, {k})' for v, k in mixed)}]⟩")
        out.append("")
    out.append(f"def elementsRef : List ElemRef := [{', '.join(names)}]")
    out.append("")
    out.append("end Dmr.Spec")
    print("\n".join(out))

main()
