#!/venv/bin/python
"""
Mechanical mutation sweep: a measurement of the checks, not a check (DESIGN §10, "mutation sweep").

For a property, small syntactic mutants (one changed operator / constant / comparison / slice bound /
deleted statement) are generated inside the files the property is anchored in, concentrated on the line
ranges named in the property's `mechanism` entries.  Every mutant is applied in a scratch git worktree of
/repo under /tmp (never in /repo), the repository's own 204 tests are run on it, and only mutants the tests
let through are tried against the property's quick check (scratch copy of /verif, VERIF_REPO = worktree,
like tools/run_seeded.py).  Outcome per mutant, appended to .run/mutants.jsonl:

   tests-kill        the existing tests already fail
   input             check exits 1 with a concrete failing input
   no-input          check exits 1, every VIOLATION line ends `no-failing-input-found`
   quiet             check exits 0     (equivalent mutant, change irrelevant to the property, or a MISS: triage)
   infra             check exits 2

  mutate.py Cxx [Cyy ...] [--n 30] [--seed 1] [--jobs 10]
"""
import ast
import json
import os
import random
import re
import shutil
import subprocess
import sys
import time
from concurrent.futures import ThreadPoolExecutor

VERIF = os.path.dirname(os.path.dirname(os.path.abspath(__file__)))
REPO = "/repo"
PY = "/venv/bin/python"
WORK = os.environ.get("VERIF_MUT_DIR") or f"/tmp/mut/p{os.getpid()}"
OUT = os.path.join(VERIF, ".run", "mutants.jsonl")

CMP = {ast.Lt: ("<", "<="), ast.LtE: ("<=", "<"), ast.Gt: (">", ">="), ast.GtE: (">=", ">"),
       ast.Eq: ("==", "!="), ast.NotEq: ("!=", "=="), ast.In: ("in", "not in"), ast.NotIn: ("not in", "in"),
       ast.Is: ("is", "is not"), ast.IsNot: ("is not", "is")}
BIN = {ast.Add: ("+", ["-"]), ast.Sub: ("-", ["+"]), ast.Mult: ("*", ["+", "//"]), ast.FloorDiv: ("//", ["%", "*"]),
       ast.Mod: ("%", ["//"]), ast.LShift: ("<<", [">>"]), ast.RShift: (">>", ["<<"]), ast.BitAnd: ("&", ["|"]),
       ast.BitOr: ("|", ["&", "^"]), ast.BitXor: ("^", ["|", "&"]), ast.Div: ("/", ["//", "*"])}
AUG = {ast.Add: ("+=", "-="), ast.Sub: ("-=", "+="), ast.BitOr: ("|=", "&="), ast.BitAnd: ("&=", "|="),
       ast.BitXor: ("^=", "|="), ast.LShift: ("<<=", ">>="), ast.RShift: (">>=", "<<="), ast.Mult: ("*=", "+=")}


def sh(cmd, **kw):
    return subprocess.run(cmd, capture_output=True, text=True, **kw)


def prop_record(pid):
    for l in open(os.path.join(VERIF, "properties.jsonl")):
        p = json.loads(l)
        if p["id"] == pid:
            return p
    raise SystemExit(f"unknown property {pid}")


def anchor_files(p):
    out = []
    for f in p["anchors"]["files"]:
        full = os.path.join(REPO, f)
        if os.path.isdir(full):
            for n in sorted(os.listdir(full)):
                if n.endswith(".py") and n != "__init__.py":
                    out.append(os.path.join(f, n))
        elif os.path.exists(full):
            out.append(f)
    return out


def focus_ranges(p):
    """file suffix -> [(lo, hi)] from the mechanism 'where' strings (line numbers of the pinned commit: widened)"""
    foc = {}
    for m in p["anchors"].get("mechanism", []):
        for part in re.split(r",\s*(?=[A-Za-z_/]+\.py)", m.get("where", "")):
            mm = re.match(r"\s*([\w/\.\*]+\.py):([\d\-,\s]+)", part)
            if not mm:
                continue
            for r in mm.group(2).split(","):
                r = r.strip()
                if not r:
                    continue
                lo, _, hi = r.partition("-")
                try:
                    lo = int(lo)
                    hi = int(hi or lo)
                except ValueError:
                    continue
                foc.setdefault(mm.group(1), []).append((max(1, lo - 25), hi + 40))
    return foc


class Src:
    def __init__(self, text):
        self.b = text.encode()
        self.starts = [0]
        for i, c in enumerate(self.b):
            if c == 10:
                self.starts.append(i + 1)

    def off(self, line, col):
        return self.starts[line - 1] + col

    def span(self, node):
        return self.off(node.lineno, node.col_offset), self.off(node.end_lineno, node.end_col_offset)


def candidates(text):
    """list of (lineno, kind, start, end, replacement_bytes)"""
    src = Src(text)
    tree = ast.parse(text)
    out = []

    def between(a_end, b_start, tok):
        seg = src.b[a_end:b_start]
        # strip comments inside the gap
        pat = re.compile(rb"(?<![<>=!*/&|^+\-%])" + re.escape(tok.encode()) + rb"(?![<>=*/&|^])") if not tok.isalpha() and " " not in tok else re.compile(rb"\b" + re.escape(tok.encode()).replace(rb"\ ", rb"\s+") + rb"\b")
        ms = list(pat.finditer(seg))
        if len(ms) != 1:
            return None
        return a_end + ms[0].start(), a_end + ms[0].end()

    in_table = set()
    for node in ast.walk(tree):
        if isinstance(node, (ast.List, ast.Tuple, ast.Set)) and len(node.elts) >= 8 or isinstance(node, ast.Dict) and len(node.keys) >= 8:
            for sub in ast.walk(node):
                in_table.add(id(sub))
    docstrings = set()
    for node in ast.walk(tree):
        if isinstance(node, (ast.FunctionDef, ast.AsyncFunctionDef, ast.ClassDef, ast.Module)) and node.body:
            f = node.body[0]
            if isinstance(f, ast.Expr) and isinstance(f.value, ast.Constant) and isinstance(f.value.value, str):
                docstrings.add(id(f))
    for node in ast.walk(tree):
        if isinstance(node, ast.Constant) and type(node.value) is int and node.end_lineno == node.lineno:
            s, e = src.span(node)
            lit = src.b[s:e].decode()
            v = node.value
            reps = {v + 1}
            if v > 0:
                reps.add(v - 1)
            if v >= 8:
                reps.add(v ^ 1 if (v ^ 1) != v + 1 and (v ^ 1) != v - 1 else v + 2)
            for r in reps:
                rs = (hex(r) if lit.lower().startswith("0x") else bin(r) if lit.lower().startswith("0b") else str(r))
                out.append((node.lineno, ("table " if id(node) in in_table else "const ") + f"{lit}->{rs}", s, e, rs.encode()))
        elif isinstance(node, ast.Constant) and type(node.value) is bool:
            s, e = src.span(node)
            out.append((node.lineno, f"bool {node.value}->{not node.value}", s, e, str(not node.value).encode()))
        elif isinstance(node, ast.Compare) and len(node.ops) == 1 and type(node.ops[0]) in CMP:
            tok, rep = CMP[type(node.ops[0])]
            _, a_end = src.span(node.left)
            b_start, _ = src.span(node.comparators[0])
            sp = between(a_end, b_start, tok)
            if sp:
                out.append((node.lineno, f"cmp {tok}->{rep}", sp[0], sp[1], rep.encode()))
                if tok in ("<", "<=", ">", ">="):
                    flip = {"<": ">", "<=": ">=", ">": "<", ">=": "<="}[tok]
                    out.append((node.lineno, f"cmp {tok}->{flip}", sp[0], sp[1], flip.encode()))
        elif isinstance(node, ast.BinOp) and type(node.op) in BIN:
            if isinstance(node.left, ast.Constant) and isinstance(node.left.value, str):
                continue  # string formatting
            tok, reps = BIN[type(node.op)]
            _, a_end = src.span(node.left)
            b_start, _ = src.span(node.right)
            sp = between(a_end, b_start, tok)
            if sp:
                for rep in reps:
                    out.append((node.lineno, f"binop {tok}->{rep}", sp[0], sp[1], rep.encode()))
        elif isinstance(node, ast.AugAssign) and type(node.op) in AUG:
            tok, rep = AUG[type(node.op)]
            _, a_end = src.span(node.target)
            b_start, _ = src.span(node.value)
            seg = src.b[a_end:b_start]
            k = seg.find(tok.encode())
            if k >= 0:
                out.append((node.lineno, f"aug {tok}->{rep}", a_end + k, a_end + k + len(tok), rep.encode()))
        elif isinstance(node, ast.BoolOp) and len(node.values) >= 2:
            tok = "and" if isinstance(node.op, ast.And) else "or"
            rep = "or" if tok == "and" else "and"
            _, a_end = src.span(node.values[0])
            b_start, _ = src.span(node.values[1])
            sp = between(a_end, b_start, tok)
            if sp:
                out.append((node.lineno, f"bool-op {tok}->{rep}", sp[0], sp[1], rep.encode()))
        elif isinstance(node, ast.UnaryOp) and isinstance(node.op, ast.Not):
            s, _ = src.span(node)
            o, _ = src.span(node.operand)
            if src.b[s:s + 3] == b"not":
                out.append((node.lineno, "drop not", s, o, b""))
        elif isinstance(node, (ast.If, ast.While)) and not isinstance(node.test, ast.UnaryOp):
            s, e = src.span(node.test)
            if node.test.lineno == node.test.end_lineno:
                out.append((node.lineno, "negate condition", s, e, b"not (" + src.b[s:e] + b")"))
        elif isinstance(node, (ast.Assign, ast.AugAssign, ast.Expr)) and id(node) not in docstrings \
                and node.col_offset > 0 and not (isinstance(node, ast.Expr) and isinstance(node.value, ast.Constant)):
            s, e = src.span(node)
            out.append((node.lineno, "delete statement", s, e, b"pass"))
        elif isinstance(node, ast.Slice):
            for nm in ("lower", "upper"):
                v = getattr(node, nm)
                if v is not None and not isinstance(v, ast.Constant) and v.lineno == v.end_lineno:
                    s, e = src.span(v)
                    out.append((v.lineno, f"slice {nm} +1", s, e, b"(" + src.b[s:e] + b") + 1"))
                    out.append((v.lineno, f"slice {nm} -1", s, e, b"(" + src.b[s:e] + b") - 1"))
        elif isinstance(node, ast.Call) and len(node.args) >= 2 and not node.keywords \
                and all(a.lineno == a.end_lineno for a in node.args[:2]):
            s0, e0 = src.span(node.args[0])
            s1, e1 = src.span(node.args[1])
            if src.b[s0:e0] != src.b[s1:e1] and e0 <= s1:
                out.append((node.lineno, "swap first two arguments", s0, e1, src.b[s1:e1] + src.b[e0:s1] + src.b[s0:e0]))
    # representation / logging code is outside every property: not mutated
    skip = []
    for node in ast.walk(tree):
        if isinstance(node, (ast.FunctionDef, ast.AsyncFunctionDef)) and (
                node.name in ("__repr__", "__str__", "repr", "debug", "describe") or node.name.startswith(("log_", "debug", "print"))):
            skip.append((node.lineno, node.end_lineno))
    lines = text.split("\n")
    out = [c for c in out if not any(lo <= c[0] <= hi for lo, hi in skip)
           and not re.search(r"\b(log_\w+|print|logging\.\w+|warnings\.warn)\(", lines[c[0] - 1])]
    return src, out


def make_mutants(pid, n, seed):
    p = prop_record(pid)
    files = anchor_files(p)
    foc = focus_ranges(p)
    rng = random.Random(f"{pid}:{seed}")
    pool_focus, pool_other = [], []
    for f in files:
        text = open(os.path.join(REPO, f)).read()
        try:
            src, cands = candidates(text)
        except SyntaxError:
            continue
        rngs = [r for suf, rs in foc.items() if f.endswith(suf.replace("*", "")) or (("*" in suf) and f.startswith("okdmr/dmrlib/" + suf.split("*")[0])) for r in rs]
        for c in cands:
            rec = (f, src, c)
            (pool_focus if any(lo <= c[0] <= hi for lo, hi in rngs) else pool_other).append(rec)
    rng.shuffle(pool_focus)
    rng.shuffle(pool_other)
    # entries of big literal tables are a separate stratum (a changed table breaks a kernel-checked fact): <= 1/6 of the draw
    tables = [r for r in pool_focus + pool_other if r[2][1].startswith("table ")]
    pool_focus = [r for r in pool_focus if not r[2][1].startswith("table ")]
    pool_other = [r for r in pool_other if not r[2][1].startswith("table ")]
    n_t = min(len(tables), max(1, n // 6))
    want_f = min(len(pool_focus), ((n - n_t) * 3) // 4)
    chosen = tables[:n_t] + pool_focus[:want_f] + pool_other[: n - n_t - want_f]
    muts = []
    for k, (f, src, (line, kind, s, e, rep)) in enumerate(chosen):
        new = src.b[:s] + rep + src.b[e:]
        try:
            ast.parse(new.decode())
        except SyntaxError:
            continue
        muts.append({"property": pid, "id": f"{pid}-m{seed}-{k:03d}", "file": f, "line": line, "kind": kind,
                     "old_line": src.b[src.starts[line - 1]:].split(b"\n", 1)[0].decode().strip()[:160], "new": new})
    return muts, len(pool_focus), len(pool_other)


def prepare_copy(slot):
    dst = os.path.join(WORK, f"verif{slot}")
    os.makedirs(dst, exist_ok=True)
    sh(["rsync", "-a", "--delete", "--exclude", ".git", "--exclude", "seeded", "--exclude", "replays",
        "--exclude", ".run", VERIF + "/", dst + "/"])
    return dst


def run_one(m, slot, tier="quick"):
    wt = os.path.join(WORK, f"wt{slot}")
    if not os.path.isdir(wt):
        r = sh(["git", "-C", REPO, "worktree", "add", "--detach", wt, "HEAD"])
        if r.returncode != 0:
            return dict(m, outcome="infra", error=r.stderr[-200:])
    sh(["git", "-C", wt, "checkout", "--", "."])
    with open(os.path.join(wt, m["file"]), "wb") as f:
        f.write(m["new"])
    res = {k: v for k, v in m.items() if k != "new"}
    res["diff"] = sh(["git", "-C", wt, "diff", "-U0"]).stdout[-1500:]
    env = dict(os.environ, PYTHONPATH=wt)
    t = sh([PY, "-m", "pytest", "-q", "-x", "-p", "no:cacheprovider", "--timeout=300"], cwd=wt, env=env)
    if t.returncode != 0:
        res["outcome"] = "tests-kill"
        return res
    copy = prepare_copy(slot)
    env = dict(os.environ, VERIF_REPO=wt, VERIF_TIER=tier, VERIF_SEED=os.environ.get("VERIF_SEED", "0"))
    t0 = time.time()
    try:
        c = sh([PY, os.path.join(copy, "harness", "check.py"), m["property"], "--tier", tier], env=env, cwd=copy, timeout=3600)
    except subprocess.TimeoutExpired:
        res["outcome"] = "infra"
        res["error"] = "timeout"
        return res
    res["wall_s"] = round(time.time() - t0, 1)
    res["rc"] = c.returncode
    vio = [l for l in c.stdout.splitlines() if l.startswith("VIOLATION")]
    res["lines"] = vio[:4]
    if c.returncode == 1 and vio:
        res["outcome"] = "no-input" if all(l.rstrip().endswith("no-failing-input-found") for l in vio) else "input"
        try:
            rp = vio[0].split("replay=")[1].split()[0]
            o = json.load(open(os.path.join(copy, rp)))
            res["what"] = json.dumps(o.get("failure", o))[:400]
        except Exception:
            pass
    elif c.returncode == 0:
        res["outcome"] = "quiet"
    else:
        res["outcome"] = "infra"
        res["error"] = c.stderr[-400:]
    return res


def main(argv):
    n, seed, jobs = 30, 1, 10
    props = []
    i = 0
    while i < len(argv):
        if argv[i] == "--n":
            n = int(argv[i + 1]); i += 2
        elif argv[i] == "--seed":
            seed = int(argv[i + 1]); i += 2
        elif argv[i] == "--jobs":
            jobs = int(argv[i + 1]); i += 2
        else:
            props.append(argv[i].upper()); i += 1
    os.makedirs(WORK, exist_ok=True)
    os.makedirs(os.path.dirname(OUT), exist_ok=True)
    muts = []
    for pid in props:
        ms, nf, no = make_mutants(pid, n, seed)
        print(f"{pid}: {nf} candidate mutants in the mechanism ranges, {no} elsewhere in the anchored files; {len(ms)} drawn", flush=True)
        muts += ms
    random.Random(seed).shuffle(muts)

    def worker(slot):
        rs = []
        for k, m in enumerate(muts):
            if k % jobs != slot:
                continue
            r = run_one(m, slot)
            rs.append(r)
            with open(OUT, "a") as f:
                f.write(json.dumps(r) + "\n")
            print(f"{r['id']:16s} {r['outcome']:10s} {r['file'].split('/')[-1]}:{r['line']} {r['kind']}", flush=True)
        return rs

    results = []
    with ThreadPoolExecutor(jobs) as ex:
        for rs in ex.map(worker, range(jobs)):
            results += rs
    for slot in range(jobs):
        sh(["git", "-C", REPO, "worktree", "remove", "--force", os.path.join(WORK, f"wt{slot}")])
    shutil.rmtree(WORK, ignore_errors=True)
    tally = {}
    for r in results:
        tally.setdefault(r["property"], {}).setdefault(r["outcome"], 0)
        tally[r["property"]][r["outcome"]] += 1
    for p in sorted(tally):
        print(p, tally[p])
    return 0


if __name__ == "__main__":
    sys.exit(main(sys.argv[1:]))
