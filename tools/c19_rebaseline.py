#!/venv/bin/python
"""
Re-baseline the reviewed hidden-state inventory of property C19 after the source of /repo changed.

  tools/c19_rebaseline.py            show what differs between the inventory of the source as it is now
                                     (tools/scan_state.py) and the reviewed list in lean/DmrVerif/Props/C19.lean
  tools/c19_rebaseline.py --write    rewrite the `def reviewed` block of Props/C19.lean from the current scan; the
                                     review remarks (`-- ...` lines in front of a row) are kept for rows whose
                                     (file, qualified name, kind) still exists; rows that are new or whose detail
                                     changed get a `-- REVIEW:` remark that a human has to replace by a judgement.
Afterwards: /venv/bin/python tools/update_baseline.py  and  harness/check.py C19 --tier quick.
A check never calls this tool: a changed inventory must be looked at by a person.
"""
import importlib.util
import os
import re
import sys

HERE = os.path.dirname(os.path.abspath(__file__))
PROPS = os.path.join(HERE, "..", "lean", "DmrVerif", "Props", "C19.lean")
ROW = re.compile(r'^\s*\("((?:[^"\\]|\\.)*)", "((?:[^"\\]|\\.)*)", "((?:[^"\\]|\\.)*)", "((?:[^"\\]|\\.)*)"\),?\s*$')


def lstr(s):
    return '"' + s.replace("\\", "\\\\").replace('"', '\\"') + '"'


def unl(s):
    return s.replace('\\"', '"').replace("\\\\", "\\")


def main():
    spec = importlib.util.spec_from_file_location("scan_state", os.path.join(HERE, "scan_state.py"))
    mod = importlib.util.module_from_spec(spec)
    spec.loader.exec_module(mod)
    rows = [tuple(r) for r in mod.scan()]
    src = open(PROPS, encoding="utf-8").read()
    start = src.index("def reviewed : List (String × String × String × String) := [\n") + len("def reviewed : List (String × String × String × String) := [\n")
    end = src.index("]\n", start)
    old_rows, remarks, pending = [], {}, []
    for line in src[start:end].splitlines():
        m = ROW.match(line)
        if m:
            r = tuple(unl(x) for x in m.groups())
            old_rows.append(r)
            if pending:
                remarks[r[:3]] = (r[3], pending)
            pending = []
        elif line.strip().startswith("--"):
            pending.append(line.rstrip())
    new, gone = [r for r in rows if r not in old_rows], [r for r in old_rows if r not in rows]
    for r in new:
        print("NEW  ", " | ".join(r))
    for r in gone:
        print("GONE ", " | ".join(r))
    if not new and not gone:
        print(f"inventory equals the reviewed list ({len(rows)} items)" + ("" if rows == old_rows else " but the order differs"))
    if "--write" in sys.argv:
        out = []
        for i, r in enumerate(rows):
            rem = remarks.get(r[:3])
            if r in new:
                if rem:
                    out += rem[1]
                out.append("  -- REVIEW: new or changed item, judge it and replace this remark" + (f" (detail was: {rem[0]})" if rem else ""))
            elif rem:
                out += rem[1]
            out.append("  (" + ", ".join(lstr(x) for x in r) + ")" + ("," if i < len(rows) - 1 else ""))
        with open(PROPS, "w", encoding="utf-8") as f:
            f.write(src[:start] + "\n".join(out) + src[end:])
        print("Props/C19.lean rewritten; review the rows marked REVIEW, then run tools/update_baseline.py and the check")
    return 1 if (new or gone) else 0


if __name__ == "__main__":
    sys.exit(main())
