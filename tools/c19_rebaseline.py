#!/venv/bin/python
"""
Re-baseline the reviewed hidden-state inventory of property C19 after the source of /repo changed.

  tools/c19_rebaseline.py            show what differs between the inventory of the source as it is now
                                     (tools/scan_state.py) and the reviewed list in lean/DmrVerif/Props/C19.lean
  tools/c19_rebaseline.py --write    rewrite the `def reviewed` block of Props/C19.lean from the current scan; the
                                     review remarks (`-- ...` lines in front of a row) are kept for rows whose
                                     (file, qualified name, kind) still exists; rows that are new or whose detail
                                     changed get a `-- REVIEW:` remark that a human has to replace by a judgement.
  tools/c19_rebaseline.py --aliases [--write]
                                     the construction probe's reviewed list harness/props/c19.aliases.json: every piece of sharing
                                     between a constructed object and library-held state / a second instance / the caller's argument
                                     that the probe (harness/props/c19_graph.py) finds on the tree as it is now.  Without --write:
                                     what is new / gone.  With --write: the file is rewritten; remarks of entries that still exist are
                                     kept, new entries get a remark starting with "REVIEW" - such an entry suppresses nothing until a
                                     person has replaced the remark by a judgement.
Afterwards: /venv/bin/python tools/update_baseline.py  and  harness/check.py C19 --tier quick.
A check never calls this tool: a changed inventory must be looked at by a person.
"""
import importlib.util
import os
import re
import sys

HERE = os.path.dirname(os.path.abspath(__file__))
PROPS = os.path.join(HERE, "..", "lean", "DmrVerif", "Props", "C19.lean")
ROW = re.compile(r'^\s*\("((?:[^"\\]|\\.)*)", "((?:[^"\\]|\\.)*)", "((?:[^"\\]|\\.)*)", "((?:[^"\\]|\\.)*)"\),?\s*$')


def lstr(s):
    return '"' + s.replace("\\", "\\\\").replace('"', '\\"') + '"'


def unl(s):
    return s.replace('\\"', '"').replace("\\\\", "\\")


def aliases(write):
    import json

    sys.path.insert(0, os.path.join(HERE, "..", "harness"))
    from props import c19

    _lst, results = c19.construction_results(thorough=True, ncpu=8, seed=0)
    found = {}
    for _t, res in results:
        for f in (res or {}).get("findings") or []:
            for k in c19.construction_keys(res, f):
                found.setdefault(k, res["call"])
    old = {c19.alias_key(e): e for e in c19.ALIASES}
    for k in sorted(found):
        if k not in old:
            print("NEW  ", " | ".join(k), "   e.g.", found[k][:100])
    for k in sorted(old):
        if k not in found:
            print("GONE ", " | ".join(k))
    if set(found) == set(old):
        print(f"the sharing found equals the reviewed list ({len(old)} entries)")
    if write:
        out = []
        for k in sorted(found):
            e = old.get(k) or {"cls": k[0], "via": k[1], "path": k[2], "with": k[3], "label": k[4], "remark": "REVIEW: new, judge it and replace this remark"}
            out.append(e)
        try:  # read the hand-kept block BEFORE the file is truncated
            keep_roots = json.load(open(c19.ALIASES_FILE)).get("reviewed_result_roots", [])
        except Exception:  # noqa
            keep_roots = []
        with open(c19.ALIASES_FILE, "w") as f:
            json.dump({"reviewed_result_roots": keep_roots, "note": "`reviewed_result_roots` (label prefixes of library-held objects that results of catalogued calls may reference) is kept by hand; reviewed sharing between constructed objects and library state / other instances / the caller's arguments on the unchanged tree; "
                               "regenerate with tools/c19_rebaseline.py --aliases --write; an entry whose remark starts with REVIEW suppresses nothing",
                       "reviewed": out}, f, indent=1)
            f.write("\n")
        print(f"{c19.ALIASES_FILE} rewritten ({len(out)} entries)")
    return 1 if set(found) != set(old) else 0


def main():
    if "--aliases" in sys.argv:
        return aliases("--write" in sys.argv)
    spec = importlib.util.spec_from_file_location("scan_state", os.path.join(HERE, "scan_state.py"))
    mod = importlib.util.module_from_spec(spec)
    spec.loader.exec_module(mod)
    rows = [tuple(r) for r in mod.scan()]
    src = open(PROPS, encoding="utf-8").read()
    start = src.index("def reviewed : List (String × String × String × String) := [\n") + len("def reviewed : List (String × String × String × String) := [\n")
    end = src.index("]\n", start)
    old_rows, remarks, pending = [], {}, []
    for line in src[start:end].splitlines():
        m = ROW.match(line)
        if m:
            r = tuple(unl(x) for x in m.groups())
            old_rows.append(r)
            if pending:
                remarks[r[:3]] = (r[3], pending)
            pending = []
        elif line.strip().startswith("--"):
            pending.append(line.rstrip())
    new, gone = [r for r in rows if r not in old_rows], [r for r in old_rows if r not in rows]
    for r in new:
        print("NEW  ", " | ".join(r))
    for r in gone:
        print("GONE ", " | ".join(r))
    if not new and not gone:
        print(f"inventory equals the reviewed list ({len(rows)} items)" + ("" if rows == old_rows else " but the order differs"))
    if "--write" in sys.argv:
        out = []
        for i, r in enumerate(rows):
            rem = remarks.get(r[:3])
            if r in new:
                if rem:
                    out += rem[1]
                out.append("  -- REVIEW: new or changed item, judge it and replace this remark" + (f" (detail was: {rem[0]})" if rem else ""))
            elif rem:
                out += rem[1]
            out.append("  (" + ", ".join(lstr(x) for x in r) + ")" + ("," if i < len(rows) - 1 else ""))
        with open(PROPS, "w", encoding="utf-8") as f:
            f.write(src[:start] + "\n".join(out) + src[end:])
        print("Props/C19.lean rewritten; review the rows marked REVIEW, then run tools/update_baseline.py and the check")
    return 1 if (new or gone) else 0


if __name__ == "__main__":
    sys.exit(main())
