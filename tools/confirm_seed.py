#!/usr/bin/env python3
"""
Confirm a seeded change produced by an independent sub-agent before keeping it:
  confirm_seed.py <ID> <A|B> [src_dir]
In a fresh scratch worktree of /repo's HEAD (under /tmp, removed afterwards): the demonstration passes on
the unchanged tree, the patch applies, the whole existing test suite still passes with it, and the
demonstration fails with it.  Only then is the change copied to /verif/seeded/<ID>-<X>/ with what was
run recorded in meta.json.
"""
import json, os, shutil, subprocess, sys

def sh(cmd, **kw):
    return subprocess.run(cmd, capture_output=True, text=True, **kw)

def main(pid, x, src=None):
    src = src or f"/tmp/seed/out/{pid}/{x}"
    name = f"{pid}-{x}"
    wt = f"/tmp/trial/confirm-{name}"
    os.makedirs("/tmp/trial", exist_ok=True)
    sh(["git", "-C", "/repo", "worktree", "remove", "--force", wt])
    r = sh(["git", "-C", "/repo", "worktree", "add", "--detach", wt, "HEAD"])
    if r.returncode:
        print("worktree failed", r.stderr); return 2
    env = dict(os.environ, PYTHONPATH=wt)
    ran = []
    ok = True
    try:
        demo = os.path.join(src, "demo.py")
        d0 = sh(["/venv/bin/python", demo], cwd=wt, env=env, timeout=900)
        ran.append(f"demo.py on unchanged HEAD {sh(['git','-C','/repo','rev-parse','--short','HEAD']).stdout.strip()}: exit {d0.returncode}")
        ok &= d0.returncode == 0
        a = sh(["git", "-C", wt, "apply", os.path.join(src, "patch.diff")])
        ran.append(f"git apply patch.diff: exit {a.returncode} {a.stderr.strip()[:200]}")
        ok &= a.returncode == 0
        if a.returncode == 0:
            t = sh(["/venv/bin/python", "-m", "pytest", "-q", "-p", "no:cacheprovider", "--timeout=900"], cwd=wt, env=env, timeout=1800)
            tail = t.stdout.strip().splitlines()[-1] if t.stdout.strip() else ""
            ran.append(f"pytest with the change: exit {t.returncode}: {tail}")
            ok &= t.returncode == 0 and "204 passed" in tail
            d1 = sh(["/venv/bin/python", demo], cwd=wt, env=env, timeout=900)
            ran.append(f"demo.py with the change: exit {d1.returncode}: {(d1.stdout + d1.stderr).strip().splitlines()[-1][:300] if (d1.stdout + d1.stderr).strip() else ''}")
            ok &= d1.returncode != 0
    finally:
        sh(["git", "-C", "/repo", "worktree", "remove", "--force", wt])
    for l in ran:
        print("  ", l)
    if not ok:
        print(f"{name}: NOT confirmed"); return 1
    dst = os.path.join(os.path.dirname(os.path.dirname(os.path.abspath(__file__))), "seeded", name)
    os.makedirs(dst, exist_ok=True)
    shutil.copy(os.path.join(src, "patch.diff"), dst)
    shutil.copy(os.path.join(src, "demo.py"), dst)
    try:
        meta = json.load(open(os.path.join(src, "meta.json")))
    except Exception:
        meta = {}
    meta["property"] = pid
    meta["confirmed_by_coordinator"] = ran
    json.dump(meta, open(os.path.join(dst, "meta.json"), "w"), indent=1)
    print(f"{name}: confirmed -> seeded/{name}")
    return 0

if __name__ == "__main__":
    sys.exit(main(*sys.argv[1:]))
