#!/usr/bin/env python3
"""
Trial of the checks against the seeded changes kept under /verif/seeded/<name>/ (patch.diff, demo,
meta.json).  Never touches /repo's working tree: every patch is applied in a scratch git worktree
of /repo under /tmp, and the checks run from a scratch copy of /verif (so generated tables,
evidence and build products of /verif itself are not disturbed) with VERIF_REPO pointing at the
patched worktree.  Results go to seeded/<name>/result.json and a summary is printed.

  run_seeded.py [--tier quick|thorough] [--jobs N] [name ...]        (default: all, quick)
"""
import json
import os
import shutil
import subprocess
import sys
import time
from concurrent.futures import ThreadPoolExecutor

VERIF = os.path.dirname(os.path.dirname(os.path.abspath(__file__)))
SEEDED = os.path.join(VERIF, "seeded")
TRIAL = os.environ.get("VERIF_TRIAL_DIR") or f"/tmp/trial/p{os.getpid()}"  # private per invocation: concurrent runs must not share copies
PY = "/venv/bin/python"


def sh(cmd, **kw):
    return subprocess.run(cmd, capture_output=True, text=True, **kw)


def prepare_copy(slot: int) -> str:
    dst = os.path.join(TRIAL, f"verif{slot}")
    os.makedirs(dst, exist_ok=True)
    sh(["rsync", "-a", "--delete", "--exclude", ".git", "--exclude", "seeded", "--exclude", "replays",
        "--exclude", ".run", VERIF + "/", dst + "/"])
    return dst


def trial(name: str, tier: str, slot: int):
    d = os.path.join(SEEDED, name)
    meta = json.load(open(os.path.join(d, "meta.json")))
    prop = meta["property"]
    wt = os.path.join(TRIAL, f"repo-{name}")
    sh(["git", "-C", "/repo", "worktree", "remove", "--force", wt])
    r = sh(["git", "-C", "/repo", "worktree", "add", "--detach", wt, "HEAD"])
    res = {"name": name, "property": prop, "tier": tier}
    try:
        if r.returncode != 0:
            res["error"] = "worktree: " + r.stderr[-300:]
            return res
        a = sh(["git", "-C", wt, "apply", os.path.join(d, "patch.diff")])
        if a.returncode != 0:
            res["error"] = "patch does not apply: " + a.stderr[-300:]
            return res
        copy = prepare_copy(slot)
        env = dict(os.environ, VERIF_REPO=wt, VERIF_TIER=tier, VERIF_SEED=os.environ.get("VERIF_SEED", "0"))
        t = time.time()
        c = sh([PY, os.path.join(copy, "harness", "check.py"), prop, "--tier", tier], env=env, cwd=copy)
        res["rc"] = c.returncode
        res["wall_s"] = round(time.time() - t, 1)
        res["lines"] = [l for l in c.stdout.splitlines() if l.startswith(("VIOLATION", "KNOWN-FINDING", "["))][:12]
        res["stderr_tail"] = c.stderr[-400:]
        res["detected"] = c.returncode == 1 and any(l.startswith("VIOLATION") for l in c.stdout.splitlines())
        res["with_failing_input"] = res["detected"] and not all(
            l.rstrip().endswith("no-failing-input-found") for l in c.stdout.splitlines() if l.startswith("VIOLATION")
        )
        # keep the first replay file as an example of what was reported
        for l in c.stdout.splitlines():
            if l.startswith("VIOLATION"):
                rp = l.split("replay=")[1].split()[0]
                try:
                    res["replay"] = json.load(open(os.path.join(copy, rp)))
                except Exception:
                    pass
                break
        # the copy's generated tables now reflect the patched tree: restore for the next trial
        return res
    finally:
        sh(["git", "-C", "/repo", "worktree", "remove", "--force", wt])
        with open(os.path.join(d, "result.json"), "w") as f:
            json.dump(res, f, indent=1, default=str)


def main(argv):
    tier = "quick"
    jobs = 1
    names = []
    i = 0
    while i < len(argv):
        if argv[i] == "--tier":
            tier = argv[i + 1]
            i += 2
        elif argv[i] == "--jobs":
            jobs = int(argv[i + 1])
            i += 2
        else:
            names.append(argv[i])
            i += 1
    if not names:
        names = sorted(n for n in os.listdir(SEEDED) if os.path.exists(os.path.join(SEEDED, n, "patch.diff")))
    os.makedirs(TRIAL, exist_ok=True)
    results = []
    # one scratch copy of /verif per job slot; trials of the same slot run one after another
    def work(args):
        k, name = args
        return trial(name, tier, k % jobs)
    if jobs == 1:
        for k, n in enumerate(names):
            results.append(work((k, n)))
    else:
        # names are distributed round-robin over the slots; each slot is served by one thread
        def slot_worker(slot):
            return [trial(n, tier, slot) for k, n in enumerate(names) if k % jobs == slot]
        with ThreadPoolExecutor(jobs) as ex:
            for rs in ex.map(slot_worker, range(jobs)):
                results += rs
    if not os.environ.get("VERIF_TRIAL_DIR"):
        shutil.rmtree(TRIAL, ignore_errors=True)
    for r in sorted(results, key=lambda r: r["name"]):
        print(f"{r['name']:14s} {r['property']} rc={r.get('rc')} detected={r.get('detected')} "
              f"input={r.get('with_failing_input')} {r.get('wall_s','')}s {r.get('error','')}")
    return 0


if __name__ == "__main__":
    sys.exit(main(sys.argv[1:]))
