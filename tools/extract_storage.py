"""Translator plugin for C20: the data members of `Repeater` and the defaults `create_repeater` uses.

Only data are extracted (names and constructor values as the live objects show them); the logic of
the storage is hand-modelled in lean/DmrVerif/Model/Storage.lean and tied by the correspondence run.
"""


def _lval(v) -> str:
    import uuid

    def cps(s):
        return "[" + ", ".join(str(ord(c)) for c in s) + "]"

    if v is None:
        return "Val.none"
    if isinstance(v, bool):
        return f"Val.int {int(v)}"
    if isinstance(v, int):
        return f"Val.int {v}"
    if isinstance(v, str):
        return f"Val.str {cps(v)}"
    if isinstance(v, uuid.UUID):
        return "Val.uuid 0"
    if isinstance(v, tuple) and len(v) == 2 and isinstance(v[0], str) and isinstance(v[1], int) and not isinstance(v[1], bool):
        return f"Val.addr {cps(v[0])} {v[1]}"
    raise ValueError(f"constructor default outside the modelled value alphabet: {v!r}")


@register("Storage")  # noqa: F821 (injected by extract.py)
def gen_storage() -> str:
    import uuid

    from okdmr.dmrlib.storage import ADDRESS_EMPTY
    from okdmr.dmrlib.storage.repeater import Repeater
    from okdmr.dmrlib.storage.repeater_storage import RepeaterStorage

    st = RepeaterStorage()
    probe_addr = ("1", 2)
    r = st.create_repeater(dmr_id=None, address_in=probe_addr)
    assert len(st) == 0, "create_repeater stored the record by itself"
    members = [k for k in vars(r)]
    data = [k for k in members if k != "logger" and not k.startswith("_")]
    other = [k for k in members if k not in data]
    assert isinstance(r.id, uuid.UUID)
    callables = sorted(k for k in dir(Repeater) if not k.startswith("__") and callable(getattr(Repeater, k)))
    out = [HEADER, "import DmrVerif.Model.Storage\n\nnamespace Dmr.Gen.Storage\nopen Dmr.Storage\n"]  # noqa: F821
    out.append("/-- data members assigned by `Repeater.__init__`, in assignment order (without `logger` and the private dict) -/")
    out.append("def memberNames : List String := [" + ", ".join(lstr(k) for k in data) + "]\n")  # noqa: F821
    out.append("/-- the remaining instance members (not patchable in the modelled alphabet) -/")
    out.append("def otherMembers : List String := [" + ", ".join(lstr(k) for k in other) + "]\n")  # noqa: F821
    out.append("/-- methods of `Repeater` (names a patch must not use, assumption A1) -/")
    out.append("def methodNames : List String := [" + ", ".join(lstr(k) for k in callables) + "]\n")  # noqa: F821
    out.append('/-- members of `create_repeater(dmr_id=None, address_in=("1", 2))`; the id (a fresh UUID) is shown as `uuid 0` -/')
    out.append(
        "def createdMembers : List (String × Val) := [\n    "
        + ",\n    ".join(f"({lstr(k)}, {_lval(getattr(r, k))})" for k in data)  # noqa: F821
        + "]\n"
    )
    out.append("/-- `ADDRESS_EMPTY` -/")
    out.append(f"def addressEmpty : Val := {_lval(ADDRESS_EMPTY)}\n")
    # the attribute names the library itself stores: what `read_snmp_values` patches in (the SNMP OIDs) and the
    # STORAGE_ATTR_* constants of the Hytera P2P / RDAC handlers, in definition order, duplicates kept
    from okdmr.dmrlib.hytera.snmp import SNMP
    from okdmr.dmrlib.protocols.hytera.p2p_datagram_protocol import P2PDatagramProtocol
    from okdmr.dmrlib.protocols.hytera.rdac_datagram_protocol import RDACDatagramProtocol

    oids = [v for k, v in vars(SNMP).items() if k.startswith("OID_") and isinstance(v, str)]
    handler = [v for cls in (P2PDatagramProtocol, RDACDatagramProtocol) for k, v in vars(cls).items() if k.startswith("STORAGE_ATTR_") and isinstance(v, str)]
    out.append("/-- attribute names the library stores by itself: `SNMP.OID_*` (patched in by `read_snmp_values`) and the")
    out.append("`STORAGE_ATTR_*` constants of the P2P / RDAC handlers -/")
    out.append("def libraryKeys : List String := [\n    " + ",\n    ".join(lstr(k) for k in oids + handler) + "]\n")  # noqa: F821
    out.append("end Dmr.Gen.Storage\n")
    return "\n".join(out)
