"""
py2lean_bits — extension of tools/py2lean.py to the bit-field PDU code of layer 2 / 3: `bitarray` slices and index reads,
`ba2int` / `int2ba`, `bitarray([...])`, `+`, Enum elements (`E(v)`, `E.Member`, `.value`, translated `from_bits` / `as_bits`),
`isinstance` on parameters of a declared static type, `Optional[...]`, construction of objects of translated classes
(`__init__` is translated like any other function; the object is a generated Lean structure whose fields are `Option T`,
`none` = attribute not assigned yet) and calls of library code that is NOT translated (FEC, CRC calculators), which become
fields of the unit's `Ext` structure — explicit, uninterpreted parameters of every translated definition.

Semantics of every `PyBits.*` operation: `lean/DmrVerif/Model/PyBits.lean`; same SOUNDNESS RULE as py2lean.py.  Nothing of
the library is executed; classes are imported only to locate live objects (functions, Enum member values, which class a name
in a module refers to).  Everything outside the subset raises `Untranslatable`.

Static types added to those of py2lean.py:
    'ba'  -> List Bool   big-endian bitarray (every `bitarray` PARAMETER is assumed to be one)
    'bal' -> List Bool   little-endian container in index order (only made by int2ba(.., endian="little"))
    'bax' -> List Bool   container of statically unknown endianness (join of the two): len / slices / index reads / right
                         operand of `+` only
    ('enum', C) -> Int   member of Enum class C, represented by its (unique, int) value
    ('obj', C)  -> C     object of a translated class (generated structure)
    ('opt', T)  -> Option T
    ('union', A, B) -> Sum A B   a parameter that is called with values of two static types (`Union[A, B]`); the only thing
                         translated on it is the conditional expression `X if isinstance(p, T) else Y`, a `match` that narrows p
A parameter annotated `Union[...]` is MONOMORPHISED: the unit's entry gives the static type the function is translated for
(`params={...}`), `isinstance(p, T)` is then a constant and only the branch that is taken is translated.
"""
import ast
import enum
import importlib
import importlib.util
import inspect
import os
import sys

_HERE = os.path.dirname(os.path.abspath(__file__))


def _load_py2lean():
    spec = importlib.util.spec_from_file_location("py2lean_for_bits", os.path.join(_HERE, "py2lean.py"))
    mod = importlib.util.module_from_spec(spec)
    spec.loader.exec_module(mod)
    return mod


P = _load_py2lean()  # a private copy of the module object: the patches below do not touch the colleague's instance
Untranslatable = P.Untranslatable
Ex = P.Ex
mangle = P.mangle

BA = ("ba", "bal", "bax")
ELEMENT_PACKAGES = ("okdmr.dmrlib.etsi.layer2.elements.", "okdmr.dmrlib.etsi.layer3.elements.")

_base_lean_type = P.lean_type


def lean_type(t) -> str:
    if t in BA:
        return "List Bool"
    if isinstance(t, tuple):
        if t[0] == "enum":
            return "Int"
        if t[0] == "obj":
            return t[1]
        if t[0] == "opt":
            inner = lean_type(t[1])
            return f"Option {inner}" if " " not in inner else f"Option ({inner})"
        if t[0] == "union":
            a, b = lean_type(t[1]), lean_type(t[2])
            par = lambda x: x if " " not in x else f"({x})"  # noqa: E731
            return f"Sum {par(a)} {par(b)}"
    return _base_lean_type(t)


P.lean_type = lean_type
P.EXC.update({"KeyError": '(.other "KeyError")', "NotImplementedError": '(.other "NotImplementedError")'})


def join_types(a, b):
    if a == b:
        return a
    if a in BA and b in BA:
        return "bax"
    return None


def enum_class_ok(cls):
    """an Enum of the element packages whose members can be identified with their int values"""
    if not (inspect.isclass(cls) and issubclass(cls, enum.Enum)):
        return False
    if not cls.__module__.startswith(ELEMENT_PACKAGES):
        return False
    for k in cls.__mro__:
        if k in (enum.Enum, object):
            continue
        if "__eq__" in k.__dict__ or "__hash__" in k.__dict__ or "__new__" in k.__dict__ and k is not cls:
            return False
    vals = [m.value for m in cls]
    return all(type(v) is int and v >= 0 for v in vals) and len(set(vals)) == len(vals)


class BFn(P.Fn):
    """a function / method / constructor of the bit-field subset"""

    def __init__(self, unit, module, qualname, spec=None):
        self.spec = spec or {}
        self.is_init = qualname.endswith(".__init__")
        self.selfname = None
        self.selftype = None
        super().__init__(unit, module, qualname)
        parts = qualname.split(".")
        nm = "init" if self.is_init else mangle(self.name)
        self.lean_name = ".".join(parts[:-1] + [nm]) if len(parts) > 1 else nm
        if "lean_name" in self.spec:
            self.lean_name = self.spec["lean_name"]
        self.mutates_self = False

    def class_type(self, obj):
        if enum_class_ok(obj):
            return ("enum", obj.__name__)
        if inspect.isclass(obj) and obj.__name__ in self.unit.class_names and self.unit.class_names[obj.__name__] is obj:
            return ("obj", obj.__name__)
        return None

    def ann(self, node):
        if node is None:
            return None
        g = self.fn.__globals__
        if isinstance(node, ast.Constant) and isinstance(node.value, str):
            obj = g.get(node.value)
            t = self.class_type(obj)
            if t:
                return t
            self.bad(node, f"annotation `{node.value}`")
        if isinstance(node, ast.Name):
            if node.id == "bitarray":
                import bitarray

                if g.get("bitarray") is bitarray.bitarray:
                    return "ba"
            obj = g.get(node.id)
            t = self.class_type(obj)
            if t:
                return t
        if isinstance(node, ast.Subscript) and isinstance(node.value, ast.Name) and node.value.id == "Optional":
            import typing

            if g.get("Optional") is typing.Optional:
                inner = self.ann(node.slice)
                if isinstance(inner, tuple) and inner[0] == "opt":
                    self.bad(node, "nested Optional")
                return ("opt", inner)
        return super().ann(node)

    def _signature(self):
        a = self.node.args
        if a.vararg or a.kwarg or a.kwonlyargs or a.posonlyargs:
            self.bad(self.node, "parameter kinds other than positional")
        args = list(a.args)
        self.clsparam = None
        if self.kind == "class":
            self.clsparam = args[0].arg
            args = args[1:]
        elif self.kind == "function" and self.clsname is not None:
            # instance method: the first parameter is the object
            self.selfname = args[0].arg
            t = self.class_type(self.owner)
            if t is None:
                self.bad(self.node, f"instance method of `{self.clsname}`, which is neither an element Enum nor a class of this unit")
            self.selftype = t
            args = args[1:]
        over = self.spec.get("params", {})
        defaults = [None] * (len(args) - len(a.defaults)) + list(a.defaults)
        for arg, d in zip(args, defaults):
            if arg.arg in over:
                t = over[arg.arg]
            else:
                t = self.ann(arg.annotation)
            if t is None or t == "str":
                self.bad(arg, f"parameter `{arg.arg}` without a usable annotation")
            dx = None
            if d is not None:
                try:
                    dx = self.const_default(d, t)
                except Untranslatable:
                    if arg.arg not in over:
                        raise
                    dx = None  # the default does not have the type the parameter is translated for: always passed
            self.params.append((arg.arg, t, dx))
        if self.is_init:
            self.ret = ("obj", self.clsname)
        elif "ret" in self.spec:
            self.ret = self.spec["ret"]
        else:
            self.ret = self.ann(self.node.returns)
        if self.ret is None:
            self.bad(self.node, "missing return annotation")

    def const_default(self, d, t):
        """defaults: literals; `None`; an Enum member; `bitarray()` / `bitarray("0101")` (the default object is shared by all
        calls — its VALUE is assumed to be the one written, i.e. nobody mutated it: C19's subject)"""
        g = self.fn.__globals__
        if isinstance(t, tuple) and t[0] == "union":
            for side, tt in ((".inl", t[1]), (".inr", t[2])):
                try:
                    inner = self.const_default(d, tt)
                except Untranslatable:
                    continue
                return Ex(f"({side} {inner.text})", t)
            self.bad(d, "default value of a Union parameter")
        if isinstance(t, tuple) and t[0] == "opt":
            if isinstance(d, ast.Constant) and d.value is None:
                return Ex("none", t)
            inner = self.const_default(d, t[1])
            return Ex(f"(some {inner.text})", t)
        if isinstance(t, tuple) and t[0] == "enum":
            if isinstance(d, ast.Attribute) and isinstance(d.value, ast.Name):
                cls = g.get(d.value.id)
                if enum_class_ok(cls) and cls.__name__ == t[1] and d.attr in cls.__members__:
                    return Ex(P.lit_int(cls[d.attr].value), t)
            self.bad(d, "default value of an Enum parameter")
        if t == "ba":
            if isinstance(d, ast.Call) and isinstance(d.func, ast.Name) and d.func.id == "bitarray" and not d.keywords:
                if not d.args:
                    return Ex("[]", "ba")
                if len(d.args) == 1 and isinstance(d.args[0], ast.Constant) and isinstance(d.args[0].value, str) \
                        and set(d.args[0].value) <= {"0", "1"}:
                    return Ex("[" + ", ".join("true" if c == "1" else "false" for c in d.args[0].value) + "]", "ba")
            self.bad(d, "default value of a bitarray parameter")
        if t == "bool" and isinstance(d, ast.Constant) and type(d.value) is int and d.value in (0, 1) and False:
            pass
        if t == "int" and isinstance(d, ast.Constant) and type(d.value) is bool:
            return Ex("1" if d.value else "0", "int")
        return super().const_default(d, t)


class BTranslator(P.Translator):
    # ================================================================ helpers
    def glob(self, name):
        if name in self.f.fn.__code__.co_varnames:
            return None
        return self.f.fn.__globals__.get(name)

    def is_real(self, name, modname, attr):
        obj = self.glob(name)
        if obj is None:
            return False
        mod = importlib.import_module(modname)
        return obj is getattr(mod, attr)

    def attr_type(self, base_text, cls, attr, env, node):
        t = env.get(f"{base_text}.{attr}")
        if t is not None:
            return t
        tab = self.u.classes[cls]["attrs"]
        if attr not in tab:
            self.f.bad(node, f"attribute `{attr}` of {cls} is not assigned in its __init__")
        return tab[attr]

    def isinstance_of(self, t, c, n):
        """isinstance(<value of static type t>, <class named by the Name node c>) as a constant"""
        if isinstance(t, tuple) and t[0] in ("opt", "union"):
            self.f.bad(n, f"isinstance of a {t[0]} value")
        if c.id in ("int", "bool", "bytes") and self.glob(c.id) is None:
            if c.id == "int":
                return t in ("int", "bool")  # bool is a subclass of int; Enum classes of the subset are not IntEnum
            return t == c.id
        if c.id == "bitarray" and self.is_real("bitarray", "bitarray", "bitarray"):
            return t in BA
        obj = self.glob(c.id)
        ct = self.f.class_type(obj)
        if ct is not None:
            if isinstance(t, tuple) and t[0] in ("enum", "obj"):
                if t == ct:
                    return True
                # another class of the subset: no subclassing among them is assumed, so check it
                other = self.u.pyclass(t)
                if other is not None and not issubclass(other, obj):
                    return False
                self.f.bad(n, "isinstance between related classes")
            return False  # int / bool / bytes / bitarray value against a class of the subset (no IntEnum: checked)
        self.f.bad(n, f"isinstance with `{c.id}`")

    def is_isinstance(self, n):
        return isinstance(n, ast.Call) and isinstance(n.func, ast.Name) and n.func.id == "isinstance" and len(n.args) == 2 \
            and not n.keywords and self.glob("isinstance") is None

    def static_test(self, n, env):
        """True / False if the test is decided by the static types (isinstance on a typed name), else None"""
        if self.is_isinstance(n):
            x = self.expr(n.args[0], env)
            if self.has_effects(x):
                self.f.bad(n, "isinstance of an expression with effects")
            c = n.args[1]
            if not isinstance(c, ast.Name):
                self.f.bad(n, "isinstance with a class that is not a plain name")
            if isinstance(x.typ, tuple) and x.typ[0] == "union":
                return None
            return self.isinstance_of(x.typ, c, n)
        if isinstance(n, ast.UnaryOp) and isinstance(n.op, ast.Not):
            v = self.static_test(n.operand, env)
            return None if v is None else (not v)
        return None

    def unwrap(self, x: Ex) -> Ex:
        if isinstance(x.typ, tuple) and x.typ[0] == "opt":
            return Ex(f"PyBits.unwrap {x.val()}", x.typ[1], True)
        return x

    def coerce(self, x: Ex, want, n, what):
        if x.typ == want:
            return x
        if want == "int" and x.typ == "bool":
            return Ex(self.int_of(x, n), "int")
        if isinstance(want, tuple) and want[0] == "opt":
            if x.typ == "none":
                return Ex("none", want)
            inner = self.coerce(x, want[1], n, what)
            return Ex(f"(some {inner.val()})", want)
        if want == "bax" and x.typ in BA:
            return Ex(x.text, "bax", x.monadic)
        if isinstance(want, tuple) and want[0] == "union":
            for side, tt in (("Sum.inl", want[1]), ("Sum.inr", want[2])):
                if x.typ == tt or (tt == "int" and x.typ == "bool"):
                    inner = self.coerce(x, tt, n, what)
                    return Ex(f"({side} {inner.val()})", want)
        self.f.bad(n, f"{what}: {x.typ} for {want}")

    # ================================================================ expressions
    def truthy(self, e, n):
        if e.typ in BA:
            return f"(!({e.val()}).isEmpty)"
        return super().truthy(e, n)

    def e_Attribute(self, n, env):
        if isinstance(n.value, ast.Name):
            cls = self.glob(n.value.id)
            if n.value.id not in env and enum_class_ok(cls):
                if n.attr in cls.__members__:
                    m = cls.__members__[n.attr]
                    return Ex(f"({m.value} : Int)", ("enum", cls.__name__))
        # attribute of a value
        is_value = not (isinstance(n.value, ast.Name) and n.value.id not in env)
        if is_value:
            v = self.unwrap(self.expr(n.value, env))
            if isinstance(v.typ, tuple) and v.typ[0] == "enum" and n.attr == "value":
                return Ex(v.text, "int", v.monadic)
            if isinstance(v.typ, tuple) and v.typ[0] == "obj":
                base_text = n.value.id if isinstance(n.value, ast.Name) else "?"
                t = self.attr_type(base_text, v.typ[1], n.attr, env, n)
                return Ex(f"PyBits.attr {v.val()}.{mangle(n.attr)}", t, True)
            self.f.bad(n, f"attribute `{n.attr}` of a {v.typ}")
        return super().e_Attribute(n, env)

    def e_IfExp(self, n, env):
        st = self.static_test(n.test, env)
        if st is not None:
            return self.expr(n.body if st else n.orelse, env)
        t = n.test
        if self.is_isinstance(t) and isinstance(t.args[0], ast.Name) and isinstance(t.args[1], ast.Name):
            nm = t.args[0].id
            ut = env.get(nm)
            if isinstance(ut, tuple) and ut[0] == "union":
                # `X if isinstance(p, T) else Y` on a Union parameter: a match that narrows p in both arms
                arms = []
                typ = None
                for side, tt in ((".inl", ut[1]), (".inr", ut[2])):
                    env2 = dict(env)
                    env2[nm] = tt
                    e = self.expr(n.body if self.isinstance_of(tt, t.args[1], n) else n.orelse, env2)
                    if typ is None:
                        typ = e.typ
                    elif e.typ != typ:
                        self.f.bad(n, f"conditional expression of {typ} / {e.typ}")
                    arms.append(f"| {side} {mangle(nm)} => {self.branch(e)}")
                lt = lean_type(typ)
                lt = lt if " " not in lt else f"({lt})"
                return Ex(f"(match {mangle(nm)} with {' '.join(arms)} : PyM {lt})", typ, True)
        return super().e_IfExp(n, env)

    def e_BinOp(self, n, env):
        if isinstance(n.op, ast.Add):
            a = self.expr(n.left, env)
            b = self.expr(n.right, env)
            if a.typ in BA and isinstance(b.typ, tuple) and b.typ[0] == "opt" and b.typ[1] in BA:
                # bitarray + None is a TypeError, raised after the right operand was evaluated and before anything further right
                b = Ex(f"PyBits.unwrapT {b.val()}", b.typ[1], True)
            if a.typ in BA and b.typ in BA:
                # the result has the endianness of the LEFT operand, the bits of both in index order
                return Ex(f"({a.val()} ++ {b.val()})", a.typ)
            return self.binop_with(n, a, b, env)
        if isinstance(n.op, ast.Mult):
            a = self.expr(n.left, env)
            b = self.expr(n.right, env)
            if a.typ == "ilist" and b.typ in ("int", "bool"):
                return Ex(f"(PyBits.listMul {a.val()} {self.int_of(b, n)})", "ilist")
            return self.binop_with(n, a, b, env)
        return super().e_BinOp(n, env)

    def binop_with(self, n, a, b, env):
        # re-dispatch to the base operator code without translating the operands a second time
        saved = self.expr
        it = iter([a, b])
        self.expr = lambda node, e: next(it)
        try:
            return P.Translator.e_BinOp(self, n, env)
        finally:
            self.expr = saved

    def e_Compare(self, n, env):
        if len(n.ops) == 1 and isinstance(n.ops[0], (ast.In, ast.NotIn)) and isinstance(n.comparators[0], ast.Tuple):
            x = self.expr(n.left, env)
            if x.typ not in ("int", "bool"):
                self.f.bad(n, f"`in` with a {x.typ} on the left")
            parts = []
            for c in n.comparators[0].elts:
                if not (isinstance(c, ast.Constant) and type(c.value) in (int, bool)):
                    self.f.bad(n, "`in` with something else than int / bool literals")
                parts.append(f"({self.int_of(x, n)} == {int(c.value)})")
            txt = "(" + " || ".join(parts) + ")"
            if isinstance(n.ops[0], ast.NotIn):
                txt = f"(!{txt})"
            return Ex(txt, "bool")
        if len(n.ops) == 1 and isinstance(n.ops[0], (ast.Eq, ast.NotEq)):
            a = self.expr(n.left, env)
            b = self.expr(n.comparators[0], env)
            sym = "==" if isinstance(n.ops[0], ast.Eq) else "!="
            if a.typ in BA and b.typ in BA:
                return Ex(f"({a.val()} {sym} {b.val()})", "bool")  # bitarray equality ignores the endianness
            if isinstance(a.typ, tuple) and a.typ[0] == "opt" and isinstance(a.typ[1], tuple) and a.typ[1][0] == "enum" \
                    and b.typ == a.typ[1]:
                # None == Member is False
                return Ex(f"({a.val()} {sym} some {b.val()})", "bool")
            if isinstance(a.typ, tuple) and a.typ[0] == "enum":
                if a.typ != b.typ:
                    self.f.bad(n, f"comparison of {a.typ} with {b.typ}")
                return Ex(f"({a.val()} {sym} {b.val()})", "bool")
            saved = self.expr
            it = iter([a, b])
            self.expr = lambda node, e: next(it)
            try:
                return P.Translator.e_Compare(self, n, env)
            finally:
                self.expr = saved
        return super().e_Compare(n, env)

    def e_Subscript(self, n, env):
        sl = n.slice
        # only look at the value's type; everything that is not a bitarray goes to the base translator
        v = self.expr(n.value, env)
        if v.typ not in BA:
            saved = self.expr
            first = [True]

            def once(node, e):
                if first[0] and node is n.value:
                    first[0] = False
                    return v
                return saved(node, e)

            self.expr = once
            try:
                return P.Translator.e_Subscript(self, n, env)
            finally:
                self.expr = saved
        if isinstance(sl, ast.Slice):
            if sl.step is not None:
                if (sl.lower is None and sl.upper is None and isinstance(sl.step, ast.UnaryOp)
                        and isinstance(sl.step.op, ast.USub) and isinstance(sl.step.operand, ast.Constant)
                        and sl.step.operand.value == 1):
                    return Ex(f"(Py.rev {v.val()})", v.typ)
                self.f.bad(n, "slice step other than [::-1]")
            return Ex(f"(Py.slice {v.val()} {self.opt(sl.lower, env)} {self.opt(sl.upper, env)})", v.typ)
        i = self.int_of(self.expr(sl, env), n)
        return Ex(f"PyBits.getBit {v.val()} {i}", "int", True)

    def e_JoinedStr(self, n, env):
        self.f.bad(n, "f-string outside a message")

    def call_args(self, n, callee, env, start=0):
        """arguments of a call of a translated function, as Lean NAMED arguments in SOURCE order (that is the order in which
        CPython evaluates them, and do-notation lifts the nested actions in textual order)"""
        names = [p[0] for p in callee.params]
        got = self.kwargs(n, names, env, start)
        order = [a for a in n.args[start:]] + [k.value for k in n.keywords]
        by_node = {id(v): k for k, v in got.items()}
        ptypes = {p[0]: p[1] for p in callee.params}
        out = []
        for node in order:
            pname = by_node[id(node)]
            x = self.coerce(self.expr(node, env), ptypes[pname], n, f"argument `{pname}` of {callee.qualname}")
            out.append(f"({mangle(pname)} := {x.val()})")
        for pname, ptyp, pdef in callee.params:
            if pname not in got and pdef is None:
                self.f.bad(n, f"missing argument `{pname}` of {callee.qualname}")
        return out

    def call_translated(self, n, callee, env, selfarg=None):
        args = self.call_args(n, callee, env)
        head = [callee.lean_name, "ext"]
        if selfarg is not None:
            if callee.mutates_self:
                self.f.bad(n, f"call of `{callee.qualname}`, which assigns attributes of its object, inside an expression")
            head.append(selfarg)
        return Ex(" ".join(head + args), callee.ret, True)

    def e_Call(self, n, env):
        fn = n.func
        if isinstance(fn, ast.Name) and fn.id not in env:
            name = fn.id
            if name == "isinstance":
                st = self.static_test(n, env)
                return Ex("true" if st else "false", "bool")
            if name == "len" and len(n.args) == 1 and not n.keywords:
                x = self.expr(n.args[0], env)
                if x.typ in BA:
                    return Ex(f"(Py.len {x.val()})", "int")
                return Ex(f"(Py.len {x.val()})", "int") if x.typ in ("bytes", "ilist", "nats", "bits") else self.f.bad(n, f"len of {x.typ}")
            if name == "ba2int" and self.is_real("ba2int", "bitarray.util", "ba2int"):
                if len(n.args) != 1 or n.keywords:
                    self.f.bad(n, "ba2int with other arguments than the bitarray (signed=… is not translated)")
                x = self.expr(n.args[0], env)
                if x.typ == "ba":
                    return Ex(f"PyBits.ba2int {x.val()}", "int", True)
                if x.typ == "bal":
                    return Ex(f"PyBits.ba2intLE {x.val()}", "int", True)
                self.f.bad(n, f"ba2int of {x.typ} (the endianness of the container is not known statically)")
            if name == "int2ba" and self.is_real("int2ba", "bitarray.util", "int2ba"):
                kw = self.kwargs(n, ["i", "length", "endian", "signed"], env)
                if "signed" in kw or "length" not in kw or "i" not in kw:
                    self.f.bad(n, "int2ba without length= / with signed=")
                x = self.int_of(self.expr(kw["i"], env), n)
                ln = self.int_of(self.expr(kw["length"], env), n)
                little = False
                if "endian" in kw:
                    e = kw["endian"]
                    if not (isinstance(e, ast.Constant) and e.value in ("big", "little")):
                        self.f.bad(n, "int2ba(endian=…) that is not a literal")
                    little = e.value == "little"
                if little:
                    return Ex(f"PyBits.int2baLE {x} {ln}", "bal", True)
                return Ex(f"PyBits.int2ba {x} {ln}", "ba", True)
            if name == "bitarray" and self.is_real("bitarray", "bitarray", "bitarray"):
                return self.bitarray_call(n, env)
            obj = self.glob(name)
            if enum_class_ok(obj):
                if len(n.args) != 1 or n.keywords:
                    self.f.bad(n, "Enum call with other arguments than the value")
                x = self.expr(n.args[0], env)
                if x.typ not in ("int", "bool"):
                    self.f.bad(n, f"Enum call on a {x.typ}")
                return Ex(f"PyBits.enumCall Dmr.Gen.e{obj.__name__} {self.int_of(x, n)}", ("enum", obj.__name__), True)
            if inspect.isclass(obj) and self.u.class_names.get(obj.__name__) is obj:
                init = self.u.find(obj, "__init__", n, self.f)
                args = self.call_args(n, init, env)
                return Ex(" ".join([init.lean_name, "ext"] + args), ("obj", obj.__name__), True)
            ext = self.u.external(self.f, name, obj)
            if ext is not None:
                return self.call_external(n, ext, env)
            for g in self.u.fns:
                if obj is not None and g.fn is obj and g.clsname is None:
                    return self.call_translated(n, g, env)
        if isinstance(fn, ast.Attribute):
            # Class.function(...)
            if isinstance(fn.value, ast.Name) and fn.value.id not in env:
                obj = self.glob(fn.value.id)
                key = f"{fn.value.id}.{fn.attr}"
                if inspect.isclass(obj):
                    ext = self.u.external(self.f, key, getattr(obj, fn.attr, None))
                    if ext is not None:
                        return self.call_external(n, ext, env)
                    callee = self.u.find(obj, fn.attr, n, self.f, required=False)
                    if callee is not None:
                        if callee.selfname is not None:
                            self.f.bad(n, "instance method called through the class")
                        return self.call_translated(n, callee, env)
            else:
                # value.method(...)
                v = self.unwrap(self.expr(fn.value, env))
                if v.typ in BA and fn.attr == "tobytes" and not n.args and not n.keywords:
                    if v.typ != "ba":
                        self.f.bad(n, "tobytes of a container whose endianness is not big")
                    return Ex(f"(PyBits.tobytes {v.val()})", "bytes")
                if isinstance(v.typ, tuple) and v.typ[0] in ("enum", "obj"):
                    cls = self.u.pyclass(v.typ)
                    callee = self.u.find(cls, fn.attr, n, self.f)
                    if callee.selfname is None:
                        self.f.bad(n, "static method called through a value")
                    return self.call_translated(n, callee, env, selfarg=v.val())
                self.f.bad(n, f"method `{fn.attr}` of a {v.typ}")
        return super().e_Call(n, env)

    def call_external(self, n, ext, env):
        if n.keywords or len(n.args) != len(ext["params"]):
            self.f.bad(n, f"call of the external `{ext['key']}` with other than its {len(ext['params'])} positional arguments")
        args = []
        for a, t in zip(n.args, ext["params"]):
            x = self.coerce(self.expr(a, env), t, n, f"argument of external `{ext['key']}`")
            args.append(x.val())
        return Ex(" ".join([f"ext.{ext['field']}"] + args), ext["ret"], True)

    def bitarray_call(self, n, env):
        kw = {k.arg: k.value for k in n.keywords}
        if set(kw) - {"endian"}:
            self.f.bad(n, "bitarray(…) keyword")
        if "endian" in kw and not (isinstance(kw["endian"], ast.Constant) and kw["endian"].value == "big"):
            self.f.bad(n, "bitarray(endian=…) other than the literal 'big'")
        if not n.args:
            return Ex("[]", "ba")
        if len(n.args) != 1:
            self.f.bad(n, "bitarray(…) arguments")
        a = n.args[0]
        if isinstance(a, ast.List):
            items = [self.expr(e, env) for e in a.elts]
            if all(x.typ == "bool" for x in items):
                return Ex("[" + ", ".join(x.val() for x in items) + "]", "ba")
            if all(x.typ in ("bool", "int") for x in items):
                return Ex("PyBits.baOfInts [" + ", ".join(self.int_of(x, n) for x in items) + "]", "ba", True)
            self.f.bad(n, "bitarray([…]) of something else than ints / bools")
        x = self.expr(a, env)
        if x.typ == "ilist":
            return Ex(f"PyBits.baOfInts {x.val()}", "ba", True)
        if x.typ in BA:
            # bitarray(other[, endian="big"]): a copy with the same bits in index order
            if "endian" in kw or x.typ == "ba":
                return Ex(x.text, "ba", x.monadic)
            return Ex(x.text, x.typ, x.monadic)
        self.f.bad(n, f"bitarray({x.typ})")

    # ================================================================ statements
    def stores(self, stmts):
        out = super().stores(stmts)

        def walk(s):
            for t in (s.targets if isinstance(s, ast.Assign) else [s.target] if isinstance(s, (ast.AnnAssign, ast.AugAssign)) else []):
                if isinstance(t, ast.Attribute) and isinstance(t.value, ast.Name) and t.value.id not in out:
                    out.append(t.value.id)
            if isinstance(s, (ast.If, ast.For, ast.While)):
                for b in s.body + s.orelse:
                    walk(b)

        for s in stmts:
            walk(s)
        return out

    def message_ok(self, m):
        if m is None:
            return
        for x in ast.walk(m):
            if isinstance(x, ast.Call):
                f = x.func
                ok = isinstance(f, ast.Name) and f.id in ("len", "repr", "str", "hex", "bits_to_bytes") or \
                    isinstance(f, ast.Attribute) and f.attr in ("hex", "to01") and not x.args
                if not ok:
                    self.f.bad(m, "call inside a message")
            if isinstance(x, (ast.Subscript, ast.BinOp, ast.Await, ast.Yield, ast.NamedExpr)):
                self.f.bad(m, "computation inside a message")

    def attr_store(self, s, target, value_node, env, ind):
        pad = "  " * ind
        if not isinstance(target.value, ast.Name) or target.value.id not in env:
            self.f.bad(s, "attribute assignment target")
        base = target.value.id
        bt = env[base]
        if not (isinstance(bt, tuple) and bt[0] == "obj"):
            self.f.bad(s, f"attribute assignment on a {bt}")
        if base in [p[0] for p in self.f.params]:
            self.f.bad(s, f"attribute of the parameter `{base}` is assigned (visible to the caller)")
        if base == self.f.selfname and not self.f.is_init:
            self.f.mutates_self = True
        x = self.expr(value_node, env)
        if x.typ == "none":
            self.f.bad(s, "attribute assigned None without a declared Optional type")
        cls = bt[1]
        tab = self.u.classes[cls]["attrs"]
        if target.attr in tab:
            j = join_types(tab[target.attr], x.typ)
            if j is None:
                # an Optional attribute assigned a plain value / an int attribute assigned a bool
                x = self.coerce(x, tab[target.attr], s, f"attribute `{target.attr}`")
                j = tab[target.attr]
            tab[target.attr] = j
        else:
            if not self.f.is_init or base != self.f.selfname:
                self.f.bad(s, f"attribute `{target.attr}` is created outside __init__")
            tab[target.attr] = x.typ
        env = dict(env)
        env[f"{base}.{target.attr}"] = x.typ
        b = mangle(base)
        return [f"{pad}{b} := {{ {b} with {mangle(target.attr)} := some {x.val()} }}"], env, True

    def s_Assign(self, s, env, ctx, ind):
        if len(s.targets) == 1 and isinstance(s.targets[0], ast.Attribute):
            return self.attr_store(s, s.targets[0], s.value, env, ind)
        if len(s.targets) == 1 and isinstance(s.targets[0], ast.Name):
            self.fresh[s.targets[0].id] = self.is_fresh(s.value)
        return super().s_Assign(s, env, ctx, ind)

    def s_AnnAssign(self, s, env, ctx, ind):
        if s.value is not None and isinstance(s.target, ast.Attribute):
            return self.attr_store(s, s.target, s.value, env, ind)
        if s.value is None or not isinstance(s.target, ast.Name):
            self.f.bad(s, "annotated assignment")
        # the annotation of a local is documentation: the static type is the type of the value
        self.fresh[s.target.id] = self.is_fresh(s.value)
        self.check_alias(s, s.value)
        ls, env = self.declare(s.target.id, self.expr(s.value, env), env, ind, s)
        return ls, env, True

    def is_fresh(self, v):
        """does the expression build a NEW bitarray (so that `+=` on the local cannot be seen through another name)"""
        if isinstance(v, ast.BinOp):
            return True
        if isinstance(v, ast.Call) and isinstance(v.func, ast.Name) and v.func.id in ("int2ba", "bitarray"):
            return True
        if isinstance(v, ast.Subscript) and isinstance(v.slice, ast.Slice):
            return True
        return False

    def s_AugAssign(self, s, env, ctx, ind):
        if isinstance(s.target, ast.Name) and env.get(s.target.id) in BA:
            if not self.fresh.get(s.target.id, False):
                self.f.bad(s, f"in-place += on `{s.target.id}`, which may share its bitarray with another name")
        return super().s_AugAssign(s, env, ctx, ind)

    def s_Expr(self, s, env, ctx, ind):
        v = s.value
        if isinstance(v, ast.Call) and isinstance(v.func, ast.Attribute) and isinstance(v.func.value, ast.Name) \
                and v.func.value.id in env:
            base = v.func.value.id
            bt = env[base]
            if isinstance(bt, tuple) and bt[0] == "obj":
                callee = self.u.find(self.u.pyclass(bt), v.func.attr, s, self.f)
                if callee.selfname is None:
                    self.f.bad(s, "static method called through a value")
                args = self.call_args(v, callee, env)
                pad = "  " * ind
                b = mangle(base)
                if callee.mutates_self:
                    # the method assigns attributes of the object: it answers (object, result); the result is dropped
                    env = {k: t for k, t in env.items() if not k.startswith(base + ".")}
                    return [f"{pad}{b} := (← {' '.join([callee.lean_name, 'ext', b] + args)}).1"], env, True
                return [f"{pad}discard <| {' '.join([callee.lean_name, 'ext', b] + args)}"], env, True
        return super().s_Expr(s, env, ctx, ind)

    def s_Return(self, s, env, ctx, ind):
        if self.f.mutates_self_decl:
            pad = "  " * ind
            me = mangle(self.f.selfname)
            if isinstance(s.value, ast.Name) and s.value.id == self.f.selfname:
                # `return self` of a method that assigns attributes: (object, ()) — the caller keeps ONE name for the object
                return [f"{pad}return ({me}, ())"], env, False
            self.f.bad(s, "a method that assigns attributes of its object must end with `return self`")
        if self.f.is_init:
            if s.value is not None:
                self.f.bad(s, "return with a value in __init__")
            return ["  " * ind + f"return {mangle(self.f.selfname)}"], env, False
        return super().s_Return(s, env, ctx, ind)

    def s_If(self, s, env, ctx, ind):
        st = self.static_test(s.test, env)
        if st is not None:
            body = s.body if st else s.orelse
            if not body:
                return [], env, True
            return self.block(body, env, ctx, ind)
        pad = "  " * ind
        # dry run of both branches: which locals are first assigned in EVERY branch that falls through
        snapshot = (self.tmp, {c: dict(v["attrs"]) for c, v in self.u.classes.items()}, dict(self.fresh))
        _a, enva, fa = self.block(s.body, env, ctx, ind + 1)
        if s.orelse:
            _b, envb, fb = self.block(s.orelse, env, ctx, ind + 1)
        else:
            envb, fb = env, True
        self.tmp = snapshot[0]
        self.fresh = snapshot[2]
        live = [e for e, f in ((enva, fa), (envb, fb)) if f]
        hoist = []
        if live:
            for nm, t in live[0].items():
                if "." in nm or nm in env:
                    continue
                if all(e.get(nm) == t for e in live):
                    hoist.append((nm, t))
        lines = []
        env2 = dict(env)
        for nm, t in hoist:
            lines.append(f"{pad}let mut {mangle(nm)} : {lean_type(t)} := default")
            env2[nm] = t
            self.mutated.add(nm)
        c = self.truthy(self.expr(s.test, env2), s)
        a, enva, fa = self.block(s.body, env2, ctx, ind + 1)
        lines += [f"{pad}if {c} then"] + (a or [f"{pad}  pure ()"])
        fb = True
        envb = env2
        if s.orelse:
            b, envb, fb = self.block(s.orelse, env2, ctx, ind + 1)
            if len(s.orelse) == 1 and isinstance(s.orelse[0], ast.If) and b and b[0].startswith(pad + "  if "):
                b = [l[2:] for l in b]
                lines += [f"{pad}else " + b[0].lstrip()] + b[1:]
            else:
                lines += [f"{pad}else"] + (b or [f"{pad}  pure ()"])
        # attribute types after the statement: join over the branches that fall through
        live = [e for e, f in ((enva, fa), (envb, fb)) if f]
        out = dict(env2)
        keys = {k for e in live for k in e if "." in k} | {k for k in env2 if "." in k}
        for k in keys:
            ts = [e.get(k) for e in live]
            if not live:
                continue
            if any(t is None for t in ts):
                out.pop(k, None)
                continue
            j = ts[0]
            for t in ts[1:]:
                j = join_types(j, t) if j is not None else None
            if j is None:
                out.pop(k, None)
            else:
                out[k] = j
        return lines, out, (fa or fb)

    # ================================================================ function
    def function(self) -> str:
        f = self.f
        body = f.node.body
        counts = {}

        def count(stmts, weight):
            for st in stmts:
                if isinstance(st, (ast.For, ast.While, ast.If)):
                    if isinstance(st, ast.For):
                        for x in self.stores([ast.Assign(targets=[st.target], value=ast.Constant(value=0))]):
                            counts[x] = counts.get(x, 0) + weight
                    count(st.body, weight)
                    count(st.orelse, weight)
                else:
                    for x in self.stores([st]):
                        counts[x] = counts.get(x, 0) + weight

        count(body, 1)
        pnames = [p[0] for p in f.params]
        self.mutated = {x for x, c in counts.items() if c > 1 or x in pnames}
        # a local object whose attributes are assigned is state threaded through its one name
        for nd in ast.walk(f.node):
            if isinstance(nd, ast.Attribute) and isinstance(nd.ctx, ast.Store) and isinstance(nd.value, ast.Name):
                self.mutated.add(nd.value.id)
        self.locals_only = {x for x in counts if x not in pnames}
        self.inplace = set()
        self.fresh = {}
        for nd in ast.walk(f.node):
            if isinstance(nd, ast.Subscript) and isinstance(nd.ctx, ast.Store):
                f.bad(nd, "item assignment")
            if isinstance(nd, ast.Call) and isinstance(nd.func, ast.Attribute) and nd.func.attr in (
                    "pop", "append", "extend", "invert", "reverse", "setall", "frombytes", "insert", "remove", "clear", "sort", "fill", "bytereverse"):
                f.bad(nd, f"in-place method `{nd.func.attr}`")
            if isinstance(nd, (ast.Lambda, ast.FunctionDef, ast.ClassDef, ast.Global, ast.Nonlocal, ast.Try, ast.With,
                               ast.Yield, ast.YieldFrom, ast.Await, ast.NamedExpr, ast.Delete, ast.Import,
                               ast.ImportFrom, ast.For, ast.While)) and nd is not f.node:
                f.bad(nd, type(nd).__name__)
        # does this method assign attributes of its own object?  (decided before the body is translated)
        f.mutates_self_decl = False
        if f.selfname is not None and not f.is_init:
            for nd in ast.walk(f.node):
                if isinstance(nd, ast.Attribute) and isinstance(nd.ctx, ast.Store) and isinstance(nd.value, ast.Name) \
                        and nd.value.id == f.selfname:
                    f.mutates_self_decl = True
        f.mutates_self = f.mutates_self_decl
        env = {}
        sig = ["(ext : Ext)"]
        lines = []
        if f.selfname is not None:
            env[f.selfname] = f.selftype
            me = mangle(f.selfname)
            if f.is_init:
                lines.append(f"  let mut {me} : {lean_type(f.selftype)} := {{}}")
            else:
                sig.append(f"({me} : {lean_type(f.selftype)})")
                if f.mutates_self_decl:
                    lines.append(f"  let mut {me} := {me}")
        for name, typ, dflt in f.params:
            env[name] = typ
            if dflt is not None:
                sig.append(f"({mangle(name)} : {lean_type(typ)} := {dflt.text})")
            else:
                sig.append(f"({mangle(name)} : {lean_type(typ)})")
        self.ctx_stack = []
        for name in pnames:
            if name in counts:
                lines.append(f"  let mut {mangle(name)} := {mangle(name)}")
        ctx = P.Ctx("func")
        blk, _env, falls = self.block(body, env, ctx, 1)
        lines += blk
        ret = f.ret
        if falls:
            if f.is_init:
                lines.append(f"  return {mangle(f.selfname)}")
            elif f.mutates_self_decl:
                f.bad(f.node, "a method that assigns attributes of its object must end with `return self`")
            elif f.ret != "none":
                f.bad(f.node, "control can reach the end of a function that is annotated to return a value")
            else:
                lines.append("  return ()")
        rty = lean_type(ret)
        if f.mutates_self_decl:
            rty = f"{lean_type(f.selftype)} × Unit"
        rty = f"({rty})" if " " in rty and not rty.startswith("(") else rty
        spec = ""
        if f.spec.get("params"):
            spec = " — translated for " + ", ".join(f"{k}: {v if isinstance(v, str) else v[1]}" for k, v in f.spec["params"].items())
        head = f"/-- `{f.file}:{f.line0}` `{f.qualname}`{spec} -/\n"
        head += f"def {f.lean_name} " + " ".join(sig) + f" : PyM {rty} := do"
        return head + "\n" + "\n".join(lines) + "\n"


PYVAL = {"int": ".int", "bool": ".bool", "ba": ".bits", "bal": ".bits", "bax": ".bits", "bytes": ".bytes"}


class BitsUnit(P.Unit):
    """one generated file of the bit-field subset.
    functions: [(module, qualname[, spec])] callees before callers; classes: [(module, class name)] whose objects are
    constructed; externals: {source text of the callee: dict(qual="module:QualName", params=[types], ret=type)}"""

    def __init__(self, name, functions, classes=(), externals=None, notes=""):
        self.name = name
        self.fuel = {}
        self.consts = {}
        self.done = []
        self.notes = notes
        self.class_names = {}
        self.classes = {}
        for m, c in classes:
            cls = getattr(importlib.import_module(m), c)
            self.class_names[c] = cls
            self.classes[c] = {"attrs": {}, "pycls": cls, "module": m}
        self.externals = {}
        for key, e in (externals or {}).items():
            d = dict(e)
            d["key"] = key
            d["field"] = key.replace(".", "_")
            d["used"] = False
            self.externals[key] = d
        self.fns = [BFn(self, *entry) for entry in functions]

    def pyclass(self, t):
        if t[0] == "obj":
            return self.class_names.get(t[1])
        for f in self.fns:
            if enum_class_ok(f.owner) and f.owner.__name__ == t[1]:
                return f.owner
        return None

    def find(self, cls, name, node, f, required=True):
        """the translated function `cls.name` (looked up through the MRO like Python does)"""
        if cls is None:
            f.bad(node, "method of an unknown class")
        try:
            static = inspect.getattr_static(cls, name)
        except AttributeError:
            f.bad(node, f"`{cls.__name__}.{name}` does not exist")
        live = static.__func__ if isinstance(static, (staticmethod, classmethod)) else static
        for g in self.fns:
            if g.fn is live:
                return g
        if required:
            f.bad(node, f"call of `{cls.__name__}.{name}`, which is not a translated function of this unit")
        return None

    def external(self, f, key, live):
        e = self.externals.get(key)
        if e is None:
            return None
        mod, qual = e["qual"].split(":")
        obj = importlib.import_module(mod)
        for p in qual.split("."):
            obj = getattr(obj, p)
        if live is not obj and getattr(live, "__func__", live) is not getattr(obj, "__func__", obj):
            raise Untranslatable(f"{f.file}: `{key}` is not {e['qual']} here")
        e["used"] = True
        return e

    def resolve_call(self, f, func_node):
        return None

    def render(self, header="") -> str:
        texts = {}
        order = [g for g in self.fns if g.is_init] + [g for g in self.fns if not g.is_init]
        # methods that assign attributes must be known before their callers are translated
        for g in order:
            g.mutates_self = False
            if g.selfname is not None and not g.is_init:
                for nd in ast.walk(g.node):
                    if isinstance(nd, ast.Attribute) and isinstance(nd.ctx, ast.Store) and isinstance(nd.value, ast.Name) \
                            and nd.value.id == g.selfname:
                        g.mutates_self = True
        for g in order:
            texts[g] = BTranslator(self, g).function()
        out = [header.rstrip("\n"),
               "import DmrVerif.Model.PyBits",
               "import DmrVerif.Gen.Elements",
               "",
               "/-!",
               "Translated by tools/py2lean_bits.py (plug-in tools/extract_transl_pdu.py) from the SOURCE of the functions below, on every",
               "run.  Semantics of every `Py.*` / `PyBits.*` operation: `DmrVerif/Model/Py.lean`, `DmrVerif/Model/PyBits.lean`.  `Ext` lists the",
               "library functions that are called but NOT translated: they are explicit parameters of every definition (the equality",
               "theorems instantiate them with the model's functions; trusted: the call boundary).  An object is a structure of",
               "`Option` fields (`none` = the attribute has not been assigned).  Enum members are their int values; `E(v)` goes through",
               "the complete graph `Dmr.Gen.eE` (Gen/Elements.lean).",
               "-/",
               "",
               "set_option linter.unusedVariables false",
               "",
               f"namespace Dmr.Transl.{self.name}",
               "open Dmr Dmr.Py Dmr.PyBits",
               ""]
        out.append("/-- library code that is called but not translated (uninterpreted parameters) -/")
        out.append("structure Ext where")
        used = [e for e in self.externals.values() if e["used"]]
        if not used:
            out.append("  unit : Unit := ()")
        for e in used:
            ps = " → ".join(lean_type(t) if " " not in lean_type(t) else f"({lean_type(t)})" for t in e["params"])
            out.append(f"  /-- `{e['qual']}` -/")
            out.append(f"  {e['field']} : {ps} → PyM {lean_type(e['ret']) if ' ' not in lean_type(e['ret']) else '(' + lean_type(e['ret']) + ')'}")
        out.append("")
        for c, info in self.classes.items():
            out.append(f"/-- objects of `{info['module']}.{c}`: one field per attribute, `none` = not assigned yet -/")
            out.append(f"structure {c} where")
            for a, t in info["attrs"].items():
                lt = lean_type(t)
                out.append(f"  {mangle(a)} : Option {lt if ' ' not in lt else '(' + lt + ')'} := none")
            out.append("  deriving DecidableEq, Repr, Inhabited")
            out.append("")
        for c, info in self.classes.items():
            out.append(f"/-- the attributes of a `{c}` as observable values (line protocol) -/")
            out.append(f"def {c}.fields (o : {c}) : List (String × PyVal) := [")
            rows = []
            for a, t in info["attrs"].items():
                rows.append(f'  ("{a}", PyVal.ofAttr {self.pyval_fn(t)} o.{mangle(a)})')
            out.append(",\n".join(rows) + "]")
            out.append("")
        for key in self.consts:
            nm, typ, txt, where = self.consts[key]
            out.append(f"/-- {where} -/")
            out.append(f"def {nm} : {lean_type(typ)} := {txt}")
            out.append("")
        for g in self.fns:
            out.append(texts[g])
        out.append(f"end Dmr.Transl.{self.name}")
        return "\n".join(out) + "\n"

    def pyval_fn(self, t):
        if t in PYVAL:
            return PYVAL[t]
        if isinstance(t, tuple):
            if t[0] == "enum":
                return f'(.enum "{t[1]}")'
            if t[0] == "obj":
                return f'(fun x => .obj "{t[1]}" x.fields)'
            if t[0] == "opt":
                return f"(PyVal.ofOpt {self.pyval_fn(t[1])})"
        raise Untranslatable(f"attribute of type {t} has no observable form")


def translate_unit(name, functions, classes=(), externals=None, header="") -> str:
    return BitsUnit(name, functions, classes, externals).render(header)


if __name__ == "__main__":
    mod, *quals = sys.argv[1:]
    print(translate_unit("Scratch", [(mod, q) for q in quals]))
